#!/usr/bin/env python3
"""confirm a seeded change in its scratch worktree, then run the given checks against /repo with
the patch applied (and undo it). usage: try_seed.py <worktree> <n> <seed-id> <Cxx> [more checks...]"""
import json, os, shutil, subprocess, sys
wt, n, sid, props = sys.argv[1], sys.argv[2], sys.argv[3], sys.argv[4:]
sd = f'{wt}/SEED/{n}'
env = dict(os.environ, CARGO_NET_OFFLINE='true')
def sh(cmd, cwd):
    p = subprocess.run(cmd, cwd=cwd, shell=True, capture_output=True, text=True, env=env)
    return p.returncode, (p.stdout + p.stderr)
ran = []
# 1. confirm in the scratch worktree
sh('git checkout -- src; rm -rf tests', wt)
os.makedirs(f'{wt}/tests', exist_ok=True)
shutil.copy(f'{sd}/demo.rs', f'{wt}/tests/demo.rs')
rc0, o0 = sh('cargo test --offline --test demo 2>&1 | tail -5', wt)
demo_ok_unchanged = 'test result: ok' in o0
rc, o = sh(f'git apply {sd}/patch.diff', wt)
applied = rc == 0
rc1, o1 = sh('cargo test --offline --lib 2>&1 | grep -E "^test result|FAILED" | head -5', wt)
suite_ok = '224 passed' in o1 and o1.count('FAILED') <= 2
rc2, o2 = sh('cargo test --offline --test demo 2>&1 | tail -8', wt)
demo_fails_changed = 'test result: FAILED' in o2 or 'panicked' in o2
sh('git checkout -- src; rm -rf tests target', wt)
confirmed = demo_ok_unchanged and applied and suite_ok and demo_fails_changed
print(f'[{sid}] confirm: demo passes unchanged={demo_ok_unchanged} patch applies={applied} suite passes={suite_ok} demo fails changed={demo_fails_changed}')
ran += ['cargo test --offline --test demo (unchanged): ' + ('ok' if demo_ok_unchanged else 'FAILED'), 'git apply patch.diff; cargo test --offline --lib: ' + o1.strip().replace('\n', ' | '),
        'cargo test --offline --test demo (changed): ' + ('fails as required' if demo_fails_changed else 'passes?!')]
results = {}
if confirmed:
    rc, o = sh(f'git -C /repo apply {sd}/patch.diff', '/verif')
    if rc != 0:
        print('patch does not apply to /repo:', o[:300])
    else:
        try:
            for p in props:
                rc, o = sh(f'./check {p} --tier quick', '/verif')
                v = [l for l in o.splitlines() if l.startswith('VIOLATION')]
                results[p] = dict(exit=rc, violation_lines=v[:3])
                detail = ''
                if v:
                    try:
                        r = json.load(open(v[0].split('replay=')[1].split(' ')[0]))
                        detail = (r.get('why') or r.get('what') or '')[:160] + ' :: ' + str((r.get('pretty') or r.get('program') or [''])[-1])[:160]
                    except Exception as e:
                        detail = str(e)
                print(f'[{sid}] check {p}: exit={rc} {"CAUGHT" if rc == 1 and v else "MISSED"} {"(no-failing-input-found)" if v and "no-failing-input-found" in v[0] else ""} {detail}')
        finally:
            sh('git -C /repo checkout -- .', '/verif')
    # restore evidence of the unchanged tree later (caller re-runs the checks)
    out = f'/verif/seeded/{sid}'
    os.makedirs(out, exist_ok=True)
    shutil.copy(f'{sd}/patch.diff', out)
    shutil.copy(f'{sd}/demo.rs', out)
    meta = json.load(open(f'{sd}/meta.json')) if os.path.exists(f'{sd}/meta.json') else {}
    meta.update(confirmed_by_main=ran, checks=results)
    json.dump(meta, open(f'{out}/meta.json', 'w'), indent=1, ensure_ascii=False)
