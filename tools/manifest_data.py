CLAIMED = {
 'C14': dict(
   text='Proof: for every path string the Lean model of sys::clean never panics and equals Go path.Clean (six documented rules as a stack fold); corollaries idempotence, absoluteness preserved, never empty, normal form = fixed points. The model is tied to the Rust code by an exhaustive differential run (all strings over {/,.,a,b} up to length 8 quick / 11 thorough, plus random wide-alphabet strings) on every check.',
   note='Trusted: Lean kernel, axioms propext/Classical.choice/Quot.sound, the hand transcription of clean + std::path::Components/PathBuf::push/pop (validated by the correspondence run, not proved), harness and Python driver. UTF-8 paths only.'),
 'C16': dict(
   text='Proof: for all clean absolute paths p != b (any number of components, any well-formed names) relative(p,b) is exactly (|b|-k) x ".." followed by the components of p below the common prefix (k), is a relative path, and cleaning b joined with it yields p; for p == b the result is p and the join still yields p. Tied to the Rust code by the exhaustive pair enumeration (121^2 pairs) plus random deeper pairs on every check; the judge compares the implementation with an independently computed shape and navigation target.',
   note='Trusted: Lean kernel, axioms propext/Classical.choice/Quot.sound, hand transcription of relative + std Components/push (validated by the correspondence run), harness and Python driver.'),
}
NOT_YET = {}
