CLAIMED = {
 'C14': dict(
   text='Proof: for every path string the Lean model of sys::clean never panics and equals Go path.Clean (six documented rules as a stack fold); corollaries idempotence, absoluteness preserved, never empty, normal form = fixed points. The model is tied to the Rust code by an exhaustive differential run (all strings over {/,.,a,b} up to length 8 quick / 11 thorough, plus random wide-alphabet strings) on every check.',
   note='Trusted: Lean kernel, axioms propext/Classical.choice/Quot.sound, the hand transcription of clean + std::path::Components/PathBuf::push/pop (validated by the correspondence run, not proved), harness and Python driver. UTF-8 paths only.'),
}
NOT_YET = {}
