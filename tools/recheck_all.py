#!/usr/bin/env python3
"""re-run, for every stored seeded change, the checks that caught it (regression test of the checks themselves)"""
import json, glob, subprocess, sys
bad = []
for f in sorted(glob.glob('/verif/seeded/*/meta.json')):
    sid = f.split('/')[-2]
    m = json.load(open(f))
    props = [p for p, v in m.get('checks', {}).items() if v.get('exit') == 1]
    if not props:
        continue
    rc = subprocess.run('git -C /repo apply --check ' + f.replace('meta.json', 'patch.diff'), shell=True, capture_output=True)
    if rc.returncode != 0:
        print(f'[{sid}] patch no longer applies to /repo (source changed by a later fix): skipped')
        continue
    out = subprocess.run(['python3', '/verif/tools/recheck_seed.py', sid] + props, capture_output=True, text=True).stdout
    for l in out.splitlines():
        if l.startswith('['):
            print(l)
            if 'MISSED' in l:
                bad.append(l)
print('MISSED:', len(bad))
