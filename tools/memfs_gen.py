"""Seeded generator of Memfs operation histories (shared by C01 C03 C05 C06 C09 C10 C11 C12 C13 C20).

The generator keeps a naive shadow of paths that probably exist (it ignores failures) so that most
arguments name existing entries of a known kind; the rest are fresh names under existing
directories and garbage. Every random choice derives from the rng passed in.
"""
import vlib

NAMES = ['a', 'b', 'c', 'é']
DATA = [b'', b'x', b'hello', 'é漢'.encode(), b'\xff\xfe', b'l1\nl2\n', b'a\r\nb\r', b'\n', b'no newline', b'0123456789' * 30]
MODES = ['0', '644', '755', '600', '444', '222', '700', '111', '777', '644', '755', '600', '444', '500', '700', '750', '640', '7777', '40755']
SYMS = ['f:a+x', 'd:u-w', 'a:go-rwx', 'f:a+r,f:a-wx', 'd:u+x,f:a+x', 'a:a=r', 'f:u=rwx,f:go=', 'a:o+w', 'f:a+', 'd:q+r', ':a+x', 'x', 'f:ug+rx,d:o-rwx', '']
LINES = [[], [''], ['a'], ['a', 'b'], ['', 'x'], ['é', '漢'], ['has\rcr'], ['a', '']]


class Gen:
    def __init__(self, rng, names=NAMES, depth=3, profile='mixed'):
        self.rng, self.names, self.depth, self.profile = rng, names, depth, profile
        self.garbage_rate = 0.12
        self.reset()

    def reset(self):
        self.dirs = {'/'}
        self.files = set()
        self.links = set()
        self.cwd = '/'
        self.hid = 0
        self.open = []

    # ----- path arguments -------------------------------------------------------------
    def existing(self):
        pool = sorted(self.dirs | self.files | self.links)
        return self.rng.choice(pool)

    def fresh(self):
        d = self.rng.choice(sorted(self.dirs))
        n = self.rng.choice(self.names)
        p = (d.rstrip('/') + '/' + n)
        if self.rng.random() < 0.25 and p.count('/') < self.depth:
            p += '/' + self.rng.choice(self.names)
        return p

    def garbage(self):
        r = self.rng
        return r.choice(['', '..', '../..', '.', '~', '~/x', '$HOME', '$NOPE/x', 'a//b/./../b', '/../..', '//', 'x' * 300,
                         'a/../../../..', '😀', 'file:///a', 'ftp://a/b', '${HOME}/a', 'a$', '/a/$', '/./a/'])

    def spell(self, p):
        """another spelling of an absolute path: relative to cwd, or unclean"""
        r = self.rng.random()
        if r < 0.55 or p == '':
            return p
        if r < 0.75 and p.startswith(self.cwd.rstrip('/') + '/') and p != self.cwd:
            return p[len(self.cwd.rstrip('/')) + 1:]
        if r < 0.9:
            return p.replace('/', '//', 1) + self.rng.choice(['', '/', '/.'])
        return p + '/x/..'

    def path(self, want='any'):
        r = self.rng.random()
        if want == 'dir' and self.dirs and r < 0.7:
            p = self.rng.choice(sorted(self.dirs))
        elif want == 'file' and self.files and r < 0.7:
            p = self.rng.choice(sorted(self.files))
        elif want == 'link' and self.links and r < 0.7:
            p = self.rng.choice(sorted(self.links))
        elif r < self.garbage_rate:
            return self.garbage()
        elif r < self.garbage_rate + 0.5:
            p = self.existing()
        else:
            p = self.fresh()
        return self.spell(p)

    # ----- ops -------------------------------------------------------------------------
    def op(self):
        r = self.rng
        hx = vlib.hx
        prof = self.profile
        table = [
            ('mkfile', 8), ('mkdir_p', 8), ('mkdir_m', 3), ('mkfile_m', 3), ('write_all', 7), ('append_all', 5),
            ('write_lines', 2), ('append_lines', 2), ('append_line', 2), ('read_all', 4), ('read_lines', 2), ('read', 2),
            ('remove', 5), ('remove_all', 3), ('symlink', 7), ('readlink', 2), ('readlink_abs', 2), ('set_cwd', 3), ('cwd', 1),
            ('exists', 2), ('is_file', 2), ('is_dir', 2), ('is_symlink', 2), ('is_symlink_dir', 1), ('is_symlink_file', 1),
            ('is_exec', 1), ('is_readonly', 1), ('mode', 2), ('owner', 1), ('uid', 1), ('gid', 1), ('entry', 2),
            ('paths', 2), ('dirs', 1), ('files', 1), ('all_paths', 2), ('all_dirs', 1), ('all_files', 1), ('abs', 1),
            ('chmod', 4), ('chmod_b', 4), ('chown', 2), ('chown_b', 2), ('copy', 6), ('copy_b', 4), ('move_p', 6), ('entries', 3),
            ('h_write', 2), ('h_append', 2), ('h_put', 3), ('h_flush', 2), ('h_drop', 2), ('root', 1),
        ]
        if prof == 'nomove':
            table = [(n, w) for n, w in table if n != 'move_p']
        if prof == 'content':
            table = [(n, w * (4 if n in ('write_all', 'append_all', 'write_lines', 'append_lines', 'append_line', 'read_all', 'read_lines', 'read', 'copy', 'move_p', 'h_write', 'h_append', 'h_put', 'h_flush', 'h_drop', 'mkfile') else 1)) for n, w in table]
        if prof == 'links':
            table = [(n, w * (5 if n in ('symlink', 'readlink', 'readlink_abs', 'is_symlink', 'is_symlink_dir', 'is_symlink_file', 'is_file', 'is_dir', 'remove', 'chmod', 'chown', 'entry') else 1)) for n, w in table]
        if prof == 'tree':
            table = [(n, w * (5 if n in ('copy', 'copy_b', 'move_p', 'mkdir_p', 'mkfile', 'remove_all', 'all_paths', 'symlink') else 1)) for n, w in table]
        if prof == 'perm':
            table = [(n, w * (6 if n in ('chmod', 'chmod_b', 'chown', 'chown_b', 'mode', 'owner', 'is_exec', 'is_readonly', 'mkdir_m', 'mkfile_m') else 1)) for n, w in table]
        names = [n for n, _ in table]
        weights = [w for _, w in table]
        n = r.choices(names, weights)[0]
        abs_of = lambda q: q  # shadow bookkeeping uses the un-respelled guess only roughly
        if n in ('mkfile',):
            p = self.path('fresh')
            self._note_file(p)
            return f'mkfile {hx(p)}'
        if n == 'mkfile_m':
            p = self.path('fresh')
            self._note_file(p)
            return f'mkfile_m {hx(p)} {r.choice(MODES)}'
        if n == 'mkdir_p':
            p = self.path('fresh')
            self._note_dir(p)
            return f'mkdir_p {hx(p)}'
        if n == 'mkdir_m':
            p = self.path('fresh')
            self._note_dir(p)
            return f'mkdir_m {hx(p)} {r.choice(MODES)}'
        if n in ('write_all', 'append_all'):
            p = self.path('file')
            self._note_file(p)
            return f'{n} {hx(p)} {hx(r.choice(DATA))}'
        if n in ('write_lines', 'append_lines'):
            p = self.path('file')
            ls = r.choice(LINES)
            return f'{n} {hx(p)} l:' + ','.join(vlib.hx(x)[1:] for x in ls)
        if n == 'append_line':
            return f'append_line {hx(self.path("file"))} {hx(r.choice(["", "a", "é", "x y"]))}'
        if n in ('read_all', 'read_lines', 'read'):
            return f'{n} {hx(self.path("file"))}'
        if n in ('remove', 'remove_all'):
            p = self.path()
            self._forget(p, n == 'remove_all')
            return f'{n} {hx(p)}'
        if n == 'symlink':
            l = self.path('fresh')
            t = self.path() if r.random() < 0.8 else r.choice(['../a', 'a', '.', '..', 'b/c', '../../x'])
            if l.startswith('/'):
                self.links.add(l)
            return f'symlink {hx(l)} {hx(t)}'
        if n in ('readlink', 'readlink_abs', 'is_symlink', 'is_symlink_dir', 'is_symlink_file'):
            return f'{n} {hx(self.path("link"))}'
        if n == 'set_cwd':
            p = self.path('dir')
            if p in self.dirs:
                self.cwd = p
            return f'set_cwd {hx(p)}'
        if n in ('cwd', 'root'):
            return n
        if n in ('exists', 'is_file', 'is_dir', 'is_exec', 'is_readonly', 'mode', 'owner', 'uid', 'gid', 'entry', 'abs'):
            return f'{n} {hx(self.path())}'
        if n in ('paths', 'dirs', 'files', 'all_paths', 'all_dirs', 'all_files'):
            return f'{n} {hx(self.path("dir"))}'
        if n == 'chmod':
            return f'chmod {hx(self.path())} {r.choice(MODES)}'
        if n == 'chmod_b':
            sym = r.choice(SYMS) if r.random() < 0.5 else ''
            d, f = (r.choice(MODES), r.choice(MODES)) if (sym == '' or r.random() < 0.2) else ('0', '0')
            return f'chmod_b {hx(self.path())} {d} {f} {r.choice("01")} {r.choice("01")} {hx(sym)}'
        if n == 'chown':
            return f'chown {hx(self.path())} {r.choice([0, 5, 1000])} {r.choice([0, 7, 1000])}'
        if n == 'chown_b':
            return f'chown_b {hx(self.path())} {r.choice(["-", "5", "0"])} {r.choice(["-", "7"])} {r.choice("01")} {r.choice("01")}'
        if n == 'copy':
            return f'copy {hx(self.path())} {hx(self.path())}'
        if n == 'copy_b':
            return f'copy_b {hx(self.path())} {hx(self.path())} {r.choice(["-", "700", "444", "0"])} {r.choice("adf")} {r.choice("01")}'
        if n == 'move_p':
            return f'move_p {hx(self.path())} {hx(self.path())}'
        if n == 'entries':
            return (f'entries {hx(self.path("dir"))} {r.choice([0, 0, 1, 2, 3])} {r.choice(["-", "0", "1", "2", "3"])} {r.choice("adf")} '
                    f'{r.choice("01")} {r.choice("usdf")} {r.choice("01")} {r.choice(["-", "0", "1", "2"])}')
        if n in ('h_write', 'h_append'):
            self.hid += 1
            self.open.append(self.hid)
            return f'{n} {self.hid} {hx(self.path("file"))}'
        if n in ('h_put', 'h_flush', 'h_drop'):
            if not self.open:
                return 'cwd'
            i = r.choice(self.open)
            if n == 'h_drop':
                self.open.remove(i)
                return f'h_drop {i}'
            if n == 'h_put':
                return f'h_put {i} {hx(r.choice(DATA))}'
            return f'h_flush {i}'
        return 'cwd'

    def _note_file(self, p):
        if p.startswith('/') and '//' not in p and not p.endswith('/') and '..' not in p and len(p) < 50:
            self.files.add(p)

    def _note_dir(self, p):
        if p.startswith('/') and '//' not in p and not p.endswith('/') and '..' not in p and len(p) < 50:
            parts = p.split('/')[1:]
            for i in range(1, len(parts) + 1):
                self.dirs.add('/' + '/'.join(parts[:i]))

    def _forget(self, p, rec):
        for s in (self.dirs, self.files, self.links):
            for q in list(s):
                if q == p or (rec and q.startswith(p.rstrip('/') + '/')):
                    if q != '/':
                        s.discard(q)

    def history(self, n, env='eHOME=2f68'):
        self.reset()
        out = [f'new {env}']
        for _ in range(n):
            out.append(self.op())
        return out


def histories(rng, count, length, profile='mixed', names=NAMES, envs=('eHOME=2f68',)):
    g = Gen(rng, names=names, profile=profile)
    out = []
    for i in range(count):
        out.append(g.history(rng.randint(max(1, length // 3), length), env=envs[i % len(envs)]))
    return out
