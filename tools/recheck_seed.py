#!/usr/bin/env python3
"""re-run checks against a stored seeded change: recheck_seed.py <seed-id> <Cxx> [...]
applies /verif/seeded/<id>/patch.diff to /repo, runs the quick checks, undoes the patch, records the
result in meta.json (key checks; an earlier miss is kept under history)."""
import json, subprocess, sys
sid, props = sys.argv[1], sys.argv[2:]
d = f'/verif/seeded/{sid}'
meta = json.load(open(f'{d}/meta.json'))
def sh(cmd):
    p = subprocess.run(cmd, cwd='/verif', shell=True, capture_output=True, text=True)
    return p.returncode, p.stdout + p.stderr
assert sh('git -C /repo status --porcelain')[1].strip() == '', '/repo not clean'
rc, o = sh(f'git -C /repo apply {d}/patch.diff')
assert rc == 0, o
try:
    for p in props:
        rc, o = sh(f'./check {p} --tier quick')
        v = [l for l in o.splitlines() if l.startswith('VIOLATION')]
        old = meta.get('checks', {}).get(p)
        if old is not None and old.get('exit') != rc:
            meta.setdefault('history', []).append({p: old})
        meta.setdefault('checks', {})[p] = dict(exit=rc, violation_lines=v[:3])
        print(f'[{sid}] check {p}: exit={rc} {"CAUGHT" if rc == 1 and v else "MISSED"} {"(no-failing-input-found)" if v and "no-failing-input-found" in v[0] else ""}')
finally:
    sh('git -C /repo checkout -- .')
json.dump(meta, open(f'{d}/meta.json', 'w'), indent=1, ensure_ascii=False)
