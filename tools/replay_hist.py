#!/usr/bin/env python3
"""dev: replay a saved history file safely (timeouts), print last lines of both sides"""
import sys
sys.path.insert(0,'/verif/tools'); import vlib
L=open(sys.argv[1]).read().splitlines()
impl,drv=vlib.run_sessions([L],'devreplay',timeout_s=3.0)
a,b=impl[0],drv[0]
n=int(sys.argv[2]) if len(sys.argv)>2 else 1
for i in range(len(L)-n,len(L)):
    print(vlib.pretty_req(L[i])); print('  impl :',a[i][:int(sys.argv[3]) if len(sys.argv)>3 else 1500]); print('  model:',b[i].split('\t')[0][:int(sys.argv[3]) if len(sys.argv)>3 else 1500])
