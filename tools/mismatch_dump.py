#!/usr/bin/env python3
"""dev: run histories, save the first mismatching ones per op to work/mm_<op>.txt"""
import sys, random
sys.path.insert(0,'/verif/tools')
import vlib, memfs_gen
seed=int(sys.argv[1]); n=int(sys.argv[2]); ln=int(sys.argv[3]); prof=sys.argv[4]; want=sys.argv[5]
rng=random.Random(seed)
H=memfs_gen.histories(rng,n,ln,prof)
impl,drv=vlib.run_sessions(H,'devmem')
k=0
for h,a,b in zip(H,impl,drv):
    for i,(l,x,y) in enumerate(zip(h,a,b)):
        m=y.split('\t')[0]
        if x!=m:
            if l.split(' ')[0]==want:
                open(f'/verif/work/mm_{want}_{k}.txt','w').write('\n'.join(h[:i+1])+'\n'); k+=1
                print('saved',k, vlib.pretty_req(l))
            break
