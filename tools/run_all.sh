#!/bin/bash
# run every claimed quick check on the current tree; print one line per property
cd /verif
for p in $(python3 -c "import json;print(' '.join(c['property_id'] for c in json.load(open('MANIFEST.json'))['checks']))"); do
  s=$(date +%s); out=$(./check $p --tier ${1:-quick} 2>/dev/null); rc=$?; e=$(( $(date +%s) - s ))
  echo "$p rc=$rc ${e}s violations=$(echo "$out" | grep -c '^VIOLATION') known=$(echo "$out" | grep -c '^KNOWN-FINDING')"
done
