#!/usr/bin/env python3
import itertools, subprocess, sys, binascii, random
sys.path.insert(0,'/verif/tools')
H='/verif/harness/target/debug/harness'; D='/verif/lean/.lake/build/bin/driver'
def hx(s): return 'x'+binascii.hexlify(s.encode()).decode()
def strings(alpha, n):
    for k in range(n+1):
        for t in itertools.product(alpha, repeat=k):
            yield ''.join(t)
def run(lines, mode='pathfn'):
    inp='\n'.join(lines)+'\n'
    a=subprocess.run([H,mode],input=inp,capture_output=True,text=True).stdout.splitlines()
    b=subprocess.run([D],input=inp,capture_output=True,text=True).stdout.splitlines()
    assert len(a)==len(lines)==len(b),(len(a),len(b),len(lines))
    return a,b
def show(l):
    t=l.split(' '); return t[0],[ (binascii.unhexlify(z[1:]).decode() if z.startswith('x') else z) for z in t[1:]]
lines=[]
toks=['file:','FTP:','http:','https:','/','//','a','f','s:','Http:']
for k in range(0,5):
    for t in itertools.product(toks,repeat=k): lines.append('trim_protocol '+hx(''.join(t)))
for s in strings(':a/',6): lines.append('parse_paths '+hx(s))
envs=['e','eHOME=2f68','eHOME=','eHOME=2f682fc3a9,V1=61,V2=2f78','eHOME=68,V1=,V2=612f62', 'eHOME=2f687e78,V1=2441']
et=['a','/','~','$V1','${V1}','$','{','}','$HOME','${V2}','$V3','é','.','..']
for env in envs:
    for k in range(0,4):
        for t in itertools.product(et,repeat=k):
            lines.append('expand '+hx(''.join(t))+' '+env)
            for cwd in ['/','/a','/a/é']:
                lines.append('abs_memfs '+hx(cwd)+' '+hx(''.join(t))+' '+env)
at=['a','/','~','..','.','é','file://','$HOME']
for k in range(0,6):
    for t in itertools.product(at,repeat=k):
        for cwd in ['/','/a/b']:
            lines.append('abs_memfs '+hx(cwd)+' '+hx(''.join(t))+' eHOME=2f68')
a,b=run(lines)
bad=0
for l,x,y in zip(lines,a,b):
    m=y.split('\t')[0]
    if x!=m:
        bad+=1
        if bad<40: print('DIFF',show(l),'impl=',x,'model=',m)
print(len(lines),'cases',bad,'diffs')
