#!/usr/bin/env python3
"""
vlib — shared machinery of /verif/check.

Pipeline of one check (DESIGN §2.5):
  1. build      cargo build of the harness against /repo's working tree (cfg rivia_verif);
                lake build of Rivia.Props.<id> (proof obligations) and of the driver
  2. audit      no sorry/admit/axiom/native_decide/... in the import closure; #print axioms
  3. correspond implementation (harness) vs Lean model (driver) on the same request lines
  4. findings   replay the witnesses of known_findings.json
  5. judge      implementation vs specification (driver's spec column / property predicate)
  6. decide     exit 0 / VIOLATION lines, evidence file
"""
import binascii, hashlib, json, os, random, re, subprocess, sys, time
from concurrent.futures import ThreadPoolExecutor

VERIF = '/verif'
REPO = '/repo'
LEAN = f'{VERIF}/lean'
HARNESS_DIR = f'{VERIF}/harness'
HARNESS = f'{HARNESS_DIR}/target/debug/harness'
DRIVER = f'{LEAN}/.lake/build/bin/driver'
WORK = f'{VERIF}/work'
REPLAYS = f'{VERIF}/replays'
EVIDENCE = f'{VERIF}/evidence'
KNOWN = f'{VERIF}/known_findings.json'
NCPU = os.cpu_count() or 8
OK_AXIOMS = {'propext', 'Classical.choice', 'Quot.sound'}

ENV = dict(os.environ, CARGO_NET_OFFLINE='true')


def log(*a):
    print(*a, file=sys.stderr, flush=True)


def hx(s):
    if isinstance(s, str):
        s = s.encode('utf8')
    return 'x' + binascii.hexlify(s).decode()


def unhx(a):
    assert a.startswith('x')
    return binascii.unhexlify(a[1:])


def pretty_req(line):
    """human readable form of a request line"""
    out = []
    for t in line.split(' '):
        if t.startswith('x'):
            try:
                out.append(repr(unhx(t).decode('utf8')))
                continue
            except Exception:
                pass
        out.append(t)
    return ' '.join(out)


def pretty_res(r):
    p = r.split(' ')
    if len(p) == 2 and p[0] == 'ok' and p[1].startswith('s:'):
        try:
            return 'ok ' + repr(binascii.unhexlify(p[1][2:]).decode('utf8'))
        except Exception:
            return r
    if len(p) == 2 and p[0] == 'ok' and p[1].startswith('l:'):
        try:
            return 'ok [' + ', '.join(repr(binascii.unhexlify(z).decode('utf8')) for z in p[1][2:].split(',') if z or p[1] == 'l:') + ']'
        except Exception:
            return r
    return r


# ---------------------------------------------------------------------------------------------
# builds
# ---------------------------------------------------------------------------------------------
def sh(cmd, cwd=None, timeout=None, env=None):
    t0 = time.time()
    p = subprocess.run(cmd, cwd=cwd, shell=isinstance(cmd, str), capture_output=True, text=True,
                       timeout=timeout, env=env or ENV)
    return p.returncode, p.stdout, p.stderr, time.time() - t0


def build_harness():
    """(ok, log). Rebuilds the harness (and rivia, a path dependency) from /repo's working tree."""
    lock_src, lock_dst = f'{REPO}/Cargo.lock', f'{HARNESS_DIR}/Cargo.lock'
    try:
        if os.path.exists(lock_src):
            a = open(lock_src).read()
            # the harness lock file = repo lock file + the harness package itself (cargo adds it)
            if not os.path.exists(lock_dst):
                open(lock_dst, 'w').write(a)
    except Exception as e:
        log('lockfile copy failed', e)
    rc, out, err, dt = sh(['cargo', 'build', '--offline'], cwd=HARNESS_DIR)
    return rc == 0, (out + err)[-4000:], dt


def build_lean(targets):
    """lake build of the given targets; (ok, log, seconds)"""
    rc, out, err, dt = sh(['lake', 'build'] + list(targets), cwd=LEAN)
    return rc == 0, (out + err)[-6000:], dt


# ---------------------------------------------------------------------------------------------
# audit
# ---------------------------------------------------------------------------------------------
FORBIDDEN = re.compile(r'\b(sorry|admit|native_decide|bv_decide|implemented_by|unsafe)\b|^\s*axiom\s|maxHeartbeats\s+0\b')


def strip_comments(src):
    # remove block comments (nested) and line comments
    out, i, depth = [], 0, 0
    while i < len(src):
        if src.startswith('/-', i):
            depth += 1
            i += 2
        elif src.startswith('-/', i) and depth > 0:
            depth -= 1
            i += 2
        elif depth > 0:
            if src[i] == '\n':
                out.append('\n')
            i += 1
        elif src.startswith('--', i):
            while i < len(src) and src[i] != '\n':
                i += 1
        else:
            out.append(src[i])
            i += 1
    return ''.join(out)


def module_file(mod):
    return f"{LEAN}/{mod.replace('.', '/')}.lean"


def import_closure(mod, seen=None):
    seen = seen if seen is not None else set()
    if mod in seen:
        return seen
    f = module_file(mod)
    if not os.path.exists(f):
        return seen
    seen.add(mod)
    for m in re.findall(r'^\s*(?:public\s+)?import\s+([\w.]+)', open(f).read(), re.M):
        if m.startswith('Rivia') or m.startswith('Driver'):
            import_closure(m, seen)
    return seen


def theorem_names(mod):
    if not os.path.exists(module_file(mod)):
        return []
    src = strip_comments(open(module_file(mod)).read())
    ns = re.findall(r'^namespace\s+([\w.]+)', src, re.M)
    prefix = (ns[0] + '.') if ns else ''
    return [prefix + n for n in re.findall(r'^\s*(?:private\s+)?theorem\s+([\w.\']+)', src, re.M)]


def audit(prop_mod):
    if ',' in prop_mod:
        return audit_many(prop_mod.split(','))
    """returns dict(ok, obligations, discharged, problems, axioms)"""
    problems = []
    closure = sorted(import_closure(prop_mod))
    mathlib_imports = set()
    for m in closure:
        raw = open(module_file(m)).read()
        src = strip_comments(raw)
        for ln, l in enumerate(src.split('\n'), 1):
            if FORBIDDEN.search(l):
                problems.append(f'{m}:{ln}: forbidden token: {l.strip()[:80]}')
        for x in re.findall(r'^\s*import\s+([\w.]+)', raw, re.M):
            if not (x.startswith('Rivia') or x.startswith('Driver')):
                mathlib_imports.add(x)
    names = theorem_names(prop_mod)
    os.makedirs(f'{WORK}/audit', exist_ok=True)
    af = f'{WORK}/audit/{prop_mod.split(".")[-1]}.lean'
    with open(af, 'w') as f:
        f.write(f'import {prop_mod}\n')
        for n in names:
            f.write(f'#print axioms {n}\n')
    rc, out, err, dt = sh(['lake', 'env', 'lean', af], cwd=LEAN)
    axioms = {}
    txt = out + err
    for m in re.finditer(r"'(\S+)' (does not depend on any axioms|depends on axioms: \[([^\]]*)\])", txt, re.S):
        ax = set() if m.group(3) is None else {a.strip() for a in m.group(3).replace('\n', ' ').split(',') if a.strip()}
        axioms[m.group(1)] = sorted(ax)
    discharged = 0
    for n in names:
        if n not in axioms:
            problems.append(f'{n}: no #print axioms result (does the theorem compile?)')
        elif set(axioms[n]) - OK_AXIOMS:
            problems.append(f'{n}: unaccepted axioms {sorted(set(axioms[n]) - OK_AXIOMS)}')
        else:
            discharged += 1
    if rc != 0:
        problems.append('audit file failed to elaborate: ' + txt[-400:])
    return dict(ok=not problems and len(names) > 0, obligations=len(names), discharged=discharged,
                problems=problems, axioms=axioms, closure=closure, external_imports=sorted(mathlib_imports),
                theorems=names)


def audit_many(mods):
    rs = [audit(m) for m in mods]
    return dict(ok=all(r['ok'] for r in rs), obligations=sum(r['obligations'] for r in rs), discharged=sum(r['discharged'] for r in rs),
                problems=[p for r in rs for p in r['problems']], axioms={k: v for r in rs for k, v in r['axioms'].items()},
                closure=sorted({c for r in rs for c in r['closure']}), external_imports=sorted({c for r in rs for c in r['external_imports']}),
                theorems=[t for r in rs for t in r['theorems']])


def leanchecker(mod):
    """replay every module of the Rivia import closure of the property module(s) with the independent checker
    (`leanchecker M` re-checks the declarations of M against its imports; the closure covers the lemma files)"""
    mods = set()
    for m in mod.split(','):
        mods |= {c for c in import_closure(m) if c.startswith('Rivia')}
    mods = sorted(mods)
    from concurrent.futures import ThreadPoolExecutor
    t0 = time.time()

    def one(m):
        rc, out, err, dt = sh(['lake', 'env', 'leanchecker', m], cwd=LEAN, timeout=1800)
        return m, rc, (out + err)[-400:]
    with ThreadPoolExecutor(max_workers=NCPU) as ex:
        res = list(ex.map(one, mods))
    bad = [(m, o) for m, rc, o in res if rc != 0]
    return not bad, (f'{len(mods)} modules replayed' if not bad else ' '.join(f'{m}: {o}' for m, o in bad))[-2000:], time.time() - t0


# ---------------------------------------------------------------------------------------------
# running both sides
# ---------------------------------------------------------------------------------------------
def _run_pair(args):
    mode, lines, idx, tag = args
    d = f'{WORK}/{tag}'
    os.makedirs(d, exist_ok=True)
    inp = ('\n'.join(lines) + '\n').encode()
    a = subprocess.run([HARNESS, mode], input=inp, capture_output=True, env=ENV)
    b = subprocess.run([DRIVER], input=inp, capture_output=True)
    al = a.stdout.decode('utf8', 'replace').split('\n')
    bl = b.stdout.decode('utf8', 'replace').split('\n')
    if al and al[-1] == '':
        al.pop()
    if bl and bl[-1] == '':
        bl.pop()
    return al, bl, a.returncode, b.returncode, a.stderr.decode('utf8', 'replace')[-500:], b.stderr.decode('utf8', 'replace')[-500:]


def run_both(mode, lines, tag, chunk=20000):
    """runs harness <mode> and the driver on the same request lines, in parallel chunks.
    returns (impl_lines, driver_lines, problems)"""
    chunks = [lines[i:i + chunk] for i in range(0, len(lines), chunk)] or [[]]
    impl, drv, problems = [], [], []
    with ThreadPoolExecutor(max_workers=NCPU) as ex:
        for i, (al, bl, ra, rb, ea, eb) in enumerate(ex.map(_run_pair, [(mode, c, i, tag) for i, c in enumerate(chunks)])):
            n = len(chunks[i])
            if len(al) != n:
                problems.append(f'harness chunk {i}: {len(al)} result lines for {n} requests (rc={ra}) {ea}')
                al = (al + ['harness-died'] * n)[:n]
            if len(bl) != n:
                problems.append(f'driver chunk {i}: {len(bl)} result lines for {n} requests (rc={rb}) {eb}')
                bl = (bl + ['driver-died\t-\t-'] * n)[:n]
            impl += al
            drv += bl
    return impl, drv, problems


def res_equal(impl, want, req=None, cls=None):
    """`want` may be `err *` (= any error kind: the documentation names no kind).
    Traversals that follow links: siblings are ordered by the name of the FOLLOWED path, two siblings
    can then have the same name and their relative order (with everything below them) is arbitrary:
    compared as multisets when such a tie exists."""
    if want == 'err *':
        return impl.startswith('err ')
    if impl == want:
        return True
    if req and req.startswith('entries ') and _unsorted_follow_error(req, impl, want):
        return True      # not judged: order-dependent (see cmp_line)
    if req and req.startswith('entries ') and cls == 'follow_name_tie' and impl.startswith('ok t:') and want.startswith('ok t:') and (impl[5:].split(',')[-1].startswith('E') or want[5:].split(',')[-1].startswith('E')):
        return True
    if req and req.startswith('entries ') and impl.startswith('ok t:') and want.startswith('ok t:'):
        a = req.split(' ')
        if len(a) > 5 and a[5] == '1':
            li, lw = impl[5:].split(','), want[5:].split(',')
            if sorted(li) == sorted(lw):
                if cls == 'follow_name_tie':
                    return True       # the driver found two siblings with the same followed name in the snapshot
                base = [x.rsplit('2f', 1)[-1] for x in lw if not x.startswith('E')]
                return len(set(base)) < len(base)
    return False


# ---------------------------------------------------------------------------------------------
# known findings
# ---------------------------------------------------------------------------------------------
def load_known(prop):
    if not os.path.exists(KNOWN):
        return []
    return [f for f in json.load(open(KNOWN))['findings'] if f['property'] == prop]


class Verdict:
    def __init__(self, prop, tier, seed):
        self.prop, self.tier, self.seed = prop, tier, seed
        self.violations = []      # (replay_path, suffix)
        self.known_lines = []
        self.t0 = time.time()
        self.cov = {}
        self.notes = []
        import glob
        for f in glob.glob(f'{REPLAYS}/{prop}_*.json'):
            os.remove(f)

    def write_replay(self, name, payload):
        os.makedirs(REPLAYS, exist_ok=True)
        p = f'{REPLAYS}/{self.prop}_{name}.json'
        payload = dict(payload, property=self.prop, seed=self.seed, tier=self.tier,
                       replay_cmd=f'./check {self.prop} --replay {p}')
        json.dump(payload, open(p, 'w'), indent=1, ensure_ascii=False)
        return p

    def violation(self, name, payload, no_input=False):
        p = self.write_replay(name, payload)
        self.violations.append((p, ' no-failing-input-found' if no_input else ''))

    def known(self, fid, what):
        line = f'KNOWN-FINDING: property={self.prop} {fid} {what}'
        if line not in self.known_lines:
            self.known_lines.append(line)

    def finish(self, level, coverage, assumptions):
        os.makedirs(EVIDENCE, exist_ok=True)
        ev = dict(property_id=self.prop, tier=self.tier, seed=self.seed, level=level, coverage=coverage,
                  assumptions=assumptions, wall_s=round(time.time() - self.t0, 2), violations=len(self.violations))
        json.dump(ev, open(f'{EVIDENCE}/{self.prop}.json', 'w'), indent=1, ensure_ascii=False)
        for l in self.known_lines:
            print(l)
        for p, suf in self.violations:
            print(f'VIOLATION property={self.prop} replay={p}{suf}')
        sys.stdout.flush()
        return 1 if self.violations else 0


# ---------------------------------------------------------------------------------------------
# the generic pure-function pipeline
# ---------------------------------------------------------------------------------------------
def generic_check(spec, tier, seed, replay=None):
    """
    spec: dict with
      prop            'C14'
      lean_mod        'Rivia.Props.C14'
      mode            harness mode, e.g. 'pathfn'
      gen(tier, rng)  -> (list of request lines, dict describing the generator / exhaustive flag)
      widen(lines, rng) -> more request lines near disagreeing ones (search for a failing input)
      nontrivial(req, impl) -> bool    rule for distinct_nontrivial
      rule            text
      judge(req, impl, drv_fields) -> None | (class_or_None, expected, why)   optional extra predicate
      assumptions     list of str
      trusted_base    list of str
    """
    prop = spec['prop']
    V = Verdict(prop, tier, seed)
    rng = random.Random(seed)
    known = {f['id']: f for f in load_known(prop)}
    open_known = {k: f for k, f in known.items() if f.get('status') == 'open'}

    # 1. builds ---------------------------------------------------------------------------------
    okh, logh, dth = build_harness()
    if not okh:
        V.violation('harness_build', dict(kind='build', what='the harness does not build against /repo', log=logh), no_input=True)
        return V.finish('proof', dict(obligations=1, discharged=0, checker_cmd='cargo build', trusted_base=[],
                                      explanation='harness build failed'), spec['assumptions'])
    if 'pregen' in spec:
        spec['pregen']()
    okd, logd, dtd = build_lean(['driver'])
    okl, logl, dtl = build_lean(spec['lean_mod'].split(','))
    proof_broken = []
    if not okd:
        V.violation('driver_build', dict(kind='build', what='the Lean driver does not build', log=logd), no_input=True)
        return V.finish('proof', dict(obligations=1, discharged=0, checker_cmd='lake build driver', trusted_base=[],
                                      explanation='driver build failed'), spec['assumptions'])
    # 2. audit ----------------------------------------------------------------------------------
    if okl:
        A = audit(spec['lean_mod'])
        if not A['ok']:
            proof_broken += A['problems']
    else:
        A = dict(ok=False, obligations=max(1, sum(len(theorem_names(m)) for m in spec['lean_mod'].split(','))), discharged=0, problems=['lake build failed'],
                 axioms={}, closure=[], external_imports=[], theorems=[])
        proof_broken.append('lake build ' + spec['lean_mod'] + ' failed: ' + logl[-1500:])
    chk = None
    if tier == 'thorough' and okl and spec.get('leanchecker', True):
        okc, logc, dtc = leanchecker(spec['lean_mod'])
        chk = dict(ok=okc, seconds=round(dtc, 1), scope=logc[:80])
        if not okc:
            proof_broken.append('leanchecker rejected ' + spec['lean_mod'] + ': ' + logc[-500:])

    # 3. correspondence + 5. judge ----------------------------------------------------------------
    if replay:
        rp = json.load(open(replay))
        lines, geninfo = rp.get('requests', []), dict(kind='replay', file=replay)
    else:
        lines, geninfo = spec['gen'](tier, rng)
    corpus = spec.get('corpus', [])
    lines = list(corpus) + lines
    st = analyse(spec, V, lines, open_known, tag=prop)

    # search for a failing input when the correspondence or a proof obligation is broken
    searched = 0
    if (st['mismatch'] or proof_broken) and not st['new_fail']:
        wl = spec['widen'](st['mismatch'][:50], rng) if 'widen' in spec else []
        if not wl and tier == 'quick':
            wl, _ = spec['gen']('thorough', rng)
        searched = len(wl)
        if wl:
            st2 = analyse(spec, V, wl, open_known, tag=prop + '_search')
            st['new_fail'] += st2['new_fail']
            st['evaluations'] += st2['evaluations']

    # 4. known findings: replay the recorded witnesses ------------------------------------------------
    reproduced = []
    for fid, f in open_known.items():
        w = f.get('witness_requests', [])
        if not w:
            continue
        impl, drv, probs = run_both(f.get('mode', spec['mode']), w, prop + '_known')
        want_bad = f.get('impl_results')
        if want_bad is not None and impl == want_bad:
            V.known(fid, f['what_fails'])
            reproduced.append(fid)
        else:
            specs = [d.split('\t')[1] if len(d.split('\t')) > 1 else '-' for d in drv]
            if all(s == '-' or res_equal(i, s) for i, s in zip(impl, specs)):
                V.notes.append(f'known finding {fid} no longer reproduces (implementation now meets the spec)')
            else:
                st['new_fail'].append(dict(request=w, impl=impl, spec=specs, why=f'behaviour inside known class {fid} differs from the recorded one', cls=fid))
    # failures seen in generated inputs inside a known class
    for fid in st['known_hits']:
        if fid in open_known:
            V.known(fid, open_known[fid]['what_fails'])

    # 6. decide ---------------------------------------------------------------------------------------
    for i, nf in enumerate(st['new_fail'][:5]):
        V.violation(f'fail{i}', dict(kind='property-violated', requests=nf['request'] if isinstance(nf['request'], list) else [nf['request']],
                                     pretty=[pretty_req(r) for r in (nf['request'] if isinstance(nf['request'], list) else [nf['request']])],
                                     observed=nf['impl'], expected_by_spec=nf['spec'], why=nf['why'], cls=nf.get('cls')))
    if not st['new_fail']:
        if st['mismatch']:
            mm = st['mismatch'][:20]
            V.violation('correspondence', dict(kind='correspondence-broken', what='implementation and Lean model disagree; no input violating the property was found',
                                               correspondence=f'{spec["mode"]} harness vs Rivia model ({spec["lean_mod"]})',
                                               requests=[m['request'] for m in mm], pretty=[pretty_req(m['request']) for m in mm],
                                               impl=[m['impl'] for m in mm], model=[m['model'] for m in mm], searched=searched), no_input=True)
        elif proof_broken:
            V.violation('proof', dict(kind='proof-broken', theorems=proof_broken, searched=searched), no_input=True)
        elif st['problems']:
            V.violation('machinery', dict(kind='machinery', problems=st['problems']), no_input=True)

    cov = dict(obligations=A['obligations'], discharged=A['discharged'],
               checker_cmd=f'cd /verif/lean && lake build {spec["lean_mod"].replace(",", " ")} && lake env lean ../work/audit/{spec["lean_mod"].split(",")[0].split(".")[-1]}.lean  # #print axioms' + (' && lake env leanchecker ' + spec['lean_mod'] if tier == 'thorough' else ''),
               trusted_base=spec['trusted_base'] + ['Lean 4.33.0 kernel', 'axioms: ' + ', '.join(sorted({a for v in A['axioms'].values() for a in v}) or ['none'])] + ([f'imports outside the project: {A["external_imports"]}'] if A['external_imports'] else []),
               theorems=A['theorems'], axioms=A['axioms'], proof_problems=proof_broken, leanchecker=chk,
               evaluations=st['evaluations'], distinct_nontrivial=st['distinct_nontrivial'], rule=spec['rule'],
               samples=st['samples'], exhaustive=bool(geninfo.get('exhaustive')), generator=geninfo,
               model_disagreements=len(st['mismatch']), spec_failures_new=len(st['new_fail']),
               spec_failures_in_known_classes=st['known_fail_count'], known_findings_reproduced=sorted(set(reproduced) | set(st['known_hits']) & set(open_known)),
               outcome_histogram=st['hist'], searched_after_break=searched, notes=V.notes,
               build_seconds=dict(harness=round(dth, 1), driver=round(dtd, 1), proofs=round(dtl, 1)))
    return V.finish('proof', cov, spec['assumptions'])


def analyse(spec, V, lines, open_known, tag):
    impl, drv, problems = run_both(spec['mode'], lines, tag)
    mismatch, new_fail, known_hits, hist = [], [], set(), {}
    seen_nt = set()
    samples = []
    known_fail_count = 0
    nontrivial = spec.get('nontrivial', lambda req, impl: True)
    for req, i, d in zip(lines, impl, drv):
        f = d.split('\t')
        model = f[0]
        sp = f[1] if len(f) > 1 else '-'
        cls = f[2] if len(f) > 2 else '-'
        key = i.split(' ')[0] + (' ' + i.split(' ')[1] if i.startswith('err') else '')
        hist[key] = hist.get(key, 0) + 1
        if nontrivial(req, i):
            seen_nt.add(req)
        if i != model:
            mismatch.append(dict(request=req, impl=i, model=model))
        failed = None
        if sp != '-' and not res_equal(i, sp):
            failed = (sp, 'implementation result differs from the specification')
        if failed is None and 'judge' in spec:
            j = spec['judge'](req, i, f)
            if j:
                failed = j
        if failed:
            if cls != '-' and cls in open_known and i == model:
                # inside a known class the recorded (wrong) behaviour is the model's behaviour
                known_hits.add(cls)
                known_fail_count += 1
            elif cls != '-' and cls in open_known:
                new_fail.append(dict(request=req, impl=i, spec=failed[0], cls=cls,
                                     why=f'inside known class {cls} but the behaviour differs from the recorded one ({model}) and from the specification'))
            else:
                new_fail.append(dict(request=req, impl=i, spec=failed[0], why=failed[1] + (f' (class {cls} is not an open known finding)' if cls != '-' else ''), cls=cls))
    step = max(1, len(lines) // 5)
    for k in range(0, len(lines), step):
        samples.append(dict(request=pretty_req(lines[k]), impl=pretty_res(impl[k]), model_spec_class=drv[k]))
    return dict(mismatch=mismatch, new_fail=new_fail, known_hits=known_hits, hist=hist, evaluations=len(lines),
                distinct_nontrivial=len(seen_nt), samples=samples[:8], problems=problems, known_fail_count=known_fail_count)


def all_strings(alpha, n):
    """all strings over alpha of length <= n, in length-lexicographic order"""
    import itertools
    for k in range(n + 1):
        for t in itertools.product(alpha, repeat=k):
            yield ''.join(t)


def rand_string(rng, alpha, lo, hi):
    return ''.join(rng.choice(alpha) for _ in range(rng.randint(lo, hi)))


# ---------------------------------------------------------------------------------------------
# stateful sessions (Memfs histories): a history = list of lines starting with `new ...`
# ---------------------------------------------------------------------------------------------
def _limit():
    import resource
    resource.setrlimit(resource.RLIMIT_AS, (3 << 30, 3 << 30))


def _harness_sessions(mode, hists, timeout_s):
    """run histories through one harness process; on a hang (timeout / crash) mark the stuck line
    `hang` (or `crash`), the rest of that history `skipped`, and continue with a new process."""
    results = []
    i = 0
    while i < len(hists):
        batch = hists[i:]
        lines = [l for h in batch for l in h]
        inp = ('\n'.join(lines) + '\n').encode()
        p = subprocess.Popen([HARNESS, mode], stdin=subprocess.PIPE, stdout=subprocess.PIPE, stderr=subprocess.DEVNULL, env=ENV, preexec_fn=_limit)
        try:
            out, _ = p.communicate(inp, timeout=timeout_s + 0.002 * len(lines))
            died = p.returncode != 0
            hung = False
        except subprocess.TimeoutExpired:
            p.kill()
            out, _ = p.communicate()
            died, hung = True, True
        got = out.decode('utf8', 'replace').split('\n')
        if got and got[-1] == '':
            got.pop()
        if not died and len(got) == len(lines):
            k = 0
            for h in batch:
                results.append(got[k:k + len(h)])
                k += len(h)
            break
        # find the history in which the output stopped
        k = 0
        advanced = False
        for j, h in enumerate(batch):
            if k + len(h) <= len(got):
                results.append(got[k:k + len(h)])
                k += len(h)
                continue
            res = got[k:][:len(h)]
            if len(res) < len(h):
                res = res + ['hang' if hung else 'crash'] + ['skipped'] * (len(h) - len(res) - 1)
            results.append(res)
            i = i + j + 1
            advanced = True
            break
        if not advanced:
            break
    return results


def run_sessions(hists, tag, mode='memfs', timeout_s=6.0, per_chunk=40):
    """returns (impl, drv): lists (per history) of result lines"""
    chunks = [hists[i:i + per_chunk] for i in range(0, len(hists), per_chunk)] or [[]]

    def one(c):
        impl = _harness_sessions(mode, c, timeout_s)
        lines = [l for h in c for l in h]
        b = subprocess.run([DRIVER], input=('\n'.join(lines) + '\n').encode(), capture_output=True)
        got = b.stdout.decode('utf8', 'replace').split('\n')
        if got and got[-1] == '':
            got.pop()
        drv, k = [], 0
        for h in c:
            r = got[k:k + len(h)]
            r += ['driver-died'] * (len(h) - len(r))
            drv.append(r)
            k += len(h)
        return impl, drv

    impl, drv = [], []
    with ThreadPoolExecutor(max_workers=NCPU) as ex:
        for a, b in ex.map(one, chunks):
            impl += a
            drv += b
    return impl, drv


# ---------------------------------------------------------------------------------------------
# Memfs sessions: correspondence + judge
# ---------------------------------------------------------------------------------------------
def abs_of_dump(raw):
    """abstract view (names, kinds, perms, owners, link targets, contents, cwd) of a raw
    `verif::memfs_dump`; produces the same text as Lean's `absDump`"""
    if ' ## ' in raw:
        raw = raw.split(' ## ', 1)[1]
    recs = raw.split('|')
    cwd, ents, data = '', [], {}
    for r in recs:
        if r.startswith('cwd '):
            cwd = r[4:]
        elif r.startswith('F '):
            p = r.split(' ')
            data[p[1]] = p[2][len('data='):]
    for r in recs:
        if r.startswith('E '):
            p = r.split(' ')
            key = p[1]
            f = dict(x.split('=', 1) for x in p[2:])
            link, d = f['l'] == '1', f['d'] == '1'
            kind = ('ld' if d else 'lf') if link else ('d' if d else 'f')
            perm = int(f['mode'], 8) - (0o120000 if link else (0o40000 if d else 0o100000))
            tgt = f['alt'] if link and f['alt'] != '' else ('-' if not link else '-')
            dat = '' if link else data.get(key, '')
            comps = [bytes.fromhex(x) for x in key[2:].split('2f')] if key != '2f' else []
            ents.append((comps, f'{key}:{kind}:{perm:o}:{f["uid"]}:{f["gid"]}:{tgt}:{dat}'))
    ents.sort(key=lambda x: x[0])
    return '|'.join(['cwd=' + cwd] + [e[1] for e in ents])


# finding classes (driver column 2 / judges) and the properties under which they are reported;
# under any other property a hit of such a class is ignored (neither violation nor known finding)
CLASS_OWNERS = {
    'chmod_zero': ('C01', 'C11'), 'listing_includes_links': ('C01', 'C08'), 'empty_lines_noop': ('C06',),
    'sym_kind_specific_clauses': ('C11',), 'sym_malformed': ('C11',), 'moved_link_rel_stale': ('C10',), 'copied_link_rel_stale': ('C10',), 'copy_follow_link_outside_source': ('C09',), 'link_to_own_dir': ('C10',),
    'contents_first_ignores_filter': ('C08',), 'contents_first_min_depth_order': ('C08',),
    'readlink_msg_names_target': ('C20',), 'write_all_existing_skipped': ('C20',), 'readlink_abs_suffix': ('C20',), 'no_dir_no_file_exists': ('C20',), 'is_symlink_wrong_name': ('C20',), 'symlink_existing_skipped': ('C20',), 'macro_double_resolution': ('C20',), 'copyfile_non_utf8': ('C20',),
}

def inv_of_dump(raw):
    """the C03 tree invariant evaluated directly on a raw `verif::memfs_dump` of the implementation
    (mirror of Lean `Spec.invViolation`; used when the implementation no longer follows the model)"""
    if ' ## ' in raw:
        raw = raw.split(' ## ', 1)[1]
    ents, data, root = {}, {}, None
    for r in raw.split('|'):
        if r.startswith('root '):
            root = r[5:]
        elif r.startswith('E '):
            p = r.split(' ')
            f = dict(x.split('=', 1) for x in p[2:])
            if p[1] in ents:
                return 'duplicate-key'
            ents[p[1]] = f
        elif r.startswith('F '):
            p = r.split(' ')
            if p[1] in data:
                return 'duplicate-data-key'
            data[p[1]] = p[2]
    if '2f' not in ents or ents['2f']['d'] != '1' or ents['2f']['l'] == '1':
        return 'root-missing-or-not-dir'
    if root != '2f':
        return 'root-not-absolute'

    def parent(k):
        i = k.rfind('2f', 0, len(k))
        # keys are hex of utf8: find the last separator at an even offset
        j = len(k) - 2
        while j > 0 and not (k[j:j + 2] == '2f' and j % 2 == 0):
            j -= 2
        return ('2f' if j == 0 else k[:j]), k[j + 2:]
    for k, f in ents.items():
        if k == '2f':
            continue
        pk, name = parent(k)
        pe = ents.get(pk)
        if pe is None or pe['d'] != '1' or pe['l'] == '1' or pe['files'] == '-' or name not in pe['files'][1:-1].split(','):
            return 'orphan-or-unlisted:' + k
    for k, f in ents.items():
        if f['files'] != '-':
            names = [x for x in f['files'][1:-1].split(',') if x]
            if len(set(names)) != len(names):
                return 'duplicate-child-name:' + k
            for n in names:
                ck = ('2f' + n) if k == '2f' else k + '2f' + n
                if ck not in ents:
                    return 'listed-name-missing-under:' + k
        if (f['f'] == '1' and f['l'] == '0') != (k in data):
            return 'data-mismatch:' + k
        if f['path'] != k:
            return 'path-field:' + k
        if (f['files'] != '-') != (f['d'] == '1'):
            return 'child-set-vs-dir-flag:' + k
    for k in data:
        if k not in ents:
            return 'dangling-data:' + k
    return None


def _copy_into_itself(req, impl):
    """lexical test (cwd from the dump): the destination of a copy lies at or below its source"""
    import posixpath
    try:
        a = req.split(' ')
        src, dst = unhx(a[1]).decode('utf8', 'replace'), unhx(a[2]).decode('utf8', 'replace')
        cwd = bytes.fromhex(impl.split(' ## ', 1)[1].split('|')[0].split(' ')[1]).decode('utf8', 'replace')
        def ab(p):
            for pr in ('file://', 'ftp://', 'http://', 'https://'):
                if p.startswith(pr):
                    p = p[len(pr):]
            return posixpath.normpath(posixpath.join(cwd, p)).replace('//', '/')
        s_, d_ = ab(src), ab(dst)
        # either direction: into its own subtree, or into a directory above it (the copy lands on the source itself)
        return d_ == s_ or s_ == '/' or d_ == '/' or d_.startswith(s_ + '/') or s_.startswith(d_ + '/')
    except Exception:
        return False


def _copy_src_entries(req, impl):
    """number of entries strictly below the (lexically resolved) source of a copy in the dumped state"""
    import posixpath
    try:
        a = req.split(' ')
        src = unhx(a[1]).decode('utf8', 'replace')
        recs = impl.split(' ## ', 1)[1].split('|')
        cwd = bytes.fromhex(recs[0].split(' ')[1]).decode('utf8', 'replace')
        for pr in ('file://', 'ftp://', 'http://', 'https://'):
            if src.startswith(pr):
                src = src[len(pr):]
        k = posixpath.normpath(posixpath.join(cwd, src)).replace('//', '/')
        kh = k.encode().hex()
        pre = kh if kh == '2f' else kh + '2f'
        return sum(1 for r in recs if r.startswith('E ') and r.split(' ')[1].startswith(pre) and r.split(' ')[1] != kh)
    except Exception:
        return 0


def _unsorted_follow_error(req, io, mo):
    a = req.split(' ')
    if len(a) < 7 or a[5] != '1' or a[6] != 'u':
        return False
    ends_err = lambda r: r.startswith('ok t:') and (r[5:].split(',')[-1].startswith('E'))
    return ends_err(io) or ends_err(mo)


def _copy_src_links(req, impl):
    """number of link entries at or below the (lexically resolved) source of a copy in the dumped state"""
    import posixpath
    try:
        a = req.split(' ')
        src = unhx(a[1]).decode('utf8', 'replace')
        recs = impl.split(' ## ', 1)[1].split('|')
        cwd = bytes.fromhex(recs[0].split(' ')[1]).decode('utf8', 'replace')
        for pr in ('file://', 'ftp://', 'http://', 'https://'):
            if src.startswith(pr):
                src = src[len(pr):]
        k = posixpath.normpath(posixpath.join(cwd, src)).replace('//', '/')
        kh = k.encode().hex()
        pre = kh if kh == '2f' else kh + '2f'
        return sum(1 for r in recs if r.startswith('E ') and ' l=1 ' in r and (r.split(' ')[1] == kh or r.split(' ')[1].startswith(pre)))
    except Exception:
        return 0


def _only_modes_differ(a, b):
    """two state dumps differ only in the mode fields of entries"""
    import re
    ea, eb = a.split(' ## ', 1)[-1].split('|'), b.split(' ## ', 1)[-1].split('|')
    if len(ea) != len(eb):
        return False
    strip = lambda x: re.sub(r' mode=\d+ ', ' ', x)
    return all(x == y or strip(x) == strip(y) for x, y in zip(ea, eb))


def _only_link_kinds_differ(a, b):
    """two state dumps differ only in the d/f/files fields of link entries"""
    import re
    ea, eb = a.split(' ## ', 1)[-1].split('|'), b.split(' ## ', 1)[-1].split('|')
    if len(ea) != len(eb):
        return False
    strip = lambda x: re.sub(r' d=[01] f=[01] l=1 ', ' l=1 ', re.sub(r' files=\S+$', '', x)) if ' l=1 ' in x else x
    return all(x == y or strip(x) == strip(y) for x, y in zip(ea, eb))


UNORDERED_OPS = ('entries', 'chown_b', 'chown', 'copy_b', 'copy', 'chmod_b', 'chmod', 'mkfile_m')


def cmp_line(req, impl, model, cls=None):
    """'agree' | 'dead' (agree, but the rest of the history is meaningless) | 'mismatch'"""
    if req.startswith('assert ') and '|nopath' in impl:
        impl = impl.replace('|nopath', '', 1)      # judged separately (message must name the path)
    io, mo = impl.split(' ## ')[0], model.split(' ## ')[0]
    if io in ('hang', 'crash') and mo == 'hang':
        return 'dead'
    if io == 'panic' and mo == 'panic':
        return 'dead'
    if io == 'skipped' or mo == 'skipped':
        return 'dead'
    if impl == model:
        return 'agree'
    op = req.split(' ')[0]
    # HashSet iteration order is unspecified: a traversal that fails half-way has applied an
    # order-dependent subset of its effects; equal-name ties of a sorted traversal that follows
    # links are ordered arbitrarily
    if op in UNORDERED_OPS and io == mo and io.startswith('err'):
        return 'dead'     # same error, but which entries were processed before it depends on the set order
    if op in ('copy', 'copy_b') and io.startswith('err') and mo.startswith('err') and _copy_src_entries(req, impl) >= 2:
        return 'dead'     # a copy of a tree with several entries that fails: WHICH entry fails first (and with which kind) depends on the set order
    if op in UNORDERED_OPS and 'LinkLooping' in io and 'LinkLooping' in mo:
        return 'dead'
    if op == 'entries' and cls == 'follow_name_tie' and io.startswith('ok t:') and mo.startswith('ok t:') and (io[5:].split(',')[-1].startswith('E') or mo[5:].split(',')[-1].startswith('E')):
        return 'dead'     # a name tie among followed siblings decides what is yielded before the error
    if op == 'entries' and _unsorted_follow_error(req, io, mo):
        return 'dead'     # unsorted traversal that follows links and ends in an error: what was yielded before it, and which error comes first, depends on the set order
    a = req.split(' ')
    follow = (op == 'copy_b' and a[5] == '1') or (op in ('chown_b', 'chmod_b') and a[4] == '1') or (op == 'entries' and a[5] == '1')
    if follow and io.startswith('err') and mo.startswith('err'):
        return 'dead'
    if op in ('copy', 'copy_b') and io == mo and io.startswith('ok') and _only_link_kinds_differ(impl, model):
        return 'dead'    # a copied link gets its kind from whether its target exists at that moment: order-dependent when the target is created by the same copy
    if op == 'copy_b' and req.split(' ')[5:6] == ['1'] and io == mo and io.startswith('ok') and _copy_src_links(req, impl) > 0 and _only_modes_differ(impl, model):
        return 'dead'    # with follow two source entries (a link and its target, two links to one target) can land on the same destination key: the surviving mode depends on the iteration order
    if op in ('copy', 'copy_b') and cls == 'copy_overlap':
        return 'dead'    # source and destination overlap (decided by the driver on the resolved keys): order-dependent, also in which error comes first
    if op in ('copy', 'copy_b') and io == mo and _copy_into_itself(req, impl):
        return 'dead'    # copying a directory into its own subtree reads entries the same call creates: the result depends on the iteration order
    if op == 'move_p' and 'hang' in (io, mo) and all(x == 'hang' or x == 'crash' or x.startswith('err') for x in (io, mo)):
        return 'dead'    # moving a directory into its own subtree: hang or error depending on child order
    if op == 'entries' and io.startswith('ok t:') and mo.startswith('ok t:'):
        a = req.split(' ')
        if a[5] == '1' and sorted(io[5:].split(',')) == sorted(mo[5:].split(',')) and impl.split(' ## ')[1:] == model.split(' ## ')[1:]:
            return 'agree'
    return 'mismatch'


def memfs_check(spec, tier, seed, replay=None):
    """
    spec: prop, lean_mod, gen(tier, rng) -> list of histories, judge(req, impl, fields, prev_impl) -> None | (expected, why),
          rule, assumptions, trusted_base, nontrivial(req, impl) -> bool, optional mode ('memfs')
    """
    prop = spec['prop']
    V = Verdict(prop, tier, seed)
    rng = random.Random(seed)
    known = {f['id']: f for f in load_known(prop)}
    open_known = {k: f for k, f in known.items() if f.get('status') == 'open'}
    okh, logh, dth = build_harness()
    if not okh:
        V.violation('harness_build', dict(kind='build', what='the harness does not build against /repo', log=logh), no_input=True)
        return V.finish('proof', dict(obligations=1, discharged=0, checker_cmd='cargo build', trusted_base=[], explanation='harness build failed'), spec['assumptions'])
    if 'pregen' in spec:
        spec['pregen']()
    okd, logd, dtd = build_lean(['driver'])
    okl, logl, dtl = build_lean(spec['lean_mod'].split(','))
    if not okd:
        V.violation('driver_build', dict(kind='build', what='the Lean driver does not build', log=logd), no_input=True)
        return V.finish('proof', dict(obligations=1, discharged=0, checker_cmd='lake build driver', trusted_base=[], explanation='driver build failed'), spec['assumptions'])
    proof_broken = []
    if okl:
        A = audit(spec['lean_mod'])
        if not A['ok']:
            proof_broken += A['problems']
    else:
        A = dict(ok=False, obligations=max(1, sum(len(theorem_names(m)) for m in spec['lean_mod'].split(','))), discharged=0, problems=['lake build failed'], axioms={}, closure=[], external_imports=[], theorems=[])
        proof_broken.append('lake build ' + spec['lean_mod'] + ' failed: ' + logl[-1500:])
    chk = None
    if tier == 'thorough' and okl:
        okc, logc, dtc = leanchecker(spec['lean_mod'])
        chk = dict(ok=okc, seconds=round(dtc, 1), scope=logc[:80])
        if not okc:
            proof_broken.append('leanchecker rejected ' + spec['lean_mod'] + ': ' + logc[-500:])

    if replay:
        rp = json.load(open(replay))
        hists, geninfo = [rp['requests']] if rp.get('requests') and rp['requests'][0].startswith('new') else [['new eHOME=2f68'] + rp.get('requests', [])], dict(kind='replay', file=replay)
    else:
        hists, geninfo = spec['gen'](tier, rng)
    if 'prepare' in spec:
        spec['prepare'](hists)
    st = analyse_sessions(spec, hists, open_known, prop)
    searched = 0
    if (st['mismatch'] or proof_broken) and not st['new_fail'] and tier == 'quick' and not replay:
        wl, _ = spec['gen']('thorough', rng)
        wl = wl[:4000]
        if 'prepare' in spec:
            spec['prepare'](wl)
        searched = sum(len(h) for h in wl)
        st2 = analyse_sessions(spec, wl, open_known, prop + '_search')
        st['new_fail'] += st2['new_fail']
        st['evaluations'] += st2['evaluations']

    # known findings: replay the recorded witness histories
    reproduced = []
    for fid, f in open_known.items():
        w = f.get('witness_history')
        if not w:
            continue
        impl, drv = run_sessions([w], prop + '_known', mode=f.get('mode', spec.get('mode', 'memfs')))
        last = impl[0][-1].split(' ## ')[0] if impl and impl[0] else ''
        want = f.get('impl_last')
        ok_repro = (want is None) or (last == want)
        if ok_repro and 'impl_state_contains' in f:
            ok_repro = f['impl_state_contains'] in impl[0][-1]
        if ok_repro:
            V.known(fid, f['what_fails'])
            reproduced.append(fid)
        else:
            # does the witness now satisfy the property (judge passes on every line)?
            j = analyse_sessions(spec, [w], {}, prop + '_known2')
            if not j['new_fail'] and not j['mismatch']:
                V.notes.append(f'known finding {fid} no longer reproduces (implementation now meets the spec on its witness)')
            else:
                st['new_fail'].append(dict(history=w, at=len(w) - 1, impl=last, spec=want, why=f'behaviour on the witness of known finding {fid} differs from the recorded one', cls=fid))
    for fid in st['known_hits']:
        if fid in open_known:
            V.known(fid, open_known[fid]['what_fails'])

    for i, nf in enumerate(st['new_fail'][:3]):
        h = nf['history']
        V.violation(f'fail{i}', dict(kind='property-violated', requests=h[:nf['at'] + 1], pretty=[pretty_req(r) for r in h[:nf['at'] + 1]],
                                     observed=nf['impl'][:4000], expected_by_spec=(nf['spec'] or '')[:4000], why=nf['why'], cls=nf.get('cls')))
    if not st['new_fail']:
        if st['mismatch']:
            mm = st['mismatch'][0]
            V.violation('correspondence', dict(kind='correspondence-broken', what='implementation and Lean model disagree; no history violating the property was found',
                                               correspondence=f'memfs harness vs Rivia.Model.MemfsOps.step ({spec["lean_mod"]})', requests=mm['history'][:mm['at'] + 1],
                                               pretty=[pretty_req(r) for r in mm['history'][:mm['at'] + 1]], impl=mm['impl'][:4000], model=mm['model'][:4000],
                                               mismatching_histories=len(st['mismatch']), searched=searched), no_input=True)
        elif proof_broken:
            V.violation('proof', dict(kind='proof-broken', theorems=proof_broken, searched=searched), no_input=True)

    cov = dict(obligations=A['obligations'], discharged=A['discharged'],
               checker_cmd=f'cd /verif/lean && lake build {spec["lean_mod"].replace(",", " ")} && lake env lean ../work/audit/{spec["lean_mod"].split(",")[0].split(".")[-1]}.lean  # #print axioms' + (' && lake env leanchecker ' + spec['lean_mod'] if tier == 'thorough' else ''),
               trusted_base=spec['trusted_base'] + ['Lean 4.33.0 kernel', 'axioms: ' + ', '.join(sorted({a for v in A['axioms'].values() for a in v}) or ['none'])],
               theorems=A['theorems'], axioms=A['axioms'], proof_problems=proof_broken, leanchecker=chk,
               evaluations=st['evaluations'], distinct_nontrivial=st['distinct_nontrivial'], rule=spec['rule'], samples=st['samples'],
               exhaustive=bool(geninfo.get('exhaustive')), generator=geninfo, histories=len(hists),
               model_disagreements=len(st['mismatch']), spec_failures_new=len(st['new_fail']), spec_failures_in_known_classes=st['known_fail_count'],
               known_findings_reproduced=sorted(set(reproduced) | (st['known_hits'] & set(open_known))),
               op_histogram=st['ops'], outcome_histogram=st['hist'], judged_steps=st['judged'], tolerated_order_dependent=st['dead_order'],
               searched_after_break=searched, notes=V.notes, build_seconds=dict(harness=round(dth, 1), driver=round(dtd, 1), proofs=round(dtl, 1)))
    cov.update(spec.get('extra_cov', {}))
    for nf in spec.get('extra_fail', [])[:2]:
        V.violation('extra' + str(len(V.violations)), nf)
    return V.finish('proof', cov, spec['assumptions'])


def analyse_sessions(spec, hists, open_known, tag):
    impl, drv = run_sessions(hists, tag, mode=spec.get('mode', 'memfs'))
    mismatch, new_fail, known_hits, hist, ops = [], [], set(), {}, {}
    seen, samples = set(), []
    judged = known_fail_count = evaluations = dead_order = 0
    nontrivial = spec.get('nontrivial', lambda req, impl: not impl.startswith('ok b:0'))
    for hi, (h, a, b) in enumerate(zip(hists, impl, drv)):
        judging = True
        prev = ''
        for i, (req, x, y) in enumerate(zip(h, a, b)):
            if req.startswith('new'):
                prev = x
                continue
            f = y.split('\t')
            model = f[0]
            evaluations += 1
            op = req.split(' ')[0]
            ops[op] = ops.get(op, 0) + 1
            xo = x.split(' ## ')[0]
            key = xo.split(' ')[0] + (' ' + xo.split(' ')[1] if xo.startswith('err') and ' ' in xo else '')
            hist[key] = hist.get(key, 0) + 1
            c = cmp_line(req, x, model, f[2] if len(f) > 2 else None)
            if c == 'mismatch':
                # the model no longer describes the implementation here: evaluate the property itself on
                # the implementation's result (the spec column was computed from the agreed pre-state)
                j = None
                try:
                    j = (spec['judge'](req, x, f, prev, hi, i) if spec.get('judge_ctx') else spec['judge'](req, x, f, prev)) if judging else None
                except Exception:
                    j = None
                if j:
                    cls = f[2] if len(f) > 2 else '-'
                    if cls == 'moved_link_rel_stale' and any(q.startswith('copy_b ') and q.split(' ')[5:6] == ['1'] for q in h[:i + 1]):
                        cls = 'copied_link_rel_stale'      # move_p keeps rel consistent (proved); only a copy that follows links can leave it stale
                    new_fail.append(dict(history=h, at=i, impl=x, spec=j[0], cls=cls,
                                         why=j[1] + ' (and the implementation no longer behaves like the Lean model' + (f'; inside class {cls} but not with the recorded behaviour' if cls != '-' else '') + ')'))
                else:
                    mismatch.append(dict(history=h, at=i, impl=x, model=model))
                    # look-ahead: the concrete states differ but while the ABSTRACT trees of implementation and model still agree the
                    # specification column of the following calls (computed from the abstract pre-state) is valid for the implementation
                    # too, so the property predicate can still be evaluated on it (finds e.g. a wrong stored relative link target at the
                    # later readlink). Only unclassified failures are reported; this can only turn a correspondence break into a replay.
                    try:
                        if judging and abs_of_dump(x) == abs_of_dump(model):
                            pv = x
                            for i2 in range(i + 1, min(len(h), len(a), len(b))):
                                r2, x2, f2 = h[i2], a[i2], b[i2].split('\t')
                                j2 = spec['judge'](r2, x2, f2, pv, hi, i2) if spec.get('judge_ctx') else spec['judge'](r2, x2, f2, pv)
                                c2 = f2[2] if len(f2) > 2 else '-'
                                if j2:
                                    if c2 == '-' and not (len(j2) > 2 and j2[2]):
                                        new_fail.append(dict(history=h, at=i2, impl=x2, spec=j2[0], cls='-',
                                                             why=j2[1] + f' (the implementation stopped behaving like the Lean model at step {i}; abstract trees still agreed)'))
                                    break
                                if ' ## ' not in x2 or abs_of_dump(x2) != abs_of_dump(f2[0]):
                                    break
                                pv = x2
                    except Exception:
                        pass
                break
            if c == 'dead':
                if 'LinkLooping' in xo:
                    dead_order += 1
                break
            if nontrivial(req, x):
                seen.add(hashlib.md5((prev.split(' ## ')[-1] + '#' + req).encode()).hexdigest())
            if judging:
                j = spec['judge'](req, x, f, prev, hi, i) if spec.get('judge_ctx') else spec['judge'](req, x, f, prev)
                judged += 1
                if j:
                    cls = f[2] if len(f) > 2 else '-'
                    if cls == 'moved_link_rel_stale' and any(q.startswith('copy_b ') and q.split(' ')[5:6] == ['1'] for q in h[:i + 1]):
                        cls = 'copied_link_rel_stale'      # move_p keeps rel consistent (proved); only a copy that follows links can leave it stale
                    cls = j[2] if len(j) > 2 and j[2] else cls
                    keep = False
                    if cls != '-' and (cls in spec.get('foreign_classes', ()) or (cls in CLASS_OWNERS and spec['prop'] not in CLASS_OWNERS[cls])):
                        keep = True      # a finding class that belongs to (and is reported under) another property
                    elif cls != '-' and cls in open_known:
                        known_hits.add(cls)
                        known_fail_count += 1
                        keep = True
                    else:
                        new_fail.append(dict(history=h, at=i, impl=x, spec=j[0], why=j[1] + (f' (class {cls} is not an open known finding)' if cls != '-' else ''), cls=cls))
                    if not (keep and spec.get('continue_after_known') and req.split(' ')[0] in spec.get('pure_ops', ())):
                        judging = False   # the reference and the implementation may have diverged
            prev = x
        if hi % max(1, len(hists) // 4) == 0 and len(samples) < 6 and len(h) > 1:
            samples.append(dict(history=[pretty_req(r) for r in h[:12]], last_impl=a[min(len(a), 12) - 1][:300]))
    return dict(mismatch=mismatch, new_fail=new_fail, known_hits=known_hits, hist=hist, ops=ops, evaluations=evaluations,
                distinct_nontrivial=len(seen), samples=samples, known_fail_count=known_fail_count, judged=judged, dead_order=dead_order)
