#!/usr/bin/env python3
"""
scan_rust — a small Rust token scanner.

* `fingerprints()`: comment/whitespace-insensitive token hash of every anchored source file
  (recorded in the evidence; a changed fingerprint never raises an alarm by itself).
* `gen_dispatch()`: the C13 translator. Extracts every method of
      impl VirtualFileSystem for Vfs      (src/sys/fs/vfs.rs)
      impl Entry for VfsEntry             (src/sys/fs/entry.rs)
      impl VirtualFileSystem for Stdfs    (src/sys/fs/stdfs/vfs.rs)
  plus the trait declarations and the methods the backend entries override, and writes
  /verif/lean/Rivia/Generated/Dispatch.lean, a table over interned identifiers (Nat ids: string
  literals do not reduce well in the kernel), against which Rivia/Props/C13.lean is re-proved by
  `decide` on every run.
"""
import hashlib, re, sys

REPO = '/repo'


def tokenize(src):
    """identifiers, numbers, lifetimes and single punctuation characters; comments, strings,
    char literals and attributes are dropped / collapsed"""
    toks, i, n = [], 0, len(src)
    while i < n:
        c = src[i]
        if c.isspace():
            i += 1
        elif src.startswith('//', i):
            while i < n and src[i] != '\n':
                i += 1
        elif src.startswith('/*', i):
            depth, i = 1, i + 2
            while i < n and depth:
                if src.startswith('/*', i):
                    depth += 1
                    i += 2
                elif src.startswith('*/', i):
                    depth -= 1
                    i += 2
                else:
                    i += 1
        elif c == '"':
            i += 1
            while i < n and src[i] != '"':
                i += 2 if src[i] == '\\' else 1
            i += 1
            toks.append('"STR"')
        elif c == 'r' and re.match(r'r#*"', src[i:]):
            m = re.match(r'r(#*)"', src[i:])
            end = src.find('"' + m.group(1), i + len(m.group(0)))
            i = end + 1 + len(m.group(1))
            toks.append('"STR"')
        elif c == "'":
            m = re.match(r"'(\\.|[^\\'])'", src[i:])
            if m:
                toks.append("'C'")
                i += len(m.group(0))
            else:
                m = re.match(r"'[A-Za-z_][A-Za-z0-9_]*", src[i:])
                toks.append(m.group(0) if m else "'")
                i += len(m.group(0)) if m else 1
        elif c.isalpha() or c == '_':
            m = re.match(r'[A-Za-z_][A-Za-z0-9_]*', src[i:])
            toks.append(m.group(0))
            i += len(m.group(0))
        elif c.isdigit():
            m = re.match(r'[0-9][A-Za-z0-9_]*', src[i:])
            toks.append(m.group(0))
            i += len(m.group(0))
        else:
            toks.append(c)
            i += 1
    return toks


def strip_attrs(toks):
    out, i = [], 0
    while i < len(toks):
        if toks[i] == '#' and i + 1 < len(toks) and toks[i + 1] in ('[', '!'):
            j = i + 1
            if toks[j] == '!':
                j += 1
            depth = 0
            while j < len(toks):
                if toks[j] == '[':
                    depth += 1
                elif toks[j] == ']':
                    depth -= 1
                    if depth == 0:
                        break
                j += 1
            i = j + 1
        else:
            out.append(toks[i])
            i += 1
    return out


def match_close(toks, i, op, cl):
    depth = 0
    while i < len(toks):
        if toks[i] == op:
            depth += 1
        elif toks[i] == cl:
            depth -= 1
            if depth == 0:
                return i
        i += 1
    return -1


def find_block(toks, header):
    """index range (start, end) of the `{ ... }` following the token sequence `header`"""
    h = len(header)
    for i in range(len(toks) - h):
        if toks[i:i + h] == header:
            j = i + h
            while toks[j] != '{':
                j += 1
            return j, match_close(toks, j, '{', '}')
    return None


def skip_generics(toks, i):
    if toks[i] == '<':
        depth = 0
        while True:
            if toks[i] == '<':
                depth += 1
            elif toks[i] == '>' and toks[i - 1] != '-':
                depth -= 1
                if depth == 0:
                    return i + 1
            i += 1
    return i


def parse_fns(toks, start, end):
    """[(name, params, body_tokens | None)] for the fns directly inside toks[start:end]"""
    out, i, depth = [], start + 1, 0
    while i < end:
        t = toks[i]
        if t == '{':
            i = match_close(toks, i, '{', '}') + 1
            continue
        if t == 'fn':
            name = toks[i + 1]
            j = skip_generics(toks, i + 2)
            assert toks[j] == '(', (name, toks[j])
            pe = match_close(toks, j, '(', ')')
            params, k, cur, d = [], j + 1, [], 0
            while k < pe:
                if toks[k] in '(<[':
                    d += 1
                elif toks[k] in ')>]' and not (toks[k] == '>' and toks[k - 1] == '-'):
                    d -= 1
                if toks[k] == ',' and d == 0:
                    params.append(cur)
                    cur = []
                else:
                    cur.append(toks[k])
                k += 1
            if cur:
                params.append(cur)
            pnames = []
            for p in params:
                if 'self' in p[:3]:
                    continue
                pn = [x for x in p[:p.index(':')] if x not in ('mut', '&')] if ':' in p else p
                pnames.append(pn[-1] if pn else '?')
            k = pe + 1
            while toks[k] not in ('{', ';'):
                k += 1
            if toks[k] == ';':
                out.append((name, pnames, None))
                i = k + 1
            else:
                be = match_close(toks, k, '{', '}')
                out.append((name, pnames, toks[k + 1:be]))
                i = be + 1
            continue
        i += 1
    return out


def split_top(toks, sep=','):
    parts, cur, d = [], [], 0
    for t in toks:
        if t in '([{':
            d += 1
        elif t in ')]}':
            d -= 1
        if t == sep and d == 0:
            parts.append(cur)
            cur = []
        else:
            cur.append(t)
    if cur:
        parts.append(cur)
    return parts


def classify(body, enum_name):
    """('dispatch', [(variant, callee, args, wrapper)]) | ('forward', target, callee, args) | ('other', text)"""
    b = body
    if b[:3] == ['match', 'self', '{'] and b[-1] == '}':
        arms_t = b[3:-1]
        # split arms at top-level commas
        arms = [a for a in split_top(arms_t) if a]
        res = []
        for a in arms:
            # Enum :: Var ( x ) = > x . callee ( args ) [. upcast ( )]
            if len(a) < 12 or a[0] != enum_name or a[1:3] != [':', ':'] or a[4] != '(' or a[6] != ')' or a[7:9] != ['=', '>']:
                return ('other', ' '.join(b))
            var, bind = a[3], a[5]
            rest = a[9:]
            if rest[0] != bind or rest[1] != '.' or rest[3] != '(':
                return ('other', ' '.join(b))
            callee = rest[2]
            ce = match_close(rest, 3, '(', ')')
            args_t = split_top(rest[4:ce])
            args = [' '.join(x) for x in args_t]
            tail = rest[ce + 1:]
            wrapper = None
            if tail:
                if len(tail) == 4 and tail[0] == '.' and tail[2:] == ['(', ')']:
                    wrapper = tail[1]
                else:
                    return ('other', ' '.join(b))
            res.append((var, callee, args, wrapper))
        return ('dispatch', res)
    # Target :: callee ( args )
    if len(b) >= 6 and b[1:3] == [':', ':'] and b[4] == '(' and match_close(b, 4, '(', ')') == len(b) - 1:
        args = [' '.join(x) for x in split_top(b[5:-1])]
        return ('forward', b[0], b[3], args)
    return ('other', ' '.join(b))


def load(path):
    return strip_attrs(tokenize(open(f'{REPO}/{path}').read()))


class Intern:
    def __init__(self):
        self.ids, self.names = {}, []

    def __call__(self, s):
        if s not in self.ids:
            self.ids[s] = len(self.names)
            self.names.append(s)
        return self.ids[s]


def gen_dispatch(out_path='/verif/lean/Rivia/Generated/Dispatch.lean'):
    I = Intern()
    vfs = load('src/sys/fs/vfs.rs')
    ent = load('src/sys/fs/entry.rs')
    sv = load('src/sys/fs/stdfs/vfs.rs')
    se = load('src/sys/fs/stdfs/entry.rs')
    me = load('src/sys/fs/memfs/entry.rs')

    def fns(toks, header):
        blk = find_block(toks, header)
        return parse_fns(toks, blk[0], blk[1]) if blk else []

    trait_vfs = fns(vfs, ['pub', 'trait', 'VirtualFileSystem'])
    impl_vfs = fns(vfs, ['impl', 'VirtualFileSystem', 'for', 'Vfs'])
    trait_ent = fns(ent, ['pub', 'trait', 'Entry'])
    impl_ent = fns(ent, ['impl', 'Entry', 'for', 'VfsEntry'])
    impl_std = fns(sv, ['impl', 'VirtualFileSystem', 'for', 'Stdfs'])
    ov_std = [f[0] for f in fns(se, ['impl', 'Entry', 'for', 'StdfsEntry'])]
    ov_mem = [f[0] for f in fns(me, ['impl', 'Entry', 'for', 'MemfsEntry'])]

    def lean_list(xs):
        return '[' + ', '.join(xs) + ']'

    def lean_fn(f, enum_name):
        name, params, body = f
        kind = classify(body, enum_name)
        if kind[0] == 'dispatch':
            arms = lean_list([f'⟨{I(v)}, {I(c)}, {lean_list([str(I(a)) for a in args])}, {"some " + str(I(w)) if w else "none"}⟩' for v, c, args, w in kind[1]])
            b = f'.dispatch {arms}'
        elif kind[0] == 'forward':
            b = f'.forward {I(kind[1])} {I(kind[2])} {lean_list([str(I(a)) for a in kind[3]])}'
        else:
            b = f'.other {I(kind[1][:200])}'
        return f'⟨{I(name)}, {lean_list([str(I(p)) for p in params])}, {b}⟩'

    L = []
    L.append('/-  GENERATED by /verif/tools/scan_rust.py from /repo on every run — do not edit.  -/')
    L.append('namespace Rivia.Generated\n')
    L.append('structure Arm where\n  variant : Nat\n  callee : Nat\n  args : List Nat\n  wrapper : Option Nat\n  deriving DecidableEq, Repr\n')
    L.append('inductive Body where\n  | dispatch (arms : List Arm)\n  | forward (target callee : Nat) (args : List Nat)\n  | other (text : Nat)\n  deriving DecidableEq, Repr\n')
    L.append('structure Fn where\n  name : Nat\n  params : List Nat\n  body : Body\n  deriving DecidableEq, Repr\n')
    L.append('/-- trait VirtualFileSystem: (method, parameter names) -/')
    L.append('def traitVfs : List (Nat × List Nat) := ' + lean_list([f'({I(n)}, {lean_list([str(I(p)) for p in ps])})' for n, ps, _ in trait_vfs]))
    L.append('/-- trait Entry: (method, parameter names, has a default body) -/')
    L.append('def traitEntry : List (Nat × List Nat × Bool) := ' + lean_list([f'({I(n)}, {lean_list([str(I(p)) for p in ps])}, {"true" if b is not None else "false"})' for n, ps, b in trait_ent]))
    L.append('def vfsImpl : List Fn := ' + lean_list([lean_fn(f, 'Vfs') for f in impl_vfs]))
    L.append('def vfsEntryImpl : List Fn := ' + lean_list([lean_fn(f, 'VfsEntry') for f in impl_ent]))
    L.append('def stdfsImpl : List Fn := ' + lean_list([lean_fn(f, 'Stdfs') for f in impl_std]))
    L.append('def stdfsEntryMethods : List Nat := ' + lean_list([str(I(x)) for x in ov_std]))
    L.append('def memfsEntryMethods : List Nat := ' + lean_list([str(I(x)) for x in ov_mem]))
    for nm in ['Stdfs', 'Memfs', 'upcast', 'follow', 'Vfs', 'self']:
        I(nm)
    L.append(f'def idStdfs : Nat := {I("Stdfs")}\ndef idMemfs : Nat := {I("Memfs")}\ndef idUpcast : Nat := {I("upcast")}\ndef idFollow : Nat := {I("follow")}\ndef idVfs : Nat := {I("Vfs")}\ndef idSelf : Nat := {I("self")}')
    L.append('/-- interned identifiers (for display only) -/')
    L.append('def names : List String := ' + lean_list(['"' + n.replace('\\', '\\\\').replace('"', '\\"') + '"' for n in I.names]))
    L.append('\nend Rivia.Generated')
    txt = '\n'.join(L) + '\n'
    import os
    os.makedirs(os.path.dirname(out_path), exist_ok=True)
    old = open(out_path).read() if os.path.exists(out_path) else None
    if old != txt:
        open(out_path, 'w').write(txt)
    return dict(trait_vfs=len(trait_vfs), impl_vfs=len(impl_vfs), trait_entry=len(trait_ent), impl_entry=len(impl_ent), impl_stdfs=len(impl_std),
                others=[(n, classify(b, e)[1][:120]) for e, fl in (('Vfs', impl_vfs), ('VfsEntry', impl_ent), ('Stdfs', impl_std)) for n, ps, b in fl if classify(b, e)[0] == 'other'])


ANCHORS = ['src/sys/fs/path.rs', 'src/sys/fs/vfs.rs', 'src/sys/fs/entry.rs', 'src/sys/fs/entries.rs', 'src/sys/fs/entry_iter.rs', 'src/sys/fs/chmod.rs',
           'src/sys/fs/chown.rs', 'src/sys/fs/copy.rs', 'src/sys/fs/memfs/vfs.rs', 'src/sys/fs/memfs/entry.rs', 'src/sys/fs/memfs/file.rs',
           'src/sys/fs/stdfs/mod.rs', 'src/sys/fs/stdfs/entry.rs', 'src/sys/fs/stdfs/vfs.rs', 'src/sys/user.rs', 'src/core/iter.rs', 'src/core/string.rs',
           'src/core/option.rs', 'src/core/peekable.rs', 'src/core/defer.rs', 'src/testing/assert.rs']


def fingerprints():
    out = {}
    for a in ANCHORS:
        try:
            out[a] = hashlib.sha256(' '.join(tokenize(open(f'{REPO}/{a}').read())).encode()).hexdigest()[:16]
        except Exception as e:
            out[a] = 'unreadable: ' + str(e)
    return out


if __name__ == '__main__':
    print(gen_dispatch())
