#!/usr/bin/env python3
import sys, random
sys.path.insert(0,'/verif/tools')
import vlib, memfs_gen
from collections import Counter
seed=int(sys.argv[1]) if len(sys.argv)>1 else 1
n=int(sys.argv[2]) if len(sys.argv)>2 else 200
ln=int(sys.argv[3]) if len(sys.argv)>3 else 25
prof=sys.argv[4] if len(sys.argv)>4 else 'mixed'
show=int(sys.argv[5]) if len(sys.argv)>5 else 6
rng=random.Random(seed)
H=memfs_gen.histories(rng,n,ln,prof)
impl,drv=vlib.run_sessions(H,'devmem')
bad=0; ops=Counter(); outc=Counter(); first=Counter()
for h,a,b in zip(H,impl,drv):
    for i,(l,x,y) in enumerate(zip(h,a,b)):
        op=l.split(' ')[0]; ops[op]+=1; outc[x.split(' ## ')[0].split(' ')[0] if not x.startswith('err') else x.split(' ## ')[0]]+=1
        m=y.split('\t')[0]
        if x!=m:
            xo,mo=x.split(' ## ')[0],m.split(' ## ')[0]
            if (xo in('hang','panic') and xo==mo): break
            bad+=1; first[op]+=1
            if bad<=show:
                print('MISMATCH at',i,vlib.pretty_req(l)); 
                for q in h[:i]: print('     ',vlib.pretty_req(q))
                print('  impl :',x[:3000]); print('  model:',m[:3000])
            break
print(sum(ops.values()),'ops',len(H),'histories; mismatching histories:',bad,dict(first))
print(dict(outc))
