#!/usr/bin/env python3
"""regenerates MANIFEST.json from tools/manifest_data.py (kept valid at all times)"""
import json, sys
sys.path.insert(0, '/verif/tools')
from manifest_data import CLAIMED, NOT_YET
props = [json.loads(l) for l in open('/verif/properties.jsonl')]
ids = [p['id'] for p in props]
checks = []
for pid in ids:
    if pid in CLAIMED:
        c = CLAIMED[pid]
        checks.append(dict(
            property_id=pid,
            quick_cmd=f'./check {pid} --tier quick',
            thorough_cmd=f'./check {pid} --tier thorough',
            evidence_file=f'/verif/evidence/{pid}.json',
            replay_cmd_template=f'./check {pid} --replay {{path}}',
            engine='lean4-proof+correspondence',
            level_claimed=dict(category='proof', text=c['text'], design_ref=c.get('design_ref', f'DESIGN.md §6 {pid}')),
            level_note=c['note'],
            technique=c.get('technique', 'machine-checked proof in Lean 4 of a hand-written model; model tied to the code by a differential correspondence check on every run'),
        ))
na = [dict(property_id=pid, reason=NOT_YET.get(pid, 'machinery for this property is not built yet in this round (planned: Lean model + theorems + correspondence, see DESIGN.md §6)')) for pid in ids if pid not in CLAIMED]
m = dict(
    version=1,
    setup_cmd='./setup.sh',
    hooks=dict(guard='rivia_verif', enable='RUSTFLAGS="--cfg rivia_verif" (set in /verif/harness/.cargo/config.toml; the harness depends on /repo by path)',
               baseline_off_cmd='cd /repo && cargo test --workspace --no-fail-fast --offline',
               source_commits=['8f42476', 'c605caa', 'de3320b'], add_only=True),
    engines=[dict(name='lean4-proof+correspondence', path='/verif/lean + /verif/harness + /verif/check', serves_properties=sorted(CLAIMED),
                  kind_free_text='Lean 4 theorems about a hand-written executable model of the Rust code; Rust harness runs the real code, Lean driver runs the model and the specification on the same request lines; Python orchestrates, audits axioms, writes evidence')],
    checks=checks,
    notes='See DESIGN.md. Every check rebuilds the harness from /repo working tree, re-checks the Lean proofs (lake build + #print axioms audit), runs the correspondence and judges the implementation against the Lean specification.',
    not_applicable=na,
)
json.dump(m, open('/verif/MANIFEST.json', 'w'), indent=1)
print('claimed', sorted(CLAIMED), 'unclaimed', len(na))
