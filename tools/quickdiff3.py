#!/usr/bin/env python3
import itertools, sys, random
sys.path.insert(0,'/verif/tools')
import vlib
from collections import Counter
hx=vlib.hx
lines=[]
EXT=[-(2**63),-(2**63)+1,2**63-1,2**63-2]
for ln in range(0,7):
    for n in list(range(-9,10))+EXT: lines.append(f'it_drop {ln} {n}')
    for l in list(range(-9,10))+EXT:
        for r in list(range(-9,10))+EXT: lines.append(f'it_slice {ln} {l} {r}')
    for f in ['it_consume','it_first','it_first_result','it_last_result','it_single','it_some']: lines.append(f'{f} {ln}')
for s in vlib.all_strings(['f','A','L','s','E','0','é','a'],5): lines.append('str_to_bool '+hx(s)); 
for s in ['false','FALSE','FaLsE','0','00','true','',' false','ﬀalse','FALSİ','K']: lines.append('str_to_bool '+hx(s)); lines.append('str_size '+hx(s))
S=list(vlib.all_strings('aé/',3))
for s in S:
    for t in S:
        lines.append(f'str_trim_suffix {hx(s+t)} {hx(t)}'); lines.append(f'str_trim_suffix {hx(s)} {hx(t)}'); lines.append(f'take_while_p {hx(s)} {hx(t)}')
for o in ['-','0','1','5']:
    for x in ['0','1','2']: lines.append(f'opt_has {o} {x}')
offs=[0,1,-1,2,-2,3,5,-5,2**63-1,-(2**63),2**63-2]
ops=[f'r{n}' for n in [0,1,2,5]]+['a']+[f'sc{o}' for o in offs]+[f'se{o}' for o in offs]+[f'ss{o}' for o in [0,1,2,3,4,10,2**64-1,2**63]]
for data in [b'',b'a',b'abc']:
    for k in range(1,4):
        for t in itertools.product(ops,repeat=k):
            if k==3 and random.random()>0.05: continue
            lines.append(f'file {hx(data)} {",".join(t)}')
rng=random.Random(5)
whos=['u','g','o','a','ug','uo','go','ugo','']; opsc=['+','-','=','']; perms=['r','w','x','rw','rx','wx','rwx','']; tg=['d','f','a','df','fa','','q']
clauses=[f'{t}:{w}{o}{p}' for t in tg for w in whos for o in opsc for p in perms]
for kind in ['d','f','D','F']:
    for cur in ['100644','40755','100000','100777','40222','120777']:
        for c in clauses: lines.append(f'mode {kind} {cur} 0 {hx(c)}')
        for _ in range(1500):
            c=','.join(rng.choice(clauses) for _ in range(rng.randint(2,3)))
            if rng.random()<0.2: c=''.join(rng.choice('dfa:ugo+-=rwx,q ') for _ in range(rng.randint(0,8)))
            lines.append(f'mode {kind} {cur} 0 {hx(c)}')
    lines.append(f'mode {kind} 100644 755 {hx("f:a+x")}'); lines.append(f'mode {kind} 100644 0 x')
for a in range(0,512,7):
    for b in range(0,512,11): lines.append(f'revoking {a:o} {b:o}')
vals=[None,'','/h','/h/é','a:/b::c:',':',':::','/x:/y']
names=['HOME','XDG_CONFIG_HOME','XDG_CONFIG_DIRS','XDG_DATA_HOME','XDG_DATA_DIRS','XDG_CACHE_HOME','XDG_STATE_HOME','XDG_RUNTIME_DIR','PATH','SUDO_UID','SUDO_GID']
def envspec(d): return 'e'+','.join(f'{k}={hx(v)[1:]}' for k,v in d.items() if v is not None)
for _ in range(3000):
    d={k:rng.choice(vals) for k in names[:9]}
    d['SUDO_UID']=rng.choice([None,'','0','1000','+5','-1','4294967295','4294967296','12a',' 1','007'])
    d['SUDO_GID']=rng.choice([None,'','0','1000','x'])
    e=envspec(d)
    for w in ['config_dir','cache_dir','data_dir','state_dir','runtime_dir','sys_data_dirs','sys_config_dirs','path_dirs','home_dir']: lines.append(f'xdg {w} {e}')
    lines.append(f'getrids {rng.choice([0,0,1000])} {rng.choice([0,5])} {e}')
    cands=['/h/.config','/x','/y','/etc/xdg','/b','/c','/h/é/.config']
    lines.append(f'vfs_config_dir {hx("app.toml")} {hx(":".join(c for c in cands if rng.random()<0.4))} {e}')
impl,drv,pr=vlib.run_both('pathfn',lines,'dev3')
print(pr)
bad=Counter(); sf=Counter(); ex={}
for l,i,d in zip(lines,impl,drv):
    f=d.split('\t')
    fn=l.split(' ')[0]
    if i!=f[0]:
        bad[fn]+=1
        if bad[fn]<6: print('MODELDIFF',vlib.pretty_req(l),'impl=',i,'model=',f[0])
    if len(f)>1 and f[1]!='-' and i!=f[1]:
        k=(fn,f[2]); sf[k]+=1; ex.setdefault(k,(vlib.pretty_req(l),i,f[1]))
print(len(lines),'cases; model diffs:',dict(bad))
for k,v in sorted(sf.items()): print('SPECFAIL',k,v,ex[k])
