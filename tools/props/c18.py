"""C18 — XDG directory lookup honours the environment with the right precedence"""
import vlib

NAMES = ['HOME', 'XDG_CONFIG_HOME', 'XDG_CONFIG_DIRS', 'XDG_DATA_HOME', 'XDG_DATA_DIRS', 'XDG_CACHE_HOME', 'XDG_STATE_HOME', 'XDG_RUNTIME_DIR', 'PATH']
VALS = [None, '', '/h', '/h/é', 'a:/b::c:', ':', ':::', '/x:/y', '/etc/xdg', 'rel/dir']
SUDO = [None, '', '0', '1000', '+5', '-1', '4294967295', '4294967296', '12a', ' 1', '007', '99999999999999999999']
WHICH = ['config_dir', 'cache_dir', 'data_dir', 'state_dir', 'runtime_dir', 'sys_data_dirs', 'sys_config_dirs', 'path_dirs', 'home_dir']
CANDS = ['/h/.config', '/x', '/y', '/etc/xdg', '/b', '/c', '/h/é/.config', '/a']


def envspec(d):
    return 'e' + ','.join(f'{k}={vlib.hx(v)[1:]}' for k, v in d.items() if v is not None)


def gen(tier, rng):
    lines = []
    # single-variable sweeps (every value of every variable with the others unset / set)
    for base in (None, '/h'):
        for k in NAMES:
            for v in VALS:
                d = {n: base for n in NAMES}
                d[k] = v
                e = envspec(d)
                for w in WHICH:
                    lines.append(f'xdg {w} {e}')
    for u in SUDO:
        for g in SUDO:
            for uid in (0, 1000):
                lines.append(f'getrids {uid} 7 {envspec({"SUDO_UID": u, "SUDO_GID": g})}')
    n = 1500 if tier == 'quick' else 20000
    for _ in range(n):
        d = {k: rng.choice(VALS) for k in NAMES}
        d['SUDO_UID'] = rng.choice(SUDO)
        d['SUDO_GID'] = rng.choice(SUDO)
        e = envspec(d)
        for w in WHICH:
            lines.append(f'xdg {w} {e}')
        lines.append(f'getrids {rng.choice([0, 0, 1000])} {rng.choice([0, 5])} {e}')
        for _ in range(2):
            have = ':'.join(c for c in CANDS if rng.random() < 0.35)
            lines.append(f'vfs_config_dir {vlib.hx("app.toml")} {vlib.hx(have)} {e}')
    return lines, dict(kind='sweeps+random', variables=NAMES + ['SUDO_UID', 'SUDO_GID'], values=[str(v) for v in VALS], random_envs=n, exhaustive=False)


def nontrivial(req, impl):
    return True


SPEC = dict(
    prop='C18', lean_mod='Rivia.Props.C18', mode='pathfn', gen=gen, nontrivial=nontrivial,
    rule='single-variable sweeps over {unset, empty, one dir, colon list with empty segments, ...} for each of the nine variables with the rest unset / set, '
         'the full SUDO_UID x SUDO_GID table for getrids, plus seeded random environments; vfs.config_dir on a Memfs holding the file in a random subset of candidate dirs; '
         'every request is a distinct (function, environment) pair',
    assumptions=['std::env::var returns the process environment (the harness sets it per request, single-threaded)', 'str::parse::<u32> as transcribed (optional +, digits, < 2^32)',
                 'vfs.exists on the Memfs as modelled by abs + membership'],
    trusted_base=['hand transcription Rust->Lean of src/sys/user.rs lookups and VirtualFileSystem::config_dir (checked by the correspondence run)', 'Rust harness + Python driver'],
)


def run(tier, seed, replay):
    return vlib.generic_check(SPEC, tier, seed, replay)
