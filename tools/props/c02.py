"""C02 — Stdfs and Memfs are interchangeable: same calls, same results, same tree"""
import subprocess, json, random, re
import vlib, memfs_gen
from concurrent.futures import ThreadPoolExecutor

OPS = ['mkfile', 'mkfile_m', 'mkdir_p', 'mkdir_m', 'write_all', 'append_all', 'write_lines', 'append_lines', 'append_line', 'read_all', 'read_lines', 'read', 'remove', 'remove_all', 'symlink', 'readlink', 'readlink_abs',
       'set_cwd', 'cwd', 'abs', 'exists', 'is_file', 'is_dir', 'is_symlink', 'is_symlink_dir', 'is_symlink_file', 'is_exec', 'is_readonly', 'mode', 'paths', 'dirs', 'files',
       'all_paths', 'all_dirs', 'all_files', 'chmod', 'copy', 'move_p']


class G(memfs_gen.Gen):
    def garbage(self):
        return self.rng.choice(['', '.', 'a//b/./../b', '//', './a', 'a/', 'b/.', 'x' * 40, 'é/é'])

    def spell(self, p):
        r = self.rng.random()
        if r < 0.7 or p == '':
            return p
        if r < 0.85 and p.startswith(self.cwd.rstrip('/') + '/') and p != self.cwd:
            return p[len(self.cwd.rstrip('/')) + 1:]
        return p.replace('/', '//', 1) + self.rng.choice(['', '/', '/.'])


def gen(tier, rng):
    n, ln = (50, 25) if tier == 'quick' else (3000, 50)
    out = []
    for names, prof in ((['a', 'b'], 'mixed'), (['a', 'b', 'c'], 'tree'), (['a', 'b'], 'links')):
        g = G(rng, names=names, profile=prof)
        for _ in range(n):
            h = g.history(rng.randint(ln // 3, ln), env='eHOME=2f68')
            out.append([l for l in h if l.split(' ')[0] in OPS + ['new']])
    return out, dict(kind='random histories over the shared op alphabet, run on Stdfs (sandbox directory, independent std::fs observer) and on Memfs', histories=len(out), max_len=ln, exhaustive=False)


def grid(tier, rng):
    """(state, call) grid: hand-built trees of the bounded namespace x every method x every path of the namespace"""
    hx = vlib.hx
    N = 'new eHOME=2f68'
    T = [
        [],
        ['mkdir_p ' + hx('/a/b'), 'write_all ' + hx('/a/f') + ' ' + hx('hi\n'), 'write_all ' + hx('/g') + ' ' + hx('x')],
        ['mkdir_p ' + hx('/a/b'), 'write_all ' + hx('/a/f') + ' ' + hx('hi'), 'symlink ' + hx('/l') + ' ' + hx('/a'), 'symlink ' + hx('/lf') + ' ' + hx('/a/f')],
        ['mkdir_p ' + hx('/a/b'), 'write_all ' + hx('/a/b/f') + ' ' + hx('1\n2\n'), 'symlink ' + hx('/a/l') + ' ' + hx('b'), 'symlink ' + hx('/a/b/up') + ' ' + hx('../..'), 'set_cwd ' + hx('/a')],
        ['mkdir_m ' + hx('/a') + ' 700', 'mkdir_m ' + hx('/a/s') + ' 711', 'mkfile_m ' + hx('/a/s/g') + ' 640', 'mkfile_m ' + hx('/a/f') + ' 600', 'mkfile_m ' + hx('/x') + ' 755', 'mkdir_p ' + hx('/b'), 'symlink ' + hx('/b/l') + ' ' + hx('/x')],
        ['mkdir_p ' + hx('/a/a/a'), 'write_all ' + hx('/a/a/a/f') + ' ' + hx('deep'), 'set_cwd ' + hx('/a/a')],
        ['write_all ' + hx('/f') + ' xfffe', 'mkdir_p ' + hx('/b'), 'symlink ' + hx('/b/lf') + ' ' + hx('/f'), 'symlink ' + hx('/ld') + ' ' + hx('/b')],
    ]
    P = ['/', '/a', '/a/b', '/a/f', '/g', '/l', '/lf', '/a/l', '/b', '/b/l', '/x', '/f', '/ld', '/b/lf', '/zz', '/a/zz', 'a', 'f', '../a', '.', 'b/../f', '/a//b/', '/a/b/up', '/a/a/a']
    one = ['mkfile', 'mkdir_p', 'read_all', 'read_lines', 'read', 'remove', 'remove_all', 'readlink', 'readlink_abs', 'set_cwd', 'abs', 'exists', 'is_file', 'is_dir', 'is_symlink',
           'is_symlink_dir', 'is_symlink_file', 'is_exec', 'is_readonly', 'mode', 'paths', 'dirs', 'files', 'all_paths', 'all_dirs', 'all_files']
    H = []
    for tr in T:
        calls = []
        for p in P:
            calls += [f'{o} {hx(p)}' for o in one]
            calls += [f'mkfile_m {hx(p)} 640', f'mkdir_m {hx(p)} 750', f'chmod {hx(p)} 600', f'chmod {hx(p)} 755', f'write_all {hx(p)} {hx("new")}', f'append_all {hx(p)} {hx("+")}',
                      f'write_lines {hx(p)} l:{hx("a")[1:]},,{hx("b")[1:]}', f'append_lines {hx(p)} l:{hx("a")[1:]},,{hx("b")[1:]}', f'append_line {hx(p)} {hx("z")}']
            for q in ['/a', '/zz', '/a/b', '/b/n', 'n', '/l', '/g', '/zz/y/w']:
                calls += [f'copy {hx(p)} {hx(q)}', f'move_p {hx(p)} {hx(q)}', f'symlink {hx(p)} {hx(q)}']
        if tier == 'quick':
            # a random sample plus every copy / move of the main directory of the tree and of a file in it
            keep = [c for c in calls if c.split(' ')[0] in ('copy', 'move_p') and c.split(' ')[1] in (hx('/a'), hx('/a/f'))]
            calls = rng.sample(calls, 240) + keep
        for c in calls:
            H.append([N] + tr + [c, 'all_paths ' + hx('/')])
    return H


def run_mode(mode, hists):
    chunks = [hists[i::vlib.NCPU] for i in range(vlib.NCPU)]

    def one(c):
        return vlib._harness_sessions(mode, c, 20.0)
    res = [None] * len(hists)
    with ThreadPoolExecutor(max_workers=vlib.NCPU) as ex:
        for k, r in enumerate(ex.map(one, chunks)):
            for j, x in enumerate(r):
                res[k + j * vlib.NCPU] = x
    return res


def strip_abs(d):
    """memfs abs dump -> stdfs observer format (no owners, link kind collapsed)"""
    recs = d.split('|')
    out = [recs[0]]
    for r in recs[1:]:
        k, kind, perm, uid, gid, tgt, data = r.split(':')
        out.append(f'{k}:{kind[0]}:{perm}:{tgt}:{data}')
    return '|'.join(out)


def norm_cwd(d):
    """the observer prints `?` (3f) when the process cwd no longer exists; the kernel model keeps the key"""
    cwd, nodes = parse(d)
    if cwd != '3f' and (cwd not in nodes or nodes[cwd][1] != 'd'):
        return 'cwd=3f' + d[d.index('|'):] if '|' in d else 'cwd=3f'
    return d


def parse(d):
    recs = d.split('|')
    nodes = {}
    for r in recs[1:]:
        f = r.split(':')
        nodes[f[0]] = f
    return recs[0][4:], nodes


def lexical(cwd_hex, p):
    """lexically resolved key (hex) of an argument, or None when it is not a plain path"""
    if p == '' or '~' in p or '$' in p:
        return None
    cwd = bytes.fromhex(cwd_hex).decode()
    full = p if p.startswith('/') else cwd.rstrip('/') + '/' + p
    parts = []
    for c in full.split('/'):
        if c in ('', '.'):
            continue
        if c == '..':
            if not parts:
                return None
            parts.pop()
        else:
            parts.append(c)
    return ('/' + '/'.join(parts)).encode().hex()


def in_domain(pre, req):
    """the domain of the property: every symlink of the pre-state resolves to an existing non-link
    entry; no argument passes through a symlink as an intermediate component"""
    cwd, nodes = parse(pre)
    for k, f in nodes.items():
        if f[1] == 'l' and (f[3] not in nodes or nodes[f[3]][1] == 'l'):
            return False
    toks = req.split(' ')
    for ai, a in enumerate(toks[1:]):
        # path arguments: every x-argument, except the data argument of write_all / append_all
        if a.startswith('x') and (ai == 0 or toks[0] not in ('write_all', 'append_all')):
            try:
                p = bytes.fromhex(a[1:]).decode()
            except Exception:
                continue
            k = lexical(cwd, p)
            if k is None:
                return False
            comps = k[2:].split('2f') if k != '2f' else []
            for i in range(1, len(comps)):
                anc = '2f' + '2f'.join(comps[:i])
                if anc in nodes and nodes[anc][1] == 'l':
                    return False
    ck = cwd
    comps = ck[2:].split('2f') if ck != '2f' else []
    for i in range(1, len(comps) + 1):
        anc = '2f' + '2f'.join(comps[:i])
        if anc in nodes and nodes[anc][1] == 'l':
            return False
    return True


def stale_link_kinds(mem_abs):
    """Memfs records a link's kind when the link is created: links whose recorded kind differs from
    the kind of the entry they resolve to now (keys, hex)"""
    recs = {}
    for r in mem_abs.split('|')[1:]:
        f = r.split(':')
        recs[f[0]] = f
    out = set()
    for k, f in recs.items():
        if f[1] in ('ld', 'lf'):
            tk = recs.get(f[5], [None, None])[1]
            if tk in ('d', 'f') and tk != f[1][1]:
                out.add(k)
    return out


def copy_touches_link(pre, req):
    """the destination of a copy is a link, or a link lies below it"""
    t = req.split(' ')
    if t[0] not in ('copy', 'copy_b') or len(t) < 3:
        return False
    cwd, nodes = parse(pre)
    try:
        k2 = lexical(cwd, bytes.fromhex(t[2][1:]).decode())
    except Exception:
        return False
    return bool(k2) and any(f[1] == 'l' and (f[0] == k2 or f[0].startswith(k2 if k2 == '2f' else k2 + '2f')) for f in nodes.values())


def classify(req, so, mo, pre, mem_pre=None, sd=None, md=None):
    """known divergence classes (findings), by (pre-state, call)"""
    t = req.split(' ')
    op = t[0]
    cwd, nodes = parse(pre)
    if mem_pre:
        stale = stale_link_kinds(mem_pre)
        keys = []
        for a in t[1:3]:
            if a.startswith('x'):
                try:
                    keys.append(lexical(cwd, bytes.fromhex(a[1:]).decode()))
                except Exception:
                    pass
        # the call addresses a link with a stale kind, or walks a directory that contains one
        if any(k and (k in stale or any(s_.startswith(k if k == '2f' else k + '2f') for s_ in stale)) for k in keys):
            return 'link_kind_recorded_at_creation'
    if op in ('mkfile_m', 'mkdir_m', 'chmod') and len(t) > 2:
        try:
            m = int(t[2], 8)
            if m == 0:
                return 'chmod_zero'
            if m & ~0o7777:
                return 'mode_type_bits'
        except ValueError:
            pass
    if op in ('copy', 'copy_b') and vlib._copy_into_itself(req, 'x ## cwd ' + cwd):
        return 'copy_into_own_subtree'
    if op in ('remove', 'remove_all', 'move_p') and len(t) > 1 and t[1].startswith('x'):
        try:
            k0 = lexical(cwd, bytes.fromhex(t[1][1:]).decode())
        except Exception:
            k0 = None
        if k0 and k0 != '2f' and (cwd == k0 or cwd.startswith(k0 + '2f')):
            return 'cwd_removed'
    k = None
    if len(t) > 1 and t[1].startswith('x'):
        try:
            k = lexical(cwd, bytes.fromhex(t[1][1:]).decode())
        except Exception:
            k = None
    kind = nodes[k][1] if k in nodes else None
    tk = nodes[nodes[k][3]][1] if kind == 'l' and nodes[k][3] in nodes else None
    if op == 'remove' and kind == 'l' and tk == 'd':
        return 'S1_remove_link_to_dir'
    if op in ('mkdir_m', 'mkdir_p') and kind in ('f', 'l'):
        return 'S2_mkdir_on_non_dir'
    if op == 'readlink_abs' and kind in ('f', 'd'):
        return 'S3_readlink_abs_non_link'
    if op == 'readlink' and kind == 'l' and k:
        pk = k[:k.rfind('2f')] or '2f'
        if nodes[k][3] == pk:
            return 'link_to_own_dir'
    if op == 'set_cwd' and kind == 'l':
        return 'S9_set_cwd_link'
    if op == 'remove' and k:
        comps = k[2:].split('2f') if k != '2f' else []
        for i in range(1, len(comps)):
            anc = '2f' + '2f'.join(comps[:i])
            if anc in nodes and nodes[anc][1] == 'f':
                return 'remove_below_file'
    if op in ('mkdir_p', 'mkdir_m', 'mkfile', 'mkfile_m', 'write_all', 'append_all', 'copy', 'move_p', 'symlink') and any(int(f[2], 8) & 0o7000 for f in nodes.values() if f[1] == 'd'):
        return 'special_mode_bits'
    if op in ('copy', 'move_p') and len(t) > 2 and t[2].startswith('x'):
        try:
            k2 = lexical(cwd, bytes.fromhex(t[2][1:]).decode())
        except Exception:
            k2 = None
        if op == 'copy' and k2 and any(f[1] == 'l' and (f[0] == k2 or f[0].startswith(k2 if k2 == '2f' else k2 + '2f')) for f in nodes.values()):
            return 'copy_dst_link'
        if op == 'copy' and so.startswith('ok') and mo.startswith('ok') and sd and md:
            # only the permission bits of regular files that existed before the copy differ
            _, ns = parse(sd)
            _, nm = parse(md)
            diff = [k_ for k_ in set(ns) | set(nm) if ns.get(k_) != nm.get(k_)]
            if diff and all(k_ in ns and k_ in nm and k_ in nodes and nodes[k_][1] == 'f' and ns[k_][:2] + ns[k_][3:] == nm[k_][:2] + nm[k_][3:] for k_ in diff):
                return 'copy_keeps_dst_mode'
        if op == 'move_p' and (kind == 'l' or any(f[1] == 'l' and k and f[0].startswith(k + '2f') for f in nodes.values())):
            return 'S8_move_links'
        if op == 'move_p' and so.startswith('ok') and mo == 'err ExistsAlready':
            return 'move_onto_existing_dir'
    if op in ('chmod', 'mkfile_m') and (kind == 'l' or any(f[1] == 'l' and (f[0].startswith((k or '') + '2f') or k == '2f') for f in nodes.values())):
        return 'chmod_links'
    if op in ('is_exec', 'is_readonly', 'uid', 'gid', 'owner') and kind == 'l':
        return 'S6_metadata_follows_link'
    if op == 'mode' and kind == 'l':
        return 'mode_of_link'
    if op in ('dirs', 'files', 'all_dirs', 'all_files', 'paths', 'all_paths') and kind == 'l':
        return 'listing_on_link'
    if op in ('copy', 'move_p'):
        return 'copy_move_divergence'
    if op in ('mkfile', 'write_all', 'append_all', 'read_all', 'read', 'read_lines', 'mkfile_m') and kind == 'l':
        return 'file_op_on_link'
    return None


LEAN_CLASSES = ('S1_remove_link_to_dir', 'S2_mkdir_m_on_file', 'S3_readlink_abs_non_link', 'S4_remove_all_file', 'S5_is_dir_skips_abs', 'S6_metadata_follows_link',
                'empty_lines_noop', 'S8_move_links', 'S10_cwd_removed')


def run_model(hists):
    """the same histories on the Lean Stdfs model (driver session `newstd`)"""
    W = [['newstd' + h[0][3:]] + h[1:] for h in hists]
    chunks = [W[i::vlib.NCPU] for i in range(vlib.NCPU)]

    def one(c):
        lines = [l for h in c for l in h]
        b = subprocess.run([vlib.DRIVER], input=('\n'.join(lines) + '\n').encode(), capture_output=True)
        got = b.stdout.decode('utf8', 'replace').split('\n')
        out, k = [], 0
        for h in c:
            out.append(got[k:k + len(h)])
            k += len(h)
        return out
    res = [None] * len(hists)
    with ThreadPoolExecutor(max_workers=vlib.NCPU) as ex:
        for k, r in enumerate(ex.map(one, chunks)):
            for j, x in enumerate(r):
                res[k + j * vlib.NCPU] = x
    return res


def same_result(a, b):
    """success-or-failure and, on success, the returned value (error kinds are not part of the property)"""
    return (a.startswith('ok') == b.startswith('ok')) and (not a.startswith('ok') or a == b)


def run(tier, seed, replay):
    prop = 'C02'
    V = vlib.Verdict(prop, tier, seed)
    rng = random.Random(seed)
    assumptions = ['POSIX semantics of this kernel / filesystem behind std::fs as transcribed in Rivia/Model/Posix.lean (validated by this run on every step, not proved)',
                   'effective uid 0 only: permission enforcement is not exercised (Memfs enforces none)', 'umask 022',
                   'error kinds are not compared (the property compares success-or-failure and returned values)',
                   'owners are not compared (the observer sees uid 0, Memfs reports 1000)']
    okh, logh, dth = vlib.build_harness()
    if not okh:
        V.violation('build', dict(kind='build', log=logh), no_input=True)
        return V.finish('proof', dict(obligations=1, discharged=0, checker_cmd='cargo build', trusted_base=[], explanation='build failed'), assumptions)
    okl, logl, dtl = vlib.build_lean(['driver', 'Rivia.Props.C02', 'Rivia.Props.C02M', 'Rivia.Props.C02R', 'Rivia.Props.C02T', 'Rivia.Props.C02RM'])
    proof_broken = []
    if okl:
        A = vlib.audit('Rivia.Props.C02,Rivia.Props.C02M,Rivia.Props.C02R,Rivia.Props.C02T,Rivia.Props.C02RM')
        if not A['ok']:
            proof_broken += A['problems']
    else:
        A = dict(ok=False, obligations=1, discharged=0, problems=[], axioms={}, theorems=[])
        proof_broken.append('lake build Rivia.Props.C02 failed: ' + logl[-1000:])
    lc = None
    if okl and tier == 'thorough':
        okc, logc, dtc = vlib.leanchecker('Rivia.Props.C02,Rivia.Props.C02M,Rivia.Props.C02R,Rivia.Props.C02T,Rivia.Props.C02RM')
        lc = dict(ok=okc, seconds=round(dtc, 1), scope=logc[:80])
        if not okc:
            proof_broken.append('leanchecker rejects Rivia.Props.C02: ' + logc[-500:])
    known_all = vlib.load_known(prop)
    known = {f['id']: f for f in known_all if f.get('status') == 'open'}
    if replay:
        H = [json.load(open(replay))['requests']]
        geninfo = dict(kind='replay')
    else:
        H, geninfo = gen(tier, rng)
        G = grid(tier, rng)
        geninfo['grid_histories'] = len(G)
        H = G + H
        # witnesses of the known findings (open and fixed) run first, as a corpus
        H = [f['witness_history'] for f in known_all if f.get('witness_history')] + H
    S = run_mode('stdfs', H)
    M = run_mode('memfs', H)
    import shutil
    shutil.rmtree('/verif/work/sbx', ignore_errors=True)      # the emptied chroot directories of the harness processes
    D = run_model(H) if okl else [[''] * len(h) for h in H]
    evaluations = judged = corr_steps = 0
    new_fail, corr_fail, hits, samples, seen, cls_hist, cuts = [], [], {}, [], set(), {}, {}
    for h, s, m, d in zip(H, S, M, D):
        pre = 'cwd=2f|2f:d:755:-:'
        mem_pre = None
        model_alive = True
        for i, (req, x, y, z) in enumerate(zip(h, s, m, d)):
            if req.startswith('new'):
                pre = 'cwd=2f|2f:d:755:-:'
                mem_pre = None
                continue
            evaluations += 1
            if ' ## ' not in x or ' ## ' not in y:
                break
            so, sd = x.split(' ## ', 1)
            mo = y.split(' ## ')[0]
            md = strip_abs(vlib.abs_of_dump(y))
            f = z.split('\t')
            lean_cls = f[2] if len(f) > 2 else '?'
            t0 = req.split(' ')
            outside = (not in_domain(pre, req)) or lean_cls == 'dom_arg' or (
                # the sandbox root stands in for '/': mutating it is outside the sandbox
                t0[0] in ('remove', 'remove_all', 'move_p', 'copy', 'symlink', 'chmod', 'mkfile_m', 'write_all', 'append_all', 'mkfile') and any(
                    a.startswith('x') and lexical(parse(pre)[0], bytes.fromhex(a[1:]).decode('utf8', 'replace')) == '2f' for a in t0[1:3]))
            if not outside and t0[0] in ('copy', 'copy_b') and vlib._copy_into_itself(req, 'x ## cwd ' + parse(pre)[0]):
                outside = True      # source and destination overlap: each backend reads entries the same call creates, in its own iteration order
                cuts['overlapping_copy'] = cuts.get('overlapping_copy', 0) + 1
            if outside:
                # not judged; the history continues only while the two real backends still hold the same tree
                cuts['outside_domain'] = cuts.get('outside_domain', 0) + 1
                if sd != md:
                    cuts['diverged_after_outside_step'] = cuts.get('diverged_after_outside_step', 0) + 1
                    break
                if model_alive and ' ## ' in f[0] and norm_cwd(strip_abs(f[0].split(' ## ', 1)[1])) != sd:
                    model_alive = False
                pre = sd
                mem_pre = vlib.abs_of_dump(y)
                continue
            # (1) correspondence: the real Stdfs against the Lean model of Stdfs over the kernel model
            if model_alive and ' ## ' in f[0]:
                zo, zd = f[0].split(' ## ', 1)
                zd = norm_cwd(strip_abs(zd))
                corr_steps += 1
                special = any(int(fz[2], 8) & 0o7000 for fz in parse(pre)[1].values())
                through_link = copy_touches_link(pre, req)
                if (zo == 'err Other' and lean_cls == 'uncovered') or special or through_link:
                    model_alive = False           # not modelled: entry / entries / handles; a copy that creates entries THROUGH a link (the kernel model does not follow intermediate links); setuid/setgid/sticky inheritance
                elif not (same_result(so, zo) and sd == zd):
                    if t0[0] in ('copy', 'copy_b') and vlib._copy_into_itself(req, 'x ## cwd ' + parse(pre)[0]):
                        model_alive = False
                    elif t0[0] in ('copy', 'copy_b') and so.startswith('err') and zo.startswith('err'):
                        # a tree copy that fails on both sides: which entries were written before the error depends on
                        # the directory iteration order (read_dir order vs the model's sorted order)
                        cuts['failed_copy_partial_effects'] = cuts.get('failed_copy_partial_effects', 0) + 1
                        model_alive = False
                    elif t0[0] == 'readlink' and sd == zd and so.startswith('ok s:') and zo.startswith('ok s:'):
                        # the kernel model keeps the key a link text denotes and re-spells the text on demand; after a rename
                        # the real text is the OLD spelling (same target, the observed trees agree): not asserted
                        cuts['model_scope_link_text'] = cuts.get('model_scope_link_text', 0) + 1
                    elif lean_cls == 'S8_move_links' and same_result(so, zo):
                        # moved links: the model re-derives targets from recomputed link texts; texts written by earlier
                        # renames (chains of moves) are not tracked exactly - outside the theorem's domain (S8), not asserted
                        cuts['model_scope_moved_links'] = cuts.get('model_scope_moved_links', 0) + 1
                        model_alive = False
                    else:
                        corr_fail.append(dict(history=h[:i + 1], stdfs=x[:1500], model=(zo + ' ## ' + zd)[:1500], cls=lean_cls))
                        model_alive = False
            # (2) the property: the two real backends against each other
            judged += 1
            seen.add(hash((pre, req)))
            same_out = same_result(so, mo)
            same_tree = sd == md
            if t0[0] in ('copy', 'copy_b') and so.startswith('err') and mo.startswith('err') and not same_tree:
                cuts['failed_copy_partial_effects'] = cuts.get('failed_copy_partial_effects', 0) + 1
                break       # both fail; the partial effects before the error are iteration-order dependent on each backend
            if not (same_out and same_tree):
                cls = lean_cls if lean_cls in LEAN_CLASSES else classify(req, so, mo, pre, mem_pre, sd, md)
                cls = {'S10_cwd_removed': 'cwd_removed'}.get(cls, cls)
                cls_hist[cls or 'unclassified'] = cls_hist.get(cls or 'unclassified', 0) + 1
                if cls and cls in known:
                    hits[cls] = hits.get(cls, 0) + 1
                else:
                    in_thm = lean_cls == '-'
                    new_fail.append(dict(history=h[:i + 1], why=('results differ' if not same_out else 'resulting trees differ') + (f' (class {cls} is not an open known finding)' if cls else '') +
                                         (' — inside the domain of C02_backends_agree_partial: the model or the C01 refinement no longer describes the code' if in_thm else ''),
                                         stdfs=x[:1500], memfs=mo + ' ## ' + md[:1500], cls=cls))
                break
            pre = sd
            mem_pre = vlib.abs_of_dump(y)
        if len(samples) < 4 and len(h) > 3:
            samples.append([vlib.pretty_req(r) for r in h[:8]])
    json.dump(dict(new_fail=new_fail[:3000], corr_fail=corr_fail[:3000]), open('/verif/work/c02_debug.json', 'w'), indent=1)
    # every open known finding is replayed through its witness (first histories): it must have been hit
    for fid, f in known.items():
        if fid in hits:
            V.known(fid, f['what_fails'])
        else:
            V.notes.append(f'known finding {fid} was not reproduced by this run (witness no longer diverges, or it lies outside the generated histories)')
    for i, nf in enumerate(new_fail[:3]):
        V.violation(f'fail{i}', dict(kind='property-violated', requests=nf['history'], pretty=[vlib.pretty_req(r) for r in nf['history']], why=nf['why'], stdfs=nf['stdfs'], memfs=nf['memfs'], cls=nf['cls']))
    if not new_fail and corr_fail:
        c = corr_fail[0]
        V.violation('correspondence', dict(kind='correspondence-broken', what='the real Stdfs and the Lean model of Stdfs (over the kernel model) disagree; no (pre-state, call) on which the two backends differ outside the known classes was found',
                                           correspondence='stdfs harness (sandbox + std::fs observer) vs Rivia.Model.Stdfs.step (Rivia.Props.C02)', requests=c['history'], pretty=[vlib.pretty_req(r) for r in c['history']],
                                           stdfs=c['stdfs'], model=c['model'], cls=c['cls'], mismatching_histories=len(corr_fail)), no_input=True)
    if not new_fail and not corr_fail and proof_broken:
        V.violation('proof', dict(kind='proof-broken', theorems=proof_broken), no_input=True)
    cov = dict(obligations=A['obligations'], discharged=A['discharged'], checker_cmd='cd /verif/lean && lake build Rivia.Props.C02 && lake env lean ../work/audit/C02.lean',
               trusted_base=['hand transcription Rust->Lean of src/sys/fs/stdfs/{mod,entry}.rs (Rivia/Model/Stdfs.lean) and the kernel model Rivia/Model/Posix.lean, both checked by the correspondence run against the real Stdfs in a sandbox directory',
                             'sandbox harness: independent observer using std::fs only (lstat / readlink / read)', 'Lean kernel', 'axioms: ' + ', '.join(sorted({a for v in A['axioms'].values() for a in v}) or ['none'])],
               theorems=A['theorems'], axioms=A['axioms'], proof_problems=proof_broken, leanchecker=lc, evaluations=evaluations, distinct_nontrivial=len(seen), judged_steps=judged,
               correspondence_steps=corr_steps, model_disagreements=len(corr_fail),
               rule='random histories over the shared alphabet (plus the witnesses of all recorded findings) run on the real Stdfs (sandbox), on the real Memfs and on the Lean Stdfs model; after every call: '
                    '(1) real Stdfs vs Lean Stdfs model: success-or-failure, returned value, observed tree; (2) real Stdfs vs real Memfs: the same three (names, kinds, bytes, link targets, permission bits), '
                    'as long as the pre-state and the arguments are inside the domain of the property (no intermediate symlink component, every symlink resolves to an existing non-link); '
                    'divergences are classified by the decidable domain of the theorem (driver column) and must be open known findings; distinct = distinct (pre-state, call) pairs',
               samples=samples, known_class_hits=hits, divergence_classes=cls_hist, skipped=cuts, spec_failures_new=len(new_fail), exhaustive=False, histories=len(H), generator=geninfo, notes=V.notes)
    return V.finish('proof', cov, assumptions)
