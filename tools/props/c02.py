"""C02 — Stdfs and Memfs are interchangeable: same calls, same results, same tree"""
import subprocess, json, random, re
import vlib, memfs_gen
from concurrent.futures import ThreadPoolExecutor

OPS = ['mkfile', 'mkfile_m', 'mkdir_p', 'mkdir_m', 'write_all', 'append_all', 'read_all', 'read_lines', 'read', 'remove', 'remove_all', 'symlink', 'readlink', 'readlink_abs',
       'set_cwd', 'cwd', 'abs', 'exists', 'is_file', 'is_dir', 'is_symlink', 'is_symlink_dir', 'is_symlink_file', 'is_exec', 'is_readonly', 'mode', 'paths', 'dirs', 'files',
       'all_paths', 'all_dirs', 'all_files', 'chmod', 'copy', 'move_p']


class G(memfs_gen.Gen):
    def garbage(self):
        return self.rng.choice(['', '.', 'a//b/./../b', '//', './a', 'a/', 'b/.', 'x' * 40, 'é/é'])

    def spell(self, p):
        r = self.rng.random()
        if r < 0.7 or p == '':
            return p
        if r < 0.85 and p.startswith(self.cwd.rstrip('/') + '/') and p != self.cwd:
            return p[len(self.cwd.rstrip('/')) + 1:]
        return p.replace('/', '//', 1) + self.rng.choice(['', '/', '/.'])


def gen(tier, rng):
    n, ln = (50, 25) if tier == 'quick' else (3000, 50)
    out = []
    for names, prof in ((['a', 'b'], 'mixed'), (['a', 'b', 'c'], 'tree'), (['a', 'b'], 'links')):
        g = G(rng, names=names, profile=prof)
        for _ in range(n):
            h = g.history(rng.randint(ln // 3, ln), env='eHOME=2f68')
            out.append([l for l in h if l.split(' ')[0] in OPS + ['new']])
    return out, dict(kind='random histories over the shared op alphabet, run on Stdfs (sandbox directory, independent std::fs observer) and on Memfs', histories=len(out), max_len=ln, exhaustive=False)


def run_mode(mode, hists):
    chunks = [hists[i::vlib.NCPU] for i in range(vlib.NCPU)]

    def one(c):
        return vlib._harness_sessions(mode, c, 20.0)
    res = [None] * len(hists)
    with ThreadPoolExecutor(max_workers=vlib.NCPU) as ex:
        for k, r in enumerate(ex.map(one, chunks)):
            for j, x in enumerate(r):
                res[k + j * vlib.NCPU] = x
    return res


def strip_abs(d):
    """memfs abs dump -> stdfs observer format (no owners, link kind collapsed)"""
    recs = d.split('|')
    out = [recs[0]]
    for r in recs[1:]:
        k, kind, perm, uid, gid, tgt, data = r.split(':')
        out.append(f'{k}:{kind[0]}:{perm}:{tgt}:{data}')
    return '|'.join(out)


def parse(d):
    recs = d.split('|')
    nodes = {}
    for r in recs[1:]:
        f = r.split(':')
        nodes[f[0]] = f
    return recs[0][4:], nodes


def lexical(cwd_hex, p):
    """lexically resolved key (hex) of an argument, or None when it is not a plain path"""
    if p == '' or '~' in p or '$' in p:
        return None
    cwd = bytes.fromhex(cwd_hex).decode()
    full = p if p.startswith('/') else cwd.rstrip('/') + '/' + p
    parts = []
    for c in full.split('/'):
        if c in ('', '.'):
            continue
        if c == '..':
            if not parts:
                return None
            parts.pop()
        else:
            parts.append(c)
    return ('/' + '/'.join(parts)).encode().hex()


def in_domain(pre, req):
    """the domain of the property: every symlink of the pre-state resolves to an existing non-link
    entry; no argument passes through a symlink as an intermediate component"""
    cwd, nodes = parse(pre)
    for k, f in nodes.items():
        if f[1] == 'l' and (f[3] not in nodes or nodes[f[3]][1] == 'l'):
            return False
    for a in req.split(' ')[1:]:
        if a.startswith('x') and req.split(' ')[0] not in ('write_all', 'append_all') or (a.startswith('x') and a is req.split(' ')[1]):
            try:
                p = bytes.fromhex(a[1:]).decode()
            except Exception:
                continue
            k = lexical(cwd, p)
            if k is None:
                return False
            comps = k[2:].split('2f') if k != '2f' else []
            for i in range(1, len(comps)):
                anc = '2f' + '2f'.join(comps[:i])
                if anc in nodes and nodes[anc][1] == 'l':
                    return False
    ck = cwd
    comps = ck[2:].split('2f') if ck != '2f' else []
    for i in range(1, len(comps) + 1):
        anc = '2f' + '2f'.join(comps[:i])
        if anc in nodes and nodes[anc][1] == 'l':
            return False
    return True


def classify(req, so, mo, pre):
    """known divergence classes (findings), by (pre-state, call)"""
    t = req.split(' ')
    op = t[0]
    cwd, nodes = parse(pre)
    k = None
    if len(t) > 1 and t[1].startswith('x'):
        try:
            k = lexical(cwd, bytes.fromhex(t[1][1:]).decode())
        except Exception:
            k = None
    kind = nodes[k][1] if k in nodes else None
    tk = nodes[nodes[k][3]][1] if kind == 'l' and nodes[k][3] in nodes else None
    if op == 'remove' and kind == 'l' and tk == 'd':
        return 'S1_remove_link_to_dir'
    if op in ('mkdir_m', 'mkdir_p') and kind in ('f', 'l'):
        return 'S2_mkdir_on_non_dir'
    if op == 'readlink_abs' and kind in ('f', 'd'):
        return 'S3_readlink_abs_non_link'
    if op == 'set_cwd' and kind == 'l':
        return 'S6_set_cwd_link'
    if op in ('chmod', 'mkfile_m') and (kind == 'l' or any(f[1] == 'l' and (f[0].startswith((k or '') + '2f') or k == '2f') for f in nodes.values())):
        return 'chmod_links'
    if op in ('mode', 'is_exec', 'is_readonly') and kind == 'l':
        return 'mode_of_link'
    if op in ('dirs', 'files', 'all_dirs', 'all_files', 'paths', 'all_paths') and kind == 'l':
        return 'listing_on_link'
    if op in ('copy', 'move_p'):
        return 'copy_move_divergence'
    if op in ('mkfile', 'write_all', 'append_all', 'read_all', 'read', 'read_lines', 'mkfile_m') and kind == 'l':
        return 'file_op_on_link'
    return None


def run(tier, seed, replay):
    prop = 'C02'
    V = vlib.Verdict(prop, tier, seed)
    rng = random.Random(seed)
    assumptions = ['POSIX semantics of this kernel / filesystem behind std::fs (observed, not modelled)', 'effective uid 0 only: permission enforcement is not exercised (Memfs enforces none)', 'umask 022',
                   'error kinds are not compared (the property compares success-or-failure and returned values)']
    okh, logh, dth = vlib.build_harness()
    if not okh:
        V.violation('build', dict(kind='build', log=logh), no_input=True)
        return V.finish('proof', dict(obligations=1, discharged=0, checker_cmd='cargo build', trusted_base=[], explanation='build failed'), assumptions)
    okl, logl, dtl = vlib.build_lean(['Rivia.Props.C02'])
    proof_broken = []
    if okl:
        A = vlib.audit('Rivia.Props.C02')
        if not A['ok']:
            proof_broken += A['problems']
    else:
        A = dict(ok=False, obligations=1, discharged=0, problems=[], axioms={}, theorems=[])
        proof_broken.append('lake build Rivia.Props.C02 failed: ' + logl[-1000:])
    if replay:
        H = [json.load(open(replay))['requests']]
    else:
        H, geninfo = gen(tier, rng)
    S = run_mode('stdfs', H)
    M = run_mode('memfs', H)
    known = {f['id']: f for f in vlib.load_known(prop) if f.get('status') == 'open'}
    evaluations = judged = 0
    new_fail, hits, samples, seen = [], {}, [], set()
    for h, s, m in zip(H, S, M):
        pre = 'cwd=2f|2f:d:755:-:'
        for i, (req, x, y) in enumerate(zip(h, s, m)):
            if req.startswith('new'):
                pre = 'cwd=2f|2f:d:755:-:'
                continue
            evaluations += 1
            if ' ## ' not in x or ' ## ' not in y:
                break
            so, sd = x.split(' ## ', 1)
            mo = y.split(' ## ')[0]
            md = strip_abs(vlib.abs_of_dump(y))
            if not in_domain(pre, req):
                break
            t0 = req.split(' ')
            if t0[0] in ('remove', 'remove_all', 'move_p', 'copy', 'symlink', 'chmod', 'mkfile_m', 'write_all', 'append_all', 'mkfile') and any(
                    a.startswith('x') and lexical(parse(pre)[0], bytes.fromhex(a[1:]).decode('utf8', 'replace')) == '2f' for a in t0[1:3]):
                break      # the sandbox root stands in for '/': mutating it is outside the sandbox
            judged += 1
            seen.add(hash((pre, req)))
            same_out = (so.startswith('ok') == mo.startswith('ok')) and (not so.startswith('ok') or so == mo)
            # permission bits of symlinks are not observable portably; compare everything else
            same_tree = sd == md
            if not (same_out and same_tree):
                cls = classify(req, so, mo, pre)
                if cls and cls in known:
                    hits[cls] = hits.get(cls, 0) + 1
                else:
                    new_fail.append(dict(history=h[:i + 1], why=('results differ' if not same_out else 'resulting trees differ') + (f' (class {cls} is not an open known finding)' if cls else ''),
                                         stdfs=x[:1500], memfs=mo + ' ## ' + md[:1500], cls=cls))
                break
            pre = sd
        if len(samples) < 4 and len(h) > 3:
            samples.append([vlib.pretty_req(r) for r in h[:8]])
    for fid, f in known.items():
        if fid in hits:
            V.known(fid, f['what_fails'])
    for i, nf in enumerate(new_fail[:3]):
        V.violation(f'fail{i}', dict(kind='property-violated', requests=nf['history'], pretty=[vlib.pretty_req(r) for r in nf['history']], why=nf['why'], stdfs=nf['stdfs'], memfs=nf['memfs'], cls=nf['cls']))
    if not new_fail and proof_broken:
        V.violation('proof', dict(kind='proof-broken', theorems=proof_broken), no_input=True)
    cov = dict(obligations=A['obligations'], discharged=A['discharged'], checker_cmd='cd /verif/lean && lake build Rivia.Props.C02 && lake env lean ../work/audit/C02.lean',
               trusted_base=['sandbox harness: Stdfs in a fresh directory, independent observer using std::fs only', 'Lean kernel', 'axioms: ' + ', '.join(sorted({a for v in A['axioms'].values() for a in v}) or ['none'])],
               theorems=A['theorems'], axioms=A['axioms'], proof_problems=proof_broken, evaluations=evaluations, distinct_nontrivial=len(seen), judged_steps=judged,
               rule='random histories over the shared alphabet run on both backends; after every call: success-or-failure, returned value and the observed tree (names, kinds, bytes, link targets, permission bits) must agree, '
                    'as long as the pre-state and the arguments are inside the domain of the property (no intermediate symlink component, every symlink resolves to an existing non-link); distinct = distinct (pre-state, call) pairs',
               samples=samples, known_class_hits=hits, spec_failures_new=len(new_fail), exhaustive=False, histories=len(H))
    return V.finish('proof', cov, assumptions)
