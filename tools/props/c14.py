"""C14 — clean() = Go's path.Clean"""
import vlib

ALPHA = '/.ab'
WIDE = ['/', '.', 'a', 'b', 'é', '~', ' ', '..', '//', '漢', '😀', '$', ':', 'ab.c']


def gen(tier, rng):
    n = 8 if tier == 'quick' else 11
    lines = ['clean ' + vlib.hx(s) for s in vlib.all_strings(ALPHA, n)]
    # component-level exhaustive: every sequence of components over {.., ., a, b, ''} (relative and rooted)
    import itertools
    ncomp = 6 if tier == 'quick' else 8
    seen = set(l for l in lines)
    for k in range(1, ncomp + 1):
        for cs in itertools.product(['..', '.', 'a', 'b', ''], repeat=k):
            for lead in ('', '/'):
                l = 'clean ' + vlib.hx(lead + '/'.join(cs))
                if l not in seen:
                    seen.add(l)
                    lines.append(l)
    nrand = 20000 if tier == 'quick' else 200000
    for _ in range(nrand):
        k = rng.randint(1, 14)
        lines.append('clean ' + vlib.hx(''.join(rng.choice(WIDE) for _ in range(k))))
    return lines, dict(kind='exhaustive+random', alphabet=ALPHA, max_len=n, exhaustive=True,
                       exhaustive_count=(4 ** (n + 1) - 1) // 3, component_sequences_up_to=ncomp, random=nrand, random_alphabet=WIDE)


def nontrivial(req, impl):
    # non-trivial = cleaning changes the string
    a = req.split(' ')[1][1:]
    return impl != 'ok s:' + a


SPEC = dict(
    prop='C14', lean_mod='Rivia.Props.C14', mode='pathfn', gen=gen, nontrivial=nontrivial,
    rule="all strings over {/,.,a,b} up to the tier's length bound, in order, every sequence of up to 6 (quick) / 8 (thorough) components over {.., ., a, b, empty} relative and rooted, plus seeded random strings over a wider alphabet "
         "(multi-byte, '~', '$', spaces); a case is non-trivial when clean() changes the string; distinct = distinct request",
    assumptions=['std::path::Components / PathBuf::push / pop behave as transcribed in Rivia/Model/Path.lean (validated by this run, not proved)',
                 'paths are valid UTF-8'],
    trusted_base=['hand transcription Rust->Lean of sys::clean (checked by the correspondence run)', 'Rust harness + Python driver'],
)


def run(tier, seed, replay):
    return vlib.generic_check(SPEC, tier, seed, replay)
