"""C10 — symlinks record their target faithfully and are never mistaken for the target"""
import vlib, memfs_gen
from props import c01


def gen(tier, rng):
    n, ln = (400, 40) if tier == 'quick' else (8000, 60)
    H = memfs_gen.histories(rng, n, ln, 'links') + memfs_gen.histories(rng, n // 2, ln, 'links', names=['a', 'b'])
    # every (link position, target position) pair in a tree of depth <= 3 over 2 names, absolute and relative target spelling
    import itertools
    pos = ['/' + '/'.join(t) for k in (1, 2, 3) for t in itertools.product(['a', 'b'], repeat=k)]
    pre = ['new eHOME=2f68', 'mkdir_p ' + vlib.hx('/a/a'), 'mkdir_p ' + vlib.hx('/b/a'), 'mkfile ' + vlib.hx('/a/b'), 'mkfile ' + vlib.hx('/b/b')]
    rels = ['../a', '../../b', 'b', '.', '..', 'a/b', '../b/b']
    k = 0
    for l in pos:
        for t in pos + rels + ['/', '/zz']:
            if tier == 'quick' and (k % 3):
                k += 1
                continue
            k += 1
            H.append(pre + [f'symlink {vlib.hx(l)} {vlib.hx(t)}', f'readlink_abs {vlib.hx(l)}', f'readlink {vlib.hx(l)}', f'is_symlink {vlib.hx(l)}', f'is_file {vlib.hx(l)}', f'is_dir {vlib.hx(l)}',
                            f'is_symlink_dir {vlib.hx(l)}', f'is_symlink_file {vlib.hx(l)}', f'entry {vlib.hx(l)}', f'chmod {vlib.hx(l)} 700', f'chown {vlib.hx(l)} 5 6', f'remove {vlib.hx(l)}', f'exists {vlib.hx(t)}'])
    return H, dict(kind='random link-heavy histories + all (link position, target) pairs over 2 names depth 3 (both spellings), each followed by the query/remove/chmod/chown battery', histories=len(H), exhaustive=True)


def judge(req, impl, f, prev):
    j = c01.judge(req, impl, f, prev)
    if j:
        return j
    op = req.split(' ')[0]
    io = impl.split(' ## ')[0]
    if op == 'readlink' and io.startswith('ok s:2f'):
        return ('a relative path', 'readlink returned an absolute path (the link points to its own directory)', 'link_to_own_dir')
    return None


SPEC = dict(
    prop='C10', lean_mod='Rivia.Props.C10', gen=gen, judge=judge,
    foreign_classes=('chmod_zero', 'empty_lines_noop', 'listing_includes_links', 'sym_kind_specific_clauses', 'sym_malformed'),
    rule='all (link position, target position) pairs in a tree of depth 3 over 2 names with absolute and relative target spellings, existing / missing / root targets, each followed by '
         'readlink_abs, readlink, the kind queries, entry, chmod, chown, remove; plus link-heavy random histories. Judge = reference tree filesystem (link target = abs of the target resolved against dir(link), '
         'readlink navigates, link exclusion, remove/chmod/chown act on the link) + readlink is relative. distinct = distinct (pre-state, call) pairs',
    assumptions=['Memfs only; the Stdfs side of C10 is covered by C02 when claimed'],
    trusted_base=['hand transcription Rust->Lean of the Memfs backend (checked by the correspondence run)', 'reference tree filesystem Rivia/Spec/TreeFs.lean', 'Rust harness + Python driver'],
)


def run(tier, seed, replay):
    return vlib.memfs_check(SPEC, tier, seed, replay)
