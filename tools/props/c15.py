"""C15 — path helpers obey their inverse and containment laws on all UTF-8 input"""
import vlib

A1 = ['/', '.', 'a', 'é', '漢', 'b']          # general alphabet: separator, dot, 1-, 2-, 3-byte chars
FN1 = ['base', 'first', 'name', 'law_trim_ext', 'dir_c', 'trim_first_c', 'trim_last_c', 'is_empty', 'ext', 'trim_ext']
FN2 = ['mash', 'trim_prefix', 'trim_suffix', 'has', 'has_prefix', 'has_suffix', 'concat']
PROTO_TOKS = ['file:', 'FTP:', 'http:', 'https:', 'Http:', 'fIle:', '/', '//', 'a', 'f', 's:', ':', 'é']
PP = [':', 'a', '/', 'é']


def gen(tier, rng):
    n1, n2a, n2b = (5, 3, 3) if tier == 'quick' else (7, 4, 3)
    S1 = list(vlib.all_strings(A1, n1))
    S2a = list(vlib.all_strings(A1, n2a))
    S2b = list(vlib.all_strings(A1, n2b))
    lines = []
    for f in FN1:
        lines += [f'{f} {vlib.hx(s)}' for s in S1]
    for f in FN2:
        for s in S2a:
            for t in S2b:
                lines.append(f'{f} {vlib.hx(s)} {vlib.hx(t)}')
        # the inverse laws need prefix/suffix-related pairs: s+p with s
        if f in ('trim_prefix', 'has_prefix', 'has'):
            lines += [f'{f} {vlib.hx(t + s)} {vlib.hx(t)}' for s in S2b for t in S2b]
        if f in ('trim_suffix', 'has_suffix', 'has'):
            lines += [f'{f} {vlib.hx(s + t)} {vlib.hx(t)}' for s in S2b for t in S2b]
    import itertools
    kp = 3 if tier == 'quick' else 4
    for k in range(kp + 1):
        for t in itertools.product(PROTO_TOKS, repeat=k):
            lines.append('trim_protocol ' + vlib.hx(''.join(t)))
    for s in vlib.all_strings(PP, 6 if tier == 'quick' else 8):
        lines.append('parse_paths ' + vlib.hx(s))
    nrand = 20000 if tier == 'quick' else 300000
    wide = A1 + ['..', '//', '😀', '~', ' ', '.txt', 'ab']
    for _ in range(nrand):
        f = rng.choice(FN1 + FN2 + ['trim_protocol', 'parse_paths'])
        a = ''.join(rng.choice(wide) for _ in range(rng.randint(0, 12)))
        if f in FN2:
            b = ''.join(rng.choice(wide) for _ in range(rng.randint(0, 5)))
            if rng.random() < 0.5:
                a = b + a if rng.random() < 0.5 else a + b
            lines.append(f'{f} {vlib.hx(a)} {vlib.hx(b)}')
        else:
            lines.append(f'{f} {vlib.hx(a)}')
    return lines, dict(kind='exhaustive+random', alphabet=A1, unary_max_len=n1, binary_max_len=[n2a, n2b], exhaustive=True, random=nrand)


def nontrivial(req, impl):
    # non-trivial: the helper does something (result differs from its first argument / is true / is an error)
    t = req.split(' ')
    return impl not in ('ok s:' + t[1][1:], 'ok b:0')


SPEC = dict(
    prop='C15', lean_mod='Rivia.Props.C15', mode='pathfn', gen=gen, nontrivial=nontrivial,
    rule="every helper on all strings over {/,.,a,é,漢,b} up to the tier's bound (unary) / all pairs (binary), plus derived pairs (s+p, s) for the inverse laws, "
         "all token sequences for trim_protocol, all strings over {:,a,/,é} for parse_paths, plus seeded random longer strings; "
         "non-trivial = the helper changes its argument / answers true / fails",
    assumptions=['std::path::Components, Path::parent/extension/file_name, str slicing semantics as transcribed (validated by this run)',
                 'to_lowercase modelled as ASCII lower-casing (no non-ASCII scalar lower-cases into a scheme name)', 'paths are valid UTF-8'],
    trusted_base=['hand transcription Rust->Lean of the helpers in src/sys/fs/path.rs (checked by the correspondence run)', 'Rust harness + Python driver'],
)


def run(tier, seed, replay):
    return vlib.generic_check(SPEC, tier, seed, replay)
