"""C03 — Memfs namespace stays a well-formed tree after any history, even failed calls"""
import vlib, memfs_gen


def gen(tier, rng):
    n, ln = (400, 40) if tier == 'quick' else (8000, 60)
    H = memfs_gen.histories(rng, n, ln, 'mixed') + memfs_gen.histories(rng, n // 2, ln, 'tree') + memfs_gen.histories(rng, n // 2, ln, 'links')
    H += memfs_gen.histories(rng, n, ln, 'tree', names=['a', 'b'])
    # abusive stream: mostly garbage arguments, ops on / and on the (possibly removed) cwd
    g = memfs_gen.Gen(rng, profile='mixed')
    g.garbage_rate = 0.6
    for _ in range(n // 2):
        H.append(g.history(ln))
    return H, dict(kind='seeded random histories + abusive stream', histories=len(H), max_len=ln, exhaustive=False)


def judge(req, impl, f, prev):
    inv = f[3] if len(f) > 3 else 'inv-ok'
    if inv != 'inv-ok':
        return ('inv-ok', 'tree invariant broken after this call: ' + inv)
    if ' ## ' in impl and 'poisoned' not in impl:
        v = vlib.inv_of_dump(impl)        # the same predicate on the implementation's own dump
        if v:
            return ('inv-ok', 'tree invariant broken after this call (implementation state): ' + v)
    return None


SPEC = dict(
    prop='C03', lean_mod='Rivia.Props.C03,Rivia.Props.C03A,Rivia.Props.C03B,Rivia.Props.C03C', gen=gen, judge=judge,
    rule='seeded random histories incl. invalid and failing calls and an abusive stream (garbage arguments, ops on / and on a removed cwd); after EVERY call the implementation state dump '
         '(= model state, checked) is fed to the Lean invariant `Spec.invViolation` (the proved predicate used as a runtime monitor); distinct = distinct (pre-state, call) pairs',
    assumptions=['HashMap/HashSet as finite maps/sets with unspecified order'],
    trusted_base=['hand transcription Rust->Lean of the Memfs backend (checked by the correspondence run: result + complete state dump after every call)',
                  'verif::memfs_dump hook prints the whole internal state', 'Rust harness + Python driver'],
)


def run(tier, seed, replay):
    return vlib.memfs_check(SPEC, tier, seed, replay)
