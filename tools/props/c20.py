"""C20 — the assert_vfs_* macros are sound and complete test oracles"""
import itertools
import vlib, memfs_gen

CHECK1 = ['exists', 'no_exists', 'is_dir', 'no_dir', 'is_file', 'no_file', 'is_symlink', 'no_symlink']
ACT1 = ['mkdir_p', 'mkfile', 'remove', 'remove_all']
PATHS = ['/a', '/b', '/a/a', '/a/b', '/b/a', '/l', '/lf', '/a/l', '/c', '/', 'a', '../b', '/a//b/', '']
DATAS = ['', 'x', 'old', 'é\n']


def trees(rng):
    T = [
        [],
        ['mkdir_p ' + vlib.hx('/a/a'), 'write_all ' + vlib.hx('/a/b') + ' ' + vlib.hx('old'), 'write_all ' + vlib.hx('/b') + ' ' + vlib.hx('x'), 'symlink ' + vlib.hx('/l') + ' ' + vlib.hx('/a'),
         'symlink ' + vlib.hx('/lf') + ' ' + vlib.hx('/b'), 'symlink ' + vlib.hx('/a/l') + ' ' + vlib.hx('/c')],
        ['mkdir_m ' + vlib.hx('/a') + ' 700', 'mkdir_p ' + vlib.hx('/b/a'), 'write_all ' + vlib.hx('/c') + ' ' + vlib.hx('é\n'), 'set_cwd ' + vlib.hx('/b'), 'symlink ' + vlib.hx('/l') + ' ' + vlib.hx('/c')],
    ]
    return T


def gen(tier, rng):
    H = []
    for tr in trees(rng):
        calls = []
        for p in PATHS:
            for m in CHECK1 + ACT1:
                calls.append(f'assert {m} {vlib.hx(p)}')
            for d in DATAS:
                calls.append(f'assert read_all {vlib.hx(p)} {vlib.hx(d)}')
                calls.append(f'assert write_all {vlib.hx(p)} {vlib.hx(d)}')
            for t in ['/a', 'a', '/c', '/x/c', '/b', '../a', 'b']:
                calls.append(f'assert readlink {vlib.hx(p)} {vlib.hx(t)}')
                calls.append(f'assert readlink_abs {vlib.hx(p)} {vlib.hx(t)}')
                calls.append(f'assert symlink {vlib.hx(p)} {vlib.hx(t)}')
                calls.append(f'assert copyfile {vlib.hx(p)} {vlib.hx(t)}')
            for mo in ['755', '700', '0']:
                calls.append(f'assert mkdir_m {vlib.hx(p)} {mo}')
        if tier == 'quick':
            calls = rng.sample(calls, 400)
        # every macro call on the same tree: each call in its own history (acting macros change the state)
        for c in calls:
            H.append(['new eHOME=2f68'] + tr + [c, 'all_paths ' + vlib.hx('/')])
    n = 100 if tier == 'quick' else 3000
    g = memfs_gen.Gen(rng, names=['a', 'b'])
    for _ in range(n):
        h = g.history(rng.randint(5, 25))
        for _k in range(6):
            m = rng.choice(CHECK1 + ACT1)
            h.append(f'assert {m} {vlib.hx(g.path())}')
        H.append(h)
    return H, dict(kind='every macro on every path of the bounded namespace on three trees (files, dirs, links, cwd) + random states of the C01 generator', histories=len(H), exhaustive=(tier != 'quick'))


def judge(req, impl, f, prev):
    t = req.split(' ')
    if t[0] != 'assert':
        return None
    io = impl.split(' ## ')[0]
    if '|nopath' in io:
        cls = 'readlink_msg_names_target' if t[1] in ('readlink', 'readlink_abs') else None
        return ('message names the path', 'the panic message does not contain the path the macro was called with', cls)
    if io.startswith('ok panic|') and not io.startswith('ok panic|assert_vfs_' + t[1] + '!'):
        return ('panic|assert_vfs_' + t[1] + '!', 'the panic message names another macro', 'is_symlink_wrong_name' if t[1] == 'is_symlink' else None)
    sp = f[1] if len(f) > 1 else '-'
    cls = f[2] if len(f) > 2 and f[2] != '-' else None
    if sp != '-':
        want, wtree = sp.split(' ## ')
        got = 'ok pass' if io == 'ok pass' else 'ok panic'
        if want != got:
            return (want, 'the macro ' + ('passes although its documented predicate/postcondition is false' if got == 'ok pass' else 'panics although its documented predicate/postcondition holds'), cls)
        if wtree != '*' and ' ## ' in impl and vlib.abs_of_dump(impl) != wtree:
            return (wtree, 'the state after the macro is not the state its documentation prescribes (checking macros: unchanged; acting macros: the state after the operation)', cls)
    return None


SPEC = dict(
    prop='C20', lean_mod='Rivia.Props.C20', gen=gen, judge=judge, continue_after_known=True,
    pure_ops=('assert',),
    rule='every assert_vfs_* macro x every path of the bounded namespace (absolute, relative, unclean, empty) x data/target/mode arguments on three trees, each call in its own history (the macros act); plus macros on random reachable states. '
         'Compared with the Lean transcription of the macro bodies (pass / panic, macro name and message text, resulting state) and judged against the documented predicate/postcondition (Spec.macroSpec). distinct = distinct (pre-state, call) pairs',
    assumptions=['Memfs only (the macros are generic over the Vfs; the Stdfs side inherits C02)', 'panic message: the macro name and the first line of the text are compared, and that it contains the path'],
    trusted_base=['hand transcription Rust->Lean of src/testing/assert.rs (checked by the correspondence run)', 'Rust harness (catch_unwind + panic hook) + Python driver'],
)


def run(tier, seed, replay):
    return vlib.memfs_check(SPEC, tier, seed, replay)
