"""C20 — the assert_vfs_* macros are sound and complete test oracles"""
import itertools
import vlib, memfs_gen

CHECK1 = ['exists', 'no_exists', 'is_dir', 'no_dir', 'is_file', 'no_file', 'is_symlink', 'no_symlink']
ACT1 = ['mkdir_p', 'mkfile', 'remove', 'remove_all']
PATHS = ['/a', '/b', '/a/a', '/a/b', '/b/a', '/l', '/lf', '/a/l', '/c', '/', 'a', '../b', '/a//b/', '']
DATAS = ['', 'x', 'old', 'é\n']


def trees(rng):
    T = [
        [],
        ['mkdir_p ' + vlib.hx('/a/a'), 'write_all ' + vlib.hx('/a/b') + ' ' + vlib.hx('old'), 'write_all ' + vlib.hx('/b') + ' ' + vlib.hx('x'), 'symlink ' + vlib.hx('/l') + ' ' + vlib.hx('/a'),
         'symlink ' + vlib.hx('/lf') + ' ' + vlib.hx('/b'), 'symlink ' + vlib.hx('/a/l') + ' ' + vlib.hx('/c')],
        ['mkdir_m ' + vlib.hx('/a') + ' 700', 'mkdir_p ' + vlib.hx('/b/a'), 'write_all ' + vlib.hx('/c') + ' ' + vlib.hx('é\n'), 'set_cwd ' + vlib.hx('/b'), 'symlink ' + vlib.hx('/l') + ' ' + vlib.hx('/c')],
    ]
    return T


def gen(tier, rng):
    H = []
    for tr in trees(rng):
        calls = []
        for p in PATHS:
            for m in CHECK1 + ACT1:
                calls.append(f'assert {m} {vlib.hx(p)}')
            for d in DATAS:
                calls.append(f'assert read_all {vlib.hx(p)} {vlib.hx(d)}')
                calls.append(f'assert write_all {vlib.hx(p)} {vlib.hx(d)}')
            for t in ['/a', 'a', '/c', '/x/c', '/b', '../a', 'b']:
                calls.append(f'assert readlink {vlib.hx(p)} {vlib.hx(t)}')
                calls.append(f'assert readlink_abs {vlib.hx(p)} {vlib.hx(t)}')
                calls.append(f'assert symlink {vlib.hx(p)} {vlib.hx(t)}')
                calls.append(f'assert copyfile {vlib.hx(p)} {vlib.hx(t)}')
            for mo in ['755', '700', '0']:
                calls.append(f'assert mkdir_m {vlib.hx(p)} {mo}')
        if tier == 'quick':
            calls = rng.sample(calls, 400)
        # every macro call on the same tree: each call in its own history (acting macros change the state)
        for c in calls:
            H.append(['new eHOME=2f68'] + tr + [c, 'all_paths ' + vlib.hx('/')])
    n = 100 if tier == 'quick' else 3000
    g = memfs_gen.Gen(rng, names=['a', 'b'])
    for _ in range(n):
        h = g.history(rng.randint(5, 25))
        for _k in range(6):
            m = rng.choice(CHECK1 + ACT1)
            h.append(f'assert {m} {vlib.hx(g.path())}')
        H.append(h)
    return H, dict(kind='every macro on every path of the bounded namespace on three trees (files, dirs, links, cwd) + random states of the C01 generator', histories=len(H), exhaustive=(tier != 'quick'))


def judge(req, impl, f, prev):
    t = req.split(' ')
    if t[0] != 'assert':
        return None
    io = impl.split(' ## ')[0]
    if '|nopath' in io:
        cls = 'readlink_msg_names_target' if t[1] in ('readlink', 'readlink_abs') else None
        return ('message names the path', 'the panic message does not contain the path the macro was called with', cls)
    if io.startswith('ok panic|') and not io.startswith('ok panic|assert_vfs_' + t[1] + '!'):
        return ('panic|assert_vfs_' + t[1] + '!', 'the panic message names another macro', 'is_symlink_wrong_name' if t[1] == 'is_symlink' else None)
    sp = f[1] if len(f) > 1 else '-'
    cls = f[2] if len(f) > 2 and f[2] != '-' else None
    if sp != '-':
        want, wtree = sp.split(' ## ')
        got = 'ok pass' if io == 'ok pass' else 'ok panic'
        if want != got:
            return (want, 'the macro ' + ('passes although its documented predicate/postcondition is false' if got == 'ok pass' else 'panics although its documented predicate/postcondition holds'), cls)
        if wtree != '*' and ' ## ' in impl and vlib.abs_of_dump(impl) != wtree:
            return (wtree, 'the state after the macro is not the state its documentation prescribes (checking macros: unchanged; acting macros: the state after the operation)', cls)
    return None


SPEC = dict(
    prop='C20', lean_mod='Rivia.Props.C20', gen=gen, judge=judge, continue_after_known=True,
    pure_ops=('assert',),
    rule='every assert_vfs_* macro x every path of the bounded namespace (absolute, relative, unclean, empty) x data/target/mode arguments on three trees, each call in its own history (the macros act); plus macros on random reachable states. '
         'Compared with the Lean transcription of the macro bodies (pass / panic, macro name and message text, resulting state) and judged against the documented predicate/postcondition (Spec.macroSpec). distinct = distinct (pre-state, call) pairs',
    assumptions=['Memfs only (the macros are generic over the Vfs; the Stdfs side inherits C02)', 'panic message: the macro name and the first line of the text are compared, and that it contains the path'],
    trusted_base=['hand transcription Rust->Lean of src/testing/assert.rs (checked by the correspondence run)', 'Rust harness (catch_unwind + panic hook) + Python driver'],
)


def both_backends(tier, rng):
    """the macro battery on the real Stdfs (chroot sandbox) and on Memfs: same pass / panic, same macro name and
    message text, same observed tree - as far as the (pre-state, call) lies in the domain of C02"""
    from props import c02
    H0, _ = gen(tier, rng)
    H = [h for h in H0 if h[-1].startswith('all_paths') and h[-2].startswith('assert ')]     # the tree x call battery
    if tier == 'quick':
        H = H[::2]
    S = c02.run_mode('stdfs', H)
    M = c02.run_mode('memfs', H)
    import shutil
    shutil.rmtree('/verif/work/sbx', ignore_errors=True)
    known = {f['id'] for f in vlib.load_known('C02') if f.get('status') == 'open'}
    bad, judged, skipped, tolerated = [], 0, 0, {}
    for h, s, m in zip(H, S, M):
        pre = 'cwd=2f|2f:d:755:-:'
        mem_pre = None
        for i, (req, x, y) in enumerate(zip(h, s, m)):
            if req.startswith('new'):
                continue
            if ' ## ' not in x or ' ## ' not in y:
                break
            so, sd = x.split(' ## ', 1)
            mo = y.split(' ## ')[0].replace('|nopath', '')
            md = c02.strip_abs(vlib.abs_of_dump(y))
            if req.startswith('assert '):
                t = req.split(' ')
                # the domain of C02, tested on the call the macro makes with the same path arguments
                probe = ' '.join(['exists'] + [a for a in t[2:] if a.startswith('x')][:1])
                if t[1] in ('remove', 'remove_all', 'mkfile', 'write_all', 'symlink', 'copyfile') and c02.lexical(c02.parse(pre)[0], bytes.fromhex(t[2][1:]).decode('utf8', 'replace')) == '2f':
                    skipped += 1      # the sandbox root stands in for '/': mutating it is outside the sandbox
                    break
                if not c02.in_domain(pre, probe) or (len(t) > 3 and t[1] in ('readlink_abs', 'symlink', 'copyfile') and not c02.in_domain(pre, 'exists ' + t[3])):
                    skipped += 1
                    break
                if t[1] == 'symlink' and len(t) > 3:
                    # a link to a missing target leaves the domain of C02 (dangling link) in the middle of the macro
                    cwd_, nodes_ = c02.parse(pre)
                    try:
                        lp, tg = bytes.fromhex(t[2][1:]).decode(), bytes.fromhex(t[3][1:]).decode()
                        lk = c02.lexical(cwd_, lp)
                        base = bytes.fromhex(lk).decode().rsplit('/', 1)[0] or '/' if lk else '/'
                        tk = c02.lexical(base.encode().hex(), tg) if not tg.startswith('/') else c02.lexical(cwd_, tg)
                    except Exception:
                        tk = None
                    if tk is None or tk not in nodes_ or nodes_[tk][1] == 'l':
                        skipped += 1
                        break
                judged += 1
                if so != mo or sd != md:
                    op = {'mkdir_m': 'mkdir_m', 'mkdir_p': 'mkdir_p', 'mkfile': 'mkfile', 'write_all': 'write_all', 'copyfile': 'copy', 'symlink': 'symlink', 'remove': 'remove', 'remove_all': 'remove_all'}.get(t[1], 'exists')
                    cls = c02.classify(' '.join([op] + t[2:]), so, mo, pre, mem_pre, sd, md)
                    if cls in known:
                        tolerated[cls] = tolerated.get(cls, 0) + 1
                    else:
                        bad.append(dict(kind='property-violated', requests=h[:i + 1], pretty=[vlib.pretty_req(r) for r in h[:i + 1]], observed='Stdfs: ' + x[:600], expected_by_spec='Memfs: ' + mo + ' ## ' + md[:600],
                                        why='the macro behaves differently on the two backends (outcome, message or resulting tree) inside the domain of C02' + (f' (class {cls} is not an open C02 finding)' if cls else '')))
                    break
            elif sd != md:
                break
            pre, mem_pre = sd, vlib.abs_of_dump(y)
    return dict(stdfs_macro_calls_judged=judged, stdfs_macro_calls_outside_c02_domain=skipped, stdfs_vs_memfs_macro_divergences=len(bad), stdfs_macro_divergences_in_c02_classes=tolerated), bad


def run(tier, seed, replay):
    import random
    vlib.build_harness()
    if not replay:
        extra, bad = both_backends(tier, random.Random(seed))
        SPEC['extra_cov'] = extra
        SPEC['extra_fail'] = bad
    return vlib.memfs_check(SPEC, tier, seed, replay)
