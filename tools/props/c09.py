"""C09 — copy duplicates and move_p relocates a subtree without loss or collateral change"""
import itertools
import vlib, memfs_gen
from props import c01


def parse_abs(d):
    """abs dump -> (cwd, {key: (kind, perm, uid, gid, target, data)})"""
    recs = d.split('|')
    cwd = recs[0][4:]
    nodes = {}
    for r in recs[1:]:
        k, kind, perm, uid, gid, tgt, data = r.split(':')
        nodes[k] = (kind, perm, uid, gid, tgt, data)
    return cwd, nodes


def under(k, root):
    return k == root or (root == '2f' and k != '2f') or k.startswith(root + '2f')


def rel(k, root):
    if k == root:
        return ''
    return k[len(root):] if root != '2f' else '2f' + k[2:] if False else (k[len(root):] if root != '2f' else '2f' + k[2:])


def join(root, r):
    if r == '':
        return root
    if root == '2f':
        return r if r.startswith('2f') else '2f' + r
    return root + r


def copy_judge(req, impl, prev):
    """property predicate for a successful no-follow copy, evaluated on the implementation's own
    abstract dumps before and after"""
    t = req.split(' ')
    op = t[0]
    io = impl.split(' ## ')[0]
    if not io.startswith('ok') or not prev or ' ## ' not in prev:
        return None
    if op == 'copy_b' and t[5] == '1':
        return None                       # follow: not covered by the predicate
    mode, which = (None, 'a') if op == 'copy' or t[3] == '-' else (t[3], t[4])
    _, pre = parse_abs(vlib.abs_of_dump(prev))
    cwd, post = parse_abs(vlib.abs_of_dump(impl))
    # resolve src/dst with the implementation's own abs? -> keys are found by matching: use clean absolute arguments only
    try:
        s = bytes.fromhex(t[1][1:]).decode()
        d = bytes.fromhex(t[2][1:]).decode()
    except Exception:
        return None
    import re
    ok = lambda p: p == '/' or re.fullmatch(r'(/[^/~$.:]+)+', p) is not None
    if not ok(s) or not ok(d):
        return None                       # only canonical spellings are judged here (spellings are C05's business)
    sk, dk = s.encode().hex(), d.encode().hex()
    if sk == dk or sk not in pre:
        return None
    if pre[sk][0].startswith('l'):
        root = dk if not (dk in pre and pre[dk][0] == 'd') else join(dk, '2f' + sk.split('2f')[-1])
    else:
        root = join(dk, '2f' + sk.split('2f')[-1]) if (dk in pre and pre[dk][0] == 'd') else dk
    if under(root, sk) or under(sk, root):
        return None                       # destination inside the source (or vice versa): not pinned down
    applies_d = mode is not None and which in ('a', 'd')
    applies_f = mode is not None and which in ('a', 'f')
    for k, n in pre.items():
        if under(k, sk):
            if post.get(k) != n:
                return ('source unchanged', f'copy changed the source entry {bytes.fromhex(k).decode()}')
            dstk = join(root, k[len(sk):] if sk != '2f' else k)
            m = post.get(dstk)
            if m is None:
                return ('copied entry present', f'entry {bytes.fromhex(k).decode()} was not copied to {bytes.fromhex(dstk).decode()}')
            if m[0][0] != n[0][0] and not (dstk in pre):
                return ('same kind', f'copied entry {bytes.fromhex(dstk).decode()} has another kind')
            if n[0] == 'f' and m[0] == 'f' and m[5] != n[5]:
                return ('same content', f'copied file {bytes.fromhex(dstk).decode()} has other content')
            if dstk not in pre:
                if n[0].startswith('l') and m[4] != n[4]:
                    return ('same link target', f'copied link {bytes.fromhex(dstk).decode()} has another target')
                want = n[1]
                if n[0] == 'd' and applies_d:
                    want = '%o' % int(mode, 8)
                if n[0] == 'f' and applies_f:
                    want = '%o' % int(mode, 8)
                if not n[0].startswith('l') and m[1] != want and int(mode or '1', 8) != 0:
                    return ('mode ' + want, f'new entry {bytes.fromhex(dstk).decode()} has mode {m[1]}')
    for k, n in pre.items():
        if not under(k, root) and post.get(k) != n:
            # ancestors of root may be created, never changed
            return ('unchanged outside the destination', f'copy changed {bytes.fromhex(k).decode()} outside the destination')
    for k in post:
        if k not in pre and not under(k, root) and not under(root, k):
            return ('nothing new outside the destination', f'copy created {bytes.fromhex(k).decode()} outside the destination')
    return None


def gen(tier, rng):
    n, ln = (300, 40) if tier == 'quick' else (6000, 60)
    H = memfs_gen.histories(rng, n, ln, 'tree') + memfs_gen.histories(rng, n, ln, 'tree', names=['a', 'b'])
    # all ordered pairs of paths in the namespace {a,b} x depth 2 on a few fixed trees, every Copier option combination
    paths = ['/a', '/b', '/a/a', '/a/b', '/b/a', '/b/b', '/c']
    trees = [
        ['mkdir_p ' + vlib.hx('/a/a'), 'write_all ' + vlib.hx('/a/b') + ' ' + vlib.hx('x'), 'mkfile_m ' + vlib.hx('/b') + ' 600'],
        ['mkdir_m ' + vlib.hx('/a') + ' 700', 'write_all ' + vlib.hx('/a/a') + ' ' + vlib.hx('é'), 'symlink ' + vlib.hx('/a/b') + ' ' + vlib.hx('/a/a'), 'mkdir_p ' + vlib.hx('/b/a')],
        ['mkdir_p ' + vlib.hx('/a/b'), 'mkdir_p ' + vlib.hx('/b/b'), 'write_all ' + vlib.hx('/b/a') + ' ' + vlib.hx('1'), 'symlink ' + vlib.hx('/c') + ' ' + vlib.hx('/a')],
    ]
    opts = [('-', 'a'), ('700', 'a'), ('444', 'd'), ('600', 'f')]
    k = 0
    for tr in trees:
        for s, d in itertools.product(paths, repeat=2):
            for m, w in opts:
                k += 1
                if tier == 'quick' and k % 4:
                    continue
                H.append(['new eHOME=2f68'] + tr + [f'copy_b {vlib.hx(s)} {vlib.hx(d)} {m} {w} 0', 'all_paths ' + vlib.hx('/')])
            H.append(['new eHOME=2f68'] + tr + [f'move_p {vlib.hx(s)} {vlib.hx(d)}', 'all_paths ' + vlib.hx('/')])
    # nested directories and files with their own modes (a copy keeps each entry's mode unless the Copier overrides it)
    nm = ['mkdir_m ' + vlib.hx('/a') + ' 750', 'mkdir_m ' + vlib.hx('/a/s') + ' 711', 'mkfile_m ' + vlib.hx('/a/s/g') + ' 640', 'mkfile_m ' + vlib.hx('/a/f') + ' 600', 'mkdir_p ' + vlib.hx('/into')]
    for c_ in ['copy ' + vlib.hx('/a') + ' ' + vlib.hx('/x'), 'copy ' + vlib.hx('/a') + ' ' + vlib.hx('/into'), 'copy_b ' + vlib.hx('/a') + ' ' + vlib.hx('/y') + ' 700 f 0', 'copy_b ' + vlib.hx('/a') + ' ' + vlib.hx('/z') + ' 700 d 0']:
        H.append(['new eHOME=2f68'] + nm + [c_, 'all_paths ' + vlib.hx('/')])
    # multi-byte names in source and destination roots (destination paths are computed by trimming the source root as a string)
    mb = ['mkdir_p ' + vlib.hx('/é/漢/a'), 'write_all ' + vlib.hx('/é/漢/f') + ' ' + vlib.hx('x'), 'write_all ' + vlib.hx('/é/g') + ' ' + vlib.hx('y'), 'mkdir_p ' + vlib.hx('/日本')]
    for s_, d_ in [('/é', '/x'), ('/é', '/日本'), ('/é/漢', '/é/y'), ('/é/漢', '/日本'), ('/é/漢/f', '/日本/f'), ('/é', '/x/é')]:
        H.append(['new eHOME=2f68'] + mb + [f'copy {vlib.hx(s_)} {vlib.hx(d_)}', 'all_paths ' + vlib.hx('/')])
        H.append(['new eHOME=2f68'] + mb + [f'move_p {vlib.hx(s_)} {vlib.hx(d_)}', 'all_paths ' + vlib.hx('/')])
    return H, dict(kind='tree-heavy random histories + all ordered (src, dst) pairs over {a,b} x depth 2 on 3 trees x 4 Copier option sets (copy) and move_p', histories=len(H), exhaustive=True)


def judge(req, impl, f, prev):
    t_ = req.split(' ')
    if t_[0] in ('copy', 'copy_b') and impl.startswith('ok') and ' ## ' in impl:
        # no copy may store an entry under a name that paths cannot address ('..', '.', empty)
        for rec in impl.split(' ## ', 1)[1].split('|'):
            if rec.startswith('E '):
                k = rec.split(' ')[1]
                if k != '2f' and any(c in ('2e2e', '2e', '') for c in k[2:].split('2f')):
                    return ('-', "the copy stored an entry under the key " + bytes.fromhex(k).decode('utf8', 'replace') + " (a component '..' / '.' / empty: not addressable through abs)",
                            'copy_follow_link_outside_source' if (t_[0] == 'copy_b' and t_[5:6] == ['1']) else None)
    j = c01.judge(req, impl, f, prev)        # move_p (incl. failure => unchanged) and everything else vs the reference
    if j:
        return j
    if req.startswith(('copy ', 'copy_b ')):
        return copy_judge(req, impl, prev)
    return None


SPEC = dict(
    prop='C09', lean_mod='Rivia.Props.C09,Rivia.Props.C08S', gen=gen, judge=judge,
    foreign_classes=('chmod_zero', 'empty_lines_noop', 'listing_includes_links', 'sym_kind_specific_clauses', 'sym_malformed', 'moved_link_rel_stale'),
    rule='all ordered (source, destination) pairs over the namespace {a,b} x depth 2 (+ a fresh name) on three trees (files, dirs, links, modes) with four Copier option sets, and move_p for the same pairs; tree-heavy random histories. '
         'Judge: move_p against the reference tree filesystem (success = subtree re-keyed, failure = nothing changes); copy (no follow) against the property predicate evaluated on the before/after trees: source untouched, every source entry present at '
         'the same relative path under dst (or dst/name) with equal kind, content, link target and mode (or the chmod option), nothing outside the destination changed. distinct = distinct (pre-state, call) pairs',
    assumptions=['copy with follow is compared with the Lean model only (correspondence), not with the predicate', 'non-canonical spellings of the arguments are not judged by the copy predicate (C05 covers spellings)'],
    trusted_base=['hand transcription Rust->Lean of Memfs::_copy / move_p (checked by the correspondence run)', 'reference tree filesystem + the copy predicate in tools/props/c09.py', 'Rust harness + Python driver'],
)


def run(tier, seed, replay):
    return vlib.memfs_check(SPEC, tier, seed, replay)
