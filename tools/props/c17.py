"""C17 — expand() substitutes ~ and environment variables exactly, in every environment"""
import itertools
import vlib

TOK = ['a', '/', '~', '$V', '${V}', '$', '{', '}', '$HOME', '${W}', '$U', 'é', '.', '..', '$V$W', 'b$']
VALS = [None, '', 'v', '/x/y', 'é', 'p q', 'a/b']


def envs():
    out = []
    for h in [None, '', '/h', '/h/é', 'rel']:
        for v in VALS[:5]:
            for w in [None, 'w', '/abs']:
                d = {'HOME': h, 'V': v, 'W': w}
                out.append('e' + ','.join(f'{k}={vlib.hx(x)[1:]}' for k, x in d.items() if x is not None))
    return out


def gen(tier, rng):
    E = envs()
    lines = []
    n = 3 if tier == 'quick' else 4
    T = [''.join(t) for k in range(0, n + 1) for t in itertools.product(TOK, repeat=k)]
    for i, s in enumerate(T):
        es = E if tier == 'thorough' or len(s) <= 4 else [E[(i * 7 + j) % len(E)] for j in range(3)]
        for e in es:
            lines.append(f'expand {vlib.hx(s)} {e}')
    for _ in range(10000 if tier == 'quick' else 200000):
        s = ''.join(rng.choice(TOK + ['xy', '${', '$}', '~/']) for _ in range(rng.randint(1, 9)))
        lines.append(f'expand {vlib.hx(s)} {rng.choice(E)}')
    return lines, dict(kind='all templates of <= n tokens from literals, /, ~, $V, ${V}, $, {, } ... x environments {HOME, V, W each unset/empty/plain/with separators/multi-byte}', tokens=len(TOK), max_tokens=n, envs=len(E), exhaustive=True)


def nontrivial(req, impl):
    a = req.split(' ')[1][1:]
    return impl != 'ok s:' + a


SPEC = dict(
    prop='C17', lean_mod='Rivia.Props.C17', mode='pathfn', gen=gen, nontrivial=nontrivial,
    rule='every template of up to n tokens over {literal, /, ~, $V, ${V}, $, {, }, $HOME, unset $U, ...} in every environment of the product {HOME, V, W} x {unset, empty, plain, with separators, multi-byte} '
         '(the harness sets the process environment per request), plus random longer templates; judged against Spec.expandSpec inside its domain D (exact), DErr (same result or both fail); non-trivial = expansion changes the string or fails',
    assumptions=['std::env::var = process environment (set per request by the single-threaded harness)', 'unbalanced braces next to a variable reference (${V, $V}) are unspecified (class Ambiguous), documented in DESIGN'],
    trusted_base=['hand transcription Rust->Lean of sys::expand (checked by the correspondence run)', 'specification Rivia/Spec/Expand.lean written from the property text', 'Rust harness + Python driver'],
)


def run(tier, seed, replay):
    return vlib.generic_check(SPEC, tier, seed, replay)
