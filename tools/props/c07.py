"""C07 — handles from read/write/append honour the std Read, Seek and Write contracts"""
import itertools
import vlib

OFFS = [0, 1, -1, 2, -2, 3, -3, 5, -5, 2 ** 63 - 1, -(2 ** 63), 2 ** 63 - 2]
STARTS = [0, 1, 2, 3, 4, 10, 2 ** 64 - 1, 2 ** 63]


def ops_alphabet():
    return [f'r{n}' for n in [0, 1, 2, 5]] + ['a'] + [f'sc{o}' for o in OFFS] + [f'se{o}' for o in OFFS] + [f'ss{o}' for o in STARTS]


def gen(tier, rng):
    ops = ops_alphabet()
    lines = []
    datas = [b'', b'a', b'ab', b'abc']
    for data in datas:
        for k in (1, 2):
            for t in itertools.product(ops, repeat=k):
                lines.append(f'file {vlib.hx(data)} {",".join(t)}')
                lines.append(f'cursor {vlib.hx(data)} {",".join(t)}')
    n3 = 6000 if tier == 'quick' else 120000
    for _ in range(n3):
        data = rng.choice(datas + [b'0123456789', bytes(range(256))])
        k = rng.randint(3, 8)
        t = [rng.choice(ops) if rng.random() < 0.8 else rng.choice([f'r{rng.randint(0, 300)}', f'sc{rng.randint(-300, 300)}', f'se{rng.randint(-300, 300)}', f'ss{rng.randint(0, 300)}']) for _ in range(k)]
        lines.append(f'file {vlib.hx(data)} {",".join(t)}')
        if rng.random() < 0.3:
            lines.append(f'cursor {vlib.hx(data)} {",".join(t)}')
    # writers: every split of a few payloads into chunks, flushes at arbitrary points; the harness
    # reports the stored content after every op and after the drop
    chunks = ['w', 'w61', 'w6263', 'wff00', 'f']
    for md in 'wa':
        for old in [b'', b'old']:
            for k in range(0, 5 if tier == 'quick' else 6):
                for t in itertools.product(chunks, repeat=k):
                    if k == 0:
                        continue
                    lines.append(f'whandle {md} {vlib.hx(old)} {",".join(t)}')
    return lines, dict(kind='exhaustive+random', read_seek_ops=len(ops), exhaustive=True, random=n3,
                       note='all sequences of <=2 ops over the offset alphabet on files of length 0..3, random longer ones; all write sessions of <=4 (5) ops over 5 chunk/flush tokens')


def nontrivial(req, impl):
    return 'r:' in impl and impl != 'ok r:' or req.startswith('whandle')


SPEC = dict(
    prop='C07', lean_mod='Rivia.Props.C07', mode='pathfn', gen=gen, nontrivial=nontrivial,
    rule='read handles: every sequence of <=2 read/seek/read_to_end ops with offsets in {0,+-1,+-2,+-3,+-5,i64::MIN/MAX,u64::MAX,...} on files of 0..3 bytes, random longer sequences on larger files, '
         'each also run on std::io::Cursor (validates the Lean Cursor spec); write/append handles: every chunking/flush pattern up to the bound, stored content observed after each op and after drop. '
         'non-trivial = some bytes are read / any writer session',
    assumptions=['Rust runs Drop at scope exit (drop persists)', 'Vec<u8> as Write appends the whole buffer', 'std::io::Cursor is the reference (also executed)'],
    trusted_base=['hand transcription Rust->Lean of src/sys/fs/memfs/file.rs (checked by the correspondence run)', 'Lean model of std::io::Cursor (validated against the real Cursor by the same run)', 'Rust harness + Python driver'],
)


def run(tier, seed, replay):
    return vlib.generic_check(SPEC, tier, seed, replay)
