"""C01 — Memfs behaves as a tree filesystem for every operation history"""
import vlib, memfs_gen

NOOP_ON_FAILURE = ('mkfile', 'mkdir_p', 'mkdir_m', 'write_all', 'append_all', 'remove', 'move_p', 'symlink', 'set_cwd')


def gen(tier, rng):
    n, ln = (400, 40) if tier == 'quick' else (8000, 60)
    H = memfs_gen.histories(rng, n, ln, 'mixed') + memfs_gen.histories(rng, n // 2, ln, 'tree') + memfs_gen.histories(rng, n // 4, ln, 'links')
    # bounded namespace {a,b} depth 2: much higher state revisit rate (towards the reachability fixpoint)
    H += memfs_gen.histories(rng, n, ln, 'mixed', names=['a', 'b'])
    return H, dict(kind='seeded random histories', histories=len(H), max_len=ln, profiles=['mixed', 'tree', 'links', 'mixed over {a,b}'], exhaustive=False)


def judge(req, impl, f, prev):
    """implementation vs the reference tree filesystem (driver column 1), and failure => no-op"""
    op = req.split(' ')[0]
    io = impl.split(' ## ')[0]
    sp = f[1] if len(f) > 1 else '-'
    if sp != '-':
        so, sd = sp.split(' ## ')
        if not vlib.res_equal(io, so, req, f[2] if len(f) > 2 else None):
            return (so, 'result differs from the reference tree filesystem')
        if vlib.abs_of_dump(impl) != sd:
            return (sd, 'resulting tree differs from the reference tree filesystem')
    if op in NOOP_ON_FAILURE and io.startswith('err') and prev and ' ## ' in prev:
        if vlib.abs_of_dump(impl) != vlib.abs_of_dump(prev):
            return (vlib.abs_of_dump(prev), 'a failed single-target call changed the tree', failure_class(f))
    return None


def failure_class(f):
    return f[2] if len(f) > 2 and f[2] != '-' else None


def nontrivial(req, impl):
    return not req.startswith(('cwd', 'root'))


SPEC = dict(
    prop='C01', lean_mod='Rivia.Props.C01A,Rivia.Props.C01B,Rivia.Props.C01noop,Rivia.Props.C01R,Rivia.Props.C01S,Rivia.Props.C01C', gen=gen, judge=judge, nontrivial=nontrivial,
    foreign_classes=('empty_lines_noop', 'sym_kind_specific_clauses', 'sym_malformed', 'moved_link_rel_stale'),
    rule='seeded random histories (length up to the tier bound) over the namespace {a,b,c,é} x depth 3 and over {a,b} x depth 2, arguments absolute / cwd-relative / unclean / garbage, '
         'data incl. empty, multi-byte, invalid UTF-8; after EVERY call the result and the full internal state dump are compared with the Lean model, and the result + abstract tree with the reference '
         'tree filesystem stepped from the pre-state; distinct = distinct (pre-state, call) pairs',
    assumptions=['HashMap/HashSet as finite maps/sets with unspecified order (order-dependent partial effects of a traversal that fails half-way are not compared)',
                 'RwLock: single-threaded here (C04 covers concurrency)'],
    trusted_base=['hand transcription Rust->Lean of src/sys/fs/memfs/{vfs,entry}.rs (checked by the correspondence run: result + complete state dump after every call)',
                  'reference tree filesystem Rivia/Spec/TreeFs.lean written from the trait documentation', 'Rust harness + Python driver'],
)


def run(tier, seed, replay):
    return vlib.memfs_check(SPEC, tier, seed, replay)
