"""C06 — file contents round-trip exactly: write truncates, append extends, read agrees"""
import vlib, memfs_gen
from props import c01

DATA = memfs_gen.DATA + [bytes(range(256)) * 8, b'\r\n', b'a\nb', 'é\n漢\r\n'.encode()]


def gen(tier, rng):
    n, ln = (400, 40) if tier == 'quick' else (8000, 60)
    old = memfs_gen.DATA
    memfs_gen.DATA = DATA
    try:
        H = memfs_gen.histories(rng, n, ln, 'content', names=['a', 'b', 'c']) + memfs_gen.histories(rng, n // 2, ln, 'content')
    finally:
        memfs_gen.DATA = old
    # line round trip: write_lines(ls) then read_lines
    LS = [['a'], ['a', 'b'], ['é', '漢', 'x y'], ['a\rb'], ['tab\t'], ['a', 'b', 'c', 'd']]
    for ls in LS:
        H.append(['new eHOME=2f68', 'write_lines ' + vlib.hx('/f') + ' l:' + ','.join(vlib.hx(x)[1:] for x in ls), 'read_lines ' + vlib.hx('/f'), 'read ' + vlib.hx('/f'),
                  'append_lines ' + vlib.hx('/f') + ' l:' + ','.join(vlib.hx(x)[1:] for x in ls), 'read_lines ' + vlib.hx('/f'), 'copy ' + vlib.hx('/f') + ' ' + vlib.hx('/g'),
                  'append_all ' + vlib.hx('/f') + ' ' + vlib.hx('Z'), 'read ' + vlib.hx('/g'), 'move_p ' + vlib.hx('/g') + ' ' + vlib.hx('/h'), 'write_all ' + vlib.hx('/f') + ' ' + vlib.hx(''), 'read ' + vlib.hx('/h')])
    # aliasing battery: write / move / copy chains followed by handle-based and direct writes to each
    # file, then every file is read back (a copied or moved file must not alias its source)
    names = ['/a', '/b', '/c']
    for _ in range(150 if tier == 'quick' else 4000):
        h = ['new eHOME=2f68', 'write_all ' + vlib.hx('/a') + ' ' + vlib.hx('héllo' + chr(10))]
        hid = 0
        for _k in range(rng.randint(3, 7)):
            x, y = rng.choice(names), rng.choice(names)
            k = rng.random()
            if k < 0.25:
                h.append(f'move_p {vlib.hx(x)} {vlib.hx(y)}')
            elif k < 0.5:
                h.append(f'copy {vlib.hx(x)} {vlib.hx(y)}')
            elif k < 0.75:
                hid += 1
                chunk = vlib.hx(rng.choice(['W', 'wörld' + chr(10), '']))
                opener = rng.choice(['h_append', 'h_write'])
                h += [f'{opener} {hid} {vlib.hx(x)}', f'h_put {hid} {chunk}', rng.choice([f'h_flush {hid}', 'cwd']), f'h_drop {hid}']
            else:
                wop = rng.choice(['append_all', 'write_all'])
                h.append(f'{wop} {vlib.hx(x)} {vlib.hx(rng.choice(["Z", ""]))}')
        h += [f'read {vlib.hx(n)}' for n in names]
        H.append(h)
    # exhaustive part of the aliasing battery: every chain of two move/copy steps over three names,
    # then a handle-based append (and a handle-based write) to each file, then all files read back
    import itertools
    steps = [f'{o} {vlib.hx(x)} {vlib.hx(y)}' for o in ('move_p', 'copy') for x in names for y in names if x != y]
    for s1, s2 in itertools.product(steps, repeat=2):
        for tgt in names:
            for opener in ('h_append', 'h_write'):
                if tier == 'quick' and opener == 'h_write' and rng.random() < 0.7:
                    continue
                H.append(['new eHOME=2f68', 'write_all ' + vlib.hx('/a') + ' ' + vlib.hx('one'), s1, s2, f'{opener} 1 {vlib.hx(tgt)}', 'h_put 1 ' + vlib.hx('TWO'), 'h_drop 1'] + [f'read {vlib.hx(n)}' for n in names])
    return H, dict(kind='content-heavy random histories over 3 files (write/append/lines/copy/move/handles with flush and drop points) + line round-trip scripts', histories=len(H), exhaustive=False)


LINES = {}


def _file_data(dump, key):
    """(is a regular file entry with exactly this key, its stored data in hex) in a raw implementation line"""
    if ' ## ' not in dump:
        return None, ''
    isf, dat = None, ''
    for r in dump.split(' ## ', 1)[1].split('|'):
        q = r.split(' ')
        if r.startswith('E ') and q[1] == key:
            isf = ' d=0 ' in r + ' ' and ' l=0 ' in r + ' '
        elif r.startswith('F ') and q[1] == key:
            dat = q[2][len('data='):]
    return isf, dat


def _handle_judge(req, impl, prev):
    """byte-vector reference for ONE open write/append handle on a plainly spelled regular file: at every flush and at drop the
    stored bytes are exactly (bytes before the open, for append) + bytes written through the handle (property text of C06/C07).
    Any other state-changing call while the handle is open drops the bookkeeping (no verdict)."""
    t = req.split(' ')
    io = impl.split(' ## ')[0]
    hs = LINES.setdefault('handles', {})
    if t[0] in ('h_write', 'h_append'):
        hs.clear()
        key = t[2][1:]
        isf, _ = _file_data(impl, key)
        if io.startswith('ok') and isf:
            _, pre = _file_data(prev, key)
            hs[t[1]] = dict(key=key, buf=pre if t[0] == 'h_append' else '')
    elif t[0] == 'h_put' and t[1] in hs:
        if io.startswith('ok'):
            hs[t[1]]['buf'] += t[2][1:]
        else:
            hs.clear()
    elif t[0] in ('h_flush', 'h_drop') and t[1] in hs:
        h = hs[t[1]] if t[0] == 'h_flush' else hs.pop(t[1])
        isf, dat = _file_data(impl, h['key'])
        if io.startswith('ok') and isf and dat != h['buf']:
            return ('data=' + h['buf'], f'after {t[0]} the file does not hold exactly the bytes written through the handle')
    elif t[0] not in ('cwd', 'read', 'read_all', 'exists', 'is_file'):
        hs.clear()
    return None


def judge(req, impl, f, prev, hi=None, i=None):
    if LINES.get('hi') != hi:
        LINES.clear()
        LINES['hi'] = hi
    j = c01.judge(req, impl, f, prev)
    if j:
        return j
    hj = _handle_judge(req, impl, prev)
    if hj:
        return hj
    # read_lines(write_lines(ls)) == ls for non-empty lines without terminators (script histories)
    t = req.split(' ')
    io = impl.split(' ## ')[0]
    if t[0] == 'write_lines' and io.startswith('ok'):
        ls = [x for x in t[2][2:].split(',')] if t[2] != 'l:' else []
        LINES['last'] = ls
        LINES['path'] = t[1]
    elif t[0] == 'read_lines' and io.startswith('ok l:') and LINES.get('last') is not None:
        ls = LINES.pop('last')
        clean = all(x and '0a' not in [x[i:i + 2] for i in range(0, len(x), 2)] and not x.endswith('0d') for x in ls)
        if clean and ls and io[5:].split(',') != ls and req.split(' ')[1] == LINES.get('path'):
            return ('ok l:' + ','.join(ls), 'read_lines(write_lines(ls)) != ls')
    else:
        LINES.pop('last', None)
    return None


SPEC = dict(
    prop='C06', lean_mod='Rivia.Props.C06,Rivia.Props.C06T,Rivia.Props.C06R', gen=gen, judge=judge, judge_ctx=True,
    foreign_classes=('chmod_zero', 'listing_includes_links', 'sym_kind_specific_clauses', 'sym_malformed', 'moved_link_rel_stale'),
    rule='content-heavy random histories over a handful of files: write_all / append_all / write_lines / append_line(s) / handle write+append with flushes and drops at arbitrary points / copy / move_p / reads, '
         'data from {empty, ASCII, multi-byte, invalid UTF-8, embedded \\n and \\r\\n, 2 KiB}; judge = byte-vector reference (TreeFs node data): write replaces, append extends, line helpers add one newline per line, '
         'other files untouched, copies independent; plus read_lines(write_lines(ls)) == ls scripts. distinct = distinct (pre-state, call) pairs',
    assumptions=['Memfs only; Stdfs content semantics belong to C02', 'handle-based ops are compared with the Lean model (correspondence) and with C07 theorems; the reference tree filesystem does not model open handles, so the judge keeps its own byte-vector reference for one open write/append handle on a plainly spelled regular file (stored bytes at flush/drop = bytes before the open for append + bytes written); other calls while a handle is open get no handle verdict'],
    trusted_base=['hand transcription Rust->Lean of the Memfs backend (checked by the correspondence run)', 'reference tree filesystem Rivia/Spec/TreeFs.lean', 'Rust harness + Python driver'],
)


def run(tier, seed, replay):
    return vlib.memfs_check(SPEC, tier, seed, replay)
