"""C06 — file contents round-trip exactly: write truncates, append extends, read agrees"""
import vlib, memfs_gen
from props import c01

DATA = memfs_gen.DATA + [bytes(range(256)) * 8, b'\r\n', b'a\nb', 'é\n漢\r\n'.encode()]


def gen(tier, rng):
    n, ln = (400, 40) if tier == 'quick' else (8000, 60)
    old = memfs_gen.DATA
    memfs_gen.DATA = DATA
    try:
        H = memfs_gen.histories(rng, n, ln, 'content', names=['a', 'b', 'c']) + memfs_gen.histories(rng, n // 2, ln, 'content')
    finally:
        memfs_gen.DATA = old
    # line round trip: write_lines(ls) then read_lines
    LS = [['a'], ['a', 'b'], ['é', '漢', 'x y'], ['a\rb'], ['tab\t'], ['a', 'b', 'c', 'd']]
    for ls in LS:
        H.append(['new eHOME=2f68', 'write_lines ' + vlib.hx('/f') + ' l:' + ','.join(vlib.hx(x)[1:] for x in ls), 'read_lines ' + vlib.hx('/f'), 'read ' + vlib.hx('/f'),
                  'append_lines ' + vlib.hx('/f') + ' l:' + ','.join(vlib.hx(x)[1:] for x in ls), 'read_lines ' + vlib.hx('/f'), 'copy ' + vlib.hx('/f') + ' ' + vlib.hx('/g'),
                  'append_all ' + vlib.hx('/f') + ' ' + vlib.hx('Z'), 'read ' + vlib.hx('/g'), 'move_p ' + vlib.hx('/g') + ' ' + vlib.hx('/h'), 'write_all ' + vlib.hx('/f') + ' ' + vlib.hx(''), 'read ' + vlib.hx('/h')])
    return H, dict(kind='content-heavy random histories over 3 files (write/append/lines/copy/move/handles with flush and drop points) + line round-trip scripts', histories=len(H), exhaustive=False)


LINES = {}


def judge(req, impl, f, prev):
    j = c01.judge(req, impl, f, prev)
    if j:
        return j
    # read_lines(write_lines(ls)) == ls for non-empty lines without terminators (script histories)
    t = req.split(' ')
    io = impl.split(' ## ')[0]
    if t[0] == 'write_lines' and io.startswith('ok'):
        ls = [x for x in t[2][2:].split(',')] if t[2] != 'l:' else []
        LINES['last'] = ls
    elif t[0] == 'read_lines' and io.startswith('ok l:') and LINES.get('last') is not None:
        ls = LINES.pop('last')
        clean = all(x and '0a' not in [x[i:i + 2] for i in range(0, len(x), 2)] and not x.endswith('0d') for x in ls)
        if clean and ls and io[5:].split(',') != ls:
            return ('ok l:' + ','.join(ls), 'read_lines(write_lines(ls)) != ls')
    else:
        LINES.pop('last', None)
    return None


SPEC = dict(
    prop='C06', lean_mod='Rivia.Props.C06', gen=gen, judge=judge,
    foreign_classes=('chmod_zero', 'listing_includes_links', 'sym_kind_specific_clauses', 'sym_malformed', 'moved_link_rel_stale'),
    rule='content-heavy random histories over a handful of files: write_all / append_all / write_lines / append_line(s) / handle write+append with flushes and drops at arbitrary points / copy / move_p / reads, '
         'data from {empty, ASCII, multi-byte, invalid UTF-8, embedded \\n and \\r\\n, 2 KiB}; judge = byte-vector reference (TreeFs node data): write replaces, append extends, line helpers add one newline per line, '
         'other files untouched, copies independent; plus read_lines(write_lines(ls)) == ls scripts. distinct = distinct (pre-state, call) pairs',
    assumptions=['Memfs only; Stdfs content semantics belong to C02', 'handle-based ops are compared with the Lean model (correspondence) and with C07 theorems, the reference tree filesystem does not model open handles'],
    trusted_base=['hand transcription Rust->Lean of the Memfs backend (checked by the correspondence run)', 'reference tree filesystem Rivia/Spec/TreeFs.lean', 'Rust harness + Python driver'],
)


def run(tier, seed, replay):
    return vlib.memfs_check(SPEC, tier, seed, replay)
