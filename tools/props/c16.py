"""C16 — relative(path, base) is the navigation from base to path"""
import itertools
import vlib

NAMES = ['a', 'b', 'é']


def clean_abs_paths(names, depth):
    out = ['/']
    for k in range(1, depth + 1):
        for t in itertools.product(names, repeat=k):
            out.append('/' + '/'.join(t))
    return out


def gen(tier, rng):
    P = clean_abs_paths(NAMES, 4)
    lines = [f'relnav {vlib.hx(p)} {vlib.hx(b)}' for p in P for b in P]
    # names that are string prefixes of each other (component-wise vs string-wise prefix tests differ on them)
    Q = clean_abs_paths(['a', 'ab', 'a.b'], 3)
    lines += [f'relnav {vlib.hx(p)} {vlib.hx(b)}' for p in Q for b in Q]
    nrand = 5000 if tier == 'quick' else 100000
    wide = ['a', 'b', 'é', '漢字', 'x.y', 'name with space', '😀', 'ab', 'a1', 'éé']
    for _ in range(nrand):
        p = '/' + '/'.join(rng.choice(wide) for _ in range(rng.randint(0, 8)))
        b = '/' + '/'.join(rng.choice(wide) for _ in range(rng.randint(0, 8)))
        if p != '/':
            p = p.rstrip('/')
        if b != '/':
            b = b.rstrip('/')
        lines.append(f'relnav {vlib.hx(p)} {vlib.hx(b)}')
    return lines, dict(kind='exhaustive+random', names=NAMES, max_components=4, exhaustive=True, pairs=len(P) ** 2, prefix_name_pairs=len(Q) ** 2, random=nrand)


def nontrivial(req, impl):
    t = req.split(' ')
    return t[1] != t[2]


SPEC = dict(
    prop='C16', lean_mod='Rivia.Props.C16', mode='pathfn', gen=gen, nontrivial=nontrivial,
    rule='all ordered pairs of clean absolute paths with <= 4 components over 3 names (121^2), all pairs with <= 3 components over the names {a, ab, a.b} (names that are string prefixes of each other), plus seeded random deeper pairs with multi-byte names; '
         'each request returns relative(p,b) and clean(b joined with it); non-trivial = p != b',
    assumptions=['std::path::Components / PathBuf::push / collect as transcribed (validated by this run)', 'paths are valid UTF-8'],
    trusted_base=['hand transcription Rust->Lean of sys::relative (checked by the correspondence run)', 'Rust harness + Python driver'],
)


def run(tier, seed, replay):
    return vlib.generic_check(SPEC, tier, seed, replay)
