"""C19 — core iterator, string, option (and defer) helpers match their plain definitions"""
import vlib

EXT = [-(2 ** 63), -(2 ** 63) + 1, 2 ** 63 - 1, 2 ** 63 - 2]


def gen(tier, rng):
    lines = []
    idx = list(range(-10, 11))
    for ln in range(0, 9):
        for n in idx + EXT:
            lines.append(f'it_drop {ln} {n}')
        for l in idx + EXT:
            for r in idx + EXT:
                lines.append(f'it_slice {ln} {l} {r}')
        for f in ['it_consume', 'it_first', 'it_first_result', 'it_last_result', 'it_single', 'it_some']:
            lines.append(f'{f} {ln}')
    alpha = ['f', 'A', 'L', 's', 'E', '0', 'é', 'a', 'l', 'S', 'e', 'F', '漢']
    n = 4 if tier == 'quick' else 5
    for s in vlib.all_strings(alpha, n):
        lines.append('str_to_bool ' + vlib.hx(s))
    for s in ['false', 'FALSE', 'FaLsE', '0', '00', 'true', '', ' false', 'ﬀalse', 'FALSİ', 'K', 'ſalse', 'falſe']:
        lines.append('str_to_bool ' + vlib.hx(s))
        lines.append('str_size ' + vlib.hx(s))
    S = list(vlib.all_strings(['a', 'é', '/', '漢'], 3))
    for s in S:
        lines.append('str_size ' + vlib.hx(s))
        for t in S:
            lines.append(f'str_trim_suffix {vlib.hx(s + t)} {vlib.hx(t)}')
            lines.append(f'str_trim_suffix {vlib.hx(s)} {vlib.hx(t)}')
            lines.append(f'take_while_p {vlib.hx(s)} {vlib.hx(t)}')
    for o in ['-', '0', '1', '5', '-3']:
        for x in ['0', '1', '2', '-3']:
            lines.append(f'opt_has {o} {x}')
    # defer: every balanced program over {d, {, }, r, p} up to the bound runs with real defer! guards in nested
    # stack frames of the harness (the order is decided by Rust's drop semantics) against the Lean model
    def balanced(p):
        d = 0
        for ch in p:
            if ch == '{':
                d += 1
            elif ch == '}':
                d -= 1
                if d < 0:
                    return False
        return d == 0
    for p_ in vlib.all_strings(['d', '{', '}', 'r', 'p'], 7 if tier == 'quick' else 9):
        if balanced(p_):
            lines.append('defer ' + vlib.hx(p_))
    nrand = 5000 if tier == 'quick' else 100000
    for _ in range(nrand):
        ln = rng.randint(0, 40)
        c = rng.random()
        pick = lambda: rng.choice([rng.randint(-45, 45), rng.choice(EXT), rng.randint(-2 ** 63, 2 ** 63 - 1)])
        if c < 0.6:
            lines.append(f'it_slice {ln} {pick()} {pick()}')
        else:
            lines.append(f'it_drop {ln} {pick()}')
    return lines, dict(kind='exhaustive+random', lengths='0..8', indices='-10..10 plus isize extremes', exhaustive=True, random=nrand)


def nontrivial(req, impl):
    return impl not in ('ok i:', 'ok b:0', 'ok o:-')


SPEC = dict(
    prop='C19', lean_mod='Rivia.Props.C19,Rivia.Props.C19D', mode='pathfn', gen=gen, nontrivial=nontrivial,
    rule='drop/slice: all lengths 0..8 x all index pairs in -10..10 plus isize::MIN/MAX (exhaustive), random longer sequences and extreme indices; '
         'first/first_result/last_result/single/some/consume for each length; to_bool over all strings up to the bound over a casing alphabet; '
         'trim_suffix / take_while_p over all string pairs; Option::has over a small table. non-trivial = result is non-empty / true / some',
    assumptions=['Iterator::nth / rev().nth / count / last semantics as transcribed (validated by this run)', 'to_lowercase modelled as ASCII lower-casing',
                 'defer: Rust drop/unwind order is assumed, exercised by the defer harness only (see DESIGN §6 C19)'],
    trusted_base=['hand transcription Rust->Lean of src/core/{iter,string,option,peekable}.rs (checked by the correspondence run)', 'Rust harness + Python driver'],
)


def run(tier, seed, replay):
    return vlib.generic_check(SPEC, tier, seed, replay)
