"""C04 — Memfs operations are atomic and deadlock-free under concurrent use"""
import itertools, json, os, subprocess, time, random
import vlib

hx = vlib.hx
ENVSPEC = 'eHOME=2f68'
SETUP = ['mkdir_p ' + hx('/d'), 'write_all ' + hx('/f') + ' ' + hx('0'), 'mkdir_p ' + hx('/d/s'), 'mkfile ' + hx('/d/g')]

ALPHABET = [
    lambda r: f'append_all {hx("/f")} {hx(r.choice(["a", "b", "c"]))}',
    lambda r: f'append_all {hx("/f")} {hx(r.choice(["a", "b", "c"]))}',
    lambda r: f'write_all {hx(r.choice(["/f", "/n"]))} {hx(r.choice(["W", "X"]))}',
    lambda r: f'mkdir_p {hx(r.choice(["/d/x/y", "/e", "/d/s/t"]))}',
    lambda r: f'mkdir_m {hx("/m/n")} 700',
    lambda r: f'mkfile {hx(r.choice(["/d/h", "/n", "/e/k"]))}',
    lambda r: f'remove {hx(r.choice(["/d/g", "/f", "/d/s"]))}',
    lambda r: f'remove_all {hx(r.choice(["/d", "/d/s"]))}',
    lambda r: f'move_p {hx(r.choice(["/f", "/d/g", "/d/s"]))} {hx(r.choice(["/n", "/d", "/z"]))}',
    # (a directory copied into its own subtree - /d into /d/s - is order-dependent even sequentially: not generated)
    lambda r: (lambda s_: f'copy {hx(s_)} {hx(r.choice(["/c", "/d/s"]) if s_ == "/f" else "/c")}')(r.choice(["/f", "/d"])),
    lambda r: f'symlink {hx(r.choice(["/l", "/d/l"]))} {hx(r.choice(["/f", "/d"]))}',
    lambda r: f'set_cwd {hx(r.choice(["/d", "/d/s", "/"]))}',
    lambda r: f'read_all {hx(r.choice(["/f", "/n", "g"]))}',
    lambda r: f'exists {hx(r.choice(["/d/g", "/n", "s"]))}',
    lambda r: f'is_dir {hx(r.choice(["/d", "/e", "s"]))}',
    lambda r: f'all_paths {hx(r.choice(["/d", "/"]))}',
    lambda r: f'paths {hx("/d")}',
    lambda r: f'mode {hx("/f")}',
]


def enc(op):
    return op.replace(' ', '+')


def gen_programs(tier, rng):
    progs = []
    # fixed programs first: the append race and the write/read race
    progs.append([['append_all ' + hx('/f') + ' ' + hx('a')], ['append_all ' + hx('/f') + ' ' + hx('b')]])
    progs.append([['append_all ' + hx('/f') + ' ' + hx('a'), 'append_all ' + hx('/f') + ' ' + hx('c')], ['append_all ' + hx('/f') + ' ' + hx('b')]])
    progs.append([['write_all ' + hx('/n') + ' ' + hx('W')], ['read_all ' + hx('/n'), 'exists ' + hx('/n')]])
    progs.append([['append_all ' + hx('/f') + ' ' + hx('a')], ['append_all ' + hx('/f') + ' ' + hx('b')], ['append_all ' + hx('/f') + ' ' + hx('c')]])
    n = 60 if tier == 'quick' else 1500
    for _ in range(n):
        nt = rng.choice([2, 2, 2, 3])
        th = []
        for _t in range(nt):
            th.append([rng.choice(ALPHABET)(rng) for _c in range(rng.randint(1, 2 if nt == 3 else 3))])
        progs.append(th)
    return progs


def run_sched(progs, cap):
    lines = ['sched ' + ENVSPEC + ' S=' + '~'.join(enc(o) for o in SETUP) + ' ' + ' '.join('T=' + '~'.join(enc(o) for o in t) for t in p) + f' cap={cap}' for p in progs]
    chunks = [lines[i::vlib.NCPU] for i in range(vlib.NCPU)]
    idx = [list(range(len(lines)))[i::vlib.NCPU] for i in range(vlib.NCPU)]
    out = [None] * len(lines)

    def one(k):
        if not chunks[k]:
            return
        p = subprocess.run([vlib.HARNESS, 'sched'], input=('\n'.join(chunks[k]) + '\n').encode(), capture_output=True, env=vlib.ENV, timeout=1800)
        got = p.stdout.decode('utf8', 'replace').split('\n')
        for j, i in enumerate(idx[k]):
            out[i] = got[j] if j < len(got) and got[j] else 'harness-died'
    from concurrent.futures import ThreadPoolExecutor
    with ThreadPoolExecutor(max_workers=vlib.NCPU) as ex:
        list(ex.map(one, range(vlib.NCPU)))
    return lines, out


def interleavings(threads):
    """all merges of the threads' call lists as lists of (tid, idx)"""
    def rec(pos):
        if all(pos[t] == len(threads[t]) for t in range(len(threads))):
            yield []
            return
        for t in range(len(threads)):
            if pos[t] < len(threads[t]):
                pos2 = list(pos)
                pos2[t] += 1
                for rest in rec(pos2):
                    yield [(t, pos[t])] + rest
    return list(rec([0] * len(threads)))


def driver_lines(lines):
    b = subprocess.run([vlib.DRIVER], input=('\n'.join(lines) + '\n').encode(), capture_output=True)
    got = b.stdout.decode('utf8', 'replace').split('\n')
    return got[:len(lines)]


def oracle(prog):
    """sequential outcomes on the Lean model: {(results per thread, final dump): [orders]}"""
    orders = interleavings(prog)
    lines, spans = [], []
    for od in orders:
        start = len(lines)
        lines.append('new ' + ENVSPEC)
        lines += SETUP
        lines += [prog[t][i] for t, i in od]
        spans.append((start, len(lines)))
    res = driver_lines(lines)
    out = {}
    for od, (a, b) in zip(orders, spans):
        seg = res[a + 1 + len(SETUP):b]
        per = [[None] * len(t) for t in prog]
        for (t, i), r in zip(od, seg):
            per[t][i] = r.split('\t')[0].split(' ## ')[0]
        final = res[b - 1].split('\t')[0].split(' ## ', 1)[1] if ' ## ' in res[b - 1] else '?'
        key = ('/'.join(';'.join(x) for x in per), final)
        out.setdefault(key, []).append(od)
    return out


def respects_realtime(order, spans):
    """order: list of (tid, idx); spans[(tid, idx)] = (first, last) section numbers. A call that
    finished before another started must come first."""
    pos = {c: k for k, c in enumerate(order)}
    for a in spans:
        for b in spans:
            if a != b and spans[a][1] is not None and spans[b][0] is not None and spans[a][1] < spans[b][0] and pos[a] > pos[b]:
                return False
    return True


def run(tier, seed, replay):
    prop = 'C04'
    V = vlib.Verdict(prop, tier, seed)
    rng = random.Random(seed)
    assumptions = ['RwLock: writers exclude everyone, a granted guard is eventually dropped; no fairness assumption', 'interleaving inside one critical section is not explored (it holds the lock)',
                   'the guard hook (cfg rivia_verif) reports every acquisition: read_guard/write_guard are the only lock sites (checked by grep in the harness build)']
    okh, logh, dth = vlib.build_harness()
    okd, logd, dtd = vlib.build_lean(['driver'])
    okl, logl, dtl = vlib.build_lean(['Rivia.Props.C04'])
    if not okh or not okd:
        V.violation('build', dict(kind='build', log=(logh if not okh else logd)), no_input=True)
        return V.finish('proof', dict(obligations=1, discharged=0, checker_cmd='build', trusted_base=[], explanation='build failed'), assumptions)
    proof_broken = []
    if okl:
        A = vlib.audit('Rivia.Props.C04')
        if not A['ok']:
            proof_broken += A['problems']
    else:
        A = dict(ok=False, obligations=1, discharged=0, problems=['lake build failed'], axioms={}, theorems=[])
        proof_broken.append('lake build Rivia.Props.C04 failed: ' + logl[-1500:])
    chk = None
    if tier == 'thorough' and okl:
        okc, logc, dtc = vlib.leanchecker('Rivia.Props.C04')
        chk = dict(ok=okc, seconds=round(dtc, 1), scope=logc[:80])
        if not okc:
            proof_broken.append('leanchecker: ' + logc[-400:])

    if replay:
        progs = [json.load(open(replay))['program']]
    else:
        progs = gen_programs(tier, rng)
    cap = 400 if tier == 'quick' else 5000
    lines, outs = run_sched(progs, cap)
    known = {f['id']: f for f in vlib.load_known(prop) if f.get('status') == 'open'}
    schedules = distinct = 0
    new_fail, table_mismatch, samples = [], [], []
    sec_req, sec_seen = [], {}
    for prog, line, out in zip(progs, lines, outs):
        if not out.startswith('ok schedules='):
            new_fail.append(dict(program=prog, why='scheduler harness failed: ' + out[:200], outcome=None))
            continue
        head, body = out.split(' :: ', 1)
        schedules += int(head.split('schedules=')[1].split(' ')[0])
        outcomes = body.split(' || ')
        distinct += len(outcomes)
        orc = oracle(prog)
        for oc in outcomes:
            f = dict(x.split('=', 1) for x in oc.split('|'))
            if f['problem'] != '-':
                new_fail.append(dict(program=prog, why='a call did not return / nested acquisition: ' + f['problem'], outcome=oc[:600]))
                continue
            per, spans = [], {}
            for t, tc in enumerate(f['calls'].split('/')):
                rs = []
                for i, c in enumerate(tc.split(';')):
                    r, span, kinds = c.rsplit(' ', 2)
                    rs.append(r)
                    if span != '@-':
                        a, b = span[1:].split('-')
                        spans[(t, i)] = (int(a), int(b))
                    else:
                        spans[(t, i)] = (None, None)
                    if r.startswith('ok'):
                        sec_seen.setdefault(prog[t][i], set()).add(kinds)
                per.append(rs)
            if any('panic' in r for rs in per for r in rs) or 'poisoned' in f['final']:
                new_fail.append(dict(program=prog, why='panic / poisoned lock', outcome=oc[:600]))
                continue
            key = ('/'.join(';'.join(x) for x in per), f['final'].replace('!', '|'))
            ords = orc.get(key, [])
            if not any(respects_realtime(o, spans) for o in ords):
                why = 'no sequential order of the calls (respecting program order and real-time precedence) gives these results and this final state' if not ords else 'only sequential orders that violate real-time precedence give this outcome'
                new_fail.append(dict(program=prog, why=why, outcome=oc[:900], schedule=f['schedule']))
        if len(samples) < 5:
            samples.append(dict(program=[[vlib.pretty_req(o) for o in t] for t in prog], schedules=head, outcomes=len(outcomes)))
    # section-table correspondence
    ops = sorted(sec_seen)
    want = driver_lines(['sections ' + o for o in ops])
    for o, w in zip(ops, want):
        w = w.split('\t')[0]
        if w != '?' and sec_seen[o] != {w}:
            table_mismatch.append(dict(op=vlib.pretty_req(o), observed=sorted(sec_seen[o]), model=w))

    for i, nf in enumerate(new_fail[:3]):
        V.violation(f'fail{i}', dict(kind='property-violated', program=nf['program'], pretty=[[vlib.pretty_req(o) for o in t] for t in nf['program']], why=nf['why'], outcome=nf.get('outcome'), schedule=nf.get('schedule')))
    if not new_fail:
        if table_mismatch:
            V.violation('section_table', dict(kind='correspondence-broken', what='the guard sequence of a call differs from the model section table (Rivia.Conc.sections)', mismatches=table_mismatch[:10]), no_input=True)
        elif proof_broken:
            V.violation('proof', dict(kind='proof-broken', theorems=proof_broken), no_input=True)
    cov = dict(obligations=A['obligations'], discharged=A['discharged'], checker_cmd='cd /verif/lean && lake build Rivia.Props.C04 && lake env lean ../work/audit/C04.lean',
               trusted_base=['controlled scheduler harness (harness/src/sched.rs) driving the real Memfs through the cfg(rivia_verif) guard hook', 'Lean sequential model as the linearizability oracle', 'Lean 4.33.0 kernel',
                             'axioms: ' + ', '.join(sorted({a for v in A['axioms'].values() for a in v}) or ['none'])],
               theorems=A['theorems'], axioms=A['axioms'], proof_problems=proof_broken, leanchecker=chk,
               evaluations=schedules, distinct_nontrivial=distinct, programs=len(progs), schedules_executed=schedules, distinct_outcomes=distinct,
               rule='programs of 2-3 threads x 1-3 calls over the single-step op alphabet on a small tree; ALL interleavings of their critical sections are executed on the real Memfs by the controlled scheduler (cap per program in generator info); '
                    'every distinct outcome (per-call results + final state dump) must equal that of some order of the calls on the Lean model that respects program order and real-time precedence; distinct_nontrivial = distinct outcomes',
               samples=samples, section_table_ops_checked=len(ops), section_table_mismatches=table_mismatch[:5], exhaustive=True, generator=dict(schedule_cap=cap, alphabet=len(ALPHABET)),
               build_seconds=dict(harness=round(dth, 1), driver=round(dtd, 1), proofs=round(dtl, 1)))
    return V.finish('proof', cov, assumptions)
