"""C11 — chmod/chown change exactly the selected entries to exactly the requested value"""
import itertools
import vlib, memfs_gen
from props import c01

WHO = ['u', 'g', 'o', 'a', 'ug', 'go', 'ugo']
OPS = ['+', '-', '=']
PERMS = ['r', 'w', 'x', 'rw', 'rx', 'wx', 'rwx']
TG = ['d', 'f', 'a']


def pure(tier, rng):
    """exhaustive 512 modes x all single clauses x {file, dir, link}; double clauses sampled/all"""
    clauses = [f'{t}:{w}{o}{p}' for t in TG for w in WHO for o in OPS for p in PERMS]
    lines = []
    kinds = [('d', 0o40000), ('f', 0o100000), ('F', 0o120000), ('D', 0o120000)]
    step = 7 if tier == 'quick' else 1
    for k, tb in kinds:
        for m in range(0, 512, step):
            for c in clauses:
                lines.append(f'mode {k} {tb | m:o} 0 {vlib.hx(c)}')
    nd = 20000 if tier == 'quick' else 400000
    for _ in range(nd):
        k, tb = rng.choice(kinds)
        c = ','.join(rng.choice(clauses) for _ in range(2))
        lines.append(f'mode {k} {tb | rng.randrange(512):o} 0 {vlib.hx(c)}')
    for _ in range(5000 if tier == 'quick' else 100000):
        k, tb = rng.choice(kinds)
        c = ''.join(rng.choice('dfa:ugo+-=rwx,q ') for _ in range(rng.randint(0, 9)))
        lines.append(f'mode {k} {tb | rng.randrange(512):o} 0 {vlib.hx(c)}')
    impl, drv, probs = vlib.run_both('pathfn', lines, 'C11_pure')
    bad, mism, known = [], 0, 0
    for l, i, d in zip(lines, impl, drv):
        f = d.split('\t')
        if i != f[0]:
            mism += 1
        if len(f) > 1 and f[1] != '-' and not vlib.res_equal(i, f[1]):
            if len(f) > 2 and f[2] != '-' and i == f[0]:
                known += 1
            else:
                bad.append(dict(kind='property-violated', requests=[l], pretty=[vlib.pretty_req(l)], observed=i, expected_by_spec=f[1], why='sys::mode differs from the documented grammar'))
    if mism and not bad:
        bad.append(dict(kind='correspondence-broken', what=f'sys::mode: implementation and Lean model disagree on {mism} inputs; no input violating the grammar found'))
    return dict(pure_mode_calls=len(lines), pure_mode_model_disagreements=mism, pure_mode_spec_failures=len(bad), pure_mode_known_class_failures=known), bad


def gen(tier, rng):
    n, ln = (400, 40) if tier == 'quick' else (8000, 60)
    H = memfs_gen.histories(rng, n, ln, 'perm') + memfs_gen.histories(rng, n // 2, ln, 'perm', names=['a', 'b'])
    # deterministic battery: chmod_b / chown_b addressed at a link (to a file, to a directory with content) and at
    # plain targets, every follow / recursive combination, octal values incl. 0o777 (= a link's own permission bits)
    hx = vlib.hx
    base = ['mkdir_m ' + hx('/d') + ' 700', 'mkfile_m ' + hx('/d/g') + ' 640', 'mkfile_m ' + hx('/f') + ' 600',
            'symlink ' + hx('/lf') + ' ' + hx('/f'), 'symlink ' + hx('/ld') + ' ' + hx('/d')]
    for tgt in ('/lf', '/ld', '/f', '/d'):
        for (dm, fm) in (('777', '777'), ('0', '777'), ('777', '0'), ('755', '644'), ('500', '400')):
            for rec in '01':
                for fo in '01':
                    H.append(['new eHOME=2f68'] + base + [f'chmod_b {hx(tgt)} {dm} {fm} {rec} {fo} x'] + [f'mode {hx(q)}' for q in ('/f', '/d', '/d/g', '/lf', '/ld')])
        for rec in '01':
            for fo in '01':
                H.append(['new eHOME=2f68'] + base + [f'chown_b {hx(tgt)} 5 7 {rec} {fo}'] + [f'owner {hx(q)}' for q in ('/f', '/d', '/d/g', '/lf', '/ld')])
    return H, dict(kind='permission-heavy random histories + a deterministic link/target x follow x recursive x mode battery: chmod / chmod_b (octal dirs/files, symbolic, recursive or not, follow or not) / chown / chown_b / mkdir_m / mkfile_m + mode/owner queries', histories=len(H), exhaustive=False)


def _entries(dump):
    ents = {}
    if ' ## ' in dump:
        for r in dump.split(' ## ', 1)[1].split('|'):
            q = r.split(' ')
            if r.startswith('E '):
                ents[q[1]] = dict(x.split('=', 1) for x in q[2:] if '=' in x)
    return ents


def _follow_judge(req, impl, prev):
    """the reference tree filesystem has no verdict for follow(): narrow verdict written from the property text for
    chmod_b(<link spelled as its clean absolute key>).follow().no_recurse() with one non-zero octal value for dirs and files and
    no symbolic clause, link -> existing non-link entry: the TARGET gets exactly the requested permission bits (type bits kept),
    every other entry (the link included) keeps its mode."""
    t = req.split(' ')
    if t[0] != 'chmod_b' or len(t) != 7 or t[4] != '1' or t[5] != '0' or t[6] not in ('x', '') or t[2] != t[3]:
        return None
    try:
        want = int(t[2], 8)
    except ValueError:
        return None
    io = impl.split(' ## ')[0]
    if want == 0 or want > 0o777 or not io.startswith('ok') or not prev:
        return None
    before, after = _entries(prev), _entries(impl)
    lk = before.get(t[1][1:])
    if not lk or lk.get('l') != '1' or lk.get('alt') not in before or before[lk['alt']].get('l') != '0' or set(before) != set(after):
        return None
    tgt = lk['alt']
    for k in before:
        m0, m1 = int(before[k]['mode'], 8), int(after[k]['mode'], 8)
        exp = (m0 & ~0o7777) | want if k == tgt else m0
        if m1 != exp:
            return (f'mode({bytes.fromhex(k).decode("utf8", "replace")}) = {exp:o}', f'chmod through a followed link: entry {bytes.fromhex(k).decode("utf8", "replace")} has mode {m1:o}, the property demands {exp:o}')
    return None


def judge(req, impl, f, prev):
    return c01.judge(req, impl, f, prev) or _follow_judge(req, impl, prev)


SPEC = dict(
    prop='C11', lean_mod='Rivia.Props.C11sym,Rivia.Props.C01B', gen=gen, judge=judge,
    foreign_classes=('empty_lines_noop', 'listing_includes_links', 'moved_link_rel_stale'),
    rule='(1) pure: sys::mode on all 512 permission values x all 189 well-formed single clauses x {dir, file, link-to-file, link-to-dir}, random double clauses and random malformed strings, against the Lean state machine and the grammar (coverage.pure_*); '
         '(2) sessions: permission-heavy random histories over the bounded namespace with every builder option combination, judged against the reference tree filesystem (exactly the selected entries change, to exactly the requested value, links and type bits untouched). distinct = distinct (pre-state, call) pairs',
    assumptions=['Memfs only (Stdfs shares sys::mode and the _chmod driver; its set_permissions calls belong to C02)', 'recursive + follow selection is covered by correspondence only; follow + no_recurse on a link root with one octal value has a verdict of its own (_follow_judge)'],
    trusted_base=['hand transcription Rust->Lean of sys::mode and Memfs::_chmod/_chown (checked by the correspondence run)', 'grammar Rivia/Spec/ChmodGrammar.lean + reference tree filesystem', 'Rust harness + Python driver'],
)


def run(tier, seed, replay):
    import random
    vlib.build_harness()
    vlib.build_lean(['driver'])
    extra, bad = pure(tier, random.Random(seed))
    SPEC['extra_cov'] = extra
    SPEC['extra_fail'] = bad
    return vlib.memfs_check(SPEC, tier, seed, replay)
