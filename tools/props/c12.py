"""C12 — no call panics, hangs or wedges the filesystem, whatever its arguments"""
import itertools
import vlib, memfs_gen

ADV = ['/', '.', '~', '$', ':', '{', '}', 'a', 'é', '漢', '😀']
FN1 = ['clean', 'base', 'first', 'name', 'ext', 'dir', 'trim_ext', 'trim_first', 'trim_last', 'trim_protocol', 'is_empty', 'parse_paths', 'str_size', 'str_to_bool']
FN2 = ['concat', 'mash', 'has', 'has_prefix', 'has_suffix', 'trim_prefix', 'trim_suffix', 'relative', 'str_trim_suffix', 'take_while_p']
METHODS1 = ['mkfile', 'mkdir_p', 'read_all', 'read_lines', 'read', 'remove', 'remove_all', 'readlink', 'readlink_abs', 'set_cwd', 'abs', 'exists', 'is_file', 'is_dir', 'is_symlink',
            'is_symlink_dir', 'is_symlink_file', 'is_exec', 'is_readonly', 'mode', 'uid', 'gid', 'owner', 'entry', 'paths', 'dirs', 'files', 'all_paths', 'all_dirs', 'all_files']


def pure_sweep(tier, rng):
    n = 3 if tier == 'quick' else 4
    S = list(vlib.all_strings(ADV, n))
    lines = []
    for f in FN1:
        lines += [f'{f} {vlib.hx(s)}' for s in S]
    # deeper over the path-structure alphabet (separators, dots, one ASCII and one multi-byte name character)
    SMALL = ['/', '.', 'a', 'é']
    S_small = list(vlib.all_strings(SMALL, 6 if tier == 'quick' else 8))
    for f in FN1:
        lines += [f'{f} {vlib.hx(s)}' for s in S_small]
    S3 = list(vlib.all_strings(SMALL, 3 if tier == 'quick' else 4))
    for f in FN2:
        for a in S3:
            for b in S3:
                lines.append(f'{f} {vlib.hx(a)} {vlib.hx(b)}')
    S2 = list(vlib.all_strings(ADV, 2))
    for f in FN2:
        for a in S2:
            for b in S2:
                lines.append(f'{f} {vlib.hx(a)} {vlib.hx(b)}')
    for s in S:
        lines.append(f'expand {vlib.hx(s)} eHOME=2f68')
        lines.append(f'expand {vlib.hx(s)} e')
        lines.append(f'abs_memfs x2f61 {vlib.hx(s)} eHOME=2f687e78')
    for ln in range(0, 6):
        for l in [-(2 ** 63), -7, -1, 0, 1, 7, 2 ** 63 - 1]:
            for r in [-(2 ** 63), -7, -1, 0, 1, 7, 2 ** 63 - 1]:
                lines.append(f'it_slice {ln} {l} {r}')
            lines.append(f'it_drop {ln} {l}')
    for _ in range(2000 if tier == 'quick' else 50000):
        f = rng.choice(FN1)
        lines.append(f'{f} {vlib.hx("".join(rng.choice(ADV + ["..", "//", "x" * 50]) for _ in range(rng.randint(0, 40))))}')
    impl, drv, probs = vlib.run_both('pathfn', lines, 'C12_pure')
    bad = [dict(kind='property-violated', requests=[l], pretty=[vlib.pretty_req(l)], observed=i, why='a public helper panicked / did not return') for l, i in zip(lines, impl) if i in ('panic', 'harness-died')]
    mism = sum(1 for i, d in zip(impl, drv) if i != d.split('\t')[0])
    return dict(pure_helper_calls=len(lines), pure_helper_panics=len(bad), pure_model_disagreements=mism), bad


def gen(tier, rng):
    n, ln = (250, 40) if tier == 'quick' else (6000, 60)
    H = []
    for prof in ('mixed', 'tree', 'links', 'perm', 'content'):
        H += memfs_gen.histories(rng, n // 2, ln, prof)
    g = memfs_gen.Gen(rng, profile='mixed')
    g.garbage_rate = 0.7
    for _ in range(n):
        H.append(g.history(ln))
    # every method on every short adversarial string, on a small populated tree
    pre = ['new eHOME=2f68', 'mkdir_p ' + vlib.hx('/a/é'), 'write_all ' + vlib.hx('/a/f') + ' ' + vlib.hx('x'), 'symlink ' + vlib.hx('/l') + ' ' + vlib.hx('/a'), 'set_cwd ' + vlib.hx('/a')]
    S = list(vlib.all_strings(ADV, 2 if tier == 'quick' else 3))
    for m in METHODS1:
        for chunk in range(0, len(S), 40):
            H.append(pre + [f'{m} {vlib.hx(s)}' for s in S[chunk:chunk + 40]])
    return H, dict(kind='random histories (5 profiles) + abusive stream + every method x every adversarial string up to the bound', histories=len(H), exhaustive=True)


def judge(req, impl, f, prev):
    io = impl.split(' ## ')[0]
    if io in ('panic', 'hang', 'crash') or 'poisoned' in impl:
        return ('ok | err', 'the call panicked, did not return, or poisoned the lock: ' + io)
    return None


SPEC = dict(
    prop='C12', lean_mod='Rivia.Props.C12,Rivia.Props.C12R', gen=gen, judge=judge,
    rule='every Memfs method on every string over the adversarial alphabet {/ . ~ $ : { } a é 漢 😀} up to the bound (on a populated tree), random histories of all profiles, an abusive stream with 70% garbage arguments; '
         'every public path/string/iterator helper on all adversarial strings up to the bound and random longer ones (counts in coverage.pure_*). Each call runs under catch_unwind with a process-level watchdog; '
         'after every call the state dump is taken (it fails when the lock is poisoned). distinct = distinct (pre-state, call) pairs',
    assumptions=['bounded time = the model loops are fuel-bounded and proved not to run out (see theorems) + a 6 s watchdog on the implementation, not a WCET', 'allocation failure aborts are outside the model'],
    trusted_base=['hand transcription Rust->Lean (checked by the correspondence run)', 'catch_unwind + watchdog in the harness', 'Rust harness + Python driver'],
)


def run(tier, seed, replay):
    import random
    vlib.build_harness()       # the sweep below must already run against /repo's current tree
    vlib.build_lean(['driver'])
    extra, bad = pure_sweep(tier, random.Random(seed))
    SPEC['extra_cov'] = extra
    SPEC['extra_fail'] = bad
    return vlib.memfs_check(SPEC, tier, seed, replay)
