"""C08 — traversal yields exactly the selected entries, once, in order, and terminates"""
import itertools
import vlib, memfs_gen
from props import c01


def tree(rng, names):
    """ops that build a random tree of <= 12 entries with files, dirs and links (to files, dirs, ancestors, missing)"""
    ops, dirs, allp = [], ['/'], []
    for _ in range(rng.randint(2, 12)):
        d = rng.choice(dirs)
        p = d.rstrip('/') + '/' + rng.choice(names)
        k = rng.random()
        if k < 0.4 and p.count('/') < 4:
            ops.append('mkdir_p ' + vlib.hx(p))
            dirs.append(p)
        elif k < 0.8:
            ops.append('write_all ' + vlib.hx(p) + ' ' + vlib.hx('x'))
        else:
            t = rng.choice(allp + dirs + ['/missing'])
            ops.append('symlink ' + vlib.hx(p) + ' ' + vlib.hx(t))
        allp.append(p)
    return ops, dirs


def gen(tier, rng):
    ntrees, ncombo = (40, 60) if tier == 'quick' else (400, 1440)
    combos = list(itertools.product([0, 1, 2, 3], ['-', '0', '1', '2', '3'], 'adf', '01', 'usdf', '01', ['-', '0', '1', '2']))
    H = []
    for _ in range(ntrees):
        ops, dirs = tree(rng, rng.choice([['a', 'b', 'c'], ['a', 'é', 'b-', 'B']]))
        sel = combos if ncombo >= len(combos) else rng.sample(combos, ncombo)
        h = ['new eHOME=2f68'] + ops
        for (mn, mx, kind, fo, order, cf, md) in sel:
            h.append(f'entries {vlib.hx(rng.choice(dirs))} {mn} {mx} {kind} {fo} {order} {cf} {md}')
        for d in dirs[:3]:
            for l in ('paths', 'dirs', 'files', 'all_paths', 'all_dirs', 'all_files'):
                h.append(f'{l} {vlib.hx(d)}')
        # a 60-deep chain: descriptor cap independence
        H.append(h)
    chain = '/' + '/'.join(['d'] * 60)
    H.append(['new eHOME=2f68', 'mkdir_p ' + vlib.hx(chain), 'write_all ' + vlib.hx(chain + '/f') + ' ' + vlib.hx('x')] +
             [f'entries {vlib.hx("/")} 0 - {k} 0 s {cf} {md}' for k in 'adf' for cf in '01' for md in ['-', '0', '1', '2', '50']])
    return H, dict(kind='random trees (<= 12 entries: files, dirs, links to files/dirs/ancestors/missing) x sampled (quick) / full (thorough) cross-product of entries() options + listing helpers + a 60-deep chain with descriptor caps',
                   histories=len(H), option_combinations=len(combos), exhaustive=(ncombo >= len(combos)))


def judge(req, impl, f, prev):
    return c01.judge(req, impl, f, prev)


SPEC = dict(
    prop='C08', lean_mod='Rivia.Props.C08,Rivia.Props.C08F,Rivia.Props.C08S', gen=gen, judge=judge, continue_after_known=True,
    pure_ops=('entries', 'paths', 'dirs', 'files', 'all_paths', 'all_dirs', 'all_files'),
    foreign_classes=('chmod_zero', 'empty_lines_noop', 'sym_kind_specific_clauses', 'sym_malformed', 'moved_link_rel_stale'),
    rule='random trees x the cross-product of entries() options (min 0-3 x max 0-3/inf x {all,dirs,files} x follow x {unsorted,sort,dirs_first,files_first} x contents_first x descriptor cap): '
         'results compared with the Lean stack-machine model (all options incl. follow and link loops) and with the recursive walk specifications Spec.entriesSpec (follow = false) and Spec.entriesSpecF (follow = true: followed links, contents of the target once per followed link, LinkLooping on a cycle); unsorted results as multisets; '
         'listing helpers against the reference tree filesystem. distinct = distinct (pre-state, call) pairs',
    assumptions=['Memfs only (Stdfs read_dir order and races are not modelled)', 'equal-name ties under follow are order dependent (compared as multisets)', 'with follow the loop check fires even at the max_depth limit where nothing would be entered (the specification mirrors this; recorded as an observation)'],
    trusted_base=['hand transcription Rust->Lean of entries.rs / entry_iter.rs / MemfsEntryIter (checked by the correspondence run)', 'walk specifications Rivia/Spec/Walk.lean and Rivia/Spec/WalkFollow.lean', 'Rust harness + Python driver'],
)


def run(tier, seed, replay):
    return vlib.memfs_check(SPEC, tier, seed, replay)
