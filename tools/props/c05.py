"""C05 — abs() maps any path to a clean absolute path, identically on both backends"""
import vlib, memfs_gen

A9 = ['/', '.', '~', '$', ':', 'a', 'é', '{', '}']
CWDS = ['/', '/a', '/a/b', '/é/x/y']
HOMES = ['e', 'eHOME=', 'eHOME=2f68', 'eHOME=2f682fc3a9,a=2f76', 'eHOME=2f687e78']
ONEPATH = ['mkfile', 'mkdir_p', 'remove', 'remove_all', 'read_all', 'exists', 'is_dir', 'is_file', 'set_cwd', 'mode', 'paths', 'readlink', 'entry', 'all_paths', 'is_symlink']

PAIRS = {}


def gen(tier, rng):
    """sessions: a random prefix, then `abs raw`; the judge stores the answer. A second batch (built in
    prepare) replays prefix + op(raw) and prefix + op(abs raw) and compares results and states."""
    n, ln = (250, 25) if tier == 'quick' else (5000, 40)
    H = memfs_gen.histories(rng, n, ln, 'mixed')
    g = memfs_gen.Gen(rng)
    out = []
    for h in H:
        g.reset()
        raw = g.spell(rng.choice(['/a', '/a/b', '/b', '/é', '/c/a', '/']) ) if rng.random() < 0.7 else g.garbage()
        raw = rng.choice([raw, raw, 'a/../b', './a', '../a', 'b//c/', '~/a', '$HOME/b', 'file:///a', '.'])
        op = rng.choice(ONEPATH)
        out.append(h + [f'abs {vlib.hx(raw)}', f'{op} {vlib.hx(raw)}'])
    return out, dict(kind='random prefix + abs(raw) + op(raw); replayed with op(abs raw)', histories=len(out), exhaustive=False)


def prepare(hists):
    # first pass: get abs(raw) from the implementation
    impl, _ = vlib.run_sessions([h[:-1] for h in hists], 'C05_abs')
    second = []
    idx = []
    for hi, (h, r) in enumerate(zip(hists, impl)):
        a = r[-1].split(' ## ')[0] if r else ''
        if a.startswith('ok s:'):
            p = bytes.fromhex(a[5:]).decode('utf8', 'replace')
            if '~' in p or '$' in p:
                continue
            op = h[-1].split(' ')[0]
            second.append(h[:-2] + [f'{op} x{a[5:]}'])
            idx.append(hi)
    impl2, _ = vlib.run_sessions(second, 'C05_abs2')
    PAIRS.clear()
    for hi, r in zip(idx, impl2):
        PAIRS[hi] = (r[-1] if r else '', r[-2] if len(r) > 1 else '')
    prepare.hists = hists


def judge(req, impl, f, prev, hi, i):
    h = prepare.hists[hi]
    if i == len(h) - 1 and hi in PAIRS:
        other, other_prev = PAIRS[hi]
        # the two runs are separate executions: a prefix containing a multi-entry call whose effect depends on the
        # hash iteration order may leave different pre-states; then the pair says nothing about abs
        if prev and ' ## ' in prev and ' ## ' in other_prev and prev.split(' ## ', 1)[1] != other_prev.split(' ## ', 1)[1]:
            return None
        if other != impl and vlib.cmp_line(req, impl, other, f[2] if len(f) > 2 else None) == 'mismatch':
            # path-valued results name the same location; the error payload is not compared
            return (other, 'the call with a respelled path differs (result or state) from the call with abs(path)')
    return None


SPEC = dict(
    prop='C05', lean_mod='Rivia.Props.C05', gen=gen, judge=judge, judge_ctx=True, prepare=prepare,
    rule='(1) pure: abs on every string of length <= bound over the 9-char alphabet {/ . ~ $ : a é { }} x 4 cwds x 5 HOME settings against the Lean model and the join specification (coverage.pure_*); '
         '(2) sessions: random prefix history, then op(raw spelling) vs op(abs(raw)) on the same pre-state for 15 single-path methods: results and complete state dumps must be equal. distinct = distinct (pre-state, call) pairs',
    assumptions=['std::env::var = process environment set by the harness', 'Stdfs::abs is covered by the theorem C05_abs_backends_equal over the two transcriptions and by the pure run on the Memfs copy only'],
    trusted_base=['hand transcription Rust->Lean of Memfs::_abs and Stdfs::abs (checked by the correspondence run on Memfs::abs)', 'Rust harness + Python driver'],
)


def pure(tier, rng):
    n = 4 if tier == 'quick' else 5
    S = list(vlib.all_strings(A9, n))
    lines = []
    for cwd in CWDS:
        for e in HOMES:
            for s in S:
                lines.append(f'abs_memfs {vlib.hx(cwd)} {vlib.hx(s)} {e}')
    for _ in range(5000 if tier == 'quick' else 200000):
        s = ''.join(rng.choice(A9 + ['..', 'file://', 'HTTP://', '$a', '${a}', 'xy']) for _ in range(rng.randint(1, 10)))
        lines.append(f'abs_memfs {vlib.hx(rng.choice(CWDS))} {vlib.hx(s)} {rng.choice(HOMES)}')
    impl, drv, probs = vlib.run_both('pathfn', lines, 'C05_pure')
    bad, mism = [], 0
    for l, i, d in zip(lines, impl, drv):
        f = d.split('\t')
        if i != f[0]:
            mism += 1
        if len(f) > 1 and f[1] != '-' and not vlib.res_equal(i, f[1]):
            bad.append(dict(kind='property-violated', requests=[l], pretty=[vlib.pretty_req(l)], observed=i, expected_by_spec=f[1], why='abs differs from the lexical-join specification'))
    if mism and not bad:
        bad.append(dict(kind='correspondence-broken', what=f'abs: implementation and Lean model disagree on {mism} inputs; no input violating the join specification found'))
    return dict(pure_abs_calls=len(lines), pure_abs_model_disagreements=mism, pure_abs_spec_failures=len(bad)), bad


def run(tier, seed, replay):
    import random
    okh, _, _ = vlib.build_harness()
    vlib.build_lean(['driver'])
    extra, bad = pure(tier, random.Random(seed))
    SPEC['extra_cov'] = extra
    SPEC['extra_fail'] = bad
    return vlib.memfs_check(SPEC, tier, seed, replay)
