"""C13 — the Vfs and VfsEntry enums are transparent wrappers (translator + wrapped-vs-direct runs)"""
import vlib, memfs_gen, scan_rust

WRAPPED = {}
DIRECT2 = {}
DEAD = {}
INFO = {}


def pregen():
    INFO.update(scan_rust.gen_dispatch())


def gen(tier, rng):
    n, ln = (300, 40) if tier == 'quick' else (5000, 60)
    H = memfs_gen.histories(rng, n, ln, 'mixed') + memfs_gen.histories(rng, n // 2, ln, 'tree')
    return H, dict(kind='seeded random histories, each run directly on Memfs and through Vfs::Memfs (upcast)', histories=len(H), max_len=ln, exhaustive=False, translator=INFO)


def prepare(hists):
    """run the same histories through the Vfs enum (`newvfs`), harness only"""
    W = [['newvfs' + h[0][3:]] + h[1:] for h in hists]
    impl, _ = vlib.run_sessions(W, 'C13_wrapped')
    # the direct run a second time: where two direct runs differ the implementation itself is
    # order-dependent (HashMap/HashSet iteration order, seeded per map) and transparency cannot be compared
    impl2, _ = vlib.run_sessions(hists, 'C13_direct2')
    WRAPPED.clear()
    DIRECT2.clear()
    DEAD.clear()
    for hi, res in enumerate(impl):
        WRAPPED[id(hists[hi])] = res
        DIRECT2[id(hists[hi])] = impl2[hi]
    prepare.hists = hists


def judge(req, impl, f, prev, hi, i):
    res = WRAPPED.get(id(prepare.hists[hi]))
    if res is None or i >= len(res):
        return None
    if DEAD.get(hi, 10 ** 9) <= i:
        return None
    w = res[i]
    if w == impl:
        return None
    d2 = DIRECT2.get(id(prepare.hists[hi]))
    if d2 is not None and i < len(d2) and d2[i] != impl and req.split(' ')[0] in vlib.UNORDERED_OPS:
        DEAD[hi] = i                                  # two direct runs differ: order-dependent effect of a multi-entry call
        return None
    if len(f) > 2 and f[2] == 'copy_overlap':
        DEAD[hi] = i                                  # overlapping copy: order-dependent by construction
        return None
    if vlib.cmp_line(req, impl, w, f[2] if len(f) > 2 else None) != 'mismatch':     # order-dependent / hang tolerance, same rules as model comparison
        DEAD[hi] = i                                  # the two runs may legitimately differ from here on
        return None
    return (w, 'the call through Vfs::Memfs(..) differs from the direct call on Memfs (result or state)')


SPEC = dict(
    prop='C13', lean_mod='Rivia.Props.C13', gen=gen, judge=judge, judge_ctx=True, pregen=pregen, prepare=prepare,
    rule='TRANSLATOR: the dispatch table is regenerated from src/sys/fs/{vfs,entry}.rs and stdfs/{vfs,entry}.rs, memfs/entry.rs on every run and the transparency theorems are re-proved by decide. '
         'SEARCH/SUPPORT: every history is executed directly on Memfs (twice) and through Vfs::Memfs (upcast), results and state dumps must be identical wherever the two direct runs are (multi-entry calls whose effect depends on the hash iteration order are skipped); distinct = distinct (pre-state, call) pairs',
    assumptions=['Rust `match` semantics', 'the token scanner (tools/scan_rust.py) extracts the impl blocks faithfully (checked: every body is classified, counts recorded in the evidence)',
                 'Stdfs side and VfsEntry accessors are covered by the static table only (no dynamic run)'],
    trusted_base=['tools/scan_rust.py (Rust token scanner + table generator, ~300 lines)', 'Rust harness + Python driver'],
)


def run(tier, seed, replay):
    return vlib.memfs_check(SPEC, tier, seed, replay)
