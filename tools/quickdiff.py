#!/usr/bin/env python3
"""dev helper: exhaustive diff of harness vs driver for the pure path functions"""
import itertools, subprocess, sys, binascii
H='/verif/harness/target/debug/harness'; D='/verif/lean/.lake/build/bin/driver'
def hx(s): return 'x'+binascii.hexlify(s.encode()).decode()
def strings(alpha, n):
    for k in range(n+1):
        for t in itertools.product(alpha, repeat=k):
            yield ''.join(t)
def run(lines, mode='pathfn'):
    inp='\n'.join(lines)+'\n'
    a=subprocess.run([H,mode],input=inp,capture_output=True,text=True).stdout.splitlines()
    b=subprocess.run([D],input=inp,capture_output=True,text=True).stdout.splitlines()
    assert len(a)==len(lines)==len(b),(len(a),len(b),len(lines))
    return a,b
def unhex_res(r):
    p=r.split(' ')
    if len(p)==2 and p[1].startswith('s:'): return p[0]+' '+repr(binascii.unhexlify(p[1][2:]).decode('utf8','replace'))
    return r
def main():
    fns1=['clean','base','first','name','ext','dir','trim_ext','trim_first','trim_last','trim_protocol','is_empty','parse_paths']
    fns2=['concat','mash','has','has_prefix','has_suffix','trim_prefix','trim_suffix','relative']
    alpha=sys.argv[1] if len(sys.argv)>1 else '/.aé'
    n1=int(sys.argv[2]) if len(sys.argv)>2 else 6
    n2=int(sys.argv[3]) if len(sys.argv)>3 else 3
    S1=list(strings(alpha,n1)); S2=list(strings(alpha,n2))
    lines=[]; 
    for f in fns1:
        for s in S1: lines.append(f'{f} {hx(s)}')
    for f in fns2:
        for s in S2:
            for t in S2: lines.append(f'{f} {hx(s)} {hx(t)}')
    a,b=run(lines)
    bad=0
    for l,x,y in zip(lines,a,b):
        m=y.split('\t')[0]
        if x!=m:
            bad+=1
            if bad<40:
                t=l.split(' '); print('DIFF',t[0],[binascii.unhexlify(z[1:]).decode() for z in t[1:]],'impl=',unhex_res(x),'model=',unhex_res(m))
    print(len(lines),'cases',bad,'diffs')
main()
