#!/usr/bin/env python3
"""dev: run a memfs property's judge; summarize failures by (op, class); show unclassified ones"""
import sys, random, importlib
sys.path.insert(0,'/verif/tools')
import vlib
from collections import Counter
prop=sys.argv[1]; seed=int(sys.argv[2]); show=int(sys.argv[3]) if len(sys.argv)>3 else 5; tier=sys.argv[4] if len(sys.argv)>4 else 'quick'
m=importlib.import_module('props.'+prop.lower())
H,_=m.SPEC['gen'](tier,random.Random(seed))
class AllKnown(dict):
    def __contains__(self,k): return k!='-'
    def __getitem__(self,k): return dict(what_fails='x')
st=vlib.analyse_sessions(m.SPEC,H,AllKnown(),'dev'+prop)
print('evals',st['evaluations'],'judged',st['judged'],'mismatch',len(st['mismatch']),'new_fail(unclassified)',len(st['new_fail']),'known-class fails',st['known_fail_count'],sorted(st['known_hits']))
c=Counter()
for nf in st['new_fail']:
    c[(nf['history'][nf['at']].split(' ')[0], nf['why'][:60])]+=1
for k,v in c.most_common(): print('  UNCLASSIFIED',k,v)
for nf in st['new_fail'][:show]:
    h=nf['history']; i=nf['at']
    print('---', nf['why']); open(f'/verif/work/nf_{nf["history"][nf["at"]].split()[0]}.txt','w').write('\n'.join(h[:i+1])+'\n')
    for q in h[max(0,i-int(sys.argv[5]) if len(sys.argv)>5 else i-8):i+1]: print('     ',vlib.pretty_req(q))
    print('  obs:',nf['impl'].split(' ## ')[0],'|',vlib.abs_of_dump(nf['impl'])[:700]); print('  exp:',(nf['spec'] or '')[:700])
for mm in st['mismatch'][:show]:
    h=mm['history']; i=mm['at']
    print('=== MISMATCH'); 
    for q in h[max(0,i-10):i+1]: print('     ',vlib.pretty_req(q))
    print('  impl :',mm['impl'][:1200]); print('  model:',mm['model'][:1200])
