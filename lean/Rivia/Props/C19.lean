/-
  C19 — core iterator, string, option (and defer) helpers match their plain definitions.
  Property theorems ONLY (helper lemmas live in Rivia/Lemmas/*).
-/
import Rivia.Model.Core
import Rivia.Spec.Lists
import Rivia.Lemmas.Core

namespace Rivia.Props
open Rivia Rivia.Spec

/-- `isize` range -/
def InIsize (x : Int) : Prop := Core.isizeMin ≤ x ∧ x ≤ Core.isizeMax

/-! ### drop -/
theorem C19_drop {α} (l : List α) (n : Int) : Core.drop l n = dropSpec l n :=
  Lemmas.drop_eq_spec l n
theorem C19_drop_pos {α} (l : List α) (n : Int) (h : 0 < n) : Core.drop l n = l.drop n.toNat := by
  rw [Lemmas.drop_eq_spec, dropSpec, if_pos (by omega)]
theorem C19_drop_neg {α} (l : List α) (n : Int) (h : n < 0) : Core.drop l n = l.take (l.length - n.natAbs) := by
  rw [Lemmas.drop_eq_spec, dropSpec, if_neg (by omega)]
theorem C19_drop_zero {α} (l : List α) : Core.drop l 0 = l := rfl

/-! ### slice: for `left ≥ -len` the inclusive index range (all `isize` indices, any length) -/
theorem C19_slice {α} (l : List α) (left right : Int) (hl : InIsize left) (hr : InIsize right)
    (hlen : (l.length : Int) ≤ Core.isizeMax) (hdom : -(l.length : Int) ≤ left) :
    Core.slice l left right = sliceSpec l left right :=
  Lemmas.slice_eq_spec l left right hl hr hlen hdom

/-- the specification really is "the items at the inclusive index range": membership by index -/
theorem C19_sliceSpec_getElem {α} (l : List α) (left right : Int) (hdom : -(l.length : Int) ≤ left) (i : Nat) :
    (sliceSpec l left right)[i]? =
      (let len : Int := l.length
       let lo : Int := if left < 0 then len + left else left
       let hi : Int := if right < 0 then len + right else min right (len - 1)
       if lo + i ≤ hi then l[(lo + i).toNat]? else none) :=
  Lemmas.sliceSpec_getElem l left right hdom i

/-! ### first / first_result / last_result / single / some / consume -/
theorem C19_first {α} (l : List α) : Core.first l = l.head? := rfl
theorem C19_first_result {α} (l : List α) : Core.firstResult l = Outcome.ofOption .iterItemNotFound l.head? :=
  Lemmas.firstResult_eq l
theorem C19_last_result {α} (l : List α) : Core.lastResult l = Outcome.ofOption .iterItemNotFound l.getLast? :=
  Lemmas.lastResult_eq l
theorem C19_single {α} (l : List α) : Core.single l = singleSpec l := Lemmas.single_eq l
theorem C19_single_iff {α} (l : List α) (a : α) : Core.single l = .ok a ↔ l = [a] := Lemmas.single_iff l a
theorem C19_some {α} (l : List α) : Core.hasSome l = true ↔ l ≠ [] := Lemmas.hasSome_iff l
theorem C19_consume {α} (l : List α) : Core.consume l = [] := rfl

/-! ### strings -/
theorem C19_size (s : Str) : Core.size s = s.length := rfl
theorem C19_to_bool (s : Str) : Core.toBool s = toBoolSpec s := Lemmas.toBool_eq_spec s
theorem C19_to_bool_false_iff (s : Str) :
    Core.toBool s = false ↔ (s = [] ∨ s = ['0'] ∨ s.map Str.lowerChar = "false".toList) :=
  Lemmas.toBool_false_iff s
theorem C19_trim_suffix_once (s suf : Str) :
    (suf <:+ s → Core.trimSuffix s suf ++ suf = s) ∧ (¬ suf <:+ s → Core.trimSuffix s suf = s) :=
  Lemmas.trimSuffix_once s suf

/-! ### Option::has, take_while_p -/
theorem C19_has {α} [DecidableEq α] (o : Option α) (x : α) : Core.has o x = true ↔ o = some x := Lemmas.has_iff o x
theorem C19_take_while_p {α} (p : α → Bool) (l : List α) :
    Core.takeWhileP p l = (l.takeWhile p, l.dropWhile p) :=
  Lemmas.takeWhileP_eq p l
/-- longest prefix satisfying `p`; the first failing item stays unconsumed -/
theorem C19_take_while_p_longest {α} (p : α → Bool) (l : List α) :
    let (t, r) := Core.takeWhileP p l
    t ++ r = l ∧ (∀ x ∈ t, p x = true) ∧ (∀ x, r.head? = some x → p x = false) := by
  rw [Lemmas.takeWhileP_eq]
  exact Lemmas.takeWhileP_longest p l

-- non-vacuity / sanity (tests, labelled as such)
example : Core.slice [0, 1, 2, 3] 1 0 = ([] : List Nat) := by decide
example : Core.slice [0, 1] 0 0 = [0] := by decide
example : Core.slice [0, 1, 2, 3] (-3) (-2) = [1, 2] := by decide
example : Core.toBool "FaLsE".toList = false := by decide

end Rivia.Props
