import Rivia.Spec.MemfsJudge
namespace Rivia.Props
open Rivia Rivia.Memfs Rivia.Spec
theorem C01_init_abs : (absS Memfs.init).cwd = [] := rfl
end Rivia.Props
