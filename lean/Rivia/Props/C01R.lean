/-
  C01 (history level) — "For any finite sequence of operations the in-memory backend behaves as a tree
  filesystem: every call returns what the reference returns and leaves the reference's tree".

  The per-step refinement theorems (Props/C01A: 25 ops, Props/C01B: 8 ops) carry state hypotheses
  (`Inv`, `KeysWf`, `EntriesOk`, `FlagsOk`, `ModeOk`, `DepthOk`).  This file discharges all of them but
  `DepthOk` for states reached from `Memfs.init`:

    RInv s  :=  C03_Strong s ∧ EntriesOk s ∧ KeysW s

  holds initially and is kept by every `GoodOp` call that returns (`C01R_good_step`), hence by every
  history of `GoodOp`s (`C01R_good_run_inv`), and it implies every side condition of C01A / C01B
  (`C01R_rinv_facts`); `C01_refines_history` is the refinement statement without invariant hypotheses.

  Per-constructor table (53 constructors of `Op`).  Columns: EntriesOk / KeysW (no `..` name) /
  ModeOk / FlagsOk(B); `+` = preserved at every exit (proved), `-` = NOT preserved (witness below).
  `ModeOk` and `FlagsOk`(B) are consequences of `EntriesOk`, the C03 invariants are covered by C03.

    op (constructors)                                                    EOk KeysW  via
    ------------------------------------------------------------------------------------------------
    28 read-only: readAll readLines read readlink readlinkAbs cwd root
      abs exists isFile isDir isSymlink isSymlinkDir isSymlinkFile
      isExec isReadonly mode uid gid owner entry paths dirs files
      allPaths allDirs allFiles entries                                    +    +    state unchanged
    mkfile mkdirP mkdirM(any mode) writeAll appendAll writeLines
      appendLines appendLine setCwd                                        +    +    StepAInv
    mkfileM(any mode) chmod(any mode) chmodB(any opts, follow too)         +    +    StepAInv (set_mode keeps the
                                                                                     permission bits of the
                                                                                     argument and ORs the
                                                                                     entry's type bits in)
    chown chownB(any opts)                                                 +    +    StepAInv
    hWrite hAppend hPut hFlush hDrop                                       +    +    StepAInv
    remove removeAll symlink                                               +    +    Tr calculus (ReachInv)
    moveP                                                                  +    +    MoveLinkRel / moveLoop_spec
    copy, copyB with follow = false                                        +    +    ReachCopy (two-state invariant)
    copyB with follow = true                                               -    -    witnesses C01R_copy_follow_*

  So, contrary to the expected suspects, mode arguments with foreign type bits or bits above 0o7777 do
  NOT break `EntriesOk`: since the `mode_type_bits` repair `set_mode` / `MemfsEntryOpts::mode` mask
  whatever is passed with 0o7777 before OR-ing the entry's own type bits in, so every stored mode is
  canonical (type bits of the kind plus permission bits) — which is what `EntriesOk` now asks for
  (before the repair it could only ask that the type bits of the kind are present; foreign bits
  survived, finding `mode_type_bits`, see Props/C02M).  Handle operations and `symlink` are harmless
  too.  The only offender is `copy_b(..).follow(true)`.

  DepthOk (every key shorter than usize::MAX components) is no invariant of the model (nothing bounds
  the depth `mkdir_p` can build) and stays a per-step side condition (`DepthDom`); it follows from
  "fewer than usize::MAX entries" (`C01_refines_history_small`).
  (This file cannot import Props/C10: Lemmas/Symlink and Lemmas/CopyMove both declare `dirOf_nil`.)
-/
import Rivia.Lemmas.ReachCopy
import Rivia.Props.C01A
import Rivia.Props.C01B
import Rivia.Props.C03

namespace Rivia.Props
open Rivia Rivia.Memfs Rivia.Spec Rivia.Spec.TreeFs Rivia.Lemmas
open Rivia.Lemmas.Reach (KeysW)

/-! ### the alphabet and the invariant -/

/-- the operations that keep every side invariant: everything but `copy_b(..).follow(true)` -/
def GoodOp : Op → Prop
  | .copyB _ _ c => c.follow = false
  | _ => True

instance : DecidablePred GoodOp := fun op => by unfold GoodOp; split <;> infer_instance

/-- the invariant of reachable states used here: C03's, the per-entry one of C01A, and "no name of a
    key or of the cwd is empty, `.`, `..` or contains `/`" -/
def RInv (s : State) : Prop := C03_Strong s ∧ RefineA.EntriesOk s ∧ KeysW s

instance (s : State) : Decidable (RInv s) := by unfold RInv KeysW; infer_instance

/-- every call of the history returns -/
def Returns (env : Env) (s : State) (ops : List Op) : Prop :=
  ∀ pre op post, ops = pre ++ op :: post → (step env (run env s pre) op).1 ≠ .hang

theorem C01R_init : RInv Memfs.init := by decide

/-- one `GoodOp` call that returns keeps the invariant (the "returns" hypothesis is C03's, for `move_p`) -/
theorem C01R_good_step (env : Env) (s : State) (op : Op) (hg : GoodOp op) (h : RInv s)
    (hh : (step env s op).1 ≠ .hang) : RInv (step env s op).2 := by
  refine ⟨C03_strong_step env s op h.1 hh, ?_⟩
  rcases InvAll.covered_all op with hc | hc | hc
  · exact ⟨Reach.entriesOk_step_A env s op hc h.2.1, Reach.keysW_step_A env s op hc h.2.2⟩
  · by_cases h3 : InvB.CoveredB3 op
    · exact (Reach.ki_iff _).1 (Reach.ki_step_B3 env s op h3 ((Reach.ki_iff s).2 h.2))
    · cases op <;> first | exact absurd hc id | exact absurd trivial h3 | skip
      exact ⟨MoveLinkRel.step_moveP_entriesOk env _ _ s h.2.1,
        Reach.keysW_step_moveP env _ _ s h.1.1 h.2.2 h.2.1⟩
  · have hcn : Reach.copyNoFollow op := by
      cases op <;> first | exact absurd hc id | exact trivial | exact hg
    exact Reach.step_copy_keeps env s op hcn h.1.1 h.2.1 h.2.2

theorem C01R_good_run (env : Env) (s : State) (ops : List Op) (hg : ∀ op ∈ ops, GoodOp op) (h : RInv s)
    (hh : InvAll.NoHangRun env s ops) : RInv (run env s ops) := by
  induction ops generalizing s with
  | nil => exact h
  | cons op ops ih =>
    exact ih _ (fun o ho => hg o (List.mem_cons_of_mem _ ho))
      (C01R_good_step env s op (hg op List.mem_cons_self) h hh.1) hh.2

/-- what `RInv` gives: every hypothesis of the step theorems of C01A / C01B except `DepthOk` -/
theorem C01R_rinv_facts {s : State} (h : RInv s) :
    Spec.Inv s ∧ C03_KeysWf s ∧ C03_SortedKids s ∧ C03_FlagsOk s ∧
    RefineA.KeysWf s ∧ RefineB.KeysWf s ∧ RefineA.EntriesOk s ∧ RefineB.FlagsOk s ∧ RefineB.ModeOk s :=
  have hB := Reach.keysWfB_of s h.1.1 h.2.2
  ⟨h.1.1, h.1.2.1, h.1.2.2.1, h.1.2.2.2, Reach.keysWfA_of s hB, hB, h.2.1,
    Reach.flagsOk_of_entriesOk h.2.1, Reach.modeOk_of_entriesOk h.2.1⟩

/-- **every state reached by a history of `GoodOp`s, each of which returns, satisfies all the side
    invariants** of the refinement theorems (all but `DepthOk`) -/
theorem C01R_good_run_inv (env : Env) (ops : List Op) (hg : ∀ op ∈ ops, GoodOp op)
    (hh : Returns env Memfs.init ops) :
    Spec.Inv (run env Memfs.init ops) ∧ C03_KeysWf (run env Memfs.init ops) ∧
    C03_SortedKids (run env Memfs.init ops) ∧ C03_FlagsOk (run env Memfs.init ops) ∧
    RefineA.KeysWf (run env Memfs.init ops) ∧ RefineB.KeysWf (run env Memfs.init ops) ∧
    RefineA.EntriesOk (run env Memfs.init ops) ∧ RefineB.FlagsOk (run env Memfs.init ops) ∧
    RefineB.ModeOk (run env Memfs.init ops) :=
  C01R_rinv_facts (C01R_good_run env _ ops hg C01R_init ((InvAll.noHangRun_iff env _ ops).2 hh))

/-! ### the refinement statement along histories -/

/-- the two relations of C01A and C01B are the same -/
theorem resMatch_A_iff_B (o : Outcome Val) (r : R Val) : RefineA.ResMatch o r ↔ RefineB.ResMatch o r := by
  cases o <;> cases r <;> first | exact Iff.rfl | (rename_i x; cases x <;> exact Iff.rfl)

theorem tEquiv_A_iff_B (a b : T) : RefineA.TEquiv a b ↔ RefineB.TEquiv a b := Iff.rfl

/-- the remaining side condition: the recursive traversals of `chown` / `chmod` stop descending at
    depth `usize::MAX`, the reference does not (`RefineB.DepthOk s`: every key has fewer than
    `2^64 - 1` components) -/
def DepthDom (s : State) : Op → Prop
  | .chown _ _ _ => RefineB.DepthOk s
  | .chownB _ c => c.follow = false → c.recursive = true → RefineB.DepthOk s
  | .chmod _ _ => RefineB.DepthOk s
  | .chmodB _ c => c.recursive = true → RefineB.DepthOk s
  | _ => True

instance (s : State) : DecidablePred (DepthDom s) := fun op => by unfold DepthDom; split <;> infer_instance

theorem domB_of (s : State) (op : Op) (h : RInv s) (hd : DepthDom s op) : DomB s op := by
  have hF := Reach.flagsOk_of_entriesOk h.2.1
  have hM := Reach.modeOk_of_entriesOk h.2.1
  cases op <;> first | exact trivial | exact hd | exact hF | exact ⟨hF, hM, hd⟩

/-- the operations whose refinement is proved: 25 of group A, 8 of group B -/
def Refined (op : Op) : Prop := RefineA.GroupA op = true ∨ GroupB op

instance : DecidablePred Refined := fun op => by unfold Refined; infer_instance

/-- one step from an `RInv` state -/
theorem C01R_refines_step (env : Env) (s : State) (op : Op) (h : RInv s) (hR : Refined op)
    (hc : classOf s env op = "-") (hd : DepthDom s op) (r : R Val) (t' : T)
    (hs : specStep env (absS s) op = some (r, t')) :
    RefineB.ResMatch (step env s op).1 r ∧
      (r ≠ .unspecified → RefineB.TEquiv (absS (step env s op).2) t') := by
  have hf := C01R_rinv_facts h
  rcases hR with hA | hB
  · have := C01_refines_step_groupA env s op hA hf.1 hf.2.2.2.2.1 hf.2.2.2.2.2.2.1 hc r t' hs
    exact ⟨(resMatch_A_iff_B _ _).1 this.1, this.2⟩
  · exact C01_refines_step_groupB env s op hB hf.1 hf.2.2.2.2.2.1 (domB_of s op h hd) hc r t' hs

/-- **C01 along histories**: after ANY history `pre` of `GoodOp`s (each call returning) from the fresh
    filesystem, a call of one of the 33 refined operations outside the known-finding classes returns
    what the reference returns on the abstraction of the current state and leaves a state whose
    abstraction is the reference's post-state.  No invariant hypothesis; `DepthDom` only for the
    recursive `chown` / `chmod` forms. -/
theorem C01_refines_history (env : Env) (pre : List Op) (op : Op)
    (hg : ∀ o ∈ pre, GoodOp o) (hh : Returns env Memfs.init pre) (hR : Refined op)
    (hc : classOf (run env Memfs.init pre) env op = "-") (hd : DepthDom (run env Memfs.init pre) op)
    (r : R Val) (t' : T)
    (hs : specStep env (absS (run env Memfs.init pre)) op = some (r, t')) :
    RefineB.ResMatch (step env (run env Memfs.init pre) op).1 r ∧
      (r ≠ .unspecified → RefineB.TEquiv (absS (step env (run env Memfs.init pre) op).2) t') :=
  C01R_refines_step env _ op
    (C01R_good_run env _ pre hg C01R_init ((InvAll.noHangRun_iff env _ pre).2 hh)) hR hc hd r t' hs

/-- `DepthDom` holds as soon as the tree has fewer than `usize::MAX` entries (every prefix of a key is a
    key of a well-formed tree, so a key of `n` components needs `n + 1` entries) -/
theorem C01R_depthDom_of_small (s : State) (op : Op) (h : RInv s) (hsmall : s.entries.length < 2 ^ 64 - 1) :
    DepthDom s op := by
  have hd := Reach.depthOk_of_small h.1.1 hsmall
  cases op <;> first | exact trivial | exact hd | exact fun _ => hd | exact fun _ _ => hd

/-- C01 along histories with the physical size bound in place of `DepthDom` -/
theorem C01_refines_history_small (env : Env) (pre : List Op) (op : Op)
    (hg : ∀ o ∈ pre, GoodOp o) (hh : Returns env Memfs.init pre) (hR : Refined op)
    (hc : classOf (run env Memfs.init pre) env op = "-")
    (hsmall : (run env Memfs.init pre).entries.length < 2 ^ 64 - 1) (r : R Val) (t' : T)
    (hs : specStep env (absS (run env Memfs.init pre)) op = some (r, t')) :
    RefineB.ResMatch (step env (run env Memfs.init pre) op).1 r ∧
      (r ≠ .unspecified → RefineB.TEquiv (absS (step env (run env Memfs.init pre) op).2) t') :=
  have hr := C01R_good_run env _ pre hg C01R_init ((InvAll.noHangRun_iff env _ pre).2 hh)
  C01R_refines_step env _ op hr hR hc (C01R_depthDom_of_small _ op hr hsmall) r t' hs

/-- the same for every position of one history -/
theorem C01_refines_history_all (env : Env) (ops : List Op)
    (hg : ∀ o ∈ ops, GoodOp o) (hh : Returns env Memfs.init ops) :
    ∀ pre op post, ops = pre ++ op :: post → Refined op →
      classOf (run env Memfs.init pre) env op = "-" → DepthDom (run env Memfs.init pre) op →
      ∀ r t', specStep env (absS (run env Memfs.init pre)) op = some (r, t') →
        RefineB.ResMatch (step env (run env Memfs.init pre) op).1 r ∧
          (r ≠ .unspecified → RefineB.TEquiv (absS (step env (run env Memfs.init pre) op).2) t') := by
  intro pre op post he hR hc hd r t' hs
  refine C01_refines_history env pre op (fun o ho => hg o ?_) ?_ hR hc hd r t' hs
  · rw [he]; exact List.mem_append_left _ ho
  · intro p o q hp
    exact hh p o (q ++ op :: post) (by rw [he, hp]; simp)

/-! ### `GoodOp` is the largest such alphabet: `copy_b(..).follow(true)` breaks both extra invariants -/

namespace C01RWitness
def S (s : String) : Str := s.toList
def dirE (p : FsPath) (fs : List Str) : Entry := { mkDirEntry p none with files := some fs }
def lnk (p t : FsPath) (rel : Str) : Entry :=
  { path := p, alt := some t, rel := rel, dir := false, file := true, link := true, mode := 0o120777,
    uid := 1000, gid := 1000, follow := false, cached := false, files := none }

/-- `/a/l2 -> /l1 -> /f` (what `mkdir_p /a; mkfile /f; symlink /l1 /f; symlink /a/l2 /l1` builds) -/
def wRel : State :=
  { entries := [([], dirE [] [S "a", S "f", S "l1"]), ([S "a"], dirE [S "a"] [S "l2"]),
                ([S "f"], mkFileEntry [S "f"]), ([S "l1"], lnk [S "l1"] [S "f"] (S "f")),
                ([S "a", S "l2"], lnk [S "a", S "l2"] [S "l1"] (S "../l1"))],
    files := [([S "f"], [])], cwd := [], root := [], handles := [] }

/-- `/x/l -> /x..` where `/x..` is a regular file
    (what `mkdir_p /x; mkfile /x..; symlink /x/l /x..` builds) -/
def wDots : State :=
  { entries := [([], dirE [] [S "x", S "x.."]), ([S "x"], dirE [S "x"] [S "l"]),
                ([S "x.."], mkFileEntry [S "x.."]), ([S "x", S "l"], lnk [S "x", S "l"] [S "x.."] (S "../x.."))],
    files := [([S "x.."], [])], cwd := [], root := [], handles := [] }
end C01RWitness
open C01RWitness

set_option maxRecDepth 100000 in
/-- `copy_b("/a", "/b").follow(true)`: the traversal follows `/a/l2` to `/l1`, which is itself a link; its
    entry is cloned to `/b/l1` with the `rel` it had in `/` (`"f"`), so `readlink("/b/l1")` names
    `/b/f` while `readlink_abs` says `/f` — the state leaves `EntriesOk` -/
theorem C01R_copy_follow_breaks_entriesOk :
    RInv wRel ∧ (step env0 wRel (.copyB (S "/a") (S "/b") { follow := true })).1 = .ok .unit ∧
    ¬ RefineA.EntriesOk (step env0 wRel (.copyB (S "/a") (S "/b") { follow := true })).2 ∧
    (alLookup [S "b", S "l1"] (step env0 wRel (.copyB (S "/a") (S "/b") { follow := true })).2.entries).map
      (fun e => (e.rel, e.alt)) = some (S "f", some [S "f"]) := by
  decide

set_option maxRecDepth 100000 in
/-- `copy_b("/x", "/d").follow(true)`: the followed path `/x..` is outside the source, `trim_prefix`
    strips the *string* prefix `/x` from it and the remainder `..` is mashed onto `/d`: an entry is
    stored under the key `/d/..` — the state leaves `KeysW` (and `RefineB.KeysWf`), `Inv` still holds -/
theorem C01R_copy_follow_breaks_keysW :
    RInv wDots ∧ (step env0 wDots (.copyB (S "/x") (S "/d") { follow := true })).1 = .ok .unit ∧
    (alLookup [S "d", S ".."] (step env0 wDots (.copyB (S "/x") (S "/d") { follow := true })).2.entries).isSome = true ∧
    ¬ KeysW (step env0 wDots (.copyB (S "/x") (S "/d") { follow := true })).2 ∧
    Spec.Inv (step env0 wDots (.copyB (S "/x") (S "/d") { follow := true })).2 := by
  decide

/-- the step statement for ALL operations is false -/
theorem C01R_all_ops_step_false :
    ¬ (∀ (env : Env) (s : State) (op : Op), RInv s → (step env s op).1 ≠ .hang → RInv (step env s op).2) := by
  intro h
  have w := C01R_copy_follow_breaks_entriesOk
  exact w.2.2.1 (h env0 wRel _ w.1 (by rw [w.2.1]; intro h0; cases h0)).2.1

/-! ### non-vacuity -/

namespace C01RWitness
/-- a history with a symlink, a `move_p` of that link into another directory, a copy and a chmod -/
def hist : List Op :=
  [.mkdirP (S "/a/b"), .writeAll (S "/a/b/f") [104, 105], .mkdirP (S "/d"), .symlink (S "/a/l") (S "/a/b/f"),
   .moveP (S "/a/l") (S "/d"), .copy (S "/a/b") (S "/c"), .chmod (S "/c") 0o750]
/-- the reference's answer (`R Val` has no decidable equality: two recognisers) -/
def isOkUnit : Option (R Val × T) → Bool | some (.ok .unit, _) => true | _ => false
def isOkStr (x : Str) : Option (R Val × T) → Bool | some (.ok (.str y), _) => x == y | _ => false
end C01RWitness

/-- executable check of "every call returns", one evaluation of `step` per call -/
def returnsChk (env : Env) : State → List Op → Bool
  | _, [] => true
  | s, op :: ops => match step env s op with
    | (.hang, _) => false
    | (_, s') => returnsChk env s' ops

theorem noHangRun_of_chk (env : Env) (s : State) (ops : List Op) (h : returnsChk env s ops = true) :
    InvAll.NoHangRun env s ops := by
  induction ops generalizing s with
  | nil => trivial
  | cons op ops ih =>
    unfold returnsChk at h
    rcases hs : step env s op with ⟨o, s'⟩
    rw [hs] at h
    unfold InvAll.NoHangRun
    rw [hs]
    cases o with
    | hang => cases h
    | ok v => exact ⟨(fun h0 => by cases h0), ih _ h⟩
    | err k => exact ⟨(fun h0 => by cases h0), ih _ h⟩
    | panic => exact ⟨(fun h0 => by cases h0), ih _ h⟩

theorem C01R_hist_returns : Returns env0 Memfs.init hist :=
  (InvAll.noHangRun_iff env0 _ _).1 (noHangRun_of_chk _ _ _ (by decide +kernel))

theorem C01R_hist_good : ∀ o ∈ hist, GoodOp o := by decide

set_option maxRecDepth 100000 in
/-- the moved link is where `move_p` put it, with the `rel` of its new directory -/
theorem C01R_hist_state :
    (alLookup [S "d", S "l"] (run env0 Memfs.init hist).entries).map (fun e => (e.link, e.rel, e.alt))
      = some (true, S "../a/b/f", some [S "a", S "b", S "f"]) := by decide +kernel

set_option maxRecDepth 100000 in
/-- every hypothesis of `C01_refines_history` holds for `pre := hist` and the next call
    `readlink "/d/l"` (group A) … -/
example : Refined (.readlink (S "/d/l")) ∧ classOf (run env0 Memfs.init hist) env0 (.readlink (S "/d/l")) = "-" ∧
    DepthDom (run env0 Memfs.init hist) (.readlink (S "/d/l")) ∧
    isOkStr (S "../a/b/f") (specStep env0 (absS (run env0 Memfs.init hist)) (.readlink (S "/d/l"))) = true := by
  decide +kernel

set_option maxRecDepth 100000 in
/-- … and for the next call `move_p "/d/l" "/a"` (group B) -/
example : Refined (.moveP (S "/d/l") (S "/a")) ∧
    classOf (run env0 Memfs.init hist) env0 (.moveP (S "/d/l") (S "/a")) = "-" ∧
    DepthDom (run env0 Memfs.init hist) (.moveP (S "/d/l") (S "/a")) ∧
    isOkUnit (specStep env0 (absS (run env0 Memfs.init hist)) (.moveP (S "/d/l") (S "/a"))) = true := by
  decide +kernel

/-- the conclusion, instantiated -/
example (r : R Val) (t' : T)
    (hs : specStep env0 (absS (run env0 Memfs.init hist)) (.moveP (S "/d/l") (S "/a")) = some (r, t')) :
    RefineB.ResMatch (step env0 (run env0 Memfs.init hist) (.moveP (S "/d/l") (S "/a"))).1 r ∧
      (r ≠ .unspecified →
        RefineB.TEquiv (absS (step env0 (run env0 Memfs.init hist) (.moveP (S "/d/l") (S "/a"))).2) t') :=
  C01_refines_history env0 hist (.moveP (S "/d/l") (S "/a")) C01R_hist_good C01R_hist_returns (Or.inr trivial) (by decide +kernel) trivial r t' hs

end Rivia.Props

-- OPEN (not proved):
--   * The trace-level simulation against ONE run of the reference (instead of re-abstracting before each
--     call):  with  refRun env t [] = some t,
--                   refRun env t (op :: ops) = match specStep env t op with
--                     | some (r, t') => if r is unspecified then none else refRun env t' ops | none => none,
--       ∀ env ops t, (∀ o ∈ ops, GoodOp o ∧ Refined o) → Returns env Memfs.init ops →
--         (∀ pre op post, ops = pre ++ op :: post → classOf (run env Memfs.init pre) env op = "-" ∧
--            DepthDom (run env Memfs.init pre) op) →
--         refRun env (absS Memfs.init) ops = some t → RefineB.TEquiv (absS (run env Memfs.init ops)) t.
--     It follows from `C01_refines_history_all` by induction as soon as `specStep` is shown to respect
--     `TEquiv` (same result, `TEquiv` post-states, for `TEquiv` arguments) on duplicate-free node lists for
--     the 33 refined operations; `TreeFs.del` erases only the first occurrence of a key, so the
--     congruence needs `Nodup` of the node keys as an invariant of the reference run.  Not attempted.
--   * `DepthOk` (no key has `usize::MAX` or more components) is kept as the per-step side condition
--     `DepthDom` for `chown` / `chmod` (or the size bound of `C01_refines_history_small`): it is no
--     invariant of the model; per-operation preservation of `DepthOk` was not examined (every operation
--     that creates no key keeps it trivially; `mkdir_p`, `copy`, `move_p` can lengthen keys).
