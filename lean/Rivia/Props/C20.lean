/-
  C20 — "The assert_vfs_* macros are sound and complete test oracles".
  Property theorems ONLY (helper lemmas: Rivia/Lemmas/Macros.lean, MacrosAct.lean, MacrosWit.lean).

  Model: `Macros.runMacro` (Rivia/Model/Macros.lean, transcription of src/testing/assert.rs).
  Spec : `MacroSpec.macroSpec` = (documented predicate / postcondition, expected post-state).

  Domain predicates (all decidable):
  * `ArgsStable env s m` — every path argument the macro hands BACK to the vfs resolves to a key that
    `abs` maps to itself. The macros call `abs(path)` and then `op(&target)`, which resolves again;
    `abs` is not idempotent in general (C05 finding: `$X → "$Y"`, a HOME containing `~`), so without this
    hypothesis every statement below is false (`C20_double_resolution_cex`, finding A5).
    `C20_stable_of_noSpecial`: it holds whenever the resolved path contains no `~` / `$`.
  * `StateOk s` — every entry has exactly one of `dir`/`file`, regular files have stored bytes, links
    have a target (implied by the C03 invariant + the per-entry facts of C01: `C20_stateOk_of_inv`).
  * `PostOk env s m` — `StateOk` of the specified post-state (only asked for `mkfile`, `write_all`).

  Findings of the first round and their status (model = the repaired tree):
    A1  `write_all` on an existing file passed without writing            — REPAIRED (2f59893); it now
        always writes (`C20_write_all_existing_example`). `symlink` / `mkfile` on an existing link / file
        pass without acting: DOCUMENTED ("If the .. exists no change is made"), now part of `macroSpec`.
    A2  `readlink_abs` compared with `has_suffix`                         — REPAIRED (777ae76): sound and
        complete now (`C20_checking_sound_complete`, `C20_readlink_abs_example`).
    A3  one branch of `is_symlink` printed the name `assert_vfs_is_link!`  — REPAIRED (d5c137e):
        `C20_message_names_macro_checking` holds without exception.
    A4  `no_dir` / `no_file` decide "does not exist", not "isn't a directory / file" — STANDS.
    A5  double resolution of path arguments (see `ArgsStable`)            — STANDS.
    A6  `copyfile` compared `read_all` TEXTS: a correct copy of a file that is not valid UTF-8 made the
        macro panic with "failed reading src file"                          — REPAIRED: the macro reads
        both files as BYTES (`read` + `read_to_end`) and compares the byte vectors. `C20_copyfile_full`
        is a theorem now, `C20_copyfile` has no UTF-8 condition left, and the former witness (a file
        holding 0xFF) passes (`C20_copyfile_nonutf8_example`).
-/
import Rivia.Lemmas.Macros
import Rivia.Lemmas.MacrosAct
import Rivia.Lemmas.MacrosCopy
import Rivia.Lemmas.MacrosWit

namespace Rivia.Props
open Rivia Rivia.Memfs Rivia.File Rivia.Spec Rivia.Macros Rivia.Spec.MacroSpec Rivia.MacroLemmas

/-! ## 1. checking macros -/

/-- no checking macro ever changes the filesystem (full strength, no hypotheses) -/
theorem C20_checking_state_unchanged (env : Env) (s : State) (m : MacroCall) (hm : isChecking m = true) :
    (runMacro env s m).2 = s :=
  checking_state m hm

/-- the full statement: every checking macro passes exactly when its documented predicate holds -/
def C20_checking_sound_complete_full : Prop :=
  ∀ (env : Env) (s : State) (m : MacroCall), isChecking m = true → StateOk s → ArgsStable env s m →
    (((runMacro env s m).1 = .pass ↔ (macroSpec env s m).1 = true) ∧
      (runMacro env s m).2 = (macroSpec env s m).2)

/-- it is false: `assert_vfs_no_dir!(vfs, "/f")` panics on a regular file `/f` (A4) -/
theorem C20_checking_sound_complete_full_false : ¬ C20_checking_sound_complete_full := by
  intro h
  have env : Env := fun _ => none
  have h1 := (h env sFile (.noDir pF) rfl stateOk_sFile (stableArg_pF env sFile)).1
  rw [macroSpec_checking env sFile _ rfl, wit_noDir_run env] at h1
  exact absurd (h1.2 (wit_noDir_spec env)) (by simp [pm])

/-- **sound and complete** — `exists`, `no_exists`, `is_dir`, `is_file`, `is_symlink`, `no_symlink`,
    `read_all`, `readlink`, `readlink_abs` (all checking macros except `no_dir` / `no_file`):
    pass ⇔ documented predicate, state unchanged -/
theorem C20_checking_sound_complete (env : Env) (s : State) (m : MacroCall) (hm : faithfulCheck m = true)
    (hok : StateOk s) (hst : ArgsStable env s m) :
    ((runMacro env s m).1 = .pass ↔ (macroSpec env s m).1 = true) ∧
      (runMacro env s m).2 = (macroSpec env s m).2 := by
  have hc : isChecking m = true := by cases m <;> first | rfl | cases hm
  rw [macroSpec_checking env s m hc]
  exact ⟨checking_iff m hm hok hst, checking_state m hc⟩

-- non-vacuity: the hypotheses hold for a non-trivial state and call, and the macro passes
example (env : Env) : faithfulCheck (.isFile pF) = true ∧ StateOk sFile ∧ ArgsStable env sFile (.isFile pF) ∧
    (macroSpec env sFile (.isFile pF)).1 = true :=
  ⟨rfl, stateOk_sFile, stableArg_pF env sFile, by
    rw [macroSpec_checking env sFile _ rfl]; exact sFile_isFile env⟩

/-! ### A4: `no_dir`, `no_file` -/

/-- documented: "Assert that the given path isn't a directory" -/
def C20_no_dir_full : Prop :=
  ∀ (env : Env) (s : State) (p : Str), StateOk s → StableArg env s p →
    ((runMacro env s (.noDir p)).1 = .pass ↔ checkSpec env s (.noDir p) = true)

/-- witness: `/f` is a regular file — it isn't a directory — and the macro panics with
    "exists and is not a directory" -/
theorem C20_no_dir_cex (env : Env) :
    runMacro env sFile (.noDir pF) = (.panic "assert_vfs_no_dir!" (some "exists and is not a directory"), sFile) ∧
    checkSpec env sFile (.noDir pF) = true :=
  ⟨wit_noDir_run env, wit_noDir_spec env⟩

theorem C20_no_dir_full_false : ¬ C20_no_dir_full := by
  intro h
  have env : Env := fun _ => none
  have h1 := h env sFile pF stateOk_sFile (stableArg_pF env sFile)
  rw [wit_noDir_run env] at h1
  exact absurd (h1.2 (wit_noDir_spec env)) (by simp [pm])

/-- what `no_dir` really decides: the path resolves and does not exist at all -/
theorem C20_no_dir_actual (env : Env) (s : State) (p : Str) (hst : StableArg env s p) :
    (runMacro env s (.noDir p)).1 = .pass ↔ checkSpec env s (.noExists p) = true :=
  run_noDir_iff hst

/-- partial: right on paths that do not exist or are directories -/
theorem C20_no_dir_partial (env : Env) (s : State) (p : Str) (hst : StableArg env s p)
    (hdom : pExists env s p = false ∨ pIsDir env s p = true) :
    (runMacro env s (.noDir p)).1 = .pass ↔ checkSpec env s (.noDir p) = true :=
  noDir_partial hst hdom

/-- documented: "Assert that the given path isn't a file" -/
def C20_no_file_full : Prop :=
  ∀ (env : Env) (s : State) (p : Str), StateOk s → StableArg env s p →
    ((runMacro env s (.noFile p)).1 = .pass ↔ checkSpec env s (.noFile p) = true)

/-- witness: `/` isn't a file and the macro panics with "exists and is not a file" -/
theorem C20_no_file_cex (env : Env) :
    runMacro env Memfs.init (.noFile pRoot) =
      (.panic "assert_vfs_no_file!" (some "exists and is not a file"), Memfs.init) ∧
    checkSpec env Memfs.init (.noFile pRoot) = true :=
  ⟨wit_noFile_run env, wit_noFile_spec env⟩

theorem C20_no_file_full_false : ¬ C20_no_file_full := by
  intro h
  have env : Env := fun _ => none
  have h1 := h env Memfs.init pRoot stateOk_init (stableArg_of (key_root env _) (stable_root env _))
  rw [wit_noFile_run env] at h1
  exact absurd (h1.2 (wit_noFile_spec env)) (by simp [pm])

theorem C20_no_file_actual (env : Env) (s : State) (p : Str) (hst : StableArg env s p) :
    (runMacro env s (.noFile p)).1 = .pass ↔ checkSpec env s (.noExists p) = true :=
  run_noFile_iff hst

theorem C20_no_file_partial (env : Env) (s : State) (p : Str) (hst : StableArg env s p)
    (hdom : pExists env s p = false ∨ pIsFile env s p = true) :
    (runMacro env s (.noFile p)).1 = .pass ↔ checkSpec env s (.noFile p) = true :=
  noFile_partial hst hdom

-- non-vacuity of the partial domains
example (env : Env) : StableArg env Memfs.init pF ∧ pExists env Memfs.init pF = false :=
  ⟨stableArg_pF env _, init_absent_pF env⟩

/-! ### A2 (repaired): `readlink_abs` is covered by `C20_checking_sound_complete` -/

/-- `/l → /c`: asserting the target `/c` passes, asserting `/a/b/c` (which merely ends in it) fails -/
theorem C20_readlink_abs_example (env : Env) :
    (runMacro env sLink (.readlinkAbs pL pC)).1 = .pass ∧
    (runMacro env sLink (.readlinkAbs pL pABC)).1 ≠ .pass := by
  have h : ∀ t, (runMacro env sLink (.readlinkAbs pL t)).1 = .pass ↔
      checkSpec env sLink (.readlinkAbs pL t) = true := fun t => by
    have := (C20_checking_sound_complete env sLink (.readlinkAbs pL t) rfl stateOk_sLink
      (stableArg_pL env sLink)).1
    rwa [macroSpec_checking env sLink (.readlinkAbs pL t) rfl] at this
  refine ⟨(h pC).2 (wit_readlinkAbs_spec_ok env), fun hp => ?_⟩
  have := (h pABC).1 hp
  rw [wit_readlinkAbs_spec env] at this
  cases this

/-! ### A5: the path argument is resolved twice -/

/-- with `HOME=/h~x` and a file `/h~x`: `vfs.exists("~")` holds, yet `assert_vfs_exists!(vfs, "~")`
    panics with "doesn't exist" — the macro asks for `abs(abs("~"))`, which does not resolve -/
theorem C20_double_resolution_cex :
    runMacro Lemmas.envTildeHome sTilde (.exists ['~']) =
      (.panic "assert_vfs_exists!" (some "doesn't exist"), sTilde) ∧
    checkSpec Lemmas.envTildeHome sTilde (.exists ['~']) = true ∧
    StateOk sTilde ∧ ¬ ArgsStable Lemmas.envTildeHome sTilde (.exists ['~']) :=
  ⟨wit_double_run, wit_double_spec, stateOk_sTilde, wit_double_unstable⟩

/-- the stability hypothesis holds for every path whose resolution contains no `~` / `$`
    (current directory made of well-formed names) -/
theorem C20_stable_of_noSpecial (env : Env) (s : State) (p : Str) (a : FsPath)
    (hc : ∀ n ∈ s.cwd, Lemmas.Wf n) (hk : keyOf env s p = some a) (hs : Lemmas.NoSpecial (renderP a)) :
    StableArg env s p :=
  stableArg_of hk (stable_of_noSpecial hc hk hs)

theorem C20_stateOk_of_inv (s : State) (hI : Spec.Inv s) (hE : Lemmas.RefineA.EntriesOk s) : StateOk s :=
  stateOk_of_inv hI hE

/-! ## 2. the name in the panic message (A3, repaired) -/

/-- checking macros: every panic names the macro itself -/
theorem C20_message_names_macro_checking (env : Env) (s : State) (m : MacroCall) (n : String)
    (msg : Option String) (hm : isChecking m = true) (h : (runMacro env s m).1 = .panic n msg) :
    n = nameOf m := by
  rcases checking_names m hm s n msg h with h1 | h1
  · exact h1
  · cases h1.1

/-- all macros: additionally an acting macro can end in a panic / hang of the vfs call itself, which
    carries no macro message (`msg = none`) -/
theorem C20_message_names_macro (env : Env) (s : State) (m : MacroCall) (n : String)
    (msg : Option String) (h : (runMacro env s m).1 = .panic n msg) :
    n = nameOf m ∨ (isChecking m = false ∧ (n = vfsPanic ∨ n = vfsHang) ∧ msg = none) := by
  cases hc : isChecking m with
  | true => exact Or.inl (C20_message_names_macro_checking env s m n msg hc h)
  | false =>
    rcases all_names m s n msg h with h1 | h1
    · exact Or.inl h1
    · exact Or.inr ⟨rfl, h1.2⟩

/-- the formerly mislabelled branch: `assert_vfs_is_symlink!(vfs, "/")` names itself -/
theorem C20_is_symlink_name_example (env : Env) :
    runMacro env Memfs.init (.isSymlink pRoot) =
      (.panic "assert_vfs_is_symlink!" (some "exists but is not a symlink"), Memfs.init) :=
  wit_isSymlink_run env

/-! ## 3. acting macros -/

/-- **`mkdir_p`, `mkdir_m`, `mkfile`, `write_all`, `symlink`, `remove`, `remove_all`**, every pre-state:
    the macro passes exactly when `macroSpec` says so (the operation succeeded and its postcondition
    holds afterwards — or nothing had to be done: existing link / file, absent path to remove), and
    whenever it passes the filesystem is in the specified post-state -/
theorem C20_acting (env : Env) (s : State) (m : MacroCall) (hm : actingSimple m = true) (hok : StateOk s)
    (hst : ArgsStable env s m) (hpost : PostOk env s m) :
    ((runMacro env s m).1 = .pass ↔ (macroSpec env s m).1 = true) ∧
      ((runMacro env s m).1 = .pass → (runMacro env s m).2 = (macroSpec env s m).2) :=
  acting_agree m hm hok hst hpost

/-- for all of them except `write_all` the state is the specified one even when the macro panics
    (`write_all` onto an existing directory / link panics BEFORE writing, as it should) -/
theorem C20_acting_state (env : Env) (s : State) (m : MacroCall) (hm : stateAlways m = true)
    (hok : StateOk s) (hst : ArgsStable env s m) (hpost : PostOk env s m) :
    (runMacro env s m).2 = (macroSpec env s m).2 :=
  acting_state m hm hok hst hpost

-- non-vacuity: `write_all("/f", "new")` on the empty filesystem satisfies the hypotheses
example (env : Env) : actingSimple (.writeAll pF bytesNew) = true ∧ StateOk Memfs.init ∧
    ArgsStable env Memfs.init (.writeAll pF bytesNew) ∧ PostOk env Memfs.init (.writeAll pF bytesNew) :=
  ⟨rfl, stateOk_init, stableArg_pF env _, postOk_writeAll_init env⟩

/-- (A1, repaired) `/f` holds "old": `assert_vfs_write_all!(vfs, "/f", "new")` passes and `/f` then
    holds "new", as specified -/
theorem C20_write_all_existing_example (env : Env) :
    runMacro env sFile (.writeAll pF bytesNew) = (.pass, sWritten) ∧
    macroSpec env sFile (.writeAll pF bytesNew) = (true, sWritten) ∧
    pHasBytes env sFile pF bytesOld = true ∧ pHasBytes env sWritten pF bytesNew = true :=
  ⟨wit_writeAll_run env, macroSpec_writeAll_sFile env, wit_writeAll_content_old env, sWritten_content env⟩

/-- documented no-op: `/l → /c`, `assert_vfs_symlink!(vfs, "/l", "/f")` passes, nothing changes, and
    that is what `macroSpec` asks for -/
theorem C20_symlink_existing_example (env : Env) :
    runMacro env sLink (.symlink pL pF) = (.pass, sLink) ∧
    macroSpec env sLink (.symlink pL pF) = (true, sLink) ∧ pLinksTo env sLink pL kC = true :=
  ⟨wit_symlink_run env, macroSpec_symlink_sLink env, (wit_symlink_target env).1⟩

/-- documented no-op: `assert_vfs_mkfile!` on an existing file -/
theorem C20_mkfile_existing_example (env : Env) :
    runMacro env sFile (.mkfile pF) = (.pass, sFile) ∧ macroSpec env sFile (.mkfile pF) = (true, sFile) :=
  ⟨wit_mkfile_run env, macroSpec_mkfile_sFile env⟩

/-- `copyfile`, for a source that is an existing regular file: `copy` is performed; the macro passes
    iff the copy succeeded and afterwards both paths read back (`read` + `read_to_end`) as the same
    BYTES and the destination is a regular file -/
theorem C20_copyfile_behaviour (env : Env) (s : State) (src dst : Str) (a b : FsPath)
    (hk1 : keyOf env s src = some a) (hs1 : Stable env s a) (hk2 : keyOf env s dst = some b)
    (hs2 : Stable env s b) (hsrc : eAt s a (fun e => e.file && !e.link) = true) :
    (runMacro env s (.copyfile src dst)).2 = (step env s (.copy src dst)).2 ∧
    ((runMacro env s (.copyfile src dst)).1 = .pass ↔
      ((step env s (.copy src dst)).1.isOk = true ∧
       (∃ x, bytesOf env (step env s (.copy src dst)).2 src = some x ∧
             bytesOf env (step env s (.copy src dst)).2 dst = some x) ∧
       eAt (step env s (.copy src dst)).2 b (fun e => e.file && !e.link) = true)) :=
  run_copyfile hk1 hs1 hk2 hs2 hsrc

/-- `copy` never changes the current directory (any outcome) -/
theorem C20_copy_keeps_cwd (env : Env) (s : State) (a b : Str) : (step env s (.copy a b)).2.cwd = s.cwd :=
  step_copy_cwd env s a b

/-- `copy` never changes the kind of an existing entry (any outcome) -/
theorem C20_copy_keeps_kinds (env : Env) (s : State) (a b : Str) : KeepsKinds s (step env s (.copy a b)).2 :=
  step_copy_keepsKinds env s a b

/-- **`copyfile`, full strength** (was `C20_copyfile_partial` with a "source is valid UTF-8" domain
    before the repair of A6) — for ANY content of the source, on a well-formed post-state: the macro
    passes exactly when the copy succeeded and dst is a regular file with the bytes of src; when it
    passes the filesystem is the state after `copy`. A source that is not an existing regular file
    makes the macro panic before acting — and the specification is false too. -/
theorem C20_copyfile (env : Env) (s : State) (src dst : Str)
    (hst : ArgsStable env s (.copyfile src dst))
    (hpost : StateOk (step env s (.copy src dst)).2) :
    ((runMacro env s (.copyfile src dst)).1 = .pass ↔ (macroSpec env s (.copyfile src dst)).1 = true) ∧
      ((runMacro env s (.copyfile src dst)).1 = .pass →
        (runMacro env s (.copyfile src dst)).2 = (macroSpec env s (.copyfile src dst)).2) :=
  copyfile_agree hst hpost

/-- the full statement for `copyfile`: pass ⇔ "the copy succeeded and dst is a regular file with the
    bytes of src" — refuted before the repair of A6 by the non-UTF-8 witness, a theorem now -/
def C20_copyfile_full : Prop :=
  ∀ (env : Env) (s : State) (src dst : Str), StateOk s → ArgsStable env s (.copyfile src dst) →
    StateOk (macroSpec env s (.copyfile src dst)).2 →
    ((runMacro env s (.copyfile src dst)).1 = .pass ↔ (macroSpec env s (.copyfile src dst)).1 = true)

theorem C20_copyfile_full_holds : C20_copyfile_full := by
  intro env s src dst _ hst hpost
  rw [macroSpec_copyfile_state] at hpost
  exact (C20_copyfile env s src dst hst hpost).1

/-- (A6, repaired) `/f` holds the byte 0xFF — not valid UTF-8: `assert_vfs_copyfile!(vfs, "/f", "/g")`
    copies it (`/g` is a regular file with the same byte) and PASSES, as specified; `read_all` of the
    same file still fails with `InvalidData`, which is what made the macro panic before the repair -/
theorem C20_copyfile_nonutf8_example (env : Env) :
    runMacro env sBin (.copyfile pF pG) = (.pass, sTwo bytesBin) ∧
    macroSpec env sBin (.copyfile pF pG) = (true, sTwo bytesBin) ∧
    pHasBytes env (sTwo bytesBin) pG bytesBin = true ∧
    step env (sTwo bytesBin) (.readAll pF) = (.err .ioInvalidData, sTwo bytesBin) :=
  ⟨wit_copyfile_bin_run env, macroSpec_copyfile_sBin env, sTwo_bin_content env, readAll_bin_err env⟩

-- non-vacuity: copying `/f` ("old") to `/g` and copying `/f` (0xFF) to `/g` are both in the domain,
-- and the assertion holds
example (env : Env) : ArgsStable env sFile (.copyfile pF pG) ∧
    StateOk (step env sFile (.copy pF pG)).2 ∧
    macroSpec env sFile (.copyfile pF pG) = (true, sTwo bytesOld) :=
  ⟨⟨stableArg_pF env sFile, stableArg_pG env sFile⟩, by rw [step_copy_sFile]; exact stateOk_sTwo_old,
    macroSpec_copyfile_sFile env⟩

example (env : Env) : StateOk sBin ∧ ArgsStable env sBin (.copyfile pF pG) ∧
    StateOk (macroSpec env sBin (.copyfile pF pG)).2 :=
  ⟨stateOk_sBin, ⟨stableArg_pF env sBin, stableArg_pG env sBin⟩,
    by rw [macroSpec_copyfile_sBin]; exact stateOk_sTwo_bin⟩

/-- **all eight acting macros**: under `StateOk`, `ArgsStable` and the side conditions `ActOk` on the
    specified post-state (well-formedness for `mkfile` / `write_all` / `copyfile`; nothing for the
    others) the macro passes exactly when `macroSpec` says so, and when
    it passes the filesystem is in the specified state -/
theorem C20_acting_all (env : Env) (s : State) (m : MacroCall) (hm : isChecking m = false) (hok : StateOk s)
    (hst : ArgsStable env s m) (hact : ActOk env s m) :
    ((runMacro env s m).1 = .pass ↔ (macroSpec env s m).1 = true) ∧
      ((runMacro env s m).1 = .pass → (runMacro env s m).2 = (macroSpec env s m).2) :=
  acting_all m hm hok hst hact

end Rivia.Props
