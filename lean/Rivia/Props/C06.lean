import Rivia.Model.MemfsOps
namespace Rivia.Props
theorem C06_placeholder : True := trivial
end Rivia.Props
