/-
  C06 — file contents round-trip exactly: write truncates, append extends, read agrees.
  Property theorems ONLY (helper lemmas live in Rivia/Lemmas/Content.lean, Lines.lean and
  ContentCopy.lean).

  The byte-vector specification is `content s k = alLookup k s.files` (`Lemmas.content`): what the
  data map of the Memfs model stores under key `k`.  `keyOf env s p` is the key the path `p`
  resolves to in state `s` (`absM`), `opKey` the one key a content operation may touch.

  `RootOk s` (decidable, implied by `Spec.Inv`) is the only state-shape hypothesis: if the data map
  has bytes for the root key then the root entry exists and is a file.  It is needed because `_add`
  returns early on the root path without checking anything (witness: `C06_rootOk_needed`).
-/
import Rivia.Lemmas.Content
import Rivia.Lemmas.Lines
import Rivia.Lemmas.ContentCopy

namespace Rivia.Props
open Rivia Rivia.Memfs Rivia.File Rivia.Lemmas

theorem C06_content_def (s : State) (k : FsPath) : content s k = alLookup k s.files := rfl

theorem C06_rootOk_of_inv {s : State} (h : Spec.Inv s) : RootOk s := rootOk_of_inv h

/-! ### 3. independence: a content operation touches the data of one key only -/

/-- for every content-writing operation (`write_all`, `append_all`, `write_lines`, `append_lines`,
    `append_line`, opening a write/append handle, writing to / flushing / dropping a handle) and
    every key `q` other than the key the operation resolves to (the handle's path for handle
    operations), the data of `q` is unchanged — whether the operation succeeds or fails, and for
    ALL states (no invariant assumed) -/
theorem C06_independence (env : Env) (s : State) (op : Op) (hop : isContentOp op = true)
    (q : FsPath) (hq : opKey env s op ≠ some q) :
    content (step env s op).2 q = content s q :=
  step_frame env s op hop q hq

/-- in particular, when the path does not even resolve, nothing changes anywhere -/
theorem C06_independence_unresolved (env : Env) (s : State) (p : Str) (d : Bytes)
    (h : keyOf env s p = none) (q : FsPath) :
    content (step env s (.writeAll p d)).2 q = content s q ∧
    content (step env s (.appendAll p d)).2 q = content s q :=
  ⟨step_frame env s _ rfl q (by simp [opKey, h]), step_frame env s _ rfl q (by simp [opKey, h])⟩

/-! ### 1. write replaces the whole content; read, read_all, read_lines agree -/

theorem C06_write_then_read (env : Env) (s s' : State) (p : Str) (d : Bytes) (k : FsPath) (v : Val)
    (hroot : RootOk s) (habs : absM env p s = (.ok k, s))
    (hw : step env s (.writeAll p d) = (.ok v, s')) :
    content s' k = some d ∧
    absM env p s' = (.ok k, s') ∧
    step env s' (.read p) = (.ok (.bytes d), s') ∧
    step env s' (.readAll p) = (match decodeUtf8 d with
      | some str => (.ok (.str str), s')
      | none => (.err .ioInvalidData, s')) ∧
    step env s' (.readLines p) = (match decodeUtf8 d with
      | some str => (.ok (.strs (splitLines str)), s')
      | none => (.err .ioInvalidData, s')) := by
  obtain ⟨u, hu⟩ := step_writeAll_ok habs hw
  have hr := writeAt_ok hroot hu
  have habs' := absM_transport habs (writeAt_cwd hu)
  exact ⟨hr.1, habs', step_read_of_readable habs' hr, step_readAll_of_readable habs' hr,
    step_readLines_of_readable habs' hr⟩

/-- the same under the C03 invariant -/
theorem C06_write_then_read_inv (env : Env) (s s' : State) (p : Str) (d : Bytes) (k : FsPath) (v : Val)
    (hinv : Spec.Inv s) (habs : absM env p s = (.ok k, s))
    (hw : step env s (.writeAll p d) = (.ok v, s')) :
    content s' k = some d ∧ step env s' (.read p) = (.ok (.bytes d), s') := by
  have h := C06_write_then_read env s s' p d k v (rootOk_of_inv hinv) habs hw
  exact ⟨h.1, h.2.2.1⟩

/-! ### 2. append adds at the end and never alters the existing prefix -/

/-- a successful `append_all`: on an existing entry the content becomes `old ++ d` (the old bytes
    are a prefix of the new content); on a fresh path it becomes `d`.  No invariant needed. -/
theorem C06_append_extends (env : Env) (s s' : State) (p : Str) (d : Bytes) (k : FsPath) (v : Val)
    (habs : absM env p s = (.ok k, s)) (ha : step env s (.appendAll p d) = (.ok v, s')) :
    ((alLookup k s.entries).isSome → ∃ old, content s k = some old ∧ content s' k = some (old ++ d)) ∧
    (alLookup k s.entries = none → content s' k = some d) := by
  obtain ⟨u, hu⟩ := step_appendAll_ok habs ha
  exact ⟨(appendAt_ok hu).1, (appendAt_ok hu).2.1⟩

/-- … stated with the old content named: existing regular file with content `old` -/
theorem C06_append_extends_existing (env : Env) (s s' : State) (p : Str) (d old : Bytes) (k : FsPath)
    (v : Val) (habs : absM env p s = (.ok k, s)) (hent : (alLookup k s.entries).isSome)
    (hold : content s k = some old) (ha : step env s (.appendAll p d) = (.ok v, s')) :
    content s' k = some (old ++ d) := by
  obtain ⟨old', h1, h2⟩ := (C06_append_extends env s s' p d k v habs ha).1 hent
  rw [hold] at h1; cases h1; exact h2

/-- read agrees after an append -/
theorem C06_append_then_read (env : Env) (s s' : State) (p : Str) (d : Bytes) (k : FsPath) (v : Val)
    (hroot : RootOk s) (habs : absM env p s = (.ok k, s))
    (ha : step env s (.appendAll p d) = (.ok v, s')) :
    ∃ b, content s' k = some b ∧ step env s' (.read p) = (.ok (.bytes b), s') := by
  obtain ⟨u, hu⟩ := step_appendAll_ok habs ha
  have habs' := absM_transport habs (appendAt_cwd hu)
  have h3 := (appendAt_ok hu).2.2 hroot
  cases hent : alLookup k s.entries with
  | none =>
    have hc := (appendAt_ok hu).2.1 hent
    exact ⟨d, hc, step_read_of_readable habs' ⟨hc, h3⟩⟩
  | some e =>
    obtain ⟨old, _, hc⟩ := (appendAt_ok hu).1 (by simp [hent])
    exact ⟨old ++ d, hc, step_read_of_readable habs' ⟨hc, h3⟩⟩

/-! ### 4. line helpers -/

/-- (restates the definition) `write_lines` is `write_all` of the joined bytes — and nothing at all
    when the join is empty -/
theorem C06_write_lines_is_write_all (env : Env) (p : Str) (ls : List Str) :
    writeLinesM env p ls = (match joinLines ls with
      | some b => writeAllM env p b
      | none => M.pure ()) := rfl

theorem C06_append_lines_is_append_all (env : Env) (p : Str) (ls : List Str) :
    appendLinesM env p ls = (match joinLines ls with
      | some b => appendAllM env p b
      | none => M.pure ()) := rfl

theorem C06_append_line_is_append_all (env : Env) (p : Str) (l : Str) :
    appendLineM env p l = if l = [] then M.pure () else appendAllM env p (utf8 l ++ [10]) := rfl

/-- the bytes `write_lines`/`append_lines` hand over: the joined text plus one final newline … -/
theorem C06_join_lines (ls : List Str) (h : Str.joinWith '\n' ls ≠ []) :
    joinLines ls = some (utf8 (Str.joinWith '\n' ls) ++ [10]) := by
  rw [joinLines_eq, if_neg h]; rfl

/-- … which is exactly every line followed by exactly one newline (on bytes; uses
    `utf8 (a ++ b) = utf8 a ++ utf8 b`, proved from the core `List.utf8Encode` lemmas) -/
theorem C06_one_newline_per_line (ls : List Str) (h : ls ≠ []) :
    utf8 (Str.joinWith '\n' ls) ++ [10] = ls.flatMap (fun l => utf8 l ++ [10]) :=
  utf8_joinWith_nl h

/-- the same on text -/
theorem C06_one_newline_per_line_str (ls : List Str) (h : ls ≠ []) :
    Str.joinWith '\n' ls ++ ['\n'] = ls.flatMap (· ++ ['\n']) :=
  joinWith_append_nl h

theorem C06_utf8_append (a b : Str) : utf8 (a ++ b) = utf8 a ++ utf8 b := utf8_append a b

theorem C06_decode_utf8 (s : Str) : decodeUtf8 (utf8 s) = some s := decodeUtf8_utf8 s

/-- `write_lines` through `step`: a successful call with a non-empty join leaves every line
    followed by one newline, and `read` returns exactly that -/
theorem C06_write_lines_content (env : Env) (s s' : State) (p : Str) (ls : List Str) (k : FsPath)
    (v : Val) (hroot : RootOk s) (habs : absM env p s = (.ok k, s))
    (hj : Str.joinWith '\n' ls ≠ [])
    (hw : step env s (.writeLines p ls) = (.ok v, s')) :
    content s' k = some (ls.flatMap (fun l => utf8 l ++ [10])) ∧
    step env s' (.read p) = (.ok (.bytes (ls.flatMap (fun l => utf8 l ++ [10]))), s') := by
  have hw' : step env s (.writeAll p (ls.flatMap (fun l => utf8 l ++ [10]))) = (.ok v, s') := by
    rw [← hw]
    show mapVal _ (writeAllM env p _) s = mapVal _ (writeLinesM env p ls) s
    rw [C06_write_lines_is_write_all, joinLines_of_ne hj]; rfl
  have h := C06_write_then_read env s s' p _ k v hroot habs hw'
  exact ⟨h.1, h.2.2.1⟩

/-- `append_line` through `step`: a successful call with a non-empty line on an existing entry adds
    the line and one newline at the end -/
theorem C06_append_line_content (env : Env) (s s' : State) (p : Str) (l : Str) (old : Bytes)
    (k : FsPath) (v : Val) (habs : absM env p s = (.ok k, s)) (hl : l ≠ [])
    (hent : (alLookup k s.entries).isSome) (hold : content s k = some old)
    (ha : step env s (.appendLine p l) = (.ok v, s')) :
    content s' k = some (old ++ utf8 l ++ [10]) := by
  have ha' : step env s (.appendAll p (utf8 l ++ [10])) = (.ok v, s') := by
    rw [← ha]
    show mapVal _ (appendAllM env p _) s = mapVal _ (appendLineM env p l) s
    rw [C06_append_line_is_append_all, if_neg hl]
  rw [List.append_assoc]
  exact C06_append_extends_existing env s s' p _ old k v habs hent hold ha'

/-- FINDING: `append_line("")` adds nothing (not even a newline) and does not create the file -/
theorem C06_finding_append_line_empty (env : Env) (p : Str) : appendLineM env p [] = M.pure () := rfl

/-- FINDING: `write_lines(&[])` neither truncates nor creates -/
theorem C06_finding_write_lines_none (env : Env) (p : Str) : writeLinesM env p [] = M.pure () := rfl

/-- FINDING: `write_lines(&[""])` neither truncates nor creates -/
theorem C06_finding_write_lines_one_empty (env : Env) (p : Str) :
    writeLinesM env p [[]] = M.pure () := rfl

/-- … so after those calls every file still has its old content -/
theorem C06_finding_write_lines_keeps_old (env : Env) (s : State) (p : Str) (q : FsPath) :
    content (step env s (.writeLines p [])).2 q = content s q ∧
    content (step env s (.writeLines p [[]])).2 q = content s q ∧
    content (step env s (.appendLine p [])).2 q = content s q :=
  ⟨rfl, rfl, rfl⟩

/-! ### 5. read_lines ∘ write_lines -/

/-- on text: splitting the joined lines gives the lines back, for a non-empty list of lines that
    contain no `\n` and do not end in `\r` (empty lines are fine here) -/
theorem C06_lines_roundtrip (ls : List Str) (hne : ls ≠ [])
    (hnl : ∀ l ∈ ls, '\n' ∉ l) (hcr : ∀ l ∈ ls, l.getLast? ≠ some '\r') :
    splitLines (Str.joinWith '\n' ls ++ ['\n']) = ls :=
  splitLines_join hne hnl hcr

/-- the side conditions are exact: the round trip holds IF AND ONLY IF the list is non-empty, no
    line contains `\n` and no line ends in `\r` -/
theorem C06_lines_roundtrip_iff (ls : List Str) :
    splitLines (Str.joinWith '\n' ls ++ ['\n']) = ls ↔
      ls ≠ [] ∧ (∀ l ∈ ls, '\n' ∉ l) ∧ (∀ l ∈ ls, l.getLast? ≠ some '\r') :=
  splitLines_join_iff ls

/-- reading back ANY text that ends in a newline: the `\n`-pieces of what precedes the final
    newline, each stripped of one trailing `\r` -/
theorem C06_read_lines_of_terminated (t : Str) :
    splitLines (t ++ ['\n']) = (Str.splitOn '\n' t).map stripCr :=
  splitLines_append_nl t

/-- concrete witnesses: each side condition is necessary -/
theorem C06_lines_roundtrip_needs_nonempty_list :
    splitLines (Str.joinWith '\n' [] ++ ['\n']) = [[]] := by decide
theorem C06_lines_roundtrip_needs_no_newline :
    splitLines (Str.joinWith '\n' [['a', '\n', 'b']] ++ ['\n']) = [['a'], ['b']] := by decide
theorem C06_lines_roundtrip_needs_no_trailing_cr :
    splitLines (Str.joinWith '\n' [['a', '\r']] ++ ['\n']) = [['a']] := by decide

/-- through the filesystem: `read_lines` after a successful `write_lines ls` returns `ls`, provided
    the join is non-empty (otherwise nothing is written, see the findings above) -/
theorem C06_write_lines_read_lines (env : Env) (s s' : State) (p : Str) (ls : List Str) (k : FsPath)
    (v : Val) (hroot : RootOk s) (habs : absM env p s = (.ok k, s))
    (hj : Str.joinWith '\n' ls ≠ [])
    (hnl : ∀ l ∈ ls, '\n' ∉ l) (hcr : ∀ l ∈ ls, l.getLast? ≠ some '\r')
    (hw : step env s (.writeLines p ls) = (.ok v, s')) :
    step env s' (.readLines p) = (.ok (.strs ls), s') := by
  have hne : ls ≠ [] := by rintro rfl; exact hj rfl
  have hw' : step env s (.writeAll p (utf8 (Str.joinWith '\n' ls) ++ [nl])) = (.ok v, s') := by
    rw [← hw]
    show mapVal _ (writeAllM env p _) s = mapVal _ (writeLinesM env p ls) s
    rw [C06_write_lines_is_write_all, joinLines_eq, if_neg hj]
  have h := (C06_write_then_read env s s' p _ k v hroot habs hw').2.2.2.2
  rw [h, decodeUtf8_utf8_append_nl]
  simp only [splitLines_join hne hnl hcr]

/-- non-vacuity of the hypotheses of `C06_lines_roundtrip` -/
example : splitLines (Str.joinWith '\n' [['a'], [], ['b', '\r', 'c']] ++ ['\n']) =
    [['a'], [], ['b', '\r', 'c']] :=
  C06_lines_roundtrip _ (by decide) (by decide) (by decide)

/-! ### 6. handles: open, any writes and flushes, drop -/

/-- `write(path)` handle: after any sequence of `write(chunk)` / `flush()` calls and the drop, the
    file holds the concatenation of the chunks (`File.chunksOf`, as in C07), whatever it held
    before.  The handle id need not be fresh: the new handle shadows older ones with the same id. -/
theorem C06_handle_session_write (env : Env) (s s1 : State) (p : Str) (id : Nat) (k : FsPath) (v : Val)
    (ops : List WOp) (hroot : RootOk s) (habs : absM env p s = (.ok k, s))
    (hopen : step env s (.hWrite id p) = (.ok v, s1)) :
    content (run env s1 (ops.map (wopToOp id) ++ [.hDrop id])) k = some (chunksOf ops) := by
  obtain ⟨u, hu⟩ := step_hWrite_ok habs hopen
  exact session_drop env id k ops s1 [] (openWriteAt_ok hroot hu)

/-- `append(path)` handle: old content (if the entry existed) followed by the chunks -/
theorem C06_handle_session_append (env : Env) (s s1 : State) (p : Str) (id : Nat) (k : FsPath) (v : Val)
    (ops : List WOp) (hroot : RootOk s) (habs : absM env p s = (.ok k, s))
    (hopen : step env s (.hAppend id p) = (.ok v, s1)) :
    ((alLookup k s.entries).isSome → ∃ old, content s k = some old ∧
      content (run env s1 (ops.map (wopToOp id) ++ [.hDrop id])) k = some (old ++ chunksOf ops)) ∧
    (alLookup k s.entries = none →
      content (run env s1 (ops.map (wopToOp id) ++ [.hDrop id])) k = some (chunksOf ops)) := by
  obtain ⟨u, hu⟩ := step_hAppend_ok habs hopen
  obtain ⟨b, hs, h1, h2⟩ := openAppendAt_ok hroot hu
  have := session_drop env id k ops s1 b hs
  refine ⟨fun he => ⟨b, h1 he, this⟩, fun hn => ?_⟩
  rw [h2 hn] at this; exact this

/-- every flush makes everything written so far visible -/
theorem C06_handle_flush_visible (env : Env) (s s1 : State) (p : Str) (id : Nat) (k : FsPath) (v : Val)
    (ops : List WOp) (hroot : RootOk s) (habs : absM env p s = (.ok k, s))
    (hopen : step env s (.hWrite id p) = (.ok v, s1)) :
    content (run env s1 (ops.map (wopToOp id) ++ [.hFlush id])) k = some (chunksOf ops) := by
  obtain ⟨u, hu⟩ := step_hWrite_ok habs hopen
  exact session_flush env id k ops s1 [] (openWriteAt_ok hroot hu)

/-- the filesystem-level session agrees with C07's handle-level `writeSession` -/
theorem C06_handle_session_is_writeSession (env : Env) (s s1 : State) (p : Str) (id : Nat) (k : FsPath)
    (v : Val) (ops : List WOp) (stored : Bytes) (hroot : RootOk s) (habs : absM env p s = (.ok k, s))
    (hopen : step env s (.hWrite id p) = (.ok v, s1)) :
    content (run env s1 (ops.map (wopToOp id) ++ [.hDrop id])) k =
      some (writeSession false stored ops) := by
  rw [C06_handle_session_write env s s1 p id k v ops hroot habs hopen, writeSession_eq]; rfl

/-! ### any sequence of calls against the byte-vector model -/

/-- `RootOk` and path resolution survive every content operation, so the per-call theorems chain -/
theorem C06_rootOk_preserved (env : Env) (s : State) (op : Op) (hop : isContentOp op = true)
    (h : RootOk s) : RootOk (step env s op).2 :=
  step_rootOk env s op hop h

/-- for ANY sequence of `write_all`, `append_all`, `write_lines`, `append_lines`, `append_line` calls
    on a path (all returning `Ok`), starting from a readable file holding `b0`: the stored bytes are
    exactly what the byte-vector model `COp.apply` computes (write replaces, append extends, line
    helpers add `joinLines`), and `read` returns them -/
theorem C06_sequence (env : Env) (s : State) (p : Str) (k : FsPath) (b0 : Bytes) (cs : List COp)
    (hroot : RootOk s) (habs : absM env p s = (.ok k, s)) (hfile : Readable s k b0)
    (hok : runOk env s (cs.map (COp.toOp p))) :
    content (run env s (cs.map (COp.toOp p))) k = some (cs.foldl COp.apply b0) ∧
    step env (run env s (cs.map (COp.toOp p))) (.read p) =
      (.ok (.bytes (cs.foldl COp.apply b0)), run env s (cs.map (COp.toOp p))) := by
  have h := tracks_run cs ⟨hroot, habs, hfile⟩ hok
  exact ⟨h.readable.1, step_read_of_readable h.abs h.readable⟩

/-- the same from an arbitrary state, the first call being a successful `write_all` -/
theorem C06_sequence_after_write (env : Env) (s s1 : State) (p : Str) (k : FsPath) (d0 : Bytes) (v : Val)
    (cs : List COp) (hroot : RootOk s) (habs : absM env p s = (.ok k, s))
    (hw : step env s (.writeAll p d0) = (.ok v, s1))
    (hok : runOk env s1 (cs.map (COp.toOp p))) :
    content (run env s1 (cs.map (COp.toOp p))) k = some (cs.foldl COp.apply d0) ∧
    step env (run env s1 (cs.map (COp.toOp p))) (.read p) =
      (.ok (.bytes (cs.foldl COp.apply d0)), run env s1 (cs.map (COp.toOp p))) := by
  obtain ⟨u, hu⟩ := step_writeAll_ok habs hw
  have hroot1 : RootOk s1 := by
    have := step_rootOk env s (.writeAll p d0) rfl hroot
    rw [hw] at this; exact this
  exact C06_sequence env s1 p k d0 cs hroot1 (absM_transport habs (writeAt_cwd hu))
    (writeAt_ok hroot hu) hok

/-! ### the root clause is needed (FINDING: `_add` returns early on the root path) -/

/-- a state whose data map has bytes for the root key but no root entry -/
def rootDataNoEntry : State :=
  { entries := [], files := [([], [1])], cwd := [], root := [], handles := [] }

/-- there `write_all("/")` (key level: after resolution) returns `Ok` and changes nothing: the old
    byte survives, so `RootOk` cannot be dropped from `C06_write_then_read` -/
theorem C06_rootOk_needed :
    ¬ RootOk rootDataNoEntry ∧
    writeAt [] [2] rootDataNoEntry = (.ok (), rootDataNoEntry) ∧
    content rootDataNoEntry [] = some [1] := by decide

/-- and with a root directory entry that carries data, the write lands but `read` refuses -/
def rootDirWithData : State :=
  { entries := [([], mkDirEntry [] none)], files := [([], [1])], cwd := [], root := [], handles := [] }

theorem C06_rootOk_needed_for_read :
    ¬ RootOk rootDirWithData ∧
    (writeAt [] [2] rootDirWithData).1 = .ok () ∧
    content (writeAt [] [2] rootDirWithData).2 [] = some [2] ∧
    (cloneAt [] (writeAt [] [2] rootDirWithData).2).1 = .err .isNotFile := by decide

/-- neither state satisfies the C03 invariant -/
theorem C06_rootOk_witnesses_violate_inv :
    ¬ Spec.Inv rootDataNoEntry ∧ ¬ Spec.Inv rootDirWithData := by decide

/-! ### 7. copies and moves do not alias their source -/

/-- `copy src dst` of a regular file onto a path that is not a directory — fresh, or an existing
    file that gets overwritten — (single-file case, proved through the whole `copyM`:
    `entriesOf`/`cloneEntries`/`runIter` on the one-entry snapshot, then the file branch of the loop
    body): the destination holds a copy of the source bytes, the source and every other key keep
    theirs.  In this model contents are values, so sharing is unrepresentable; the content of the
    statement is "copied, source intact, nothing else touched".  `hdstOf` says the destination
    computed for the traversal root is the destination itself (true for every well-formed key:
    `C06_dstOf_self`). -/
theorem C06_copy_does_not_alias (env : Env) (s s' : State) (src dst : Str) (sk dk : FsPath)
    (e pd : Entry) (v : Val)
    (hsrc : absM env src s = (.ok sk, s)) (hdst : absM env dst s = (.ok dk, s)) (hne : sk ≠ dk)
    (he : alLookup sk s.entries = some e) (hpath : e.path = sk)
    (hf : e.file = true) (hl : e.link = false) (hd : e.dir = false) (hfs : e.files = none)
    (hnotdir : isDirP s dk = false) (hdk0 : dk ≠ [])
    (hpar : alLookup dk.dropLast s.entries = some pd)
    (hdstOf : dstOf dk sk sk = dk)
    (hc : step env s (.copy src dst) = (.ok v, s')) :
    (∃ b, content s sk = some b ∧ content s' dk = some b) ∧
    content s' sk = content s sk ∧
    (∀ q, q ≠ dk → content s' q = content s q) := by
  obtain ⟨u, hu, _⟩ := mapVal_ok hc
  rw [copyM_file hsrc hdst hne he hpath hf hl hd hfs hnotdir hdk0 hpar hdstOf] at hu
  have h := copyFileAt_ok hne hf hl hd hu
  exact ⟨h.1, h.2.1 sk hne, h.2.1⟩

/-- the same with the entry-shape facts discharged by the C03 invariant -/
theorem C06_copy_does_not_alias_inv (env : Env) (s s' : State) (src dst : Str) (sk dk : FsPath)
    (e pd : Entry) (v : Val) (hinv : Spec.Inv s)
    (hsrc : absM env src s = (.ok sk, s)) (hdst : absM env dst s = (.ok dk, s)) (hne : sk ≠ dk)
    (he : alLookup sk s.entries = some e)
    (hf : e.file = true) (hl : e.link = false) (hd : e.dir = false)
    (hnotdir : isDirP s dk = false) (hdk0 : dk ≠ [])
    (hpar : alLookup dk.dropLast s.entries = some pd)
    (hwf : ∀ n ∈ dk, Wf n)
    (hc : step env s (.copy src dst) = (.ok v, s')) :
    content s' dk = content s sk ∧ content s' sk = content s sk ∧
    (∀ q, q ≠ dk → content s' q = content s q) := by
  have hfacts := invFacts_of_inv hinv
  have hfs : e.files = none := by
    have := hfacts.childSet sk e he
    rw [hd] at this
    cases h : e.files <;> simp [h] at this ⊢
  obtain ⟨⟨b, h1, h2⟩, h3, h4⟩ := C06_copy_does_not_alias env s s' src dst sk dk e pd v hsrc hdst hne he
    (hfacts.pathField sk e he) hf hl hd hfs hnotdir hdk0 hpar (dstOf_self sk hwf) hc
  exact ⟨by rw [h1, h2], h3, h4⟩

theorem C06_dstOf_self (sk dk : FsPath) (hwf : ∀ n ∈ dk, Wf n) : dstOf dk sk sk = dk :=
  dstOf_self sk hwf

/-- after the copy, writing to either file does not change the other (corollary of independence) -/
theorem C06_copy_then_write_independent (env : Env) (s' : State) (sk dk : FsPath) (hne : sk ≠ dk)
    (p2 : Str) (d2 : Bytes) :
    (keyOf env s' p2 = some dk → content (step env s' (.writeAll p2 d2)).2 sk = content s' sk) ∧
    (keyOf env s' p2 = some sk → content (step env s' (.writeAll p2 d2)).2 dk = content s' dk) := by
  constructor
  · intro hk
    exact step_frame env s' _ rfl sk (by simp only [opKey, hk]; intro h; cases h; exact hne rfl)
  · intro hk
    exact step_frame env s' _ rfl dk (by simp only [opKey, hk]; intro h; cases h; exact hne rfl)

/-- `move_p src dst` of an entry without children onto a path that is not a directory: the bytes are
    now under the destination key, every third key is untouched, and (data keys being unique, as
    `Spec.Inv` guarantees) the source key has no data left -/
theorem C06_move_does_not_alias (env : Env) (s s' : State) (src dst : Str) (sk dk : FsPath)
    (e pd : Entry) (b : Bytes) (v : Val)
    (hsrc : absM env src s = (.ok sk, s)) (hdst : absM env dst s = (.ok dk, s)) (hne : sk ≠ dk)
    (he : alLookup sk s.entries = some e) (hfs : e.files = none)
    (hnotdir : isDirP s dk = false) (hdk0 : dk ≠ [])
    (hpar : alLookup dk.dropLast s.entries = some pd)
    (hdstOf : dstOf dk sk sk = dk) (hb : content s sk = some b)
    (hm : step env s (.moveP src dst) = (.ok v, s')) :
    content s' dk = some b ∧
    (∀ q, q ≠ dk → q ≠ sk → content s' q = content s q) ∧
    ((s.files.map (·.1)).Nodup → content s' sk = none) := by
  obtain ⟨u, hu, _⟩ := mapVal_ok hm
  exact moveM_file_content hsrc hdst hne he hfs hnotdir hdk0 hpar hdstOf hb hu

/-! ### non-vacuity (tests, labelled as such): the hypotheses hold on concrete states -/

/-- an environment without variables -/
def env0 : Env := fun _ => none

example : RootOk Memfs.init := by decide

/-- `write_all("/f", "hi")` on the initial filesystem, then `read("/f")` -/
example : ∃ s', step env0 Memfs.init (.writeAll ['/', 'f'] [104, 105]) = (.ok .unit, s') ∧
    content s' [['f']] = some [104, 105] ∧
    step env0 s' (.read ['/', 'f']) = (.ok (.bytes [104, 105]), s') :=
  have h := C06_write_then_read env0 Memfs.init _ ['/', 'f'] [104, 105] [['f']] .unit
    (by decide) (by decide) (Prod.ext (by decide) rfl)
  ⟨_, Prod.ext (by decide) rfl, h.1, h.2.2.1⟩

/-- the initial filesystem after `write_all("/a", [7])` -/
def sA : State := (step env0 Memfs.init (.writeAll ['/', 'a'] [7])).2

/-- `copy("/a", "/b")` -/
example : ∃ s', step env0 sA (.copy ['/', 'a'] ['/', 'b']) = (.ok .unit, s') ∧
    content s' [['b']] = some [7] ∧ content s' [['a']] = some [7] :=
  have h := C06_copy_does_not_alias env0 sA _ ['/', 'a'] ['/', 'b'] [['a']] [['b']]
    (mkFileEntry [['a']]) ({ mkDirEntry [] none with files := some [['a']] }) .unit
    (by decide) (by decide) (by decide) (by decide) rfl rfl rfl rfl rfl
    (by decide) (by decide) (by decide) (by decide) (Prod.ext (by decide) rfl)
  ⟨_, Prod.ext (by decide) rfl, by
    obtain ⟨⟨b, h1, h2⟩, h3, _⟩ := h
    have : content sA [['a']] = some [7] := by decide
    rw [this] at h1 h3; cases h1; exact ⟨h2, h3⟩⟩

/-- `move_p("/a", "/b")` -/
example : ∃ s', step env0 sA (.moveP ['/', 'a'] ['/', 'b']) = (.ok .unit, s') ∧
    content s' [['b']] = some [7] ∧ content s' [['a']] = none :=
  have h := C06_move_does_not_alias env0 sA _ ['/', 'a'] ['/', 'b'] [['a']] [['b']]
    (mkFileEntry [['a']]) ({ mkDirEntry [] none with files := some [['a']] }) [7] .unit
    (by decide) (by decide) (by decide) (by decide) rfl (by decide) (by decide) (by decide) (by decide)
    (by decide) (Prod.ext (by decide) rfl)
  ⟨_, Prod.ext (by decide) rfl, h.1, h.2.2 (by decide)⟩

/-- open a write handle on "/a" (which holds [7]), write [1], flush, write [2, 3], drop -/
example : ∃ s1, step env0 sA (.hWrite 5 ['/', 'a']) = (.ok .unit, s1) ∧
    content (run env0 s1 ([.write [1], .flush, .write [2, 3]].map (wopToOp 5) ++ [.hDrop 5])) [['a']] =
      some [1, 2, 3] :=
  ⟨_, Prod.ext (by decide) rfl,
    C06_handle_session_write env0 sA _ ['/', 'a'] 5 [['a']] .unit [.write [1], .flush, .write [2, 3]]
      (by decide) (by decide) (Prod.ext (by decide) rfl)⟩

/-- write_all, then append_line, append_all, write_lines, append_lines on "/f" -/
example :
    content (run env0 (step env0 Memfs.init (.writeAll ['/', 'f'] [1])).2
      (([.appendLine ['x'], .appendAll [2], .writeLines [['a'], ['b']], .appendLines [['c']]] :
        List COp).map (COp.toOp ['/', 'f']))) [['f']] = some [97, 10, 98, 10, 99, 10] := by
  have h := C06_sequence_after_write env0 Memfs.init
    (step env0 Memfs.init (.writeAll ['/', 'f'] [1])).2 ['/', 'f'] [['f']] [1] .unit
    [.appendLine ['x'], .appendAll [2], .writeLines [['a'], ['b']], .appendLines [['c']]]
    (by decide) (by decide) (Prod.ext (by decide) rfl) (by decide)
  rw [h.1]
  simp only [List.foldl, COp.apply, joinLines_eq, utf8_eq_flatMap]
  decide

-- The two items that were OPEN here are proved in Rivia/Props/C06T.lean (a separate file because
-- Lemmas/Content.lean, on which this file is built, cannot be imported together with the copy / move /
-- traversal development: duplicate declaration names such as `Rivia.Lemmas.bind_ok`, `dropLast_ne_self`,
-- `copyM_file`):
--   * `copy` / `move_p` of a directory TREE and `copy` INTO an existing directory:
--     `C06_copy_tree_content`, `C06_copy_tree_into_dir`, `C06_copy_tree_does_not_alias` (two-step
--     history: a later write_all / append_all under the copy leaves the originals alone and vice versa),
--     `C06_move_tree_content` — for every state with `C03_Strong`, `KeysWf` (+ `DepthOk` for copy),
--     no hypothesis on the traversal.
--   * every key produced by `absM` is well formed: `C06_abs_key_wf` (from `∀ n ∈ s.cwd, Wf n`), hence
--     `dstOf dk sk sk = dk` for resolved keys (`C06_dstOf_self_of_abs`); hypothesis-free single-file
--     versions `C06_copy_does_not_alias_wf` / `C06_move_does_not_alias_wf`.
--
-- OPEN (not proved):
--   * `C06_copy_does_not_alias` / `C06_move_does_not_alias` of THIS file keep their decidable hypothesis
--     `dstOf dk sk sk = dk`: `absM_wf` (Lemmas/AbsWf.lean) is on the other side of the import split.
--   * that the names of cwd (and of every key) are never `..` on REACHABLE states: `C03_Strong` excludes
--     the empty name, `.` and names with `/`, not `..`; `KeysWf s` therefore stays a decidable side
--     condition of the C06T theorems (see the OPEN block there).

end Rivia.Props
