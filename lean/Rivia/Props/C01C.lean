/-
  C01 (group C) — the per-step refinement to the reference tree filesystem for eleven more operations,

      read_lines  write_lines  append_lines  append_line
      paths  dirs  files  all_paths  all_dirs  all_files
      chmod_b(p).sym(expr)            (symbolic, no octal value, no follow; octal `chmod_b` is group B)

  and the history / trace theorems of Props/C01R and Props/C01S re-run over the wider alphabet
  `Refined' = Refined ∨ GroupC` (43 of the 53 constructors of `Op`; with this file every `(op, options)`
  combination for which `specStep` has a case is refined).

  * line helpers (Lemmas/RefineCLines): `read_lines` is `read_all` + the splitter, and the model's
    `splitLines` IS the reference's `specLines` (`C01C_splitLines_eq_specLines`, all texts); the writers are
    `write_all` / `append_all` of the joined bytes outside the finding class `empty_lines_noop`
    (`classOf … = "-"`);
  * listings (Lemmas/RefineCList): both sides are strictly `pathLt`-increasing lists; Memfs selects by
    entry FLAGS and (since the repair of `listing_includes_links`) skips links in `dirs` / `files` /
    `all_dirs` / `all_files`, the reference selects by node KIND — equal for all six helpers, with no
    hypothesis about links;
  * symbolic `chmod_b` (Lemmas/RefineCChmod): the octal proof of Lemmas/RefineB/Chmod re-run with the
    per-entry target mode `applyExpr (kind) cs e.mode` (`Lemmas.mode_parsed`: what `sys::mode` computes
    for a well-formed expression; malformed = class `sym_malformed`); new fact: clauses only touch the
    low 9 bits, so the type bits survive, the computed mode is never 0 and `set_mode` stores it as is.
  Side condition `DepthDomC` for `all_*` and recursive `chmod_b`: the Memfs walk stops at depth `u64::MAX`,
  the reference does not (implied by "fewer than `usize::MAX` entries", `C01C_depthDom_of_small`).

  What stays outside `Refined'` is listed at the end of the file.
-/
import Rivia.Props.C01S
import Rivia.Lemmas.RefineCLines
import Rivia.Lemmas.RefineCList
import Rivia.Lemmas.RefineCChmod

namespace Rivia.Props
open Rivia Rivia.Memfs Rivia.Spec Rivia.Spec.TreeFs Rivia.Lemmas
open Rivia.Lemmas.Sim (NodupK AncDir)

/-! ### the group -/

def GroupC : Op → Prop
  | .readLines _ | .writeLines _ _ | .appendLines _ _ | .appendLine _ _
  | .paths _ | .dirs _ | .files _ | .allPaths _ | .allDirs _ | .allFiles _ => True
  | .chmodB _ c => c.sym ≠ [] ∧ c.dirs = 0 ∧ c.files = 0 ∧ c.follow = false
  | _ => False

instance : DecidablePred GroupC := fun op => by unfold GroupC; split <;> infer_instance

/-- the recursive listings (and the recursive `chmod_b`) stop descending at depth `u64::MAX`; the
    reference does not -/
def DepthDomC (s : State) : Op → Prop
  | .allPaths _ | .allDirs _ | .allFiles _ => RefineB.DepthOk s
  | .chmodB _ c => c.recursive = true → RefineB.DepthOk s
  | _ => True

instance (s : State) : DecidablePred (DepthDomC s) := fun op => by unfold DepthDomC; split <;> infer_instance

/-- every group-C operation is covered by the reference, is disjoint from groups A and B, and keeps
    the side invariants -/
theorem C01C_groupC_facts (op : Op) (hC : GroupC op) :
    (∀ env t, (specStep env t op).isSome = true) ∧ ¬ Refined op ∧ GoodOp op := by
  cases op <;> first
    | exact False.elim hC
    | exact ⟨fun _ _ => rfl, (by rintro (h | h) <;> first | exact Bool.noConfusion h | exact h), trivial⟩
    | skip
  rename_i p c
  obtain ⟨h1, h2, h3, h4⟩ := hC
  refine ⟨fun env t => ?_, ?_, trivial⟩
  · simp [specStep, h1, h2, h3, h4]
  · rintro (h | h)
    · exact Bool.noConfusion h
    · exact h1 h

/-- the model's line splitter (from `BufRead::lines`) is the reference's (from the documentation) -/
theorem C01C_splitLines_eq_specLines (s : Str) : splitLines s = specLines s :=
  RefineC.splitLines_eq_specLines s

/-! ### the class hypotheses, unfolded -/

theorem resolve_entryAt {env : Env} {s : State} {p : Str} {a : FsPath} (h : resolve env (absS s) p = .ok a) :
    entryAt s env p = some (a, alLookup a s.entries) := by
  unfold resolve at h
  unfold entryAt
  have hc : (absS s).cwd = s.cwd := rfl
  rw [hc] at h
  cases hw : absWith env (renderP s.cwd) p with
  | ok x => rw [hw] at h; cases h; rfl
  | err k => rw [hw] at h; cases h
  | panic => rw [hw] at h; cases h
  | hang => rw [hw] at h; cases h

theorem class_lines {x : Bool} (h : (if x = true then "empty_lines_noop" else "-") = "-") : x = false := by
  cases x with
  | false => rfl
  | true => exact absurd h (by decide)

/-! ### the step theorem -/

theorem of_simA {m : Outcome Val × State} {x : SR} {r : R Val} {t' : T} (hs : RefineA.Sim m x)
    (h : some x = some (r, t')) : RefineB.ResMatch m.1 r ∧ (r ≠ .unspecified → RefineB.TEquiv (absS m.2) t') := by
  cases h; exact ⟨(resMatch_A_iff_B _ _).1 hs.1, hs.2⟩

/-- **C01, group C**: from an `RInv` state (the invariant of reachable states), outside the
    known-finding classes, each of the eleven calls returns what the reference returns on the
    abstraction and leaves a state whose abstraction is the reference's post-state -/
theorem C01_refines_step_groupC (env : Env) (s : State) (op : Op) (hC : GroupC op) (h : RInv s)
    (hc : classOf s env op = "-") (hd : DepthDomC s op) :
    ∀ r t', specStep env (absS s) op = some (r, t') →
      RefineB.ResMatch (step env s op).1 r ∧ (r ≠ .unspecified → RefineB.TEquiv (absS (step env s op).2) t') := by
  intro r t' hs
  have hI : Spec.Inv s := h.1.1
  have hSo : Snap.Sorted s.entries := h.1.2.2.1
  have hOk : RefineA.EntriesOk s := h.2.1
  have hF := RefineA.inv_facts hI
  cases op <;> try exact False.elim hC
  case chmodB p c => exact RefineC.chmodB_sym_refines env s p c hI hOk hc hC.1 hd r t' hs
  case readLines p => exact of_simA (RefineC.sim_readLines env s p hF hOk) hs
  case writeLines p ls =>
    exact of_simA (RefineC.sim_writeLines env s hF hOk p ls (class_lines (by simpa only [classOf] using hc))) hs
  case appendLines p ls =>
    exact of_simA (RefineC.sim_appendLines env s hF hOk p ls (class_lines (by simpa only [classOf] using hc))) hs
  case appendLine p l =>
    have hne : l ≠ [] := by
      intro h0; subst h0
      simp only [classOf, if_true] at hc
      exact absurd hc (by decide)
    exact of_simA (RefineC.sim_appendLine env s hF hOk p l hne) hs
  case paths p => exact of_simA (RefineC.sim_paths env s p false hI hSo (fun h0 => by cases h0)) hs
  case allPaths p => exact of_simA (RefineC.sim_paths env s p true hI hSo (fun _ => hd)) hs
  case dirs p => exact of_simA (RefineC.sim_dirs env s p false hI hSo (fun h0 => by cases h0)) hs
  case allDirs p => exact of_simA (RefineC.sim_dirs env s p true hI hSo (fun _ => hd)) hs
  case files p => exact of_simA (RefineC.sim_files env s p false hI hSo hOk (fun h0 => by cases h0)) hs
  case allFiles p => exact of_simA (RefineC.sim_files env s p true hI hSo hOk (fun _ => hd)) hs

/-- the six listing helpers need no class hypothesis at all (the class `listing_includes_links` is
    repaired; `classOf` is `"-"` for them on every state) -/
theorem C01C_listing_class_trivial (env : Env) (s : State) (p : Str) :
    classOf s env (.paths p) = "-" ∧ classOf s env (.dirs p) = "-" ∧ classOf s env (.files p) = "-" ∧
    classOf s env (.allPaths p) = "-" ∧ classOf s env (.allDirs p) = "-" ∧ classOf s env (.allFiles p) = "-" :=
  ⟨rfl, rfl, rfl, rfl, rfl, rfl⟩

/-- **C01, listings**: from an `RInv` state, `paths` / `dirs` / `files` (and `all_paths` / `all_dirs` /
    `all_files` when no key is `u64::MAX` components deep) return what the reference returns, whatever
    links lie below the directory -/
theorem C01C_listings_refine (env : Env) (s : State) (op : Op) (h : RInv s)
    (hop : match op with
      | .paths _ | .dirs _ | .files _ => True
      | .allPaths _ | .allDirs _ | .allFiles _ => RefineB.DepthOk s
      | _ => False) :
    ∀ r t', specStep env (absS s) op = some (r, t') →
      RefineB.ResMatch (step env s op).1 r ∧ (r ≠ .unspecified → RefineB.TEquiv (absS (step env s op).2) t') := by
  cases op <;> first
    | exact False.elim hop
    | exact C01_refines_step_groupC env s _ trivial h rfl (by first | exact hop | trivial)

/-! ### the wider alphabet: step, history -/

/-- the operations whose refinement is proved: 25 of group A, 8 of group B, 10 + symbolic `chmod_b` of
    group C -/
def Refined' (op : Op) : Prop := Refined op ∨ GroupC op

instance : DecidablePred Refined' := fun op => by unfold Refined'; infer_instance

/-- the depth side conditions of C01R (recursive `chown` / `chmod`) and of group C (`all_*`, recursive
    symbolic `chmod_b`) -/
def DepthDom' (s : State) (op : Op) : Prop := DepthDom s op ∧ DepthDomC s op

instance (s : State) : DecidablePred (DepthDom' s) := fun op => by unfold DepthDom'; infer_instance

/-- one step from an `RInv` state, 43 operations -/
theorem C01R_refines_step' (env : Env) (s : State) (op : Op) (h : RInv s) (hR : Refined' op)
    (hc : classOf s env op = "-") (hd : DepthDom' s op) (r : R Val) (t' : T)
    (hs : specStep env (absS s) op = some (r, t')) :
    RefineB.ResMatch (step env s op).1 r ∧
      (r ≠ .unspecified → RefineB.TEquiv (absS (step env s op).2) t') := by
  rcases hR with hR | hC
  · exact C01R_refines_step env s op h hR hc hd.1 r t' hs
  · exact C01_refines_step_groupC env s op hC h hc hd.2 r t' hs

/-- **C01 along histories, 43 operations**: after ANY history `pre` of `GoodOp`s (each call returning)
    from the fresh filesystem, a call of one of the 43 refined operations outside the known-finding
    classes returns what the reference returns on the abstraction of the current state and leaves a
    state whose abstraction is the reference's post-state.  No invariant hypothesis. -/
theorem C01_refines_history' (env : Env) (pre : List Op) (op : Op)
    (hg : ∀ o ∈ pre, GoodOp o) (hh : Returns env Memfs.init pre) (hR : Refined' op)
    (hc : classOf (run env Memfs.init pre) env op = "-") (hd : DepthDom' (run env Memfs.init pre) op)
    (r : R Val) (t' : T)
    (hs : specStep env (absS (run env Memfs.init pre)) op = some (r, t')) :
    RefineB.ResMatch (step env (run env Memfs.init pre) op).1 r ∧
      (r ≠ .unspecified → RefineB.TEquiv (absS (step env (run env Memfs.init pre) op).2) t') :=
  C01R_refines_step' env _ op
    (C01R_good_run env _ pre hg C01R_init ((InvAll.noHangRun_iff env _ pre).2 hh)) hR hc hd r t' hs

/-- both depth conditions hold as soon as the tree has fewer than `usize::MAX` entries -/
theorem C01C_depthDom_of_small (s : State) (op : Op) (h : RInv s) (hsmall : s.entries.length < 2 ^ 64 - 1) :
    DepthDom' s op := by
  refine ⟨C01R_depthDom_of_small s op h hsmall, ?_⟩
  have hd := Reach.depthOk_of_small h.1.1 hsmall
  cases op <;> first | exact trivial | exact hd | exact fun _ => hd

/-- `C01_refines_history'` with the physical size bound in place of `DepthDom'` -/
theorem C01_refines_history_small' (env : Env) (pre : List Op) (op : Op)
    (hg : ∀ o ∈ pre, GoodOp o) (hh : Returns env Memfs.init pre) (hR : Refined' op)
    (hc : classOf (run env Memfs.init pre) env op = "-")
    (hsmall : (run env Memfs.init pre).entries.length < 2 ^ 64 - 1) (r : R Val) (t' : T)
    (hs : specStep env (absS (run env Memfs.init pre)) op = some (r, t')) :
    RefineB.ResMatch (step env (run env Memfs.init pre) op).1 r ∧
      (r ≠ .unspecified → RefineB.TEquiv (absS (step env (run env Memfs.init pre) op).2) t') :=
  have hr := C01R_good_run env _ pre hg C01R_init ((InvAll.noHangRun_iff env _ pre).2 hh)
  C01R_refines_step' env _ op hr hR hc (C01C_depthDom_of_small _ op hr hsmall) r t' hs

/-- the same for every position of one history -/
theorem C01_refines_history_all' (env : Env) (ops : List Op)
    (hg : ∀ o ∈ ops, GoodOp o) (hh : Returns env Memfs.init ops) :
    ∀ pre op post, ops = pre ++ op :: post → Refined' op →
      classOf (run env Memfs.init pre) env op = "-" → DepthDom' (run env Memfs.init pre) op →
      ∀ r t', specStep env (absS (run env Memfs.init pre)) op = some (r, t') →
        RefineB.ResMatch (step env (run env Memfs.init pre) op).1 r ∧
          (r ≠ .unspecified → RefineB.TEquiv (absS (step env (run env Memfs.init pre) op).2) t') := by
  intro pre op post he hR hc hd r t' hs
  refine C01_refines_history' env pre op (fun o ho => hg o ?_) ?_ hR hc hd r t' hs
  · rw [he]; exact List.mem_append_left _ ho
  · intro p o q hp
    exact hh p o (q ++ op :: post) (by rw [he, hp]; simp)

/-! ### the wider alphabet: simulation of ONE reference run (Props/C01S re-run) -/

/-- the side conditions of one step -/
def StepDom' (env : Env) (s : State) (op : Op) : Prop :=
  (GoodOp op ∧ Refined' op) ∧ (step env s op).1 ≠ .hang ∧ classOf s env op = "-" ∧ DepthDom' s op

instance (env : Env) (s : State) (op : Op) : Decidable (StepDom' env s op) := by
  unfold StepDom'; infer_instance

/-- **one step of the simulation** (as `C01S_step`, 43 operations): from related states, the Memfs call
    returns what the reference answers FROM ITS OWN STATE `t`, and the post-states are related again -/
theorem C01S_step' (env : Env) (s : State) (t : T) (op : Op) (h : SimInv s t) (hd : StepDom' env s op)
    (r : R Val) (t' : T) (hs : specStep env t op = some (r, t')) :
    RefineB.ResMatch (step env s op).1 r ∧ (r ≠ .unspecified → SimInv (step env s op).2 t') := by
  obtain ⟨hI, hE, hN⟩ := h
  obtain ⟨⟨hg, hR⟩, hh, hc, hdd⟩ := hd
  have hwf := C01S_absS_wf hI.1.1
  obtain ⟨t'', hs', hE'⟩ := C01S_specStep_congr' env hE hwf.1 hN op r t' hs
  have href := C01R_refines_step' env s op hI hR hc hdd r t'' hs'
  refine ⟨href.1, fun hne => ⟨C01R_good_step env s op hg hI hh, Sim.TEquiv.trans (href.2 hne) hE', ?_⟩⟩
  exact C01S_specStep_nodup env hN (Sim.ancDir_congr hE hwf.2) op r t' hs

/-- side conditions along a run, recursively -/
def DomRun' (env : Env) : State → List Op → Prop
  | _, [] => True
  | s, op :: ops => StepDom' env s op ∧ DomRun' env (step env s op).2 ops

theorem C01S_run' (env : Env) : ∀ (ops : List Op) (s : State) (t t₂ : T), SimInv s t → DomRun' env s ops →
    refRun env t ops = some t₂ → SimInv (run env s ops) t₂ := by
  intro ops
  induction ops with
  | nil => intro s t t₂ h _ hr; cases hr; exact h
  | cons op ops ih =>
    intro s t t₂ h hd hr
    obtain ⟨r, t', hs, hne, hr'⟩ := refRun_cons hr
    exact ih _ t' t₂ ((C01S_step' env s t op h hd.1 r t' hs).2 hne) hd.2 hr'

theorem domRun_of' (env : Env) : ∀ (ops : List Op) (s : State),
    (∀ pre op post, ops = pre ++ op :: post → StepDom' env (run env s pre) op) → DomRun' env s ops := by
  intro ops
  induction ops with
  | nil => intro _ _; trivial
  | cons op ops ih =>
    intro s h
    refine ⟨h [] op ops rfl, ih _ fun pre o post he => ?_⟩
    have := h (op :: pre) o post (by rw [he]; rfl)
    exact this

theorem stepDom_of' (env : Env) (ops : List Op)
    (hops : ∀ o ∈ ops, GoodOp o ∧ Refined' o) (hret : Returns env Memfs.init ops)
    (hdom : ∀ pre op post, ops = pre ++ op :: post →
      classOf (run env Memfs.init pre) env op = "-" ∧ DepthDom' (run env Memfs.init pre) op) :
    ∀ pre op post, ops = pre ++ op :: post → StepDom' env (run env Memfs.init pre) op := by
  intro pre op post he
  exact ⟨hops op (by rw [he]; simp), hret pre op post he, hdom pre op post he⟩

/-- **C01 as a simulation of one reference run, 43 operations.**  Let `ops` be a history of `Refined'`
    `GoodOp`s from the fresh filesystem, every call returning, no call in a known-finding class,
    `DepthDom'` at each step.  Run the reference ALONE from `absS Memfs.init`.  Then at every position
    `pre ++ op :: post` up to which the reference has answered (`refRun … pre = some t`):
    `TEquiv (absS sᵢ) tᵢ`, `tᵢ` has no duplicate key, the Memfs call returns what the reference answers
    from `tᵢ`, and unless that answer is `.unspecified` the next states agree again. -/
theorem C01_simulates_history' (env : Env) (ops : List Op)
    (hops : ∀ o ∈ ops, GoodOp o ∧ Refined' o) (hret : Returns env Memfs.init ops)
    (hdom : ∀ pre op post, ops = pre ++ op :: post →
      classOf (run env Memfs.init pre) env op = "-" ∧ DepthDom' (run env Memfs.init pre) op) :
    ∀ pre op post, ops = pre ++ op :: post → ∀ t, refRun env (absS Memfs.init) pre = some t →
      RefineB.TEquiv (absS (run env Memfs.init pre)) t ∧ NodupK t ∧
      ∀ r t', specStep env t op = some (r, t') →
        RefineB.ResMatch (step env (run env Memfs.init pre) op).1 r ∧
        (r ≠ .unspecified → RefineB.TEquiv (absS (step env (run env Memfs.init pre) op).2) t') := by
  intro pre op post he t hr
  have hsd := stepDom_of' env ops hops hret hdom
  have hpre : DomRun' env Memfs.init pre := domRun_of' env pre _ fun p o q hp =>
    hsd p o (q ++ op :: post) (by rw [he, hp]; simp)
  have hinv := C01S_run' env pre _ _ t C01S_simInv_init hpre hr
  refine ⟨hinv.2.1, hinv.2.2, fun r t' hs => ?_⟩
  have := C01S_step' env _ t op hinv (hsd pre op post he) r t' hs
  exact ⟨this.1, fun hne => (this.2 hne).2.1⟩

/-- the end of the run: if the reference answers every step, its final state is the abstraction of the
    final Memfs state -/
theorem C01_simulates_history_final' (env : Env) (ops : List Op)
    (hops : ∀ o ∈ ops, GoodOp o ∧ Refined' o) (hret : Returns env Memfs.init ops)
    (hdom : ∀ pre op post, ops = pre ++ op :: post →
      classOf (run env Memfs.init pre) env op = "-" ∧ DepthDom' (run env Memfs.init pre) op)
    (t : T) (hr : refRun env (absS Memfs.init) ops = some t) :
    RefineB.TEquiv (absS (run env Memfs.init ops)) t ∧ NodupK t :=
  have h := C01S_run' env ops _ _ t C01S_simInv_init
    (domRun_of' env ops _ (stepDom_of' env ops hops hret hdom)) hr
  ⟨h.2.1, h.2.2⟩

/-- with the physical size bound (fewer than `usize::MAX` entries) in place of `DepthDom'` -/
theorem C01_simulates_history_small' (env : Env) (ops : List Op)
    (hops : ∀ o ∈ ops, GoodOp o ∧ Refined' o) (hret : Returns env Memfs.init ops)
    (hdom : ∀ pre op post, ops = pre ++ op :: post →
      classOf (run env Memfs.init pre) env op = "-" ∧ (run env Memfs.init pre).entries.length < 2 ^ 64 - 1) :
    ∀ pre op post, ops = pre ++ op :: post → ∀ t, refRun env (absS Memfs.init) pre = some t →
      RefineB.TEquiv (absS (run env Memfs.init pre)) t ∧ NodupK t ∧
      ∀ r t', specStep env t op = some (r, t') →
        RefineB.ResMatch (step env (run env Memfs.init pre) op).1 r ∧
        (r ≠ .unspecified → RefineB.TEquiv (absS (step env (run env Memfs.init pre) op).2) t') := by
  refine C01_simulates_history' env ops hops hret fun pre op post he => ⟨(hdom pre op post he).1, ?_⟩
  have hr : RInv (run env Memfs.init pre) :=
    C01R_good_run env _ pre (fun o ho => (hops o (by rw [he]; exact List.mem_append_left _ ho)).1) C01R_init
      ((InvAll.noHangRun_iff env _ pre).2 fun p o q hp => hret p o (q ++ op :: post) (by rw [he, hp]; simp))
  exact C01C_depthDom_of_small _ op hr (hdom pre op post he).2

theorem C01S_trace' (env : Env) : ∀ (ops : List Op) (s : State) (t : T) (rs : List (R Val)), SimInv s t →
    DomRun' env s ops → refOuts env t ops = some rs →
    TraceMatch (memOuts env s ops) rs := by
  intro ops
  induction ops with
  | nil => intro s t rs _ _ hr; cases hr; trivial
  | cons op ops ih =>
    intro s t rs h hd hr
    unfold refOuts at hr
    split at hr
    · cases hr
    · rename_i r t' hne heq
      have hne' : r ≠ .unspecified := by rintro rfl; exact hne rfl
      have hst := C01S_step' env s t op h hd.1 r t' heq
      cases hro : refOuts env t' ops with
      | none => rw [hro] at hr; cases hr
      | some rs' =>
        rw [hro] at hr
        cases hr
        exact ⟨hst.1, ih _ t' rs' (hst.2 hne') hd.2 hro⟩
    · cases hr

/-- **trace form, 43 operations**: the list of outcomes of the Memfs run matches, position by position,
    the list of answers of the reference run alone -/
theorem C01_simulates_trace' (env : Env) (ops : List Op)
    (hops : ∀ o ∈ ops, GoodOp o ∧ Refined' o) (hret : Returns env Memfs.init ops)
    (hdom : ∀ pre op post, ops = pre ++ op :: post →
      classOf (run env Memfs.init pre) env op = "-" ∧ DepthDom' (run env Memfs.init pre) op)
    (rs : List (R Val)) (hr : refOuts env (absS Memfs.init) ops = some rs) :
    TraceMatch (memOuts env Memfs.init ops) rs :=
  C01S_trace' env ops _ _ rs C01S_simInv_init (domRun_of' env ops _ (stepDom_of' env ops hops hret hdom)) hr

/-- **`Refined'` is everything the reference covers**: whenever `specStep` has an answer for an operation
    (with its options), that operation is in `Refined'` -/
theorem C01C_covers_reference (env : Env) (t : T) (op : Op) (h : (specStep env t op).isSome = true) :
    Refined' op := by
  by_cases hcb : ∃ p c, op = .chmodB p c
  · obtain ⟨p, c, rfl⟩ := hcb
    by_cases hs : c.sym = []
    · exact Or.inl (Or.inr hs)
    · refine Or.inr ⟨hs, ?_⟩
      simp only [specStep, hs, if_false] at h
      split at h
      · cases h
      · rename_i hf
        split at h
        · rename_i hz; exact ⟨hz.1, hz.2, by simpa using hf⟩
        · cases h
  · cases op <;> first
      | exact absurd ⟨_, _, rfl⟩ hcb
      | exact Or.inl (Or.inl rfl)
      | exact Or.inl (Or.inr trivial)
      | exact Or.inr trivial
      | exact absurd h (by simp [specStep])

/-- the old theorems are the restriction to `Refined` -/
theorem C01C_refined_sub (op : Op) (h : Refined op) : Refined' op := Or.inl h

/-! ### non-vacuity -/

/-- executable check of the side conditions along a run (one evaluation of `step` per call) -/
def domChk' (env : Env) : State → List Op → Bool
  | _, [] => true
  | s, op :: ops =>
    decide (GoodOp op ∧ Refined' op) && decide (classOf s env op = "-") && decide (DepthDom' s op) &&
      match step env s op with
      | (.hang, _) => false
      | (_, s') => domChk' env s' ops

theorem domRun_of_chk' (env : Env) : ∀ (ops : List Op) (s : State), domChk' env s ops = true → DomRun' env s ops := by
  intro ops
  induction ops with
  | nil => intro _ _; trivial
  | cons op ops ih =>
    intro s h
    unfold domChk' at h
    simp only [Bool.and_eq_true, decide_eq_true_eq] at h
    obtain ⟨⟨⟨h1, h2⟩, h3⟩, h4⟩ := h
    rcases hs : step env s op with ⟨o, s'⟩
    rw [hs] at h4
    unfold DomRun' StepDom'
    rw [hs]
    cases o with
    | hang => cases h4
    | ok v => exact ⟨⟨h1, (fun h0 => by cases h0), h2, h3⟩, ih _ h4⟩
    | err k => exact ⟨⟨h1, (fun h0 => by cases h0), h2, h3⟩, ih _ h4⟩
    | panic => exact ⟨⟨h1, (fun h0 => by cases h0), h2, h3⟩, ih _ h4⟩

theorem stepDom_of_domRun' (env : Env) : ∀ (pre : List Op) (s : State) (op : Op) (post : List Op),
    DomRun' env s (pre ++ op :: post) → StepDom' env (run env s pre) op := by
  intro pre
  induction pre with
  | nil => intro s op post h; exact h.1
  | cons o pre ih => intro s op post h; exact ih _ op post h.2

namespace C01CWitness
open C01RWitness (S)
/-- 15 calls: the four line helpers, all six listings (one below a directory tree, `all_paths "/"` with
    a link among the results), a recursive symbolic `chmod_b` with a directory clause and a file clause,
    mixed with operations of groups A and B -/
def hist3 : List Op :=
  [.mkdirP (S "/a/b"), .writeLines (S "/a/f") [S "x", S "y"], .appendLine (S "/a/f") (S "z"),
   .readLines (S "/a/f"), .mkfile (S "/a/b/g"), .paths (S "/a"), .allFiles (S "/a"), .dirs (S "/a"),
   .symlink (S "/l") (S "/a/f"), .allPaths (S "/"), .files (S "/a"), .appendLines (S "/a/b/g") [S "q"],
   .allDirs (S "/a"), .chmodB (S "/a") { sym := S "d:go-rx,f:u+x" }, .mode (S "/a/b/g")]
def isOkPaths (x : List FsPath) : Option (R Val × T) → Bool | some (.ok (.paths y), _) => x == y | _ => false
def isOkStrs (x : List Str) : Option (R Val × T) → Bool | some (.ok (.strs y), _) => x == y | _ => false
def hasFile (k : FsPath) (d : File.Bytes) : Option (R Val × T) → Bool
  | some (.ok .unit, t) => (TreeFs.get t k).map (fun n => (n.kind, n.data)) == some (.file, d)
  | _ => false
end C01CWitness
open C01CWitness C01RWitness

set_option maxRecDepth 100000 in
theorem C01C_hist3_dom : DomRun' env0 Memfs.init hist3 := domRun_of_chk' _ _ _ (by decide +kernel)

/-- every hypothesis of `C01_simulates_history'` / `C01_simulates_trace'` holds of `hist3` … -/
theorem C01C_hist3_hyps :
    (∀ o ∈ hist3, GoodOp o ∧ Refined' o) ∧ Returns env0 Memfs.init hist3 ∧
    (∀ pre op post, hist3 = pre ++ op :: post →
      classOf (run env0 Memfs.init pre) env0 op = "-" ∧ DepthDom' (run env0 Memfs.init pre) op) := by
  refine ⟨by decide, ?_, ?_⟩
  · intro pre op post he
    exact (stepDom_of_domRun' env0 pre _ op post (he ▸ C01C_hist3_dom)).2.1
  · intro pre op post he
    exact (stepDom_of_domRun' env0 pre _ op post (he ▸ C01C_hist3_dom)).2.2

set_option maxRecDepth 100000 in
/-- … the reference, run alone, answers all 15 steps (none `.unspecified`), 11 of them group C … -/
theorem C01C_hist3_outs : ((refOuts env0 (absS Memfs.init) hist3).map List.length) = some 15 ∧
    (hist3.filter (fun o => decide (GroupC o))).length = 11 := by
  decide +kernel

/-- … so the conclusions hold of it: the Memfs outcomes match the reference's answers position by
    position, and the reference's own final state is the abstraction of Memfs's -/
example : ∃ rs, refOuts env0 (absS Memfs.init) hist3 = some rs ∧ TraceMatch (memOuts env0 Memfs.init hist3) rs := by
  cases h : refOuts env0 (absS Memfs.init) hist3 with
  | none => have := C01C_hist3_outs.1; rw [h] at this; cases this
  | some rs =>
    exact ⟨rs, rfl, C01_simulates_trace' env0 hist3 C01C_hist3_hyps.1 C01C_hist3_hyps.2.1 C01C_hist3_hyps.2.2 rs h⟩

set_option maxRecDepth 100000 in
/-- the step theorem instantiated after `hist3`: the reference answers `read_lines "/a/f"` with the three
    lines and `all_paths "/"` with the five keys (the link included) -/
example : isOkStrs [S "x", S "y", S "z"] (specStep env0 (absS (run env0 Memfs.init hist3)) (.readLines (S "/a/f"))) = true ∧
    isOkPaths [[S "a"], [S "a", S "b"], [S "a", S "b", S "g"], [S "a", S "f"], [S "l"]]
      (specStep env0 (absS (run env0 Memfs.init hist3)) (.allPaths (S "/"))) = true := by
  decide +kernel

/-! ### the repaired class, and the class hypotheses that cannot be dropped -/

set_option maxRecDepth 100000 in
/-- `files "/"` after `hist3` (formerly the witness of the class `listing_includes_links`): the link `/l`
    carries the `file` flag of its target; Memfs now skips it, like the reference (node kind `link`).
    `paths "/"` still lists it on both sides.  The call is inside the domain of the step theorem. -/
theorem C01C_listing_links_repaired :
    RInv (run env0 Memfs.init hist3) ∧ DepthDom' (run env0 Memfs.init hist3) (.files (S "/")) ∧
    classOf (run env0 Memfs.init hist3) env0 (.files (S "/")) = "-" ∧
    (step env0 (run env0 Memfs.init hist3) (.files (S "/"))).1 = .ok (.paths []) ∧
    isOkPaths [] (specStep env0 (absS (run env0 Memfs.init hist3)) (.files (S "/"))) = true ∧
    (step env0 (run env0 Memfs.init hist3) (.allFiles (S "/"))).1 =
      .ok (.paths [[S "a", S "b", S "g"], [S "a", S "f"]]) ∧
    isOkPaths [[S "a", S "b", S "g"], [S "a", S "f"]]
      (specStep env0 (absS (run env0 Memfs.init hist3)) (.allFiles (S "/"))) = true ∧
    (step env0 (run env0 Memfs.init hist3) (.paths (S "/"))).1 = .ok (.paths [[S "a"], [S "l"]]) ∧
    isOkPaths [[S "a"], [S "l"]] (specStep env0 (absS (run env0 Memfs.init hist3)) (.paths (S "/"))) = true := by
  decide +kernel

set_option maxRecDepth 100000 in
/-- `write_lines "/n" []` on the fresh filesystem does nothing, the reference creates the empty file —
    the class `empty_lines_noop` -/
theorem C01C_lines_class_needed :
    classOf Memfs.init env0 (.writeLines (S "/n") []) = "empty_lines_noop" ∧
    step env0 Memfs.init (.writeLines (S "/n") []) = (.ok .unit, Memfs.init) ∧
    hasFile [S "n"] [] (specStep env0 (absS Memfs.init) (.writeLines (S "/n") [])) = true ∧
    TreeFs.get (absS Memfs.init) [S "n"] = none := by
  decide +kernel

theorem isOkPaths_elim {x : List FsPath} {o : Option (R Val × T)} (h : isOkPaths x o = true) :
    ∃ t, o = some (.ok (.paths x), t) := by
  unfold isOkPaths at h
  split at h
  · rename_i y t; exact ⟨t, by rw [eq_of_beq h]⟩
  · cases h

theorem hasFile_elim {k : FsPath} {d : File.Bytes} {o : Option (R Val × T)} (h : hasFile k d o = true) :
    ∃ t, o = some (.ok .unit, t) ∧ (TreeFs.get t k).isSome = true := by
  unfold hasFile at h
  split at h
  · rename_i t
    refine ⟨t, rfl, ?_⟩
    cases hg : TreeFs.get t k with
    | none => rw [hg] at h; cases h
    | some n => rfl
  · cases h

set_option maxRecDepth 100000 in
theorem C01C_rinv_init : RInv Memfs.init := by decide +kernel

/-- the step statement without the class hypothesis is false (witness: the class `empty_lines_noop`; the
    former witness `files "/"` with a link below is repaired, see `C01C_listing_links_repaired`) -/
theorem C01C_step_needs_class :
    ¬ (∀ (env : Env) (s : State) (op : Op), GroupC op → RInv s → DepthDomC s op →
        ∀ r t', specStep env (absS s) op = some (r, t') →
          RefineB.ResMatch (step env s op).1 r ∧
            (r ≠ .unspecified → RefineB.TEquiv (absS (step env s op).2) t')) := by
  intro h
  obtain ⟨_, h2, h3, h4⟩ := C01C_lines_class_needed
  obtain ⟨t', hs, hg⟩ := hasFile_elim h3
  have hm := (h env0 Memfs.init (.writeLines (S "/n") []) trivial C01C_rinv_init trivial _ t' hs).2
    (by intro h0; cases h0)
  rw [h2] at hm
  have := hm.2 [S "n"]
  rw [h4] at this
  rw [← this] at hg
  cases hg

-- OUTSIDE `Refined'` (10 constructors of 53), and why:
--   * `mkfile_m`, `entry`, `copy`, `copy_b`, `entries`, `hWrite hAppend hPut hFlush hDrop` (the file-handle
--     protocol): `specStep` has no case (`none`) — the reference does not pin these down, a step theorem
--     would be vacuous and a single reference run (`refRun`) cannot continue over them by construction.
--     All ten are `GoodOp` (except `copy_b(..).follow(true)`), so they may occur in the prefix `pre` of
--     `C01_refines_history'`.
--   * option combinations of covered constructors with `specStep = none` (nothing to prove): `mkdir_m`
--     with mode 0 or above 0o7777, `chmod` / octal `chmod_b` above 0o7777, `chmod_b` / `chown_b` with
--     `follow`, `chmod_b` with BOTH an expression and an octal value.
--   * `DepthDomC` (`all_*`, recursive symbolic `chmod_b`: no key `u64::MAX` components deep) is a per-step
--     side condition like `DepthDom` (no invariant of the model); `C01_refines_history_small'` /
--     `C01_simulates_history_small'` replace it by "fewer than `usize::MAX` entries".  No witness can be
--     evaluated (a key of 2^64 components).

end Rivia.Props
