/-
  C03 (group B): `remove`, `removeAll`, `symlink`, `moveP` and the tree invariant.
  Property theorems only; the proofs are in Rivia/Lemmas/InvB*.lean.
-/
import Rivia.Lemmas.InvB

namespace Rivia.Props
open Rivia Rivia.Memfs Rivia.File Rivia.Spec Rivia.Lemmas Rivia.Lemmas.InvB

/-- FULL (remove, removeAll, symlink): the invariant is preserved for every environment, state,
    argument and outcome (error exits and `hang` included); no extra hypothesis. -/
theorem C03_inv_step_groupB3 (env : Env) (s : State) (op : Op) (hc : CoveredB3 op) (h : Inv s) :
    Inv (step env s op).2 :=
  inv_step_B3 env s op hc h

/-- the full-strength statement for the whole group (false because of `moveP`) -/
def C03_inv_step_groupB_full : Prop :=
  ∀ (env : Env) (s : State) (op : Op), CoveredB op → Inv s → (step env s op).1 ≠ .hang → Inv (step env s op).2

/-! ### witnesses: `Inv` alone is not inductive for `moveP` (all three start states are unreachable) -/

def envNone : Env := fun _ => none

/-- (1) an unsorted child list: `/` lists `b, a, c`; `moveP "/c" "/a"` duplicates the name `a` -/
def wUnsorted : State :=
  { entries := [([], { mkDirEntry [] none with files := some [['b'], ['a'], ['c']] }),
                ([['a']], mkFileEntry [['a']]), ([['b']], mkFileEntry [['b']]), ([['c']], mkFileEntry [['c']])]
    files := [([['a']], []), ([['b']], []), ([['c']], [])]
    cwd := [], root := [], handles := [] }

/-- (2) cwd `["."]` (`Inv` does not constrain cwd): `moveP "a" "."` re-keys the file onto the root key -/
def wDotCwd : State :=
  { entries := [([], { mkDirEntry [] none with files := some [['a']] }), ([['a']], mkFileEntry [['a']])]
    files := [([['a']], [])]
    cwd := [['.']], root := [], handles := [] }

/-- (3) `/a/c` flagged file ∧ dir with a child: `moveP "/c" "/a"` overwrites it and orphans `/a/c/x` -/
def wFileDir : State :=
  { entries := [([], { mkDirEntry [] none with files := some [['a'], ['c']] }),
                ([['a']], { mkDirEntry [['a']] none with files := some [['c']] }),
                ([['a'], ['c']], { mkFileEntry [['a'], ['c']] with dir := true, files := some [['x']] }),
                ([['a'], ['c'], ['x']], mkFileEntry [['a'], ['c'], ['x']]),
                ([['c']], mkFileEntry [['c']])]
    files := [([['a'], ['c']], []), ([['a'], ['c'], ['x']], []), ([['c']], [])]
    cwd := [], root := [], handles := [] }

set_option maxRecDepth 100000 in
/-- `SortedKids` is necessary: everything else holds, the call returns `ok`, the result violates `Inv` -/
theorem C03_moveP_needs_sortedKids :
    Inv wUnsorted ∧ KeysWf wUnsorted ∧ FlagsOk wUnsorted ∧ ¬ SortedKids wUnsorted ∧
    (step envNone wUnsorted (.moveP ['/', 'c'] ['/', 'a'])).1 = .ok .unit ∧
    invViolation (step envNone wUnsorted (.moveP ['/', 'c'] ['/', 'a'])).2 = some "duplicate-child-name:/" := by
  decide

set_option maxRecDepth 100000 in
/-- `KeysWf` is necessary (here: its cwd part) -/
theorem C03_moveP_needs_keysWf :
    Inv wDotCwd ∧ SortedKids wDotCwd ∧ FlagsOk wDotCwd ∧ ¬ KeysWf wDotCwd ∧
    (step envNone wDotCwd (.moveP ['a'] ['.'])).1 ≠ .hang ∧
    invViolation (step envNone wDotCwd (.moveP ['a'] ['.'])).2 = some "root-missing-or-not-dir" := by
  decide

set_option maxRecDepth 100000 in
/-- `FlagsOk` is necessary -/
theorem C03_moveP_needs_flagsOk :
    Inv wFileDir ∧ KeysWf wFileDir ∧ SortedKids wFileDir ∧ ¬ FlagsOk wFileDir ∧
    (step envNone wFileDir (.moveP ['/', 'c'] ['/', 'a'])).1 = .ok .unit ∧
    invViolation (step envNone wFileDir (.moveP ['/', 'c'] ['/', 'a'])).2 = some "orphan-or-unlisted:/a/c/x" := by
  decide

theorem C03_inv_step_groupB_full_false : ¬ C03_inv_step_groupB_full := by
  intro h
  have w := C03_moveP_needs_sortedKids
  have := h envNone wUnsorted (.moveP ['/', 'c'] ['/', 'a']) trivial w.1 (by rw [w.2.2.2.2.1]; intro h0; cases h0)
  unfold Spec.Inv at this
  rw [w.2.2.2.2.2] at this
  cases this

/-- PARTIAL (domain: the decidable `KeysWf s ∧ SortedKids s ∧ FlagsOk s`): every operation of group B
    preserves `Inv`; the three extras are needed for `moveP` only and each of them is necessary. -/
theorem C03_inv_step_groupB (env : Env) (s : State) (op : Op) (hc : CoveredB op)
    (h : Inv s) (hk : KeysWf s) (hs : SortedKids s) (hf : FlagsOk s)
    (hh : (step env s op).1 ≠ .hang) : Inv (step env s op).2 :=
  inv_step_B env s op hc h hk hs hf hh

/-- the domain hypotheses are themselves preserved by group B … -/
theorem C03_extras_step_groupB (env : Env) (s : State) (op : Op) (hc : CoveredB op)
    (h : Inv s) (hk : KeysWf s) (hs : SortedKids s) (hf : FlagsOk s)
    (hh : (step env s op).1 ≠ .hang) :
    KeysWf (step env s op).2 ∧ SortedKids (step env s op).2 ∧ FlagsOk (step env s op).2 :=
  extras_step_B env s op hc h hk hs hf hh

/-- … so the strengthened invariant is inductive for group B -/
theorem C03_strong_step_groupB (env : Env) (s : State) (op : Op) (hc : CoveredB op) (h : Strong s)
    (hh : (step env s op).1 ≠ .hang) : Strong (step env s op).2 :=
  strong_step_B env s op hc h hh

/-- and it holds initially -/
theorem C03_strong_init_groupB : Strong Memfs.init := by decide

/-- non-vacuity: a non-trivial state in the domain on which `moveP` (directory into directory) succeeds -/
def wGood : State :=
  { entries := [([], { mkDirEntry [] none with files := some [['a'], ['b']] }),
                ([['a']], { mkDirEntry [['a']] none with files := some [['f']] }),
                ([['a'], ['f']], mkFileEntry [['a'], ['f']]),
                ([['b']], mkDirEntry [['b']] none)]
    files := [([['a'], ['f']], [1, 2, 3])]
    cwd := [], root := [], handles := [] }

set_option maxRecDepth 100000 in
example : Strong wGood ∧ CoveredB (.moveP ['/', 'a'] ['/', 'b']) ∧
    (step envNone wGood (.moveP ['/', 'a'] ['/', 'b'])).1 = .ok .unit ∧
    alLookup [['b'], ['a'], ['f']] (step envNone wGood (.moveP ['/', 'a'] ['/', 'b'])).2.files = some [1, 2, 3] ∧
    Strong (step envNone wGood (.moveP ['/', 'a'] ['/', 'b'])).2 := by
  decide

end Rivia.Props
