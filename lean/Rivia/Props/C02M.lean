/-
  C02M — finding `mode_type_bits` (property C02, "backends interchangeable") REPAIRED.

  Before the repair `MemfsEntryOpts::mode` OR-ed the entry's type bits onto the *whole* given mode, so a
  mode argument carrying the type bits of another kind survived in Memfs (`mkfile_m("/f", 0o40755)`
  made `mode("/f") = 0o140755`) while Stdfs hands the argument to chmod(2), which keeps the permission
  bits only (`0o100755`).  The repair masks the given-or-default mode with `0o7777` for every physical
  entry (link, file, directory) before the entry's own type bits are OR-ed in; the flag-less
  intermediate builder object (`MemfsEntry::opts(p).mode(m)` before `.dir()`/`build()`) still takes
  the mode as is, and `build()` then runs it through the directory branch.

  Here: for ANY `mode : Nat`
  * `C02M_mode_masked`      — `optsMode` (= `MemfsEntryOpts::mode(Some(mode))`) of a physical entry is
                              exactly `(mode &&& 0o7777) ||| typeBits kind`;
  * `C02M_perm_bits`, `C02M_type_bits` — its permission bits are those of `mode`, its `S_IFMT` bits
                              are those of the entry's kind (no foreign type bit survives);
  * `C02M_setMode_*`        — `set_mode` (what `chmod`, `mkfile_m`, `copy` use): the abstract node
                              gets `perm := mode &&& 0o7777`, which is what `Posix.chmod` (the chmod(2)
                              model under Stdfs) stores — for every mode argument;
  * `C02M_mkDirEntry_*`     — the two-stage computation of `_mkdir_m`;
  * `C02M_reachable_modes_canonical` — along every history of `GoodOp`s from `Memfs.init` every stored
                              mode is canonical (permission bits plus the type bits of the entry's
                              kind): `mode()` never reports a foreign type bit, whatever mode
                              arguments the history used.  (`EntriesOk` of C01 was strengthened by
                              this clause; it is false of the pre-repair model.)
  * the old witness is now a point of agreement (`C02M_old_witness_repaired`, both backends, and the
    abstraction of the Memfs post-state IS the Stdfs post-state), plus `chmod`/`mkdir_m` examples.
-/
import Rivia.Lemmas.ModeBits
import Rivia.Spec.MemfsJudge
import Rivia.Model.MemfsOps
import Rivia.Model.Stdfs
import Rivia.Props.C01R

namespace Rivia.Props
open Rivia Rivia.Memfs Rivia.Spec Rivia.Spec.TreeFs Rivia.Lemmas.ModeBits

/-! ### `MemfsEntryOpts::mode(Some(mode))` -/

/-- the three flag patterns `optsMode` distinguishes (a link wins over file/dir, a file over dir) -/
theorem C02M_mode_masked_flags (file dir : Bool) (mode : Nat) :
    optsMode true file dir (some mode) = (mode &&& 0o7777) ||| 0o120000 ∧
    optsMode false true dir (some mode) = (mode &&& 0o7777) ||| 0o100000 ∧
    optsMode false false true (some mode) = (mode &&& 0o7777) ||| 0o40000 ∧
    optsMode false false false (some mode) = mode := by
  simp [optsMode_some]

/-- **the repair**: for every entry of a physical kind (the flags every stored entry has: a link, or
    exactly one of file/dir) and EVERY mode argument, `MemfsEntryOpts::mode(Some(mode))` is the
    permission bits of the argument plus the type bits of the entry's kind -/
theorem C02M_mode_masked (e : Entry) (mode : Nat) (hf : e.link = false → e.dir = !e.file) :
    optsMode e.link e.file e.dir (some mode) = (mode &&& 0o7777) ||| typeBits (kindOf e) := by
  rw [optsMode_some]
  unfold kindOf
  cases hl : e.link with
  | true => simp [typeBits]
  | false =>
    have := hf hl
    cases hfl : e.file <;> rw [hfl] at this <;> simp [this, typeBits]

theorem C02M_typeBits_and_perm (k : Kind) : typeBits k &&& 0o7777 = 0 := by cases k <;> simp [typeBits]
theorem C02M_typeBits_and_ifmt (k : Kind) : typeBits k &&& 0o170000 = typeBits k := by
  cases k with
  | dir => exact (by decide : (0o40000 : Nat) &&& 0o170000 = 0o40000)
  | file => exact (by decide : (0o100000 : Nat) &&& 0o170000 = 0o100000)
  | link b => exact (by decide : (0o120000 : Nat) &&& 0o170000 = 0o120000)
theorem C02M_typeBits_cases (k : Kind) : typeBits k = 0o40000 ∨ typeBits k = 0o100000 ∨ typeBits k = 0o120000 := by
  cases k <;> simp [typeBits]

/-- exactly the permission bits of the argument … -/
theorem C02M_perm_bits (e : Entry) (mode : Nat) (hf : e.link = false → e.dir = !e.file) :
    optsMode e.link e.file e.dir (some mode) &&& 0o7777 = mode &&& 0o7777 := by
  rw [C02M_mode_masked e mode hf]
  exact perm_of_or _ _ (C02M_typeBits_and_perm _)

/-- … and exactly the file-type bits (`S_IFMT`) of the entry's own kind: no foreign type bit survives -/
theorem C02M_type_bits (e : Entry) (mode : Nat) (hf : e.link = false → e.dir = !e.file) :
    optsMode e.link e.file e.dir (some mode) &&& 0o170000 = typeBits (kindOf e) := by
  rw [C02M_mode_masked e mode hf]
  exact type_of_or _ _ (C02M_typeBits_and_ifmt _)

/-! ### `set_mode` (used by `chmod`, `mkfile_m`, `copy`) against chmod(2) -/

theorem C02M_setMode_mode (e : Entry) (mode : Nat) (hf : e.link = false → e.dir = !e.file) :
    (e.setMode mode).mode = (mode &&& 0o7777) ||| typeBits (kindOf e) :=
  C02M_mode_masked e mode hf

/-- the abstract node after `set_mode(Some(mode))`: same kind, owner, target, data; the permission is
    `mode &&& 0o7777` — literally what `Posix.chmod` stores (`{ n with perm := mode &&& 0o7777 }`).
    No bound on `mode` (before the repair this needed `mode < 0o10000`). -/
theorem C02M_setMode_absNode (s : State) (k : FsPath) (e : Entry) (mode : Nat)
    (hf : e.link = false → e.dir = !e.file) :
    absNode s k (e.setMode mode) = { absNode s k e with perm := mode &&& 0o7777 } := by
  have hk : kindOf (e.setMode mode) = kindOf e := rfl
  have hp : (e.setMode mode).mode - typeBits (kindOf e) = mode &&& 0o7777 := by
    rw [C02M_setMode_mode e mode hf]
    exact or_sub_typeBits _ _ (and_perm_lt mode) (C02M_typeBits_cases _)
  have h1 : absNode s k (e.setMode mode) =
      { absNode s k e with perm := (e.setMode mode).mode - typeBits (kindOf e) } := rfl
  rw [h1, hp]

/-- `Posix.chmod` on an existing non-link node and `set_mode` on the corresponding Memfs entry store
    the same permission, for every mode argument -/
theorem C02M_chmod_agrees (s : State) (k : FsPath) (e : Entry) (mode : Nat)
    (hf : e.link = false → e.dir = !e.file) :
    (absNode s k (e.setMode mode)).perm = ({ absNode s k e with perm := mode &&& 0o7777 } : Node).perm ∧
    (absNode s k (e.setMode mode)).mode = typeBits (kindOf e) ||| (mode &&& 0o7777) := by
  rw [C02M_setMode_absNode s k e mode hf]
  exact ⟨rfl, rfl⟩

/-! ### `_mkdir_m`: `MemfsEntry::opts(path).mode(mode).build()` -/

/-- the two-stage computation: the flag-less builder keeps the argument, `build()` → `.dir()` masks it
    (a zero argument, like no argument, gives the default 0o40755) -/
theorem C02M_mkDirEntry_mode (p : FsPath) (mode : Nat) :
    (mkDirEntry p (some mode)).mode = if mode = 0 then 0o40755 else (mode &&& 0o7777) ||| 0o40000 := by
  unfold mkDirEntry
  by_cases h : mode = 0
  · subst h; rfl
  · simp [optsMode_some, h]

theorem C02M_mkDirEntry_none (p : FsPath) : (mkDirEntry p none).mode = 0o40755 := rfl

/-- whatever the argument, a created directory has the directory type bits and nothing else above the
    permission bits -/
theorem C02M_mkDirEntry_type_bits (p : FsPath) (mode : Option Nat) :
    (mkDirEntry p mode).mode &&& 0o170000 = 0o40000 := by
  cases mode with
  | none => rw [C02M_mkDirEntry_none]; decide
  | some m =>
    rw [C02M_mkDirEntry_mode]
    split
    · decide
    · exact type_of_or m 0o40000 (by decide)

/-- the abstract permission of a directory created by `mkdir_m(p, mode)`, `mode ≠ 0`: the permission
    bits of the argument (Stdfs: `mkdir` + `chmod(2)` = `mode &&& 0o7777`) -/
theorem C02M_mkDirEntry_perm (p : FsPath) (mode : Nat) (h : mode ≠ 0) :
    (mkDirEntry p (some mode)).mode - typeBits .dir = mode &&& 0o7777 := by
  rw [C02M_mkDirEntry_mode, if_neg h]
  exact or_sub_typeBits _ _ (and_perm_lt mode) (Or.inl rfl)

/-! ### history level: no reachable entry has a foreign type bit -/

/-- on a state satisfying the C01 side invariant `EntriesOk` every stored mode is canonical -/
theorem C02M_entriesOk_modes_canonical {s : State} (h : Lemmas.RefineA.EntriesOk s) {k : FsPath} {e : Entry}
    (hk : alLookup k s.entries = some e) :
    (e.mode &&& 0o7777) ||| typeBits (kindOf e) = e.mode ∧ e.mode &&& 0o170000 = typeBits (kindOf e) :=
  Lemmas.Reach.mode_canon_of_entryOk (Lemmas.Reach.entriesOk_at h hk)

/-- **every state reached from `Memfs.init` by a history of `GoodOp`s (everything but
    `copy_b(..).follow(true)`), each of which returns**: every entry's mode is its permission bits plus
    the type bits of its kind — for arbitrary mode arguments in the history -/
theorem C02M_reachable_modes_canonical (env : Env) (ops : List Op) (hg : ∀ op ∈ ops, GoodOp op)
    (hh : Returns env Memfs.init ops) {k : FsPath} {e : Entry}
    (hk : alLookup k (run env Memfs.init ops).entries = some e) :
    (e.mode &&& 0o7777) ||| typeBits (kindOf e) = e.mode ∧ e.mode &&& 0o170000 = typeBits (kindOf e) :=
  C02M_entriesOk_modes_canonical (C01R_good_run_inv env ops hg hh).2.2.2.2.2.2.1 hk

/-- in particular the source-mode hypothesis `hmode` of `C09_copy_file_partial` holds for every regular
    file of such a state -/
theorem C02M_reachable_file_mode (env : Env) (ops : List Op) (hg : ∀ op ∈ ops, GoodOp op)
    (hh : Returns env Memfs.init ops) {k : FsPath} {e : Entry}
    (hk : alLookup k (run env Memfs.init ops).entries = some e) (hl : e.link = false) (hd : e.dir = false) :
    (e.mode &&& 0o7777) ||| 0o100000 = e.mode := by
  have := (C02M_reachable_modes_canonical env ops hg hh hk).1
  have hkind : kindOf e = .file := by unfold kindOf; simp [hl, hd]
  rw [hkind] at this
  exact this

/-! ### the old witness is a point of agreement -/

namespace C02MWitness
def envN : Env := fun _ => none
def f : Str := ['/', 'f']
def d : Str := ['/', 'd']
/-- Memfs after `mkfile_m("/f", 0o40755)` -/
def sF : State := (Memfs.step envN Memfs.init (.mkfileM f 0o40755)).2
/-- Stdfs after the same call -/
def tF : T := (Stdfs.step envN Stdfs.init (.mkfileM f 0o40755)).2
end C02MWitness
open C02MWitness

/-- `mkfile_m("/f", 0o40755)` (a file created with directory type bits in the mode argument): both
    backends now report `mode("/f") = 0o100755` (Memfs reported 0o140755 before the repair), and the
    abstraction of the Memfs post-state is the Stdfs post-state -/
theorem C02M_old_witness_repaired :
    (Memfs.step envN Memfs.init (.mkfileM f 0o40755)).1 = .ok (.path [['f']]) ∧
    (Stdfs.step envN Stdfs.init (.mkfileM f 0o40755)).1 = .ok (.path [['f']]) ∧
    (Memfs.step envN sF (.mode f)).1 = .ok (.nat 0o100755) ∧
    (Stdfs.step envN tF (.mode f)).1 = .ok (.nat 0o100755) ∧
    absS sF = tF := by
  refine ⟨by decide, by decide, by decide, by decide, by decide⟩

/-- `chmod` of the file with foreign type bits, and of the root directory with file type bits:
    both backends keep the permission bits only -/
theorem C02M_chmod_examples :
    (Memfs.step envN (Memfs.step envN sF (.chmod f 0o40700)).2 (.mode f)).1 = .ok (.nat 0o100700) ∧
    (Stdfs.step envN (Stdfs.step envN tF (.chmod f 0o40700)).2 (.mode f)).1 = .ok (.nat 0o100700) ∧
    (Memfs.step envN (Memfs.step envN Memfs.init (.chmod ['/'] 0o100700)).2 (.mode ['/'])).1 = .ok (.nat 0o40700) ∧
    (Stdfs.step envN (Stdfs.step envN Stdfs.init (.chmod ['/'] 0o100700)).2 (.mode ['/'])).1 = .ok (.nat 0o40700) := by
  refine ⟨by decide, by decide, by decide, by decide⟩

/-- `mkdir_m("/d", 0o100700)`: a directory created with file type bits in the mode argument -/
theorem C02M_mkdir_m_example :
    (Memfs.step envN (Memfs.step envN Memfs.init (.mkdirM d 0o100700)).2 (.mode d)).1 = .ok (.nat 0o40700) ∧
    (Stdfs.step envN (Stdfs.step envN Stdfs.init (.mkdirM d 0o100700)).2 (.mode d)).1 = .ok (.nat 0o40700) ∧
    absS (Memfs.step envN Memfs.init (.mkdirM d 0o100700)).2 = (Stdfs.step envN Stdfs.init (.mkdirM d 0o100700)).2 := by
  refine ⟨by decide, by decide, by decide⟩

/-- non-vacuity of the history theorem: a history whose mode arguments all carry foreign type bits -/
def C02MWitness.hist : List Op :=
  [.mkfileM f 0o40755, .chmod ['/'] 0o100700, .mkdirM d 0o100700, .chmod f 0o140644]

example : (∀ o ∈ C02MWitness.hist, GoodOp o) ∧ Returns envN Memfs.init C02MWitness.hist :=
  ⟨by decide, (Lemmas.InvAll.noHangRun_iff envN _ _).1 (noHangRun_of_chk _ _ _ (by decide +kernel))⟩

example : (run envN Memfs.init C02MWitness.hist).entries.map (fun kv => (kv.1, kv.2.mode)) =
    [([], 0o40700), ([['f']], 0o100644), ([['d']], 0o40700)] := by decide +kernel

/-- non-vacuity of the flag hypothesis: the entries the model creates satisfy it -/
example : ((mkFileEntry [['f']]).link = false → (mkFileEntry [['f']]).dir = !(mkFileEntry [['f']]).file) ∧
    ((mkDirEntry [['d']] none).link = false → (mkDirEntry [['d']] none).dir = !(mkDirEntry [['d']] none).file) := by
  decide

/-- the flag hypothesis cannot be dropped: an entry claiming to be a file AND a directory gets the file
    bits from `optsMode` while the abstraction classifies it as a directory -/
example : let e : Entry := { mkFileEntry [['g']] with dir := true }
    optsMode e.link e.file e.dir (some 0o700) ≠ (0o700 &&& 0o7777) ||| typeBits (kindOf e) := by decide

end Rivia.Props
