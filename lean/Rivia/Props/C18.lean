/-
  C18 — XDG directory lookup honours the environment with the right precedence.
  Decision logic stated outright. Property theorems ONLY.
-/
import Rivia.Model.User
import Rivia.Lemmas.User

namespace Rivia.Props
open Rivia Rivia.User

def var (s : String) : Str := s.toList

/-! ### config_dir / cache_dir / data_dir / state_dir: the XDG_*_HOME value when set, else the
    specification's default under $HOME; error iff both are unset -/
theorem C18_config_dir_set (env : Env) (x : Str) (h : env (var "XDG_CONFIG_HOME") = some x) : configDir env = .ok x :=
  Lemmas.homeOr_set _ h
theorem C18_cache_dir_set (env : Env) (x : Str) (h : env (var "XDG_CACHE_HOME") = some x) : cacheDir env = .ok x :=
  Lemmas.homeOr_set _ h
theorem C18_data_dir_set (env : Env) (x : Str) (h : env (var "XDG_DATA_HOME") = some x) : dataDir env = .ok x :=
  Lemmas.homeOr_set _ h
theorem C18_state_dir_set (env : Env) (x : Str) (h : env (var "XDG_STATE_HOME") = some x) : stateDir env = .ok x :=
  Lemmas.homeOr_set _ h

/-- defaults: `$HOME/.config`, `$HOME/.cache`, `$HOME/.local/share`, `$HOME/.local/state`
    (as paths: the components of $HOME followed by the default's components) -/
theorem C18_home_defaults (env : Env) (h : Str) (hh : env (var "HOME") = some h) (hne : h ≠ []) :
    (env (var "XDG_CONFIG_HOME") = none → ∃ r, configDir env = .ok r ∧
        components r = components h ++ [.normal (var ".config")]) ∧
    (env (var "XDG_CACHE_HOME") = none → ∃ r, cacheDir env = .ok r ∧
        components r = components h ++ [.normal (var ".cache")]) ∧
    (env (var "XDG_DATA_HOME") = none → ∃ r, dataDir env = .ok r ∧
        components r = components h ++ [.normal (var ".local"), .normal (var "share")]) ∧
    (env (var "XDG_STATE_HOME") = none → ∃ r, stateDir env = .ok r ∧
        components r = components h ++ [.normal (var ".local"), .normal (var "state")]) := by
  have w1 : Lemmas.Wf (var ".config") := by unfold Lemmas.Wf var; decide
  have w2 : Lemmas.Wf (var ".cache") := by unfold Lemmas.Wf var; decide
  have w3 : Lemmas.Wf (var ".local") := by unfold Lemmas.Wf var; decide
  have w4 : Lemmas.Wf (var "share") := by unfold Lemmas.Wf var; decide
  have w5 : Lemmas.Wf (var "state") := by unfold Lemmas.Wf var; decide
  have hl := Lemmas.mash_wf_ne_nil hne w3
  refine ⟨fun hx => ⟨_, Lemmas.homeOr_unset _ hx hh, ?_⟩, fun hx => ⟨_, Lemmas.homeOr_unset _ hx hh, ?_⟩,
    fun hx => ⟨_, Lemmas.homeOr_unset _ hx hh, ?_⟩, fun hx => ⟨_, Lemmas.homeOr_unset _ hx hh, ?_⟩⟩
  · exact Lemmas.components_mash_wf hne w1
  · exact Lemmas.components_mash_wf hne w2
  · show components (mash (mash h (var ".local")) (var "share")) = _
    rw [Lemmas.components_mash_wf hl w4, Lemmas.components_mash_wf hne w3, List.append_assoc]
    rfl
  · show components (mash (mash h (var ".local")) (var "state")) = _
    rw [Lemmas.components_mash_wf hl w5, Lemmas.components_mash_wf hne w3, List.append_assoc]
    rfl

theorem C18_home_dirs_error_iff (env : Env) :
    ((∃ k, configDir env = .err k) ↔ (env (var "XDG_CONFIG_HOME") = none ∧ env (var "HOME") = none)) ∧
    ((∃ k, cacheDir env = .err k) ↔ (env (var "XDG_CACHE_HOME") = none ∧ env (var "HOME") = none)) ∧
    ((∃ k, dataDir env = .err k) ↔ (env (var "XDG_DATA_HOME") = none ∧ env (var "HOME") = none)) ∧
    ((∃ k, stateDir env = .err k) ↔ (env (var "XDG_STATE_HOME") = none ∧ env (var "HOME") = none)) :=
  ⟨Lemmas.homeOr_err_iff env _ _, Lemmas.homeOr_err_iff env _ _, Lemmas.homeOr_err_iff env _ _,
    Lemmas.homeOr_err_iff env _ _⟩

theorem C18_runtime_dir (env : Env) :
    runtimeDir env = (env (var "XDG_RUNTIME_DIR")).getD (var "/tmp") := by
  unfold runtimeDir
  show (match env (var "XDG_RUNTIME_DIR") with | some x => x | none => var "/tmp") = _
  cases env (var "XDG_RUNTIME_DIR") <;> rfl

/-! ### list variables: the listed directories in order without empty segments, or the defaults
    when unset or (all-)empty -/
def segments (x : Str) : List Str := (Str.splitOn ':' x).filter (fun s => s ≠ [])

theorem C18_sys_data_dirs (env : Env) :
    sysDataDirs env = match env (var "XDG_DATA_DIRS") with
      | some x => if segments x = [] then [var "/usr/local/share", var "/usr/share"] else segments x
      | none => [var "/usr/local/share", var "/usr/share"] :=
  Lemmas.listOr_eq env _ _

theorem C18_sys_config_dirs (env : Env) :
    sysConfigDirs env = match env (var "XDG_CONFIG_DIRS") with
      | some x => if segments x = [] then [var "/etc/xdg"] else segments x
      | none => [var "/etc/xdg"] :=
  Lemmas.listOr_eq env _ _

theorem C18_path_dirs (env : Env) :
    pathDirs env = match env (var "PATH") with
      | some x => .ok (segments x)
      | none => .err .var := by
  unfold pathDirs
  show (match env (var "PATH") with | some x => Outcome.ok (parsePaths x) | none => .err .var) = _
  cases env (var "PATH") <;> rfl

theorem C18_list_dirs_never_empty_segment (env : Env) :
    (∀ d ∈ sysDataDirs env, d ≠ []) ∧ (∀ d ∈ sysConfigDirs env, d ≠ []) :=
  ⟨Lemmas.listOr_ne_nil env _ _ (by decide), Lemmas.listOr_ne_nil env _ _ (by decide)⟩

/-! ### vfs.config_dir(name): first hit in the order XDG_CONFIG_HOME (or its default), XDG_CONFIG_DIRS
    (repaired code: holds for EVERY environment) -/

/-- the lookup order, read off the environment: `$XDG_CONFIG_HOME` when set, else `$HOME/.config`
    when `$HOME` is set, else no user directory; then the `XDG_CONFIG_DIRS` list
    (`C18_sys_config_dirs`: its non-empty segments, default `/etc/xdg`) -/
def configSearchOrder (env : Env) : List Str :=
  (match env (var "XDG_CONFIG_HOME") with
    | some x => [x]
    | none => match env (var "HOME") with
      | some h => [mash h (var ".config")]
      | none => []) ++ sysConfigDirs env

/-- the user entry of the order is exactly `config_dir()` when that succeeds, and absent otherwise -/
theorem C18_config_search_order_user (env : Env) :
    configSearchOrder env = (match configDir env with | .ok c => [c] | _ => []) ++ sysConfigDirs env := by
  have h := Lemmas.homeOr_eq env "XDG_CONFIG_HOME" (fun h => mash h (v ".config"))
  unfold configSearchOrder configDir var
  rw [h]
  cases env "XDG_CONFIG_HOME".toList with
  | some x => rfl
  | none => cases env "HOME".toList <;> rfl

/-- full strength, every environment: the result is the first directory of the order containing `name` -/
theorem C18_config_dir_first_hit (env : Env) (ex : Str → Bool) (name : Str) :
    vfsConfigDir env ex name = (configSearchOrder env).find? (fun d => ex (mash d name)) := by
  rw [C18_config_search_order_user]
  exact Lemmas.vfsConfigDir_eq env ex name

/-- characterisation of the first hit -/
theorem C18_config_dir_some_iff (env : Env) (ex : Str → Bool) (name d : Str) :
    vfsConfigDir env ex name = some d ↔
      ∃ pre post, configSearchOrder env = pre ++ d :: post ∧ ex (mash d name) = true ∧
        ∀ d' ∈ pre, ex (mash d' name) = false := by
  rw [C18_config_dir_first_hit]
  exact Lemmas.find?_some_iff_split _ _ _

/-- `None` iff no directory of the order contains `name` -/
theorem C18_config_dir_none_iff (env : Env) (ex : Str → Bool) (name : Str) :
    vfsConfigDir env ex name = none ↔ ∀ d ∈ configSearchOrder env, ex (mash d name) = false := by
  rw [C18_config_dir_first_hit]
  exact Lemmas.find?_none_iff_all_false _ _

/-- the system directories are consulted whatever the environment: a hit there is never hidden -/
theorem C18_config_dir_system_dirs_always_searched (env : Env) (ex : Str → Bool) (name d : Str)
    (hd : d ∈ sysConfigDirs env) (hex : ex (mash d name) = true) :
    ∃ r, vfsConfigDir env ex name = some r := by
  cases h : vfsConfigDir env ex name with
  | some r => exact ⟨r, rfl⟩
  | none =>
    have h' := (C18_config_dir_none_iff env ex name).1 h d
      (by unfold configSearchOrder; exact List.mem_append_right _ hd)
    rw [hex] at h'
    cases h'

/-- positive example on the witness environment of the former finding `no_home_hides_system_dirs`
    (HOME and XDG_CONFIG_HOME both unset): the default system directory is found -/
theorem C18_example_no_home_finds_system_dir :
    configDir (fun _ => none) = .err .var ∧
    vfsConfigDir (fun _ => none) (fun _ => true) (var "app.toml") = some (var "/etc/xdg") := by
  constructor <;> rfl

-- non-vacuity / sanity (tests, labelled as such): user directory first, then the list in order
example : configSearchOrder (fun k => if k = var "HOME" then some (var "/home/u") else
      if k = var "XDG_CONFIG_DIRS" then some (var "/a::/b") else none) =
    [var "/home/u/.config", var "/a", var "/b"] := by decide
example : vfsConfigDir (fun k => if k = var "XDG_CONFIG_DIRS" then some (var "/a:/b") else none)
    (fun p => p == var "/b/app") (var "app") = some (var "/b") := by decide

/-! ### getrids -/
/-- `parse::<u32>()`: optional `+`, then one or more ASCII digits, value below 2^32 -/
def IsU32Text (s : Str) (n : Nat) : Prop :=
  ∃ ds : Str, (s = ds ∨ s = '+' :: ds) ∧ ds ≠ [] ∧ (∀ c ∈ ds, c.isDigit = true) ∧
    ds.foldl (fun acc c => acc * 10 + (c.toNat - 48)) 0 = n ∧ n < 2 ^ 32

theorem C18_parse_u32 (s : Str) (n : Nat) : parseU32 s = some n ↔ IsU32Text s n :=
  Lemmas.parseU32_iff s n

theorem C18_getrids (env : Env) (uid gid : Nat) :
    getrids env uid gid =
      if uid = 0 then
        match (env (var "SUDO_UID")).bind parseU32, (env (var "SUDO_GID")).bind parseU32 with
        | some u, some g => (u, g)
        | _, _ => (uid, gid)
      else (uid, gid) := by
  unfold getrids
  show (if uid = 0 then
      match env (var "SUDO_UID"), env (var "SUDO_GID") with
      | some u, some g =>
        match parseU32 u, parseU32 g with
        | some u', some g' => (u', g')
        | _, _ => (uid, gid)
      | _, _ => (uid, gid)
    else (uid, gid)) = _
  by_cases hu : uid = 0
  · simp only [hu, if_true]
    cases env (var "SUDO_UID") with
    | none => cases env (var "SUDO_GID") <;> rfl
    | some a =>
      cases env (var "SUDO_GID") with
      | none => simp only [Option.bind]; cases parseU32 a <;> rfl
      | some b => simp only [Option.bind]
  · simp only [hu, if_false]

-- non-vacuity / sanity (tests, labelled as such)
example : parseU32 "+42".toList = some 42 := by decide
example : parseU32 "4294967296".toList = none := by decide

end Rivia.Props
