/-
  C18 — XDG directory lookup honours the environment with the right precedence.
  Decision logic stated outright. Property theorems ONLY.
-/
import Rivia.Model.User
import Rivia.Lemmas.User

namespace Rivia.Props
open Rivia Rivia.User

def var (s : String) : Str := s.toList

/-! ### config_dir / cache_dir / data_dir / state_dir: the XDG_*_HOME value when set, else the
    specification's default under $HOME; error iff both are unset -/
theorem C18_config_dir_set (env : Env) (x : Str) (h : env (var "XDG_CONFIG_HOME") = some x) : configDir env = .ok x :=
  Lemmas.homeOr_set _ h
theorem C18_cache_dir_set (env : Env) (x : Str) (h : env (var "XDG_CACHE_HOME") = some x) : cacheDir env = .ok x :=
  Lemmas.homeOr_set _ h
theorem C18_data_dir_set (env : Env) (x : Str) (h : env (var "XDG_DATA_HOME") = some x) : dataDir env = .ok x :=
  Lemmas.homeOr_set _ h
theorem C18_state_dir_set (env : Env) (x : Str) (h : env (var "XDG_STATE_HOME") = some x) : stateDir env = .ok x :=
  Lemmas.homeOr_set _ h

/-- defaults: `$HOME/.config`, `$HOME/.cache`, `$HOME/.local/share`, `$HOME/.local/state`
    (as paths: the components of $HOME followed by the default's components) -/
theorem C18_home_defaults (env : Env) (h : Str) (hh : env (var "HOME") = some h) (hne : h ≠ []) :
    (env (var "XDG_CONFIG_HOME") = none → ∃ r, configDir env = .ok r ∧
        components r = components h ++ [.normal (var ".config")]) ∧
    (env (var "XDG_CACHE_HOME") = none → ∃ r, cacheDir env = .ok r ∧
        components r = components h ++ [.normal (var ".cache")]) ∧
    (env (var "XDG_DATA_HOME") = none → ∃ r, dataDir env = .ok r ∧
        components r = components h ++ [.normal (var ".local"), .normal (var "share")]) ∧
    (env (var "XDG_STATE_HOME") = none → ∃ r, stateDir env = .ok r ∧
        components r = components h ++ [.normal (var ".local"), .normal (var "state")]) := by
  have w1 : Lemmas.Wf (var ".config") := by unfold Lemmas.Wf var; decide
  have w2 : Lemmas.Wf (var ".cache") := by unfold Lemmas.Wf var; decide
  have w3 : Lemmas.Wf (var ".local") := by unfold Lemmas.Wf var; decide
  have w4 : Lemmas.Wf (var "share") := by unfold Lemmas.Wf var; decide
  have w5 : Lemmas.Wf (var "state") := by unfold Lemmas.Wf var; decide
  have hl := Lemmas.mash_wf_ne_nil hne w3
  refine ⟨fun hx => ⟨_, Lemmas.homeOr_unset _ hx hh, ?_⟩, fun hx => ⟨_, Lemmas.homeOr_unset _ hx hh, ?_⟩,
    fun hx => ⟨_, Lemmas.homeOr_unset _ hx hh, ?_⟩, fun hx => ⟨_, Lemmas.homeOr_unset _ hx hh, ?_⟩⟩
  · exact Lemmas.components_mash_wf hne w1
  · exact Lemmas.components_mash_wf hne w2
  · show components (mash (mash h (var ".local")) (var "share")) = _
    rw [Lemmas.components_mash_wf hl w4, Lemmas.components_mash_wf hne w3, List.append_assoc]
    rfl
  · show components (mash (mash h (var ".local")) (var "state")) = _
    rw [Lemmas.components_mash_wf hl w5, Lemmas.components_mash_wf hne w3, List.append_assoc]
    rfl

theorem C18_home_dirs_error_iff (env : Env) :
    ((∃ k, configDir env = .err k) ↔ (env (var "XDG_CONFIG_HOME") = none ∧ env (var "HOME") = none)) ∧
    ((∃ k, cacheDir env = .err k) ↔ (env (var "XDG_CACHE_HOME") = none ∧ env (var "HOME") = none)) ∧
    ((∃ k, dataDir env = .err k) ↔ (env (var "XDG_DATA_HOME") = none ∧ env (var "HOME") = none)) ∧
    ((∃ k, stateDir env = .err k) ↔ (env (var "XDG_STATE_HOME") = none ∧ env (var "HOME") = none)) :=
  ⟨Lemmas.homeOr_err_iff env _ _, Lemmas.homeOr_err_iff env _ _, Lemmas.homeOr_err_iff env _ _,
    Lemmas.homeOr_err_iff env _ _⟩

theorem C18_runtime_dir (env : Env) :
    runtimeDir env = (env (var "XDG_RUNTIME_DIR")).getD (var "/tmp") := by
  unfold runtimeDir
  show (match env (var "XDG_RUNTIME_DIR") with | some x => x | none => var "/tmp") = _
  cases env (var "XDG_RUNTIME_DIR") <;> rfl

/-! ### list variables: the listed directories in order without empty segments, or the defaults
    when unset or (all-)empty -/
def segments (x : Str) : List Str := (Str.splitOn ':' x).filter (fun s => s ≠ [])

theorem C18_sys_data_dirs (env : Env) :
    sysDataDirs env = match env (var "XDG_DATA_DIRS") with
      | some x => if segments x = [] then [var "/usr/local/share", var "/usr/share"] else segments x
      | none => [var "/usr/local/share", var "/usr/share"] :=
  Lemmas.listOr_eq env _ _

theorem C18_sys_config_dirs (env : Env) :
    sysConfigDirs env = match env (var "XDG_CONFIG_DIRS") with
      | some x => if segments x = [] then [var "/etc/xdg"] else segments x
      | none => [var "/etc/xdg"] :=
  Lemmas.listOr_eq env _ _

theorem C18_path_dirs (env : Env) :
    pathDirs env = match env (var "PATH") with
      | some x => .ok (segments x)
      | none => .err .var := by
  unfold pathDirs
  show (match env (var "PATH") with | some x => Outcome.ok (parsePaths x) | none => .err .var) = _
  cases env (var "PATH") <;> rfl

theorem C18_list_dirs_never_empty_segment (env : Env) :
    (∀ d ∈ sysDataDirs env, d ≠ []) ∧ (∀ d ∈ sysConfigDirs env, d ≠ []) :=
  ⟨Lemmas.listOr_ne_nil env _ _ (by decide), Lemmas.listOr_ne_nil env _ _ (by decide)⟩

/-! ### vfs.config_dir(name): first hit in the order XDG_CONFIG_HOME (or its default), XDG_CONFIG_DIRS -/
def C18_config_dir_first_hit_full : Prop :=
  ∀ (env : Env) (ex : Str → Bool) (name : Str),
    vfsConfigDir env ex name =
      ((match configDir env with | .ok c => [c] | _ => []) ++ sysConfigDirs env).find? (fun d => ex (mash d name))

theorem C18_config_dir_first_hit_partial (env : Env) (ex : Str → Bool) (name : Str) (c : Str)
    (hc : configDir env = .ok c) :
    vfsConfigDir env ex name = (c :: sysConfigDirs env).find? (fun d => ex (mash d name)) := by
  unfold vfsConfigDir
  rw [hc]

/-- characterisation of the first hit -/
theorem C18_config_dir_some_iff (env : Env) (ex : Str → Bool) (name c d : Str) (hc : configDir env = .ok c) :
    vfsConfigDir env ex name = some d ↔
      ∃ pre post, c :: sysConfigDirs env = pre ++ d :: post ∧ ex (mash d name) = true ∧
        ∀ d' ∈ pre, ex (mash d' name) = false := by
  rw [C18_config_dir_first_hit_partial env ex name c hc, List.find?_eq_some_iff_append]
  constructor
  · rintro ⟨h1, pre, post, h2, h3⟩
    exact ⟨pre, post, h2, h1, fun d' hd' => by simpa using h3 d' hd'⟩
  · rintro ⟨pre, post, h2, h1, h3⟩
    exact ⟨h1, pre, post, h2, fun d' hd' => by simpa using h3 d' hd'⟩

theorem C18_config_dir_none_iff (env : Env) (ex : Str → Bool) (name c : Str) (hc : configDir env = .ok c) :
    vfsConfigDir env ex name = none ↔ ∀ d ∈ c :: sysConfigDirs env, ex (mash d name) = false := by
  rw [C18_config_dir_first_hit_partial env ex name c hc, List.find?_eq_none]
  constructor
  · intro h d hd; simpa using h d hd
  · intro h d hd; simpa using h d hd

/-- finding: with HOME and XDG_CONFIG_HOME both unset the system directories are never consulted -/
theorem C18_finding_no_home_hides_system_dirs :
    vfsConfigDir (fun _ => none) (fun _ => true) (var "app.toml") = none ∧
    ((sysConfigDirs (fun _ => none)).find? (fun _ => true)) = some (var "/etc/xdg") := by
  constructor <;> rfl

theorem C18_config_dir_first_hit_full_is_false : ¬ C18_config_dir_first_hit_full := by
  intro h
  have h1 := h (fun _ => none) (fun _ => true) (var "app.toml")
  rw [C18_finding_no_home_hides_system_dirs.1] at h1
  revert h1
  decide

/-! ### getrids -/
/-- `parse::<u32>()`: optional `+`, then one or more ASCII digits, value below 2^32 -/
def IsU32Text (s : Str) (n : Nat) : Prop :=
  ∃ ds : Str, (s = ds ∨ s = '+' :: ds) ∧ ds ≠ [] ∧ (∀ c ∈ ds, c.isDigit = true) ∧
    ds.foldl (fun acc c => acc * 10 + (c.toNat - 48)) 0 = n ∧ n < 2 ^ 32

theorem C18_parse_u32 (s : Str) (n : Nat) : parseU32 s = some n ↔ IsU32Text s n :=
  Lemmas.parseU32_iff s n

theorem C18_getrids (env : Env) (uid gid : Nat) :
    getrids env uid gid =
      if uid = 0 then
        match (env (var "SUDO_UID")).bind parseU32, (env (var "SUDO_GID")).bind parseU32 with
        | some u, some g => (u, g)
        | _, _ => (uid, gid)
      else (uid, gid) := by
  unfold getrids
  show (if uid = 0 then
      match env (var "SUDO_UID"), env (var "SUDO_GID") with
      | some u, some g =>
        match parseU32 u, parseU32 g with
        | some u', some g' => (u', g')
        | _, _ => (uid, gid)
      | _, _ => (uid, gid)
    else (uid, gid)) = _
  by_cases hu : uid = 0
  · simp only [hu, if_true]
    cases env (var "SUDO_UID") with
    | none => cases env (var "SUDO_GID") <;> rfl
    | some a =>
      cases env (var "SUDO_GID") with
      | none => simp only [Option.bind]; cases parseU32 a <;> rfl
      | some b => simp only [Option.bind]
  · simp only [hu, if_false]

-- non-vacuity / sanity (tests, labelled as such)
example : parseU32 "+42".toList = some 42 := by decide
example : parseU32 "4294967296".toList = none := by decide

end Rivia.Props
