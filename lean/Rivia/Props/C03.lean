import Rivia.Spec.MemfsJudge
namespace Rivia.Props
open Rivia Rivia.Memfs Rivia.Spec
theorem C03_inv_init : Inv Memfs.init := by decide
end Rivia.Props
