/-
  C03 (global) — after ANY history of calls from the fresh filesystem, succeeding or failing, with
  arbitrary arguments, the Memfs tree invariant `Rivia.Spec.Inv` holds: every existing path other than
  the root has an existing parent that is a real directory and lists it; every listed name exists;
  exactly the regular non-link files have byte content; every entry reports the path it is stored
  under; nothing is orphaned, duplicated or left with dangling data.

  Plain `Inv` is NOT inductive (`C03_inv_step_full_is_false`: `move_p` breaks it from an `Inv` state
  with an unsorted child list). The theorem is therefore proved through the strengthened invariant
  `C03_Strong = Inv ∧ KeysWf ∧ SortedKids ∧ FlagsOk`, which holds initially and is kept by EVERY
  constructor of `Op` (`C03_strong_step`); the three extra clauses only speak about states that no
  history can produce anyway, so nothing is lost for reachable states (`C03_inv_reachable`).

  The only side condition is "the call returns" (`≠ .hang`; `hang` is the model's fuel exhaustion, a
  Rust call that would not terminate has no post-state to speak of). It is used for `move_p` only:
  every other operation keeps the invariant even at a `hang` exit (`C03_strong_step_any_outcome`).

  Property theorems ONLY; proofs in Rivia/Lemmas/InvAll.lean (assembly), InvA / InvB* / InvC*.lean.
  This file does not import Rivia/Props/C03B.lean (both declare `C03_strong_init`).
-/
import Rivia.Lemmas.InvAll

namespace Rivia.Props
open Rivia Rivia.Memfs Rivia.Spec Rivia.Lemmas Rivia.Lemmas.InvAll

/-! ### the strengthened invariant, spelled out -/

/-- a real path element: non-empty, not `.`, slash-free (= `Lemmas.BodyPiece`) -/
def C03_NameOk (n : Str) : Prop := n ≠ [] ∧ n ≠ ['.'] ∧ '/' ∉ n

/-- every name of every key, and of the working directory, is a real path element -/
def C03_KeysWf (s : State) : Prop :=
  (∀ kv ∈ s.entries, ∀ n ∈ kv.1, C03_NameOk n) ∧ (∀ n ∈ s.cwd, C03_NameOk n)

/-- every child-name list is in the order `insertName` keeps (`strLt` = byte-wise lexicographic) -/
def C03_SortedKids (s : State) : Prop :=
  ∀ kv ∈ s.entries, ∀ fs, kv.2.files = some fs → fs.Pairwise (fun a b => strLt b a = false)

/-- no entry is flagged both as a file and as a directory -/
def C03_FlagsOk (s : State) : Prop :=
  ∀ kv ∈ s.entries, ¬ (kv.2.file = true ∧ kv.2.dir = true)

instance (n : Str) : Decidable (C03_NameOk n) := by unfold C03_NameOk; infer_instance
instance (s : State) : Decidable (C03_KeysWf s) := by unfold C03_KeysWf; infer_instance
instance (s : State) : Decidable (C03_SortedKids s) := by unfold C03_SortedKids; infer_instance
instance (s : State) : Decidable (C03_FlagsOk s) := by unfold C03_FlagsOk; infer_instance

/-- the inductive invariant -/
def C03_Strong (s : State) : Prop := Spec.Inv s ∧ C03_KeysWf s ∧ C03_SortedKids s ∧ C03_FlagsOk s

/-- (restates definitions) it is group B's `Strong`, so it is decidable and the judge can evaluate it -/
theorem C03_strong_iff_groupB (s : State) : C03_Strong s ↔ InvB.Strong s := Iff.rfl

instance (s : State) : Decidable (C03_Strong s) := by unfold C03_Strong; infer_instance

/-! ### coverage -/

/-- the three proof groups exhaust the constructors of `Op`: no operation is left out -/
theorem C03_every_op_covered (op : Op) : InvA.CoveredA op ∨ InvB.CoveredB op ∨ InvC.CoveredC op :=
  covered_all op

/-! ### induction -/

theorem C03_strong_init : C03_Strong Memfs.init := strong_init

/-- one call of ANY operation, any environment, any arguments, any outcome but `hang` -/
theorem C03_strong_step (env : Env) (s : State) (op : Op) (h : C03_Strong s)
    (hh : (step env s op).1 ≠ .hang) : C03_Strong (step env s op).2 :=
  strong_step env s op h hh

/-- every operation other than `move_p` keeps it at every exit, `hang` included -/
theorem C03_strong_step_any_outcome (env : Env) (s : State) (op : Op) (hm : ∀ a b, op ≠ .moveP a b)
    (h : C03_Strong s) : C03_Strong (step env s op).2 :=
  strong_step_any_outcome env s op hm h

/-- a history from any state satisfying the strengthened invariant -/
theorem C03_strong_run (env : Env) (s : State) (ops : List Op) (h : C03_Strong s)
    (hh : NoHangRun env s ops) : C03_Strong (run env s ops) :=
  strong_run env s ops h hh

/-- (bridge) the recursive form of the no-hang hypothesis is the "every split" form used below -/
theorem C03_noHangRun_iff (env : Env) (s : State) (ops : List Op) :
    NoHangRun env s ops ↔
      ∀ pre op post, ops = pre ++ op :: post → (step env (run env s pre) op).1 ≠ .hang :=
  noHangRun_iff env s ops

/-- every state reachable from the fresh filesystem satisfies the strengthened invariant … -/
theorem C03_strong_reachable (env : Env) (ops : List Op)
    (hh : ∀ pre op post, ops = pre ++ op :: post → (step env (run env Memfs.init pre) op).1 ≠ .hang) :
    C03_Strong (run env Memfs.init ops) :=
  strong_reachable env ops hh

/-- … hence **every reachable state is a well-formed tree**: any environment, any history of calls
    (all 53 operations, arbitrary arguments, succeeding or failing), each of which returns -/
theorem C03_inv_reachable (env : Env) (ops : List Op)
    (hh : ∀ pre op post, ops = pre ++ op :: post → (step env (run env Memfs.init pre) op).1 ≠ .hang) :
    Spec.Inv (run env Memfs.init ops) :=
  (strong_reachable env ops hh).1

/-! ### why the strengthening: plain `Inv` is not inductive -/

/-- the statement one would like to have -/
def C03_inv_step_full : Prop :=
  ∀ (env : Env) (s : State) (op : Op), Spec.Inv s → (step env s op).1 ≠ .hang → Spec.Inv (step env s op).2

def C03_envNone : Env := fun _ => none

/-- `/` lists `b, a, c` (unsorted; no history produces this): `move_p "/c" "/a"` makes `insertName`
    miss the existing name and list `a` twice (same witness as `wUnsorted` of C03B) -/
def C03_wUnsorted : State :=
  { entries := [([], { mkDirEntry [] none with files := some [['b'], ['a'], ['c']] }),
                ([['a']], mkFileEntry [['a']]), ([['b']], mkFileEntry [['b']]), ([['c']], mkFileEntry [['c']])]
    files := [([['a']], []), ([['b']], []), ([['c']], [])]
    cwd := [], root := [], handles := [] }

set_option maxRecDepth 100000 in
theorem C03_inv_breaks_on_unsorted :
    Spec.Inv C03_wUnsorted ∧ ¬ C03_SortedKids C03_wUnsorted ∧
    (step C03_envNone C03_wUnsorted (.moveP ['/', 'c'] ['/', 'a'])).1 = .ok .unit ∧
    invViolation (step C03_envNone C03_wUnsorted (.moveP ['/', 'c'] ['/', 'a'])).2
      = some "duplicate-child-name:/" := by
  decide

theorem C03_inv_step_full_is_false :
    ¬ (∀ (env : Env) (s : State) (op : Op), Spec.Inv s → (step env s op).1 ≠ .hang →
        Spec.Inv (step env s op).2) := by
  intro h
  have w := C03_inv_breaks_on_unsorted
  have := h C03_envNone C03_wUnsorted (.moveP ['/', 'c'] ['/', 'a']) w.1
    (by rw [w.2.2.1]; intro h0; cases h0)
  unfold Spec.Inv at this
  rw [w.2.2.2] at this
  cases this

/-! ### non-vacuity -/

/-- the hypothesis of `C03_inv_reachable` holds of the empty history … -/
example (env : Env) : ∀ pre op post, ([] : List Op) = pre ++ op :: post →
    (step env (run env Memfs.init pre) op).1 ≠ .hang :=
  (noHangRun_iff env _ _).1 trivial

/-- … and of a concrete 3-call history, for every environment (these queries return in every state) -/
example (env : Env) : ∀ pre op post,
    [Op.exists ['a'], Op.isDir ['/'], Op.cwd] = pre ++ op :: post →
    (step env (run env Memfs.init pre) op).1 ≠ .hang :=
  (noHangRun_iff env _ _).1 (noHangRun_simpleQueries env _ _ (by simp [simpleQuery]))

example (env : Env) : Spec.Inv (run env Memfs.init [Op.exists ['a'], Op.isDir ['/'], Op.cwd]) :=
  C03_inv_reachable env _
    ((noHangRun_iff env _ _).1 (noHangRun_simpleQueries env _ _ (by simp [simpleQuery])))

set_option maxRecDepth 100000 in
/-- a mutating call from the fresh filesystem that returns and really changes the tree: the step
    theorem applies to it non-trivially (one call, not a history) -/
theorem C03_mkdirP_returns : (step C03_envNone Memfs.init (.mkdirP ['/', 'a'])).1 ≠ .hang ∧
    alLookup [['a']] (step C03_envNone Memfs.init (.mkdirP ['/', 'a'])).2.entries
      = some (mkDirEntry [['a']] none) := by
  decide

example : C03_Strong (step C03_envNone Memfs.init (.mkdirP ['/', 'a'])).2 :=
  C03_strong_step _ _ _ C03_strong_init C03_mkdirP_returns.1

end Rivia.Props
