import Rivia.Props.C05
namespace Rivia.Props
/-- both backends resolve path arguments identically (C05) -/
theorem C02_abs_identical (env : Env) (cwd s : Str) : absWith env cwd s = absStdWith env cwd s := C05_abs_backends_equal env cwd s
end Rivia.Props
