/-
  C02 — "Stdfs and Memfs are interchangeable: same calls, same results, same tree".

  Both backends are compared through the reference tree filesystem (`Spec.specStep` on `TreeFs.T`):
  * C01 (elsewhere): `Memfs.step` refines `specStep` through the abstraction `absS`;
  * here: `Stdfs.step` (the transcription of `src/sys/fs/stdfs/*.rs` over the syscall model
    `Rivia.Model.Posix`, whose state IS a `TreeFs.T`) refines `specStep` directly.

  Vocabulary (all decidable; definitions in `Rivia/Lemmas/Stdfs.lean`, `StdfsMain.lean`):
  * `Wf t`       — distinct keys, `/` is a directory, the parent of every other key is a directory;
  * `D2 env t op`— (a) every link has a target that exists and is not a link, and its recorded
                   `toDir` flag is accurate (`linksOkB`); (b) the text of every link leads
                   `StdfsEntry::from` back to its target key (`linkTextOkB`; fails e.g. for a target
                   whose name contains `$`); (c) the process cwd is an existing directory;
                   (d) no path argument of `op`, resolved lexically, has a link as a proper ancestor
                   (`argOk`); (e) the operation-specific exclusions `opOk`, one per finding S6, S8, S11–S14, S16 (for the listings, `chown` and `chmod` also `keysRT`:
                   every key, rendered, is resolved by `abs` to itself — `DirEntry::path()` is re-resolved)
                   (S1–S5, S7 and S15 were repaired in the Rust code and their exclusions are gone);
  * `CoveredS op`— the 43 operations for which the refinement is proved (`chmodB` only without a symbolic expression);
  * `ResMatchOkErr` — ok-vs-err agreement and, on ok, equal values;
  * `TEquiv`     — same cwd and the same node under every key.

  Property theorems only; proofs are in `Rivia/Lemmas/Stdfs*.lean`.
-/
import Rivia.Props.C05
import Rivia.Props.C01A
import Rivia.Lemmas.StdfsMain

namespace Rivia.Props
open Rivia Rivia.Memfs Rivia.File Rivia.Spec Rivia.Spec.TreeFs Rivia.Stdfs Rivia.Lemmas.StdfsL
open Rivia.Lemmas.RefineA (TEquiv ResMatch)

/-- both backends resolve path arguments identically (C05) -/
theorem C02_abs_identical (env : Env) (cwd s : Str) : absWith env cwd s = absStdWith env cwd s :=
  C05_abs_backends_equal env cwd s

/-! ### witnesses: (tree, call) pairs on which the Stdfs model and the reference differ -/

def envNone : Env := fun _ => none
def dirN : Node := newDir 0o755
def fileN : Node := newFile
def lnk (toDir : Bool) (tg : FsPath) : Node := ⟨.link toDir, 0o777, 1000, 1000, some tg, []⟩

/-- `/d` a directory, `/l → /d` -/
def treeLinkDir : T := { nodes := [([], dirN), ([['d']], dirN), ([['l']], lnk true [['d']])], cwd := [] }
/-- `/f` a regular file (mode 644), `/l → /f` -/
def treeLinkFile : T := { nodes := [([], dirN), ([['f']], fileN), ([['l']], lnk false [['f']])], cwd := [] }
/-- `/a/f` a regular file, `/a/l → /a/f` (the link text is the relative `f`) -/
def treeRelLink : T :=
  { nodes := [([], dirN), ([['a']], dirN), ([['a'], ['f']], fileN), ([['a'], ['l']], lnk false [['a'], ['f']])],
    cwd := [] }
/-- `/d` an empty directory which is the process cwd -/
def treeCwd : T := { nodes := [([], dirN), ([['d']], dirN)], cwd := [['d']] }

/-- `/f` a regular file with content -/
def okTreeData : T := { nodes := [([], dirN), ([['f']], { fileN with data := [104, 105] })], cwd := [] }

/-- the part of `D2` that does not depend on the findings -/
def D2base (env : Env) (t : T) (op : Op) : Prop :=
  (linksOkB t && linkTextOkB env t && isDir t t.cwd && (opArgs op).all (argOk env t)) = true
instance (env : Env) (t : T) (op : Op) : Decidable (D2base env t op) := by unfold D2base; infer_instance

/-! #### S1–S5: repaired in the Rust code (commits 07b9520, 65f3327, 1506af7, fb609ee, 0b4a978); the
     former witnesses are now points of agreement -/

/-- S1 (repaired): `remove` of a link to a directory removes the link, as the reference does -/
theorem C02_S1_repaired_remove_link_to_dir :
    Wf treeLinkDir ∧ D2 envNone treeLinkDir (.remove ['/', 'l']) ∧
    Stdfs.step envNone treeLinkDir (.remove ['/', 'l']) = (.ok .unit, del treeLinkDir [['l']]) ∧
    specStep envNone treeLinkDir (.remove ['/', 'l']) = some (.ok .unit, del treeLinkDir [['l']]) :=
  ⟨by decide, by decide, by decide, rfl⟩

/-- S2 (repaired): `mkdir_m` on an existing regular file fails with IsNotDir, as the reference does -/
theorem C02_S2_repaired_mkdir_m_on_file :
    Wf treeLinkFile ∧ D2 envNone treeLinkFile (.mkdirM ['/', 'f'] 0o755) ∧
    Stdfs.step envNone treeLinkFile (.mkdirM ['/', 'f'] 0o755) = (.err .isNotDir, treeLinkFile) ∧
    Stdfs.step envNone treeLinkFile (.mkdirM ['/', 'l'] 0o755) = (.err .isNotDir, treeLinkFile) ∧
    specStep envNone treeLinkFile (.mkdirM ['/', 'f'] 0o755) = some (.err (some .isNotDir), treeLinkFile) ∧
    specStep envNone treeLinkFile (.mkdirM ['/', 'l'] 0o755) = some (.err (some .isNotDir), treeLinkFile) :=
  ⟨by decide, by decide, by decide, by decide, rfl, rfl⟩

/-- S3 (repaired): `readlink_abs` on a regular file fails with IsNotSymlink; the reference fails too -/
theorem C02_S3_repaired_readlink_abs_on_file :
    Wf treeLinkFile ∧ D2 envNone treeLinkFile (.readlinkAbs ['/', 'f']) ∧
    Stdfs.step envNone treeLinkFile (.readlinkAbs ['/', 'f']) = (.err .isNotSymlink, treeLinkFile) ∧
    specStep envNone treeLinkFile (.readlinkAbs ['/', 'f']) = some (.err none, treeLinkFile) :=
  ⟨by decide, by decide, by decide, rfl⟩

/-- S4 (repaired): `remove_all` of a regular file (and of a link) removes it, as the reference does -/
theorem C02_S4_repaired_remove_all_on_file :
    Wf treeLinkFile ∧ D2 envNone treeLinkFile (.removeAll ['/', 'f']) ∧
    Stdfs.step envNone treeLinkFile (.removeAll ['/', 'f']) = (.ok .unit, del treeLinkFile [['f']]) ∧
    Stdfs.step envNone treeLinkFile (.removeAll ['/', 'l']) = (.ok .unit, del treeLinkFile [['l']]) ∧
    (∃ t', specStep envNone treeLinkFile (.removeAll ['/', 'f']) = some (.ok .unit, t') ∧
      t' = del treeLinkFile [['f']]) :=
  ⟨by decide, by decide, by decide, by decide, _, rfl, by decide⟩

/-- S5 (repaired): `is_dir` resolves its argument with `abs` like every other method -/
theorem C02_S5_repaired_is_dir_uses_abs :
    Wf treeLinkDir ∧ D2 envNone treeLinkDir (.isDir ['x', '/', '.', '.', '/', 'd']) ∧
    Stdfs.step envNone treeLinkDir (.isDir ['x', '/', '.', '.', '/', 'd']) = (.ok (.bool true), treeLinkDir) ∧
    specStep envNone treeLinkDir (.isDir ['x', '/', '.', '.', '/', 'd']) = some (.ok (.bool true), treeLinkDir) :=
  ⟨by decide, by decide, by decide, rfl⟩

/-- S6: `is_exec` goes through `fs::metadata`, which follows links: a link (mode 777) to a file with
    mode 644 is not executable on Stdfs; the reference (and Memfs) look at the link's own mode -/
theorem C02_S6_is_exec_follows_link :
    Wf treeLinkFile ∧ D2base envNone treeLinkFile (.isExec ['/', 'l']) ∧
    Stdfs.step envNone treeLinkFile (.isExec ['/', 'l']) = (.ok (.bool false), treeLinkFile) ∧
    specStep envNone treeLinkFile (.isExec ['/', 'l']) = some (.ok (.bool true), treeLinkFile) :=
  ⟨by decide, by decide, by decide, rfl⟩

/-- S7 (repaired): `dirs` / `all_dirs` no longer list a link to a directory, `files` / `all_files` no longer
    a link to a file (the collecting loop skips links), as the reference; `paths` still lists the link.
    The calls are now inside the domain `D2` of the per-step theorem. -/
theorem C02_S7_repaired_dirs_skips_links :
    Wf treeLinkDir ∧ D2 envNone treeLinkDir (.dirs ['/']) ∧
    Stdfs.step envNone treeLinkDir (.dirs ['/']) = (.ok (.paths [[['d']]]), treeLinkDir) ∧
    specStep envNone treeLinkDir (.dirs ['/']) = some (.ok (.paths [[['d']]]), treeLinkDir) ∧
    Stdfs.step envNone treeLinkDir (.allDirs ['/']) = (.ok (.paths [[['d']]]), treeLinkDir) ∧
    specStep envNone treeLinkDir (.allDirs ['/']) = some (.ok (.paths [[['d']]]), treeLinkDir) ∧
    Stdfs.step envNone treeLinkDir (.paths ['/']) = (.ok (.paths [[['d']], [['l']]]), treeLinkDir) ∧
    Wf treeLinkFile ∧ D2 envNone treeLinkFile (.files ['/']) ∧
    Stdfs.step envNone treeLinkFile (.files ['/']) = (.ok (.paths [[['f']]]), treeLinkFile) ∧
    specStep envNone treeLinkFile (.files ['/']) = some (.ok (.paths [[['f']]]), treeLinkFile) ∧
    Stdfs.step envNone treeLinkFile (.allFiles ['/']) = (.ok (.paths [[['f']]]), treeLinkFile) ∧
    specStep envNone treeLinkFile (.allFiles ['/']) = some (.ok (.paths [[['f']]]), treeLinkFile) :=
  ⟨by decide, by decide, by decide, rfl, by decide, rfl, by decide, by decide, by decide, by decide, rfl,
    by decide, rfl⟩

/-- S8: `move_p` of a relative link: `rename(2)` keeps the TEXT `f`, so `/a/l → /a/f` moved to `/l`
    points to `/f`; the reference (and Memfs) keep the absolute target -/
theorem C02_S8_move_relative_link :
    Wf treeRelLink ∧ D2base envNone treeRelLink (.moveP ['/', 'a', '/', 'l'] ['/']) ∧
    (Stdfs.step envNone treeRelLink (.moveP ['/', 'a', '/', 'l'] ['/'])).1 = .ok .unit ∧
    (get (Stdfs.step envNone treeRelLink (.moveP ['/', 'a', '/', 'l'] ['/'])).2 [['l']]).bind (·.target) = some [['f']] ∧
    (∃ t', specStep envNone treeRelLink (.moveP ['/', 'a', '/', 'l'] ['/']) = some (.ok .unit, t') ∧
      (get t' [['l']]).bind (·.target) = some [['a'], ['f']]) :=
  ⟨by decide, by decide, by decide, by decide, _, rfl, by decide⟩

/-- S9: `set_cwd` through a link returns the link path but the kernel's cwd is the TARGET
    (the reference leaves this unspecified; Memfs keeps the link path) -/
theorem C02_S9_set_cwd_through_link :
    Stdfs.step envNone treeLinkDir (.setCwd ['/', 'l']) = (.ok (.path [['l']]), { treeLinkDir with cwd := [['d']] }) ∧
    (∃ t', specStep envNone treeLinkDir (.setCwd ['/', 'l']) = some (.unspecified, t')) :=
  ⟨by decide, _, rfl⟩

/-- S10: removing the process cwd succeeds, and afterwards every RELATIVE path fails to resolve on
    Stdfs (`std::env::current_dir()` is `ENOENT`); the reference (and Memfs) keep resolving against the
    remembered string -/
theorem C02_S10_removed_cwd :
    Wf treeCwd ∧ D2 envNone treeCwd (.remove ['/', 'd']) ∧
    Stdfs.step envNone treeCwd (.remove ['/', 'd']) = (.ok .unit, del treeCwd [['d']]) ∧
    specStep envNone treeCwd (.remove ['/', 'd']) = some (.ok .unit, del treeCwd [['d']]) ∧
    Stdfs.step envNone (del treeCwd [['d']]) (.abs ['x']) = (.err .ioNotFound, del treeCwd [['d']]) ∧
    specStep envNone (del treeCwd [['d']]) (.abs ['x']) = some (.ok (.path [['d'], ['x']]), del treeCwd [['d']]) :=
  ⟨by decide, by decide, by decide, rfl, by decide, rfl⟩

/-- S11 (shared with Memfs, class `chmod_zero`): `chmod(p, 0)` changes nothing (`sys::mode` reads an
    octal 0 as "not given"); the reference clears the permission bits -/
theorem C02_S11_chmod_zero :
    Stdfs.step envNone treeLinkFile (.chmod ['/', 'f'] 0) = (.ok .unit, treeLinkFile) ∧
    (∃ t', specStep envNone treeLinkFile (.chmod ['/', 'f'] 0) = some (.ok .unit, t') ∧
      (get t' [['f']]).map (·.perm) = some 0) :=
  ⟨by decide, _, rfl, by decide⟩

/-- S12 (shared with Memfs, class `empty_lines_noop`): `write_lines(p, [])` does not touch the file;
    the reference truncates it -/
theorem C02_S12_write_lines_empty :
    Stdfs.step envNone okTreeData (.writeLines ['/', 'f'] []) = (.ok .unit, okTreeData) ∧
    (∃ t', specStep envNone okTreeData (.writeLines ['/', 'f'] []) = some (.ok .unit, t') ∧
      (get t' [['f']]).map (·.data) = some []) :=
  ⟨by decide, _, rfl, by decide⟩

/-- S13: `move_p` of a file onto an existing symlink: `rename(2)` replaces the link; the reference
    (and Memfs: ExistsAlready) refuse -/
theorem C02_S13_move_onto_link :
    Wf treeLinkFile ∧ D2base envNone treeLinkFile (.moveP ['/', 'f'] ['/', 'l']) ∧
    (Stdfs.step envNone treeLinkFile (.moveP ['/', 'f'] ['/', 'l'])).1 = .ok .unit ∧
    (get (Stdfs.step envNone treeLinkFile (.moveP ['/', 'f'] ['/', 'l'])).2 [['l']]).map (·.kind) = some .file ∧
    specStep envNone treeLinkFile (.moveP ['/', 'f'] ['/', 'l']) = some (.err none, treeLinkFile) :=
  ⟨by decide, by decide, by decide, by decide, rfl⟩

/-- S14: `move_p` of the directory the process is in: the kernel's cwd follows the directory
    (`current_dir()` is `/e` afterwards); the reference (and Memfs) keep the remembered `/d` -/
theorem C02_S14_move_cwd :
    Wf treeCwd ∧ D2base envNone treeCwd (.moveP ['/', 'd'] ['/', 'e']) ∧
    (Stdfs.step envNone treeCwd (.moveP ['/', 'd'] ['/', 'e'])).1 = .ok .unit ∧
    (Stdfs.step envNone treeCwd (.moveP ['/', 'd'] ['/', 'e'])).2.cwd = [['e']] ∧
    (∃ t', specStep envNone treeCwd (.moveP ['/', 'd'] ['/', 'e']) = some (.ok .unit, t') ∧ t'.cwd = [['d']]) :=
  ⟨by decide, by decide, by decide, by decide, _, rfl, rfl⟩

/-- S15 (repaired, fcf2bdc): `all_paths` (also `all_dirs`, `all_files`) of a link to a directory is
    IsNotDir, like the reference (it used to be an empty listing) -/
theorem C02_S15_repaired_all_paths_of_link_to_dir :
    Wf treeLinkDir ∧ D2 envNone treeLinkDir (.allPaths ['/', 'l']) ∧
    Stdfs.step envNone treeLinkDir (.allPaths ['/', 'l']) = (.err .isNotDir, treeLinkDir) ∧
    specStep envNone treeLinkDir (.allPaths ['/', 'l']) = some (.err (some .isNotDir), treeLinkDir) :=
  ⟨by decide, by decide, by decide, rfl⟩

/-- S16: `chown` goes through `chown(2)`, which follows links: the owner of the TARGET changes; the
    reference (and Memfs) change the owner of the link itself -/
theorem C02_S16_chown_follows_link :
    Wf treeLinkFile ∧ D2base envNone treeLinkFile (.chown ['/', 'l'] 5 6) ∧
    (Stdfs.step envNone treeLinkFile (.chown ['/', 'l'] 5 6)).1 = .ok .unit ∧
    (get (Stdfs.step envNone treeLinkFile (.chown ['/', 'l'] 5 6)).2 [['f']]).map (·.uid) = some 5 ∧
    (get (Stdfs.step envNone treeLinkFile (.chown ['/', 'l'] 5 6)).2 [['l']]).map (·.uid) = some 1000 ∧
    (∃ t', specStep envNone treeLinkFile (.chown ['/', 'l'] 5 6) = some (.ok .unit, t') ∧
      (get t' [['l']]).map (·.uid) = some 5 ∧ (get t' [['f']]).map (·.uid) = some 1000) :=
  ⟨by decide, by decide, by decide, by decide, by decide, _, rfl, by decide, by decide⟩

/-! ### the full statement is false -/

/-- the per-step refinement without the operation-specific exclusions, for every operation -/
def C02_stdfs_refines_reference_full : Prop :=
  ∀ (env : Env) (t : T) (op : Op) (r : R Val) (t' : T), Wf t → D2base env t op →
    specStep env t op = some (r, t') →
    ResMatchOkErr (Stdfs.step env t op).1 r ∧ (r ≠ .unspecified → TEquiv (Stdfs.step env t op).2 t')

theorem C02_stdfs_refines_reference_full_false : ¬ C02_stdfs_refines_reference_full := by
  intro h
  obtain ⟨hW, hD, hS, hR⟩ := C02_S6_is_exec_follows_link
  have := (h envNone treeLinkFile (.isExec ['/', 'l']) _ _ hW hD hR).1
  rw [hS] at this
  exact absurd this (by simp [ResMatchOkErr])

/-! ### the theorem -/

/-- C02 (partial: domain `D2`, operations `CoveredS`): one step of the Stdfs model returns what the
    reference returns (ok/err together, equal values on ok) and leaves an equivalent tree -/
theorem C02_stdfs_refines_reference_partial (env : Env) (t : T) (op : Op) (r : R Val) (t' : T)
    (hW : Wf t) (hD : D2 env t op) (hC : CoveredS op = true) (h : specStep env t op = some (r, t')) :
    ResMatchOkErr (Stdfs.step env t op).1 r ∧ (r ≠ .unspecified → TEquiv (Stdfs.step env t op).2 t') :=
  refines_step env t op r t' hW hD hC h

/-- the argument conditions under which the reference pins a covered operation down -/
def specArgsB : Op → Bool
  | .mkdirM _ m => permOk m && decide (m ≠ 0)
  | .chmod _ m => permOk m
  | .chmodB _ c => !c.follow && decide (c.sym = []) && permOk c.dirs && permOk c.files
  | .chownB _ c => !c.follow
  | _ => true

/-- every covered operation with such arguments is covered by the reference -/
theorem C02_covered_specified (env : Env) (t : T) (op : Op) (hC : CoveredS op = true)
    (hA : specArgsB op = true) : (specStep env t op).isSome = true := by
  cases op <;> first | rfl | cases hC | skip
  · rename_i p m
    simp only [specArgsB, Bool.and_eq_true, decide_eq_true_eq] at hA
    simp only [specStep]; rw [if_pos hA]; rfl
  · rename_i p m
    simp only [specArgsB] at hA
    simp only [specStep]; rw [if_pos hA]; rfl
  · rename_i p c
    simp only [specArgsB, Bool.and_eq_true, Bool.not_eq_true', decide_eq_true_eq] at hA
    simp only [specStep, hA.1.1.1, Bool.false_eq_true, if_false, hA.1.1.2, if_true]
    rw [if_pos ⟨hA.1.2, hA.2⟩]; rfl
  · rename_i p c
    simp only [specArgsB, Bool.not_eq_true'] at hA
    simp only [specStep, hA]
    rfl

/-- C02, composition: if the Memfs step refines the reference from the state `s` (C01, taken as a
    hypothesis in its own shape) then, started from the same tree (`absS s`), both backends return
    ok/err together, equal values on ok, and leave equivalent trees — whenever the reference pins the
    result down -/
theorem C02_backends_agree_partial (env : Env) (s : State) (op : Op) (r : R Val) (t' : T)
    (hMem : ∀ (r : R Val) (t' : T), specStep env (absS s) op = some (r, t') →
      ResMatch (Memfs.step env s op).1 r ∧ (r ≠ .unspecified → TEquiv (absS (Memfs.step env s op).2) t'))
    (hW : Wf (absS s)) (hD : D2 env (absS s) op) (hC : CoveredS op = true)
    (h : specStep env (absS s) op = some (r, t')) (hr : r ≠ .unspecified) :
    OutcomeAgree (Memfs.step env s op).1 (Stdfs.step env (absS s) op).1 ∧
      TEquiv (absS (Memfs.step env s op).2) (Stdfs.step env (absS s) op).2 :=
  backends_agree env s op r t' (hMem r t' h) (refines_step env (absS s) op r t' hW hD hC h) hr

/-- C02 for the group-A operations of C01 (queries and simple creators), with the Memfs side DISCHARGED
    by `C01_refines_step_groupA`: under the decidable state invariants of C01 (`Inv`, `KeysWf`,
    `EntriesOk`, class "-") and of C02 (`Wf`, `D2` of the abstracted tree), `Memfs.step` on `s` and
    `Stdfs.step` on the tree `absS s` return ok/err together, equal values on ok, and leave equivalent
    trees — whenever the reference pins the result down -/
theorem C02_backends_agree_groupA (env : Env) (s : State) (op : Op) (r : R Val) (t' : T)
    (hA : Rivia.Lemmas.RefineA.GroupA op = true)
    (hI : Spec.Inv s) (hK : Rivia.Lemmas.RefineA.KeysWf s) (hOk : Rivia.Lemmas.RefineA.EntriesOk s)
    (hCl : classOf s env op = "-")
    (hW : Wf (absS s)) (hD : D2 env (absS s) op)
    (h : specStep env (absS s) op = some (r, t')) (hr : r ≠ .unspecified) :
    OutcomeAgree (Memfs.step env s op).1 (Stdfs.step env (absS s) op).1 ∧
      TEquiv (absS (Memfs.step env s op).2) (Stdfs.step env (absS s) op).2 :=
  C02_backends_agree_partial env s op r t'
    (fun r t' h => C01_refines_step_groupA env s op hA hI hK hOk hCl r t' h)
    hW hD (groupA_covered op hA) h hr

/-! ### non-vacuity -/

/-- `/d/f` a file with content, `/l → /d/f`, `/k → /d`; cwd `/d` -/
def okTree : T :=
  { nodes := [([], dirN), ([['d']], dirN), ([['d'], ['f']], { fileN with data := [104, 105] }),
              ([['l']], lnk false [['d'], ['f']]), ([['k']], lnk true [['d']])],
    cwd := [['d']] }

example : Wf okTree ∧ D2 envNone okTree (.appendAll ['f'] [33]) ∧ CoveredS (.appendAll ['f'] [33]) = true ∧
    D2 envNone okTree (.isSymlinkDir ['.', '.', '/', 'k']) ∧ D2 envNone okTree (.remove ['/', 'l']) ∧
    D2 envNone okTree (.isDir ['/', 'd']) ∧ D2 envNone okTree (.moveP ['f'] ['/', 'g']) ∧
    D2 envNone okTree (.mkdirP ['x', '/', 'y']) ∧ D2 envNone okTree (.mkdirM ['/', 'z'] 0o700) ∧
    D2 envNone okTree (.allPaths ['/']) ∧ D2 envNone okTree (.files ['.']) ∧ D2 envNone okTree (.allDirs ['/', 'd']) ∧
    D2 envNone okTree (.chmod ['/'] 0o700) ∧ D2 envNone okTree (.chown ['/', 'd'] 7 8) :=
  ⟨by decide, by decide, rfl, by decide, by decide, by decide, by decide, by decide, by decide,
   by decide, by decide, by decide, by decide, by decide⟩

-- OPEN (not proved): symbolic `chmod_b` (`c.sym ≠ []`; `Stdfs.chmod` runs `Chmod.mode`, the state machine
--   of `sys::mode`, per entry) against `TreeFs.chmodSym`; known deviations of the state machine are the
--   subject of C17/C18.  (`mkfileM`, `copy`, `copyB`, `entry`, `entries`, handles: the reference does
--   not cover them.)
-- OPEN (not proved): syntactic sufficient conditions for the computational clauses of `D2`:
--   `linkTextOkB env t`, `keysRT env t` and the idempotence clause of `chownOkB`/`chmodOkB` hold when
--   every key of `t` (and the resolved argument) consists of well-formed names without `~`/`$`.

end Rivia.Props
