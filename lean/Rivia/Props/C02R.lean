/-
  C02R — "Stdfs and Memfs are interchangeable" on REACHABLE Memfs states, all 43 refined operations.

  Props/C02 compares both backends through the reference tree filesystem: `C02_stdfs_refines_reference_partial`
  (Stdfs model vs reference, on `Wf t`, `D2 env t op`, `CoveredS op`) and the composition
  `C02_backends_agree_partial`, whose Memfs side was discharged for the 25 group-A operations only
  (`C02_backends_agree_groupA`, with `Inv`, `KeysWf`, `EntriesOk`, `Wf (absS s)` as hypotheses).

  Here the Memfs side is discharged by `C01R_refines_step'` (Props/C01C: groups A, B, C = everything the
  reference answers) from the invariant of reachable states `RInv s`, `Wf (absS s)` is PROVED from `Inv s`
  (`C02R_wf_absS`), `CoveredS` follows from `Refined'` (`C02R_refined_covered`), and — with Props/C12R —
  the state hypothesis becomes "reached by ANY history that does not follow links" (every call of such a
  history returns).  What is left are the per-call conditions: the finding classes of C01 (`classOf … = "-"`),
  the depth bound `DepthDom'` (or the size bound), and the Stdfs domain `D2 env (absS s) op` of C02.

  (Imports: Props/C02 (Stdfs lemma family), Props/C01C (C01R family) and Props/C12R are compatible — checked.)
-/
import Rivia.Props.C02
import Rivia.Props.C12R
import Rivia.Lemmas.ReturnsWf

namespace Rivia.Props
open Rivia Rivia.Memfs Rivia.File Rivia.Spec Rivia.Spec.TreeFs Rivia.Stdfs Rivia.Lemmas.StdfsL
open Rivia.Lemmas.RefineA (ResMatch)

/-- the abstraction of a well-formed Memfs state is a well-formed tree: distinct keys, `/` a directory,
    the parent of every other key a directory -/
theorem C02R_wf_absS (s : State) (h : Spec.Inv s) : Wf (absS s) := Rivia.Lemmas.RetWf.wf_absS_of_inv h

/-- hence of every state with the invariant of reachable states -/
theorem C02R_wf_absS_of_rinv (s : State) (h : RInv s) : Wf (absS s) := C02R_wf_absS s h.1.1

/-- the 43 operations refined on the Memfs side are the 43 covered on the Stdfs side -/
theorem C02R_refined_covered (op : Op) (h : Refined' op) : CoveredS op = true := by
  cases op <;> first
    | rfl
    | (rcases h with (h | h) | h <;> first | exact Bool.noConfusion h | exact False.elim h)

theorem C02R_covered_refined_iff (op : Op) : CoveredS op = true ↔
    (Refined' op ∨ ∃ p c, op = .chmodB p c ∧ c.sym ≠ [] ∧ ¬ (c.dirs = 0 ∧ c.files = 0 ∧ c.follow = false)) := by
  constructor
  · intro h
    by_cases hR : Refined' op
    · exact Or.inl hR
    · refine Or.inr ?_
      cases op <;> first
        | exact Bool.noConfusion h
        | exact absurd (Or.inl (Or.inl rfl)) hR
        | exact absurd (Or.inl (Or.inr trivial)) hR
        | exact absurd (Or.inr trivial) hR
        | skip
      rename_i p c
      refine ⟨p, c, rfl, ?_, ?_⟩
      · intro hs; exact hR (Or.inl (Or.inr hs))
      · intro hz
        by_cases hs : c.sym = []
        · exact hR (Or.inl (Or.inr hs))
        · exact hR (Or.inr ⟨hs, hz⟩)
  · rintro (h | ⟨p, c, rfl, _⟩)
    · exact C02R_refined_covered op h
    · rfl

/-- **C02 from an `RInv` state** (one step): for each of the 43 refined operations, outside the
    known-finding classes of C01 and inside the Stdfs domain `D2`, `Memfs.step` on `s` and `Stdfs.step`
    on the tree `absS s` return ok/err together, equal values on ok, and leave equivalent trees —
    whenever the reference pins the result down.  No `Inv` / `KeysWf` / `EntriesOk` / `Wf` hypothesis. -/
theorem C02_backends_agree_rinv (env : Env) (s : State) (op : Op) (r : R Val) (t' : T)
    (h : RInv s) (hR : Refined' op) (hCl : classOf s env op = "-") (hd : DepthDom' s op)
    (hD : D2 env (absS s) op)
    (hs : specStep env (absS s) op = some (r, t')) (hr : r ≠ .unspecified) :
    OutcomeAgree (Memfs.step env s op).1 (Stdfs.step env (absS s) op).1 ∧
      Lemmas.RefineA.TEquiv (absS (Memfs.step env s op).2) (Stdfs.step env (absS s) op).2 :=
  C02_backends_agree_partial env s op r t'
    (fun r t' h' =>
      have x := C01R_refines_step' env s op h hR hCl hd r t' h'
      ⟨(resMatch_A_iff_B _ _).2 x.1, x.2⟩)
    (C02R_wf_absS_of_rinv s h) hD (C02R_refined_covered op hR) hs hr

/-- … from every `Reached` state (Props/C06R) -/
theorem C02_backends_agree_reached (env : Env) (s : State) (op : Op) (r : R Val) (t' : T)
    (h : Reached s) (hR : Refined' op) (hCl : classOf s env op = "-") (hd : DepthDom' s op)
    (hD : D2 env (absS s) op)
    (hs : specStep env (absS s) op = some (r, t')) (hr : r ≠ .unspecified) :
    OutcomeAgree (Memfs.step env s op).1 (Stdfs.step env (absS s) op).1 ∧
      Lemmas.RefineA.TEquiv (absS (Memfs.step env s op).2) (Stdfs.step env (absS s) op).2 :=
  C02_backends_agree_rinv env s op r t' (C06R_reached_rinv h) hR hCl hd hD hs hr

/-- **C02 on reachable states**: after ANY history `pre` (fresh filesystem, environment `env₀`, arbitrary
    arguments, calls succeeding or failing) that does not follow links, the two backends agree on the next
    call.  No hypothesis on the history but the alphabet (every call returns: `C12R_history_returns`). -/
theorem C02_backends_agree_reachable (env₀ env : Env) (pre : List Op) (op : Op) (r : R Val) (t' : T)
    (hn : ∀ o ∈ pre, NoFollowOp o) (hR : Refined' op)
    (hCl : classOf (run env₀ Memfs.init pre) env op = "-") (hd : DepthDom' (run env₀ Memfs.init pre) op)
    (hD : D2 env (absS (run env₀ Memfs.init pre)) op)
    (hs : specStep env (absS (run env₀ Memfs.init pre)) op = some (r, t')) (hr : r ≠ .unspecified) :
    OutcomeAgree (Memfs.step env (run env₀ Memfs.init pre) op).1
        (Stdfs.step env (absS (run env₀ Memfs.init pre)) op).1 ∧
      Lemmas.RefineA.TEquiv (absS (Memfs.step env (run env₀ Memfs.init pre) op).2)
        (Stdfs.step env (absS (run env₀ Memfs.init pre)) op).2 :=
  C02_backends_agree_rinv env _ op r t' (C12R_history_rinv env₀ pre hn) hR hCl hd hD hs hr

/-- with the physical size bound (fewer than `usize::MAX` entries) in place of `DepthDom'` -/
theorem C02_backends_agree_reachable_small (env₀ env : Env) (pre : List Op) (op : Op) (r : R Val) (t' : T)
    (hn : ∀ o ∈ pre, NoFollowOp o) (hR : Refined' op)
    (hCl : classOf (run env₀ Memfs.init pre) env op = "-")
    (hsmall : (run env₀ Memfs.init pre).entries.length < 2 ^ 64 - 1)
    (hD : D2 env (absS (run env₀ Memfs.init pre)) op)
    (hs : specStep env (absS (run env₀ Memfs.init pre)) op = some (r, t')) (hr : r ≠ .unspecified) :
    OutcomeAgree (Memfs.step env (run env₀ Memfs.init pre) op).1
        (Stdfs.step env (absS (run env₀ Memfs.init pre)) op).1 ∧
      Lemmas.RefineA.TEquiv (absS (Memfs.step env (run env₀ Memfs.init pre) op).2)
        (Stdfs.step env (absS (run env₀ Memfs.init pre)) op).2 :=
  have hrinv := C12R_history_rinv env₀ pre hn
  C02_backends_agree_rinv env _ op r t' hrinv hR hCl (C01C_depthDom_of_small _ op hrinv hsmall) hD hs hr

/-- the Stdfs half alone on reachable states: the tree a Memfs history leaves is a legal start tree for
    `C02_stdfs_refines_reference_partial` (its `Wf` hypothesis is discharged) -/
theorem C02_stdfs_refines_reference_reachable (env₀ env : Env) (pre : List Op) (op : Op) (r : R Val) (t' : T)
    (hn : ∀ o ∈ pre, NoFollowOp o) (hD : D2 env (absS (run env₀ Memfs.init pre)) op)
    (hC : CoveredS op = true) (hs : specStep env (absS (run env₀ Memfs.init pre)) op = some (r, t')) :
    ResMatchOkErr (Stdfs.step env (absS (run env₀ Memfs.init pre)) op).1 r ∧
      (r ≠ .unspecified → Lemmas.RefineA.TEquiv (Stdfs.step env (absS (run env₀ Memfs.init pre)) op).2 t') :=
  C02_stdfs_refines_reference_partial env _ op r t'
    (C02R_wf_absS_of_rinv _ (C12R_history_rinv env₀ pre hn)) hD hC hs

/-! ### non-vacuity -/

open C01RWitness C01CWitness

set_option maxRecDepth 100000 in
/-- every hypothesis of `C02_backends_agree_reachable` holds after `hist3` of Props/C01C (15 calls; the
    tree has a link `/l → /a/f`) for a group-C call (`all_paths "/"`, the link among the results), a
    group-B call (`move_p` of the directory `/a/b`), the recursive `chmod`, and `all_files "/"` / `files "/"`
    (the link to a file lies below: formerly outside `classOf = "-"` and outside `D2`, finding S7) -/
theorem C02R_hist3_hyps : (∀ o ∈ hist3, NoFollowOp o) ∧
    (∀ op ∈ [Op.allPaths (S "/"), Op.moveP (S "/a/b") (S "/c"), Op.chmod (S "/a") 0o700,
        Op.allFiles (S "/"), Op.files (S "/")],
      Refined' op ∧ classOf (run env0 Memfs.init hist3) env0 op = "-" ∧
      DepthDom' (run env0 Memfs.init hist3) op ∧ D2 env0 (absS (run env0 Memfs.init hist3)) op) := by
  decide +kernel

set_option maxRecDepth 100000 in
/-- … and the reference pins the results down -/
theorem C02R_hist3_spec :
    isOkPaths [[S "a"], [S "a", S "b"], [S "a", S "b", S "g"], [S "a", S "f"], [S "l"]]
      (specStep env0 (absS (run env0 Memfs.init hist3)) (.allPaths (S "/"))) = true ∧
    isOkUnit (specStep env0 (absS (run env0 Memfs.init hist3)) (.moveP (S "/a/b") (S "/c"))) = true := by
  decide +kernel

/-- the conclusion, instantiated: both backends list the same five paths -/
example : OutcomeAgree (Memfs.step env0 (run env0 Memfs.init hist3) (.allPaths (S "/"))).1
      (Stdfs.step env0 (absS (run env0 Memfs.init hist3)) (.allPaths (S "/"))).1 ∧
    Lemmas.RefineA.TEquiv (absS (Memfs.step env0 (run env0 Memfs.init hist3) (.allPaths (S "/"))).2)
      (Stdfs.step env0 (absS (run env0 Memfs.init hist3)) (.allPaths (S "/"))).2 := by
  obtain ⟨t', hs⟩ := isOkPaths_elim C02R_hist3_spec.1
  obtain ⟨hR, hc, hd, hD⟩ := C02R_hist3_hyps.2 _ List.mem_cons_self
  exact C02_backends_agree_reachable env0 env0 hist3 _ _ t' C02R_hist3_hyps.1 hR hc hd hD hs
    (fun h => by cases h)

set_option maxRecDepth 100000 in
/-- `all_files "/"` after `hist3`: the reference lists the two regular files, not the link `/l → /a/f` … -/
theorem C02R_hist3_spec_allFiles :
    isOkPaths [[S "a", S "b", S "g"], [S "a", S "f"]]
      (specStep env0 (absS (run env0 Memfs.init hist3)) (.allFiles (S "/"))) = true := by
  decide +kernel

/-- … and so do both backends (S7 / `listing_includes_links` repaired: no hypothesis about links) -/
example : OutcomeAgree (Memfs.step env0 (run env0 Memfs.init hist3) (.allFiles (S "/"))).1
      (Stdfs.step env0 (absS (run env0 Memfs.init hist3)) (.allFiles (S "/"))).1 ∧
    Lemmas.RefineA.TEquiv (absS (Memfs.step env0 (run env0 Memfs.init hist3) (.allFiles (S "/"))).2)
      (Stdfs.step env0 (absS (run env0 Memfs.init hist3)) (.allFiles (S "/"))).2 := by
  obtain ⟨t', hs⟩ := isOkPaths_elim C02R_hist3_spec_allFiles
  obtain ⟨hR, hc, hd, hD⟩ := C02R_hist3_hyps.2 (.allFiles (S "/")) (by simp)
  exact C02_backends_agree_reachable env0 env0 hist3 _ _ t' C02R_hist3_hyps.1 hR hc hd hD hs
    (fun h => by cases h)

-- OPEN (not proved):
--   * a TRACE-level statement for the two backends run side by side (Memfs from `Memfs.init`, the Stdfs
--     model from `absS Memfs.init`, comparing after every call without re-abstracting): it needs (a) the
--     Stdfs model to respect `TEquiv` (same result, `TEquiv` post-trees, on `TEquiv` start trees) and
--     (b) preservation of `Wf` by `Stdfs.step`; neither is available in Lemmas/Stdfs*.lean.  The step
--     theorems above start the Stdfs model on `absS s` at every position.
--   * `D2 env (absS s) op` stays a per-call hypothesis: its state part (every link has an existing
--     non-link target with an accurate `toDir` flag; link texts resolve back to their target key; the cwd
--     is an existing directory) is NOT an invariant of reachable Memfs states (dangling links, links to
--     links, a removed cwd are reachable — findings S9, S10 and the link classes of C02), and its
--     operation part lists the Stdfs findings S6, S8, S11–S14, S16 (S7 is repaired).
--   * symbolic `chmod_b` is `Refined'` (Memfs side, Props/C01C) but outside the Stdfs proof: `D2` is false
--     for it (OPEN item of Props/C02), so the theorems above say nothing about it.

end Rivia.Props
