/-
  C10 — symlinks record their target faithfully and are never mistaken for the target.
  Property theorems ONLY (helper lemmas live in Rivia/Lemmas/Symlink.lean).

  Conventions: a user path `p` is related to the key it denotes by `absM env p s = (.ok k, s)`
  (`Memfs::_abs`; it reads only `s.cwd` and never changes the state).  `tstr` is the string the
  code resolves for the target: the target itself when absolute, else `dir(link).mash(target)`.
-/
import Rivia.Model.MemfsOps
import Rivia.Spec.MemfsJudge
import Rivia.Lemmas.Symlink
import Rivia.Lemmas.MoveLinkRel
import Rivia.Props.C16

namespace Rivia.Props
open Rivia Rivia.Memfs Rivia.Spec Rivia.Lemmas
open Rivia.Lemmas.MoveLinkRel (LinkRelAt LinkRelOk)

/-- every name in every key and in `s.cwd` is non-empty, has no `/`, is not `.` or `..`
    (`Lemmas.Wf` is the lemma-level copy of `WfName`) -/
def KeysWf (s : State) : Prop :=
  (∀ kv ∈ s.entries, ∀ n ∈ kv.1, WfName n) ∧ (∀ n ∈ s.cwd, WfName n)

/-- the string `_symlink` resolves for the target -/
def targetStr (lk : FsPath) (t : Str) : Str :=
  if isAbsolute t then t else mash (renderP lk.dropLast) t

/-! ### 7. `Entry::follow` -/

/-- `follow(true)` swaps path and alt exactly once: a second call is a no-op; `follow(false)` and
    `follow` on a non-link do nothing; on a not-yet-followed link path and alt are exchanged -/
theorem C10_follow_swaps_once (e : Entry) :
    (e.doFollow true).doFollow true = e.doFollow true ∧
    e.doFollow false = e ∧
    (e.link = true → e.follow = false →
      (e.doFollow true).path = e.alt.getD [] ∧ (e.doFollow true).alt = some e.path ∧
      (e.doFollow true).follow = true) ∧
    (e.link = false → ∀ b, e.doFollow b = e) := by
  refine ⟨?_, doFollow_false e, ?_, ?_⟩
  · unfold Entry.doFollow
    by_cases h : e.link = true ∧ (!e.follow) = true
    · simp [h]
    · simp only [true_and, if_neg h]
  · intro hl hf; simp [Entry.doFollow, hl, hf]
  · intro hl b; simp [Entry.doFollow, hl]

/-! ### 6. readlink on something that is not a link -/

theorem C10_non_link_errors (env : Env) (s : State) (p : Str) (k : FsPath)
    (ha : absM env p s = (.ok k, s)) :
    (∀ e, alLookup k s.entries = some e → e.link = false →
      step env s (.readlink p) = (.err .isNotSymlink, s) ∧
      step env s (.readlinkAbs p) = (.err .isNotSymlink, s)) ∧
    (alLookup k s.entries = none →
      step env s (.readlink p) = (.err .doesNotExist, s) ∧
      step env s (.readlinkAbs p) = (.err .doesNotExist, s)) := by
  constructor
  · intro e he hl; simp [step, ha, he, hl]
  · intro he; simp [step, ha, he]

/-! ### 3. link exclusion -/

/-- whatever the state: a key holding a link entry answers `is_symlink = true`,
    `is_file = is_dir = false`, and `is_symlink_dir` / `is_symlink_file` report the stored kind -/
theorem C10_link_exclusion (env : Env) (s : State) (p : Str) (k : FsPath) (e : Entry)
    (ha : absM env p s = (.ok k, s)) (he : alLookup k s.entries = some e) (hl : e.link = true) :
    step env s (.isSymlink p) = (.ok (.bool true), s) ∧
    step env s (.isFile p) = (.ok (.bool false), s) ∧
    step env s (.isDir p) = (.ok (.bool false), s) ∧
    step env s (.isSymlinkDir p) = (.ok (.bool e.dir), s) ∧
    step env s (.isSymlinkFile p) = (.ok (.bool e.file), s) := by
  simp [step, boolQuery, ha, he, hl]

/-! ### 8. symlink over an existing path -/

/-- (behaviour after the fix) the link location must be free: otherwise `ExistsAlready` and
    nothing changes — whatever is there (file, directory or link) is not replaced -/
theorem C10_symlink_over_existing_fails (env : Env) (s : State) (l t : Str) (lk : FsPath) (x : Entry)
    (ha : absM env l s = (.ok lk, s)) (he : alLookup lk s.entries = some x) :
    step env s (.symlink l t) = (.err .existsAlready, s) := by
  simp [step, symlinkM, ha, he]

/-! ### 1. the target is recorded -/

/-- what a successful `symlink` does to the state (exact): the parent directory `d` of the link
    gains the name, and the entry `linkEntry s lk tk` is stored under the link key -/
theorem C10_symlink_post_state (env : Env) (s s' : State) (l t : Str) (lk tk r : FsPath)
    (ha : absM env l s = (.ok lk, s)) (ht : absM env (targetStr lk t) s = (.ok tk, s))
    (h : step env s (.symlink l t) = (.ok (.path r), s')) :
    r = lk ∧ lk ≠ [] ∧ alLookup lk s.entries = none ∧
    ∃ d d', alLookup lk.dropLast s.entries = some d ∧ d.dir = true ∧ d.link = false ∧
      d.addChild (baseName lk) = .ok (true, d') ∧
      s' = { s with entries := alInsert lk.dropLast d' (alInsert lk (linkEntry s lk tk) s.entries) } := by
  have h' : symlinkM env l t s = (.ok r, s') := by
    simp only [step, mapVal_apply] at h
    split at h <;> simp_all
  rw [symlinkM_eq_symlinkAbs env s l t lk tk ha ht] at h'
  exact symlinkAbs_ok s s' lk tk r h'

/-- when it succeeds (state satisfying the invariant): exactly when the link location is free and
    its parent is a real directory — for EVERY target spelling that resolves, existing or not -/
theorem C10_symlink_succeeds (env : Env) (s : State) (l t : Str) (lk tk : FsPath) (d : Entry)
    (hinv : Spec.Inv s)
    (ha : absM env l s = (.ok lk, s)) (ht : absM env (targetStr lk t) s = (.ok tk, s))
    (hfree : alLookup lk s.entries = none) (hd : alLookup lk.dropLast s.entries = some d)
    (hdd : d.dir = true) (hdl : d.link = false) :
    ∃ s', step env s (.symlink l t) = (.ok (.path lk), s') := by
  obtain ⟨s', hs'⟩ := symlinkAbs_succeeds hinv tk hfree hd hdd hdl
  refine ⟨s', ?_⟩
  simp only [step, mapVal_apply, symlinkM_eq_symlinkAbs env s l t lk tk ha ht, hs']

/-- after `symlink(link, target)` succeeded, the entry at the link key is a link whose `alt` is
    the key the target resolves to, `readlink_abs(link)` returns exactly that key and `readlink`
    the stored relative string; the target need not exist -/
theorem C10_symlink_records_target (env : Env) (s s' : State) (l t : Str) (lk tk r : FsPath)
    (ha : absM env l s = (.ok lk, s)) (ht : absM env (targetStr lk t) s = (.ok tk, s))
    (h : step env s (.symlink l t) = (.ok (.path r), s')) :
    r = lk ∧
    ∃ e, alLookup lk s'.entries = some e ∧ e = linkEntry s lk tk ∧
      e.link = true ∧ e.alt = some tk ∧ e.path = lk ∧ e.follow = false ∧
      e.rel = relative (renderP tk) (renderP lk.dropLast) ∧
      step env s' (.readlinkAbs l) = (.ok (.path tk), s') ∧
      step env s' (.readlink l) = (.ok (.str e.rel), s') := by
  obtain ⟨hr, hnil, _, d, d', _, _, _, _, hs'⟩ := C10_symlink_post_state env s s' l t lk tk r ha ht h
  have hlook : alLookup lk s'.entries = some (linkEntry s lk tk) := by
    rw [hs']
    simp only
    rw [alLookup_alInsert_ne (Ne.symm (dropLast_ne_self hnil)), alLookup_alInsert_self]
  have ha' : absM env l s' = (.ok lk, s') := absM_congr (by rw [hs']) ha
  refine ⟨hr, linkEntry s lk tk, hlook, rfl, rfl, rfl, rfl, rfl, rfl, ?_, ?_⟩
  · simp [step, ha', hlook, linkEntry]
  · simp [step, ha', hlook, linkEntry]

/-! ### 3 (second half). the kind recorded at creation -/

/-- the new link is a "link to a directory" iff the resolved target key held an entry with
    `dir = true` when the link was made — a target that is itself a link-to-dir counts as a
    directory, a dangling target counts as a file; `file` is the negation. The flags are stored in
    the link entry, so they keep reporting the kind at creation (see `C10_link_exclusion`). -/
theorem C10_link_kind_at_creation (env : Env) (s s' : State) (l t : Str) (lk tk r : FsPath)
    (ha : absM env l s = (.ok lk, s)) (ht : absM env (targetStr lk t) s = (.ok tk, s))
    (h : step env s (.symlink l t) = (.ok (.path r), s')) :
    ∃ e, alLookup lk s'.entries = some e ∧
      (e.dir = true ↔ ∃ x, alLookup tk s.entries = some x ∧ x.dir = true) ∧
      e.file = !e.dir ∧
      step env s' (.isSymlinkDir l) = (.ok (.bool e.dir), s') ∧
      step env s' (.isSymlinkFile l) = (.ok (.bool (!e.dir)), s') := by
  obtain ⟨_, e, hlook, he, hl, _, _, _, _, _, _⟩ := C10_symlink_records_target env s s' l t lk tk r ha ht h
  obtain ⟨_, _, _, d, d', _, _, _, _, hs'⟩ := C10_symlink_post_state env s s' l t lk tk r ha ht h
  have ha' : absM env l s' = (.ok lk, s') := absM_congr (by rw [hs']) ha
  have hfile : e.file = !e.dir := by rw [he]; rfl
  refine ⟨e, hlook, ?_, hfile, ?_, ?_⟩
  · rw [he]
    cases hx : alLookup tk s.entries with
    | none => simp [linkEntry, hx]
    | some x => simp [linkEntry, hx]
  · exact (C10_link_exclusion env s' l lk e ha' hlook hl).2.2.2.1
  · rw [← hfile]; exact (C10_link_exclusion env s' l lk e ha' hlook hl).2.2.2.2

/-! ### 2. readlink is the navigation from the link's directory to the target -/

/-- pure core: for well-formed keys the stored string `relative(target, dir(link))`, joined onto
    the link's directory and cleaned, is the target; it is a relative path unless the target IS
    the link's directory, in which case it is the absolute path of that directory -/
theorem C10_rel_navigates (lk tk : FsPath) (hl : ∀ n ∈ lk, WfName n) (ht : ∀ n ∈ tk, WfName n) :
    goClean (push (renderP lk.dropLast) (relative (renderP tk) (renderP lk.dropLast))) = renderP tk ∧
    (isRooted (relative (renderP tk) (renderP lk.dropLast)) = false ↔ tk ≠ lk.dropLast) ∧
    (tk = lk.dropLast → relative (renderP tk) (renderP lk.dropLast) = renderP tk) := by
  have hd : ∀ n ∈ lk.dropLast, Wf n := wf_dropLast hl
  refine ⟨relative_renderP_navigates ht hd, ?_, ?_⟩
  · rw [relative_renderP_isRooted ht hd]; simp
  · intro h; rw [h]; exact relative_renderP_self _

/-- keys produced by `_abs` consist of well-formed names as soon as the working directory does
    (so `KeysWf` is all that item 2 needs), and rendering the key gives back the string `abs`
    computed -/
theorem C10_resolved_keys_wf (env : Env) (s s' : State) (p : Str) (k : FsPath) (hk : KeysWf s)
    (h : absM env p s = (.ok k, s')) :
    (∀ n ∈ k, WfName n) ∧ absWith env (renderP s.cwd) p = .ok (renderP k) :=
  absM_wf hk.2 h

/-- `readlink(link)` after `symlink(link, target)`: the returned string `e.rel` is
    `relative(readlink_abs, dir(link))`; cleaning `dir(link)/readlink(link)` gives
    `readlink_abs(link)`; and it is relative iff the target is not the link's own directory -/
theorem C10_readlink_navigates (env : Env) (s s' : State) (l t : Str) (lk tk r : FsPath)
    (hk : KeysWf s)
    (ha : absM env l s = (.ok lk, s)) (ht : absM env (targetStr lk t) s = (.ok tk, s))
    (h : step env s (.symlink l t) = (.ok (.path r), s')) :
    ∃ e, alLookup lk s'.entries = some e ∧
      step env s' (.readlink l) = (.ok (.str e.rel), s') ∧
      step env s' (.readlinkAbs l) = (.ok (.path tk), s') ∧
      e.rel = relative (renderP tk) (renderP lk.dropLast) ∧
      goClean (push (renderP lk.dropLast) e.rel) = renderP tk ∧
      (isRooted e.rel = false ↔ tk ≠ lk.dropLast) := by
  obtain ⟨_, e, hlook, _, _, _, _, _, hrel, hra, hrl⟩ :=
    C10_symlink_records_target env s s' l t lk tk r ha ht h
  obtain ⟨h1, h2, _⟩ := C10_rel_navigates lk tk (absM_wf hk.2 ha).1 (absM_wf hk.2 ht).1
  exact ⟨e, hlook, hrl, hra, hrel, by rw [hrel]; exact h1, by rw [hrel]; exact h2⟩

/-- Full statement "readlink always returns a relative path" — false, see the witness -/
def C10_readlink_is_relative_full : Prop :=
  ∀ (lk tk : FsPath), (∀ n ∈ lk, WfName n) → (∀ n ∈ tk, WfName n) → lk ≠ [] →
    isRooted (relative (renderP tk) (renderP lk.dropLast)) = false

/-- finding: a link whose target is its own directory has an ABSOLUTE readlink
    (link `/a/l` → `/a` stores rel `"/a"`); pure piece and the whole model on the smallest state -/
theorem C10_finding_link_to_own_dir :
    relative (renderP ["a".toList]) (renderP (["a".toList, "l".toList] : FsPath).dropLast) = "/a".toList ∧
    (let env : Env := fun _ => none
     let s1 := (step env Memfs.init (.mkdirP "/a".toList)).2
     let s2 := (step env s1 (.symlink "/a/l".toList "/a".toList)).2
     (step env s2 (.readlink "/a/l".toList)).1 = .ok (.str "/a".toList) ∧
     (step env s2 (.readlinkAbs "/a/l".toList)).1 = .ok (.path ["a".toList])) := by
  decide

theorem C10_readlink_is_relative_full_is_false : ¬ C10_readlink_is_relative_full := by
  intro h
  have := h ["a".toList, "l".toList] ["a".toList] (by unfold WfName; decide) (by unfold WfName; decide)
    (by decide)
  revert this
  decide

/-! ### 4. remove acts on the link -/

/-- removing a link (state satisfying the invariant) succeeds, deletes the entry at the link key,
    filters the name out of the parent's child list and changes nothing else: every other entry
    — in particular the target's — and the whole data map are untouched -/
theorem C10_remove_acts_on_link (env : Env) (s : State) (l : Str) (lk : FsPath) (e : Entry)
    (hinv : Spec.Inv s) (ha : absM env l s = (.ok lk, s)) (he : alLookup lk s.entries = some e)
    (hl : e.link = true) :
    ∃ s' pe fs, step env s (.remove l) = (.ok .unit, s') ∧
      alLookup lk s'.entries = none ∧
      alLookup lk.dropLast s.entries = some pe ∧ pe.files = some fs ∧
      alLookup lk.dropLast s'.entries = some { pe with files := some (fs.filter (· ≠ baseName lk)) } ∧
      (∀ k, k ≠ lk → k ≠ lk.dropLast → alLookup k s'.entries = alLookup k s.entries) ∧
      s'.files = s.files ∧ s'.cwd = s.cwd ∧ s'.root = s.root ∧ s'.handles = s.handles := by
  obtain ⟨pe, fs, hnil, hp, hpf, hrm⟩ := removeM_link env s l lk e hinv ha he hl
  have hne := dropLast_ne_self hnil
  refine ⟨{ s with entries := (alErase lk
      (alInsert lk.dropLast { pe with files := some (fs.filter (· ≠ baseName lk)) } s.entries)) },
    pe, fs, by simp only [step, mapVal_apply, hrm], ?_, hp, hpf, ?_, ?_, rfl, rfl, rfl, rfl⟩
  · exact alLookup_alErase_self lk (alInsert_keys_nodup _ _ (inv_facts hinv).nodup)
  · simp only
    rw [alLookup_alErase_ne hne, alLookup_alInsert_self]
  · intro k h1 h2
    simp only
    rw [alLookup_alErase_ne h1, alLookup_alInsert_ne h2]

/-- corollary: the target of the removed link (any other key than the link itself and the link's
    parent directory, whose child list shrinks) keeps its entry and its bytes -/
theorem C10_remove_keeps_target (env : Env) (s : State) (l : Str) (lk tk : FsPath) (e : Entry)
    (hinv : Spec.Inv s) (ha : absM env l s = (.ok lk, s)) (he : alLookup lk s.entries = some e)
    (hl : e.link = true) (_halt : e.alt = some tk) (hne : tk ≠ lk.dropLast) (hself : tk ≠ lk) :
    alLookup tk (step env s (.remove l)).2.entries = alLookup tk s.entries ∧
    alLookup tk (step env s (.remove l)).2.files = alLookup tk s.files := by
  obtain ⟨s', pe, fs, hs, _, _, _, _, hoth, hfiles, _⟩ := C10_remove_acts_on_link env s l lk e hinv ha he hl
  rw [hs]
  exact ⟨hoth tk hself hne, by rw [hfiles]⟩

/-! ### 5. chown / chmod without follow -/

/-- `chown` (builder, `follow = false`, recursive or not) started at a link: the traversal of a
    root that is a link yields just the root entry, so uid/gid of the entry AT THE LINK KEY are
    set and nothing else in the state changes — in particular not the target -/
theorem C10_chown_nofollow_acts_on_link (env : Env) (s : State) (l : Str) (c : ChownOpts)
    (lk : FsPath) (e : Entry) (hinv : Spec.Inv s) (ha : absM env l s = (.ok lk, s))
    (he : alLookup lk s.entries = some e) (hl : e.link = true) (hc : c.follow = false) :
    step env s (.chownB l c) =
      (.ok .unit, { s with entries := alInsert lk (e.setOwner c.uid c.gid) s.entries }) ∧
    (∀ k, k ≠ lk → alLookup k (step env s (.chownB l c)).2.entries = alLookup k s.entries) ∧
    alLookup lk (step env s (.chownB l c)).2.entries =
      some { e with uid := c.uid.getD e.uid, gid := c.gid.getD e.gid } := by
  obtain ⟨snap, hsnap⟩ := cloneEntries_ok_of_inv hinv (k := lk) (by rw [he]; rfl)
  have hp : e.path = lk := (inv_facts hinv).path lk e (mem_of_alLookup he)
  have hrun := chownM_link env s l c lk e snap ha he hl hp hc hsnap
  have hstep : step env s (.chownB l c) =
      (.ok .unit, { s with entries := alInsert lk (e.setOwner c.uid c.gid) s.entries }) := by
    simp only [step, mapVal_apply, hrun]
  refine ⟨hstep, ?_, ?_⟩
  · intro k hk; rw [hstep]; exact alLookup_alInsert_ne hk _ _
  · rw [hstep]; exact alLookup_alInsert_self _ _ _

/-- the plain `chown(path, uid, gid)` call is the builder with `follow = false` -/
theorem C10_chown_acts_on_link (env : Env) (s : State) (l : Str) (uid gid : Nat)
    (lk : FsPath) (e : Entry) (hinv : Spec.Inv s) (ha : absM env l s = (.ok lk, s))
    (he : alLookup lk s.entries = some e) (hl : e.link = true) :
    step env s (.chown l uid gid) =
      (.ok .unit, { s with entries := alInsert lk { e with uid := uid, gid := gid } s.entries }) := by
  have := (C10_chown_nofollow_acts_on_link env s l { uid := some uid, gid := some gid } lk e hinv ha he hl rfl).1
  exact this

/-- `chmod` without follow started at a link changes NOTHING (links are skipped by
    `!src.link ∨ follow`): not the link and in particular not the target. No invariant needed;
    the outcome is `Ok` or whatever error the mode expression produces. -/
theorem C10_chmod_nofollow_changes_nothing (env : Env) (s : State) (l : Str) (c : ChmodOpts)
    (lk : FsPath) (e : Entry) (ha : absM env l s = (.ok lk, s))
    (he : alLookup lk s.entries = some e) (hl : e.link = true) (hc : c.follow = false) :
    (step env s (.chmodB l c)).2 = s := by
  have := chmodM_link env s l c lk e ha he hl hc
  simp only [step, mapVal_apply]
  revert this
  rcases chmodM env l c s with ⟨r, s2⟩
  intro h; simp only at h; subst h
  cases r <;> rfl

/-- the plain `chmod(path, mode)` call (octal, no symbolic expression) on a link: `Ok`, no change -/
theorem C10_chmod_on_link_is_noop (env : Env) (s : State) (l : Str) (m : Nat)
    (lk : FsPath) (e : Entry) (hinv : Spec.Inv s) (ha : absM env l s = (.ok lk, s))
    (he : alLookup lk s.entries = some e) (hl : e.link = true) :
    step env s (.chmod l m) = (.ok .unit, s) := by
  obtain ⟨snap, hsnap⟩ := cloneEntries_ok_of_inv hinv (k := lk) (by rw [he]; rfl)
  simp only [step, mapVal_apply,
    chmodM_link_octal env s l { dirs := m, files := m } lk e snap ha he hl rfl rfl hsnap]

/-- both halves together, as the property states them -/
theorem C10_chmod_chown_nofollow_never_touch_target (env : Env) (s : State) (l : Str)
    (cm : ChmodOpts) (co : ChownOpts) (lk tk : FsPath) (e : Entry) (hinv : Spec.Inv s)
    (ha : absM env l s = (.ok lk, s)) (he : alLookup lk s.entries = some e) (hl : e.link = true)
    (hne : tk ≠ lk) (hcm : cm.follow = false) (hco : co.follow = false) :
    alLookup tk (step env s (.chmodB l cm)).2.entries = alLookup tk s.entries ∧
    alLookup tk (step env s (.chownB l co)).2.entries = alLookup tk s.entries ∧
    (step env s (.chmodB l cm)).2.files = s.files ∧ (step env s (.chownB l co)).2.files = s.files := by
  have h1 := C10_chmod_nofollow_changes_nothing env s l cm lk e ha he hl hcm
  have h2 := C10_chown_nofollow_acts_on_link env s l co lk e hinv ha he hl hco
  refine ⟨by rw [h1], h2.2.1 tk hne, by rw [h1], by rw [h2.1]⟩


/-! ### 9. `move_p` keeps links consistent (after the repair of `moved_link_rel_stale`)

  `LinkRelOk s` : every stored link entry `(k, e)` has `e.rel = relative(e.alt, dir k)` — the `link`
  clause of `RefineA.EntriesOk`, in the form of the consistency monitor `moved_link_rel_stale` of
  `Spec.classOf`.  Before the repair `move_p` stored `{ e with path := dst }` (old `rel`) at the new
  key and broke the clause; now it stores `movedEntry e dst` (`rel` recomputed against `dir dst`). -/

/-- (labelled: restates the definition of the repaired loop body) the entry the loop of `move_p`
    stores at the new key `dst` satisfies the link clause there, whatever `rel` it carried before;
    it differs from the old entry in `path` and `rel` only -/
theorem C10_moved_entry_consistent (e : Entry) (dst : FsPath) :
    LinkRelAt dst (movedEntry e dst) ∧
    movedEntry e dst = { e with path := dst, rel := movedRel e dst } ∧
    (e.link = false → movedEntry e dst = { e with path := dst }) ∧
    (e.link = true → (movedEntry e dst).rel = relative (renderP (e.alt.getD [])) (renderP dst.dropLast)) := by
  refine ⟨MoveLinkRel.linkRelAt_moved e dst, rfl, ?_, ?_⟩
  · intro hl; simp [movedEntry, movedRel, hl]
  · intro hl; simp [movedEntry, movedRel, hl]

/-- **`move_p` preserves the link-consistency clause** — for every state (no invariant needed),
    every pair of path arguments and every outcome (`Ok`, any error — a failing call keeps what it
    mutated —, even fuel exhaustion): if all link entries were consistent before the call, all link
    entries (moved or not) are consistent after it -/
theorem C10_move_preserves_link_rel (env : Env) (s : State) (a b : Str) (h : LinkRelOk s) :
    LinkRelOk (step env s (.moveP a b)).2 :=
  MoveLinkRel.step_moveP_linkRelOk env a b s h

/-- the same for the whole per-entry invariant `RefineA.EntriesOk` of C01 (flags, type bits of the
    mode, link clause with an existing target): `move_p` now preserves it, like every group-A op -/
theorem C10_move_preserves_entriesOk (env : Env) (s : State) (a b : Str)
    (h : Lemmas.RefineA.EntriesOk s) : Lemmas.RefineA.EntriesOk (step env s (.moveP a b)).2 :=
  MoveLinkRel.step_moveP_entriesOk env a b s h

/-- `EntriesOk` (which holds in `Memfs.init` and is preserved by the group-A operations, C01A)
    implies `LinkRelOk`, and on a `LinkRelOk` state the monitor `moved_link_rel_stale` is silent -/
theorem C10_link_rel_monitor_silent (env : Env) (s : State) (p : Str) :
    (Lemmas.RefineA.EntriesOk s → LinkRelOk s) ∧
    (LinkRelOk s → classOf s env (.readlink p) = "-") :=
  ⟨MoveLinkRel.linkRelOk_of_entriesOk, fun h => MoveLinkRel.classOf_readlink_silent h env p⟩

/-- after ANY `move_p` call from a consistent state, for EVERY link `p` of the new state:
    `readlink(p)` is `relative(readlink_abs(p), dir(p))`; and when the names involved are ordinary
    components, `dir(p)/readlink(p)` cleans to `readlink_abs(p)` -/
theorem C10_readlink_consistent_after_move (env : Env) (s : State) (a b p : Str) (k tk : FsPath)
    (e : Entry) (h : LinkRelOk s)
    (ha : absM env p (step env s (.moveP a b)).2 = (.ok k, (step env s (.moveP a b)).2))
    (he : alLookup k (step env s (.moveP a b)).2.entries = some e) (hl : e.link = true)
    (halt : e.alt = some tk) :
    step env (step env s (.moveP a b)).2 (.readlinkAbs p) = (.ok (.path tk), (step env s (.moveP a b)).2) ∧
    step env (step env s (.moveP a b)).2 (.readlink p) =
      (.ok (.str (relative (renderP tk) (renderP k.dropLast))), (step env s (.moveP a b)).2) ∧
    ((∀ n ∈ k, WfName n) → (∀ n ∈ tk, WfName n) →
      goClean (push (renderP k.dropLast) (relative (renderP tk) (renderP k.dropLast))) = renderP tk) := by
  have hok := C10_move_preserves_link_rel env s a b h
  generalize (step env s (.moveP a b)).2 = s' at ha he hok
  have hrel : e.rel = relative (renderP tk) (renderP k.dropLast) := by
    have := MoveLinkRel.linkRelOk_lookup hok he hl
    rw [halt] at this
    exact this
  refine ⟨?_, ?_, fun hk ht => (C10_rel_navigates k tk hk ht).1⟩
  · simp [step, ha, he, hl, halt]
  · simp [step, ha, he, hl, hrel]

/-- positive example (replaces the former counterexample of the finding): `mkdir -p /a /b/c`,
    `symlink /a/l -> ../x` (dangling), `move_p /a/l /b/c`.  Before the call `readlink` is `../x`;
    after it `readlink /b/c/l` is `../../x` and `readlink_abs` is still `/x`; the state is
    consistent and the monitor is silent.  (The unrepaired loop left `../x`, which from `/b/c`
    names `/b/x`.) -/
theorem C10_move_link_example :
    (let env : Env := fun _ => none
     let s1 := (step env Memfs.init (.mkdirP "/a".toList)).2
     let s2 := (step env s1 (.mkdirP "/b/c".toList)).2
     let s3 := (step env s2 (.symlink "/a/l".toList "../x".toList)).2
     let s4 := (step env s3 (.moveP "/a/l".toList "/b/c".toList)).2
     (step env s3 (.readlink "/a/l".toList)).1 = .ok (.str "../x".toList) ∧
     (step env s3 (.moveP "/a/l".toList "/b/c".toList)).1 = .ok .unit ∧
     (step env s4 (.readlink "/b/c/l".toList)).1 = .ok (.str "../../x".toList) ∧
     (step env s4 (.readlinkAbs "/b/c/l".toList)).1 = .ok (.path ["x".toList]) ∧
     (step env s4 (Op.exists "/a/l".toList)).1 = .ok (.bool false) ∧
     LinkRelOk s3 ∧ LinkRelOk s4 ∧ Spec.Inv s4 ∧
     classOf s4 env (.readlink "/b/c/l".toList) = "-") := by
  decide +kernel

/-- regression witness: the entry the UNREPAIRED loop stored (`{ e with path := dst }`, `rel`
    untouched) violates the clause for the link of the example — so the preservation theorems
    above do distinguish the repaired model from the old one -/
theorem C10_old_move_entry_stale :
    (let e : Entry := { mkFileEntry ["a".toList, "l".toList] with
        link := true, mode := 0o120777, alt := some ["x".toList], rel := "../x".toList }
     let dst : FsPath := ["b".toList, "c".toList, "l".toList]
     LinkRelAt ["a".toList, "l".toList] e ∧ ¬ LinkRelAt dst { e with path := dst } ∧
     LinkRelAt dst (movedEntry e dst) ∧ (movedEntry e dst).rel = "../../x".toList) := by
  decide +kernel

-- non-vacuity / sanity (tests, labelled as such): the hypotheses of the theorems above are
-- satisfiable — smallest state with a directory `/a`, link `/a/l` with the relative, dangling
-- target `../x`
private def env0 : Env := fun _ => none
private def sA : State := (step env0 Memfs.init (.mkdirP "/a".toList)).2
private def kl : FsPath := ["a".toList, "l".toList]
private def sB : State := (step env0 sA (.symlink "/a/l".toList "../x".toList)).2

example : Spec.Inv sA ∧ Spec.Inv sB := by decide
example : KeysWf sA := by unfold KeysWf WfName; decide
example : absM env0 "/a/l".toList sA = (.ok kl, sA) ∧
    absM env0 (targetStr kl "../x".toList) sA = (.ok ["x".toList], sA) ∧
    (step env0 sA (.symlink "/a/l".toList "../x".toList)).1 = .ok (.path kl) := by decide
example : absM env0 "/a/l".toList sB = (.ok kl, sB) ∧
    (alLookup kl sB.entries).map (·.link) = some true ∧
    (step env0 sB (.readlink "/a/l".toList)).1 = .ok (.str "../x".toList) := by decide

end Rivia.Props
