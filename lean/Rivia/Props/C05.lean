/-
  C05 — `abs()` maps any path to a clean absolute path, identically on both backends; every other
  VFS method reads its path arguments through the same resolution.
  Property theorems ONLY (helper lemmas live in Rivia/Lemmas/Abs.lean, Rivia/Lemmas/AbsMemfs.lean).

  Vocabulary (all decidable):
  * `isRooted cwd = true ∧ NormalForm cwd` — `cwd` is a clean absolute path (`NormalForm` from
    Lemmas/Clean.lean: no `//`, no `.`, no inner `..`, no trailing `/`).
  * `Lemmas.depth cwd` — number of names of `cwd`; `Lemmas.upCount c` — length of the leading
    `..` run of `c`; `Lemmas.ClimbsAboveRoot cwd x` — `x` is relative and the `..` run of
    `goClean x` is longer than `depth cwd`.
  * `Lemmas.NoSpecial p` — neither `~` nor `$` occurs in `p`.
-/
import Rivia.Model.Path
import Rivia.Model.MemfsOps
import Rivia.Spec.GoClean
import Rivia.Lemmas.Abs
import Rivia.Lemmas.AbsMemfs

namespace Rivia.Props
open Rivia Rivia.Str Rivia.Spec Rivia.Lemmas Rivia.Memfs

/-! ### 1. both backends -/

/-- `Memfs::_abs` and `Stdfs::abs` (two separate transcriptions) are the same function of
    (environment, cwd, path). -/
theorem C05_abs_backends_equal (env : Env) (cwd s : Str) :
    absWith env cwd s = absStdWith env cwd s :=
  (absStdWith_eq env cwd s).symm

/-! ### 2. totality and errors -/

/-- `abs` never panics or hangs, for any `cwd` string whatsoever. -/
theorem C05_abs_never_panics (env : Env) (cwd s : Str) :
    absWith env cwd s ≠ .panic ∧ absWith env cwd s ≠ .hang :=
  absWith_total env cwd s

/-- `expand` (the `~` / `$VAR` stage) never panics or hangs either, and fails only with
    MultipleHomeSymbols, InvalidExpansion or Var. -/
theorem C05_expand_outcomes (env : Env) (s : Str) :
    expand env s ≠ .panic ∧ expand env s ≠ .hang ∧
      ∀ k, expand env s = .err k → k = .multipleHomeSymbols ∨ k = .invalidExpansion ∨ k = .var :=
  ⟨(expand_total env s).1, (expand_total env s).2, fun _ hk => (expand_out env s).err_kind hk⟩

/-- `abs` fails only for an empty path, a failed expansion, or `..` climbing above the root. -/
theorem C05_abs_errors {env : Env} {cwd s : Str} {k : ErrKind}
    (hcwd : isRooted cwd = true ∧ NormalForm cwd) (h : absWith env cwd s = .err k) :
    (s = [] ∧ k = .empty) ∨ expand env s = .err k ∨
      (k = .parentNotFound ∧ ∃ e, expand env s = .ok e ∧ ClimbsAboveRoot cwd (trimProtocol e)) := by
  rcases absWith_err_cases h with h1 | h1 | ⟨rfl, _, _⟩
  · exact Or.inl h1
  · exact Or.inr (Or.inl h1)
  · exact Or.inr (Or.inr ⟨rfl, ((absWith_parentNotFound_iff hcwd.1 hcwd.2).1 h).2⟩)

/-- exact characterisation of the three failures -/
theorem C05_abs_empty_iff (env : Env) (cwd s : Str) :
    absWith env cwd s = .err .empty ↔ s = [] := by
  constructor
  · intro h
    rcases absWith_err_cases h with h1 | h1 | ⟨h1, _⟩
    · exact h1.1
    · rcases (expand_out env s).err_kind h1 with h2 | h2 | h2 <;> cases h2
    · cases h1
  · rintro rfl; rfl

theorem C05_abs_parentNotFound_iff {env : Env} {cwd s : Str}
    (hcwd : isRooted cwd = true ∧ NormalForm cwd) :
    absWith env cwd s = .err .parentNotFound ↔
      s ≠ [] ∧ ∃ e, expand env s = .ok e ∧ ClimbsAboveRoot cwd (trimProtocol e) :=
  absWith_parentNotFound_iff hcwd.1 hcwd.2

/-- for an arbitrary `cwd` string the only additional behaviour is still ParentNotFound -/
theorem C05_abs_errors_any_cwd {env : Env} {cwd s : Str} {k : ErrKind}
    (h : absWith env cwd s = .err k) :
    (s = [] ∧ k = .empty) ∨ expand env s = .err k ∨ k = .parentNotFound := by
  rcases absWith_err_cases h with h1 | h1 | ⟨h1, _⟩
  · exact Or.inl h1
  · exact Or.inr (Or.inl h1)
  · exact Or.inr (Or.inr h1)

/-! ### 3. shape of the result -/

/-- against a clean absolute `cwd` the result is a clean absolute path -/
theorem C05_abs_shape {env : Env} {cwd s p : Str}
    (hcwd : isRooted cwd = true ∧ NormalForm cwd) (h : absWith env cwd s = .ok p) :
    isRooted p = true ∧ NormalForm p :=
  absWith_shape hcwd.1 hcwd.2 h

/-! ### 4. the result is the lexical join -/

/-- ONE equation: the result is Go's `path.Clean` of `cwd.push(arg)` where `arg` is the argument
    after `~`/variable expansion and protocol trimming (`push` of an absolute `arg` replaces the
    buffer, otherwise it is `cwd ++ "/" ++ arg`). -/
theorem C05_abs_is_join {env : Env} {cwd s p : Str}
    (hcwd : isRooted cwd = true ∧ NormalForm cwd) (h : absWith env cwd s = .ok p) :
    ∃ e, expand env s = .ok e ∧ p = goClean (push cwd (trimProtocol e)) := by
  obtain ⟨e, he, _, hp⟩ := absWith_ok_join hcwd.1 hcwd.2 h
  exact ⟨e, he, hp⟩

/-- the complete input/output description of `abs` on a non-empty path whose expansion succeeds -/
theorem C05_abs_characterisation {env : Env} {cwd s e : Str}
    (hcwd : isRooted cwd = true ∧ NormalForm cwd) (hs : s ≠ []) (he : expand env s = .ok e) :
    absWith env cwd s =
      if ClimbsAboveRoot cwd (trimProtocol e) then .err .parentNotFound
      else .ok (goClean (push cwd (trimProtocol e))) := by
  rw [absWith_of_expand hs he, absCore_eq' hcwd.1 hcwd.2]

/-- climbing exactly to the root is fine, one more `..` is not (cwd = /x/y) -/
example : absWith (fun _ => none) "/x/y".toList "../..".toList = .ok "/".toList := by
  rw [C05_abs_characterisation (e := "../..".toList) (by decide) (by decide) (by decide)]; decide
example : absWith (fun _ => none) "/x/y".toList "../../..".toList = .err .parentNotFound := by
  rw [C05_abs_characterisation (e := "../../..".toList) (by decide) (by decide) (by decide)]; decide

/-- no IO: `abs` is a function of (environment, cwd, path) only, and the Memfs call leaves the
    whole filesystem state untouched -/
theorem C05_abs_no_state_change (env : Env) (p : Str) (st : State) : (absM env p st).2 = st :=
  absM_state env p st

/-! ### 5. idempotence -/

/-- Full statement (false): `abs (abs s) = abs s` for every result. -/
def C05_abs_idempotent_full : Prop :=
  ∀ (env : Env) (cwd s p : Str), isRooted cwd = true ∧ NormalForm cwd →
    absWith env cwd s = .ok p → absWith env cwd p = .ok p

/-- Finding: with `HOME=/h~x`, `abs("~")` succeeds with `/h~x`, and `abs` of that result fails with
    InvalidExpansion (the `~` inside the result is read as a misplaced home symbol). Any `cwd`. -/
theorem C05_finding_home_with_tilde (cwd : Str) :
    absWith envTildeHome cwd "~".toList = .ok "/h~x".toList ∧
    absWith envTildeHome cwd "/h~x".toList = .err .invalidExpansion :=
  ⟨abs_tilde_envTildeHome cwd, abs_home_envTildeHome cwd⟩

theorem C05_abs_idempotent_full_false : ¬ C05_abs_idempotent_full := by
  intro h
  have h1 := h envTildeHome ['/'] "~".toList "/h~x".toList (by decide)
    (C05_finding_home_with_tilde ['/']).1
  rw [(C05_finding_home_with_tilde ['/']).2] at h1
  cases h1

/-- Partial (domain: the result contains neither `~` nor `$`): `abs` is idempotent. -/
theorem C05_abs_idempotent_partial {env : Env} {cwd s p : Str}
    (hcwd : isRooted cwd = true ∧ NormalForm cwd) (h : absWith env cwd s = .ok p)
    (hp : NoSpecial p) : absWith env cwd p = .ok p :=
  absWith_idem hcwd.1 hcwd.2 h hp

/-- more generally `abs` fixes every clean absolute path without `~`/`$`, whatever the `cwd` -/
theorem C05_abs_fixes_clean_absolute (env : Env) (cwd : Str) {p : Str}
    (hp : isRooted p = true ∧ NormalForm p) (hs : NoSpecial p) : absWith env cwd p = .ok p :=
  absWith_fixed env cwd hp.1 hp.2 hs

/-- non-vacuity of the partial statement -/
example : ∃ (env : Env) (cwd s p : Str), (isRooted cwd = true ∧ NormalForm cwd) ∧
    absWith env cwd s = .ok p ∧ NoSpecial p ∧ p ≠ s :=
  ⟨fun _ => none, "/x".toList, "a/../b".toList, "/x/b".toList, by decide,
    by rw [C05_abs_characterisation (e := "a/../b".toList) (by decide) (by decide) (by decide)]
       decide,
    by decide, by decide⟩

/-! ### 6. every other method reads its paths through `abs` (Memfs) -/

/-- the operations with exactly one resolved path argument (every `Op` constructor with a single
    path, plus the link argument of `symlink`) -/
inductive SinglePathOp : (Str → Op) → Prop
  | mkfile : SinglePathOp .mkfile
  | mkfileM (mode : Nat) : SinglePathOp (.mkfileM · mode)
  | mkdirP : SinglePathOp .mkdirP
  | mkdirM (mode : Nat) : SinglePathOp (.mkdirM · mode)
  | writeAll (d : File.Bytes) : SinglePathOp (.writeAll · d)
  | appendAll (d : File.Bytes) : SinglePathOp (.appendAll · d)
  | writeLines (ls : List Str) : SinglePathOp (.writeLines · ls)
  | appendLines (ls : List Str) : SinglePathOp (.appendLines · ls)
  | appendLine (l : Str) : SinglePathOp (.appendLine · l)
  | readAll : SinglePathOp .readAll
  | readLines : SinglePathOp .readLines
  | read : SinglePathOp .read
  | remove : SinglePathOp .remove
  | removeAll : SinglePathOp .removeAll
  | symlinkLink (target : Str) : SinglePathOp (.symlink · target)
  | readlink : SinglePathOp .readlink
  | readlinkAbs : SinglePathOp .readlinkAbs
  | setCwd : SinglePathOp .setCwd
  | abs : SinglePathOp .abs
  | exists : SinglePathOp .exists
  | isFile : SinglePathOp .isFile
  | isDir : SinglePathOp .isDir
  | isSymlink : SinglePathOp .isSymlink
  | isSymlinkDir : SinglePathOp .isSymlinkDir
  | isSymlinkFile : SinglePathOp .isSymlinkFile
  | isExec : SinglePathOp .isExec
  | isReadonly : SinglePathOp .isReadonly
  | mode : SinglePathOp .mode
  | uid : SinglePathOp .uid
  | gid : SinglePathOp .gid
  | owner : SinglePathOp .owner
  | entry : SinglePathOp .entry
  | paths : SinglePathOp .paths
  | dirs : SinglePathOp .dirs
  | files : SinglePathOp .files
  | allPaths : SinglePathOp .allPaths
  | allDirs : SinglePathOp .allDirs
  | allFiles : SinglePathOp .allFiles
  | chmod (mode : Nat) : SinglePathOp (.chmod · mode)
  | chmodB (c : ChmodOpts) : SinglePathOp (.chmodB · c)
  | chown (u g : Nat) : SinglePathOp (.chown · u g)
  | chownB (c : ChownOpts) : SinglePathOp (.chownB · c)
  | entries (r : TravReq) : SinglePathOp (.entries · r)
  | hWrite (id : Nat) : SinglePathOp (.hWrite id)
  | hAppend (id : Nat) : SinglePathOp (.hAppend id)

/-- the Memfs resolution of a spelling and of its `abs` agree -/
theorem C05_absM_spelling {env : Env} {st : State} {raw a : Str}
    (hcwd : NormalForm (renderP st.cwd)) (habs : absWith env (renderP st.cwd) raw = .ok a)
    (ha : NoSpecial a) : absM env raw st = absM env a st :=
  absM_spelling ⟨habs, ha, hcwd⟩

/-- **Spelling independence**: a call with any spelling `raw` of a path returns the same value and
    the same next state as the call with `abs raw`, for all 45 single-path operations
    (domain: `abs raw` contains neither `~` nor `$`; the cwd renders to a clean path). -/
theorem C05_spelling_independent {env : Env} {st : State} {raw a : Str} {op : Str → Op}
    (hop : SinglePathOp op) (hcwd : NormalForm (renderP st.cwd))
    (habs : absWith env (renderP st.cwd) raw = .ok a) (ha : NoSpecial a) :
    step env st (op raw) = step env st (op a) := by
  have h : Spelling env st raw a := ⟨habs, ha, hcwd⟩
  cases hop
  · exact step_mkfile h
  · exact step_mkfileM h _
  · exact step_mkdirP h
  · exact step_mkdirM h _
  · exact step_writeAll h _
  · exact step_appendAll h _
  · exact step_writeLines h _
  · exact step_appendLines h _
  · exact step_appendLine h _
  · exact step_readAll h
  · exact step_readLines h
  · exact step_read h
  · exact step_remove h
  · exact step_removeAll h
  · exact step_symlink_link h _
  · exact step_readlink h
  · exact step_readlinkAbs h
  · exact step_setCwd h
  · exact step_abs h
  · exact step_exists h
  · exact step_isFile h
  · exact step_isDir h
  · exact step_isSymlink h
  · exact step_isSymlinkDir h
  · exact step_isSymlinkFile h
  · exact step_isExec h
  · exact step_isReadonly h
  · exact step_mode h
  · exact step_uid h
  · exact step_gid h
  · exact step_owner h
  · exact step_entry h
  · exact step_paths h
  · exact step_dirs h
  · exact step_files h
  · exact step_allPaths h
  · exact step_allDirs h
  · exact step_allFiles h
  · exact step_chmod h _
  · exact step_chmodB h _
  · exact step_chown h _ _
  · exact step_chownB h _
  · exact step_entries h _
  · exact step_hWrite h _
  · exact step_hAppend h _

/-- Full statement without the `NoSpecial` side condition (false, by the `HOME=/h~x` finding). -/
def C05_spelling_independent_full : Prop :=
  ∀ (env : Env) (st : State) (raw a : Str) (op : Str → Op), SinglePathOp op →
    NormalForm (renderP st.cwd) → absWith env (renderP st.cwd) raw = .ok a →
    step env st (op raw) = step env st (op a)

theorem C05_spelling_independent_full_false : ¬ C05_spelling_independent_full := by
  intro h
  have h1 := h envTildeHome init "~".toList "/h~x".toList .abs .abs (by decide)
    (C05_finding_home_with_tilde _).1
  revert h1
  decide

/-- the operations with two resolved path arguments -/
inductive TwoPathOp : (Str → Str → Op) → Prop
  | copy : TwoPathOp .copy
  | copyB (c : CopyOpts) : TwoPathOp (.copyB · · c)
  | moveP : TwoPathOp .moveP

theorem C05_spelling_independent_two {env : Env} {st : State} {r1 a1 r2 a2 : Str}
    {op : Str → Str → Op} (hop : TwoPathOp op) (hcwd : NormalForm (renderP st.cwd))
    (h1 : absWith env (renderP st.cwd) r1 = .ok a1) (n1 : NoSpecial a1)
    (h2 : absWith env (renderP st.cwd) r2 = .ok a2) (n2 : NoSpecial a2) :
    step env st (op r1 r2) = step env st (op a1 a2) := by
  have s1 : Spelling env st r1 a1 := ⟨h1, n1, hcwd⟩
  have s2 : Spelling env st r2 a2 := ⟨h2, n2, hcwd⟩
  cases hop
  · exact step_copy s1 s2
  · exact step_copyB s1 s2 _
  · exact step_moveP s1 s2

/-! #### the one path argument that is NOT read through `abs`: the target of `symlink` -/

/-- Full statement for the remaining path argument (false): the `symlink` target may be replaced
    by its `abs`. -/
def C05_symlink_target_spelling_full : Prop :=
  ∀ (env : Env) (st : State) (link raw a : Str), NormalForm (renderP st.cwd) →
    absWith env (renderP st.cwd) raw = .ok a → NoSpecial a →
    step env st (.symlink link raw) = step env st (.symlink link a)

/-- a state with the directories `/` and `/d`, cwd `/` -/
def stD : State :=
  { entries := [([], { mkDirEntry [] none with files := some ["d".toList] }),
                (["d".toList], mkDirEntry ["d".toList] none)]
    files := [], cwd := [], root := [], handles := [] }

/-- Finding (documented symlink semantics, but an exception to "every method resolves its paths
    like `abs`"): a relative `symlink` target is resolved against the directory of the link, not
    against the cwd — with cwd `/`, `symlink("/d/l", "t")` points to `/d/t` while `abs("t")` is
    `/t`. -/
theorem C05_finding_symlink_target_relative_to_link :
    absWith (fun _ => none) (renderP stD.cwd) "t".toList = .ok "/t".toList ∧
    step (fun _ => none) stD (.symlink "/d/l".toList "t".toList) ≠
      step (fun _ => none) stD (.symlink "/d/l".toList "/t".toList) := by
  refine ⟨?_, by decide⟩
  rw [C05_abs_characterisation (e := "t".toList) (by decide) (by decide) (by decide)]
  decide

theorem C05_symlink_target_spelling_full_false : ¬ C05_symlink_target_spelling_full := by
  intro h
  exact C05_finding_symlink_target_relative_to_link.2
    (h _ stD "/d/l".toList _ _ (by decide) C05_finding_symlink_target_relative_to_link.1 (by decide))

/-- the cwd hypothesis holds whenever the cwd key consists of well-formed names (non-empty, no
    `/`, not `.`/`..`) — in particular for the root `[]` -/
theorem C05_cwd_clean_of_wf {st : State} (h : ∀ n ∈ st.cwd, Wf n) : NormalForm (renderP st.cwd) :=
  renderP_normalForm h

/-- non-vacuity: the hypotheses of spelling independence hold for a non-trivial spelling -/
example : ∃ (env : Env) (st : State) (raw a : Str), NormalForm (renderP st.cwd) ∧
    absWith env (renderP st.cwd) raw = .ok a ∧ NoSpecial a ∧ raw ≠ a :=
  ⟨fun _ => none, ⟨[], [], ["x".toList], [], []⟩, "a/../b".toList, "/x/b".toList, by decide,
    by rw [C05_abs_characterisation (e := "a/../b".toList) (by decide) (by decide) (by decide)]
       decide,
    by decide, by decide⟩

end Rivia.Props
