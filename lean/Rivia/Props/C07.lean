/-
  C07 — handles from read/write/append honour the std Read, Seek and Write contracts.
  Property theorems ONLY (helper lemmas live in Rivia/Lemmas/*).
-/
import Rivia.Model.File
import Rivia.Spec.Cursor
import Rivia.Lemmas.File

namespace Rivia.Props
open Rivia Rivia.File Rivia.Spec

/-- the cursor a read handle corresponds to -/
def toCursor (f : MFile) : Cursor := ⟨f.pos, f.data⟩

/-! ### read / seek handles behave exactly like std::io::Cursor -/

theorem C07_read_refines_cursor (f : MFile) (n : Nat) :
    (File.read f n).1 = ((toCursor f).read n).1 ∧ toCursor (File.read f n).2 = ((toCursor f).read n).2 :=
  Lemmas.read_cursor f n

theorem C07_read_all_refines_cursor (f : MFile) :
    (File.readToEnd f).1 = ((toCursor f).readAll).1 ∧ toCursor (File.readToEnd f).2 = ((toCursor f).readAll).2 :=
  Lemmas.readToEnd_cursor f

theorem C07_seek_refines_cursor (f : MFile) (w : Whence) (off : Int) :
    (File.seek f w off).map (fun r => (r.1, toCursor r.2)) = (toCursor f).seek w off :=
  Lemmas.seek_cursor f w off

/-- for EVERY sequence of read / read_to_end / seek calls (any buffer lengths, any offsets,
    in or out of range) the observations equal those of `std::io::Cursor` over the same bytes -/
theorem C07_sequence_refines_cursor (f : MFile) (ops : List HOp) :
    File.runOps f ops = Cursor.runOps (toCursor f) ops :=
  Lemmas.runOps_cursor f ops

/-- reads at or beyond the end return 0 bytes and leave the handle unchanged -/
theorem C07_read_at_or_beyond_end (f : MFile) (n : Nat) (h : f.data.length ≤ f.pos) :
    File.read f n = ([], f) := by
  rw [Lemmas.read_eq, List.drop_eq_nil_of_le h]; simp

/-- a read returns exactly the next `min n remaining` bytes and advances by that many -/
theorem C07_read_exact (f : MFile) (n : Nat) :
    (File.read f n).1 = (f.data.drop f.pos).take n ∧
    (File.read f n).2.pos = f.pos + ((f.data.drop f.pos).take n).length ∧
    (File.read f n).2.data = f.data := by
  rw [Lemmas.read_eq]; exact ⟨rfl, rfl, rfl⟩

/-- seeking before the start is an error (and, an error carrying no new handle, the position is
    unchanged: `runOps` continues with the old handle) -/
theorem C07_seek_before_start_is_error (f : MFile) (off : Int) :
    ((f.pos : Int) + off < 0 → File.seek f .current off = .err .ioInvalidInput) ∧
    ((f.data.length : Int) + off < 0 → File.seek f .endw off = .err .ioInvalidInput) := by
  constructor <;> intro h <;> simp only [File.seek, h, true_or, if_true]

theorem C07_seek_in_range (f : MFile) (off : Int) :
    (0 ≤ (f.pos : Int) + off → (f.pos : Int) + off < 2 ^ 64 →
        File.seek f .current off = .ok (((f.pos : Int) + off).toNat, { f with pos := ((f.pos : Int) + off).toNat })) ∧
    (0 ≤ (f.data.length : Int) + off → (f.data.length : Int) + off < 2 ^ 64 →
        File.seek f .endw off = .ok (((f.data.length : Int) + off).toNat, { f with pos := ((f.data.length : Int) + off).toNat })) := by
  constructor <;> intro h1 h2 <;> simp only [File.seek] <;> rw [if_neg (by omega)]

/-- nothing panics or hangs: every observation is bytes, a position or an error kind, one per op -/
theorem C07_never_panics (f : MFile) (ops : List HOp) : (File.runOps f ops).length = ops.length :=
  Lemmas.runOps_length f ops

/-! ### write / append handles: every chunking, flushes anywhere, drop after any prefix -/

/-- dropping the handle after ANY op sequence persists exactly the bytes written through it
    (prefixed by the old content for append) -/
theorem C07_write_chunks_persist (append : Bool) (stored : Bytes) (ops : List WOp) :
    writeSession append stored ops = (if append then stored else []) ++ chunksOf ops :=
  Lemmas.writeSession_eq append stored ops

/-- crash-point quantifier: dropping after any prefix of the ops persists exactly that prefix -/
theorem C07_drop_after_any_prefix (append : Bool) (stored : Bytes) (ops : List WOp) (k : Nat) :
    writeSession append stored (ops.take k) = (if append then stored else []) ++ chunksOf (ops.take k) :=
  Lemmas.writeSession_eq append stored (ops.take k)

/-- at each flush everything written so far is visible -/
theorem C07_flush_makes_visible (append : Bool) (stored : Bytes) (ops : List WOp) :
    (runW (if append then openAppend stored else openWrite stored) stored (ops ++ [.flush])).2 =
      (if append then stored else []) ++ chunksOf ops := by
  rw [Lemmas.runW_flush_last]; cases append <;> rfl

/-- how the data is split into chunks does not matter -/
theorem C07_chunking_irrelevant (append : Bool) (stored : Bytes) (ops ops' : List WOp)
    (h : chunksOf ops = chunksOf ops') : writeSession append stored ops = writeSession append stored ops' := by
  rw [Lemmas.writeSession_eq, Lemmas.writeSession_eq, h]

-- non-vacuity / sanity (tests, labelled as such)
example : File.runOps ⟨0, [1, 2, 3]⟩ [.seek .start 10, .read 2, .seek .current (-11), .seek .endw (-1), .read 5] =
    [.pos 10, .bytes [], .err .ioInvalidInput, .pos 2, .bytes [3]] := by decide
example : writeSession true [1] [.write [2], .flush, .write [3]] = [1, 2, 3] := by decide

end Rivia.Props
