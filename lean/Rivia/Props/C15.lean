import Rivia.Model.Path
import Rivia.Spec.PathLaws
namespace Rivia.Props
open Rivia Rivia.Spec
theorem C15_placeholder : parsePaths = parsePathsSpec := rfl
end Rivia.Props
