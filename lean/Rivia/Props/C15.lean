/-
  C15 — path helpers obey their inverse and containment laws on all UTF-8 input.
  Property theorems ONLY (helper lemmas live in Rivia/Lemmas/*).
-/
import Rivia.Model.Path
import Rivia.Spec.PathLaws
import Rivia.Lemmas.PathLaws

namespace Rivia.Props
open Rivia Rivia.Spec Rivia.Str

/-! ### mash -/

/-- the components of `mash d p` are those of `d` followed by those of `p` with every leading
    separator removed -/
theorem C15_mash_components (d p : Str) : components (mash d p) = mashComps d p :=
  Lemmas.mash_components d p

/-- so the result always stays lexically under `d` -/
theorem C15_mash_stays_under (d p : Str) (hd : d ≠ []) : components d <+: components (mash d p) :=
  Lemmas.mash_stays_under d p hd

/-- and is the canonical rendering (no trailing / repeated separator): re-collecting its
    components gives the string back -/
theorem C15_mash_canonical (d p : Str) : render (components (mash d p)) = mash d p :=
  Lemmas.mash_canonical d p

/-! ### trim_prefix / trim_suffix (the byte-slicing code as written, `none` = panic) -/

theorem C15_trim_prefix_eq_spec (p s : Str) : trimPrefixO p s = some (trimPrefixSpec p s) :=
  Lemmas.trimPrefixO_eq_spec p s
theorem C15_trim_prefix_inverse (s p : Str) : trimPrefixO (s ++ p) s = some p :=
  Lemmas.trimPrefixO_append s p
theorem C15_trim_prefix_unchanged (p s : Str) (h : ¬ s <+: p) : trimPrefixO p s = some p :=
  Lemmas.trimPrefixO_of_not_prefix h
theorem C15_trim_suffix_eq_spec (p s : Str) : trimSuffixO p s = some (trimSuffixSpec p s) :=
  Lemmas.trimSuffixO_eq_spec p s
theorem C15_trim_suffix_inverse (p s : Str) : trimSuffixO (p ++ s) s = some p :=
  Lemmas.trimSuffixO_append p s
theorem C15_trim_suffix_unchanged (p s : Str) (h : ¬ s <:+ p) : trimSuffixO p s = some p :=
  Lemmas.trimSuffixO_of_not_suffix h

/-! ### ext / trim_ext / name -/

/-- domain of the two laws below: the string ends with its last component (no trailing
    separator or `/.`); outside it: known finding `trim_ext_trailing_sep` -/
def EndsWithFileName (p : Str) : Prop := ∃ n, fileName p = some n ∧ n <:+ p

def C15_trim_ext_ext_full : Prop :=
  ∀ p e, ext p = .ok e → ∃ t, trimExt p = .ok t ∧ components (t ++ '.' :: e) = components p

theorem C15_trim_ext_ext_partial (p e : Str) (h : ext p = .ok e) (hd : EndsWithFileName p) :
    ∃ t, trimExt p = .ok t ∧ t ++ '.' :: e = p := by
  obtain ⟨n, hn, hsuf⟩ := hd
  obtain ⟨X, stem, hp, _, _, ht⟩ := Lemmas.trimExt_of_extension (Lemmas.ext_ok h) hn hsuf
  exact ⟨X ++ stem, ht, hp.symm⟩

/-- without an extension `trim_ext` is the identity -/
theorem C15_trim_ext_no_ext (p : Str) (h : extension p = none) : trimExt p = .ok p :=
  Lemmas.trimExt_no_ext h

def C15_name_full : Prop := ∀ p, name p = nameSpec p

/-- `name` is the last component without its extension; outside the domain: known findings
    `trim_ext_trailing_sep` and `name_stem_is_dot` -/
theorem C15_name_partial (p : Str) (hd : extension p = none ∨ EndsWithFileName p)
    (hs : nameSpec p ≠ .ok ['.'] ∨ (components p).length < 2) : name p = nameSpec p := by
  cases he : extension p with
  | none => exact Lemmas.name_of_no_ext he
  | some e =>
    rcases hd with hd | ⟨n, hn, hsuf⟩
    · rw [he] at hd; cases hd
    · exact Lemmas.name_of_ext he hn hsuf hs

theorem C15_finding_trim_ext_trailing_sep :
    ext "a.b/".toList = .ok "b".toList ∧ trimExt "a.b/".toList = .ok "a.b/".toList ∧
    name "a.b/".toList = .ok "a.b".toList ∧ nameSpec "a.b/".toList = .ok "a".toList := by decide

theorem C15_finding_name_stem_is_dot :
    name "/..a".toList = .ok "/".toList ∧ nameSpec "/..a".toList = .ok ".".toList := by decide

theorem C15_trim_ext_ext_full_is_false : ¬ C15_trim_ext_ext_full := by
  intro h
  obtain ⟨t, ht, hc⟩ := h "a.b/".toList "b".toList (by decide)
  have h1 : trimExt "a.b/".toList = .ok "a.b/".toList := by decide
  rw [h1] at ht
  simp only [Outcome.ok.injEq] at ht
  subst ht
  revert hc
  decide

theorem C15_name_full_is_false : ¬ C15_name_full := by
  intro h
  have := h "a.b/".toList
  revert this
  decide

/-! ### dir/base, first/trim_first, last/trim_last split off exactly one component -/

theorem C15_dir_splits_last (p d : Str) (h : dir p = .ok d) :
    components d = (components p).dropLast ∧
    ∃ c, (components p).getLast? = some c ∧ c ≠ .root ∧ base p = .ok c.str :=
  Lemmas.dir_splits_last p d h

theorem C15_dir_error_iff (p : Str) :
    (∃ k, dir p = .err k) ↔ (components p = [] ∨ components p = [.root]) :=
  Lemmas.dir_error_iff p

theorem C15_base_is_last (p : Str) :
    base p = Outcome.ofOption .iterItemNotFound ((components p).getLast?.map Comp.str) := by
  unfold base; cases (components p).getLast? <;> rfl

theorem C15_first_is_head (p : Str) :
    first p = Outcome.ofOption .iterItemNotFound ((components p).head?.map Comp.str) := by
  unfold first; cases (components p).head? <;> rfl

theorem C15_trim_first_is_tail (p : Str) : components (trimFirst p) = (components p).tail :=
  Lemmas.trimFirst_is_tail p

theorem C15_trim_last_is_init (p : Str) : components (trimLast p) = (components p).dropLast :=
  Lemmas.trimLast_is_init p

theorem C15_last_eq_base (p : Str) : last p = base p := rfl

/-! ### has / has_prefix / has_suffix agree with string containment -/

theorem C15_has_iff (p v : Str) : has p v = true ↔ IsInfix v p := Lemmas.contains_iff p v
theorem C15_has_prefix_iff (p v : Str) : hasPrefix p v = true ↔ ∃ b, p = v ++ b :=
  Lemmas.hasPrefix_iff p v
theorem C15_has_suffix_iff (p v : Str) : hasSuffix p v = true ↔ ∃ a, p = a ++ v :=
  Lemmas.hasSuffix_iff p v

/-! ### trim_protocol, concat, parse_paths -/

theorem C15_trim_protocol (p : Str) : trimProtocol p = trimProtocolSpec p :=
  Lemmas.trimProtocol_eq_spec p

theorem C15_concat (p s : Str) : concat p s = p ++ s := rfl

theorem C15_parse_paths (s : Str) : parsePaths s = (splitOn ':' s).filter (fun x => x ≠ []) := rfl

/-- the pieces really are the `:`-separated segments: joining them back gives the input, and no
    returned path is empty or contains `:` -/
theorem C15_parse_paths_segments (s : Str) :
    joinWith ':' (splitOn ':' s) = s ∧ ∀ x ∈ parsePaths s, x ≠ [] ∧ ':' ∉ x :=
  Lemmas.parsePaths_segments s

-- non-vacuity / sanity (tests, labelled as such)
example : mash "/foo".toList "//bar".toList = "/foo/bar".toList := by decide
example : EndsWithFileName "x/a.b".toList := ⟨"a.b".toList, by decide, by decide⟩
example : trimProtocol "HTTPS://x//y".toList = "x//y".toList := by decide

end Rivia.Props
