/-
  C17 — "expand() substitutes ~ and environment variables exactly, in every environment".
  Property theorems ONLY (helper lemmas live in Rivia/Lemmas/Expand.lean; the specification,
  the grammar of a component and the domain predicates in Rivia/Spec/Expand.lean).

  Model: the REPAIRED scanner (`expandSeg` reads a variable name iff a '$' was consumed, so a
  component ending in a bare '$' has an empty variable name and fails).  The former finding
  "trailing '$' silently dropped" (`expand "a$" = "a"`) is gone: `C17_trailing_dollar_rejected`.

  Status
    full     : C17_no_special_identity, C17_tilde_only, C17_tilde_slash, the three tilde error
               theorems, C17_total, C17_scanner_fuel, C17_spec_errors (spec side, all inputs),
               C17_errors / C17_agree / C17_agree_sharp (every input the specification specifies:
               `DSpec` = no normal component is `Spec.Ambiguous`; no trailing-'$' exclusion any more)
    partial  : C17_vars_partial (domain `D`: every normal component well-formed, not Ambiguous;
               there code = specification literally, error kinds included)
    refuted  : C17_full (literal equality with `expandSpec` on ALL inputs) — only by inputs on
               which the property text demands nothing: the order of error kinds ("$a$$", not a
               violation) and the unspecified class `Ambiguous` ("${V")
    recorded : unbalanced braces (unspecified), order of error kinds inside one component
               (unspecified), absolute value replaces the path built so far (pinned by the
               repository's own test)
-/
import Rivia.Model.Path
import Rivia.Spec.Expand
import Rivia.Lemmas.Expand

namespace Rivia.Props
open Rivia Rivia.Spec Rivia.Str

/-! ### text without '~' and '$' -/

/-- text containing neither '~' nor '$' is returned unchanged, in every environment -/
theorem C17_no_special_identity (env : Env) (s : Str) (h1 : '~' ∉ s) (h2 : '$' ∉ s) :
    expand env s = .ok s :=
  Lemmas.Expand.expand_of_tilde_ok
    (Lemmas.Expand.tildeSpec_none env (List.count_eq_zero.mpr h1)) h2

/-! ### the tilde -/

/-- `~` alone is `$HOME` -/
theorem C17_tilde_only (env : Env) (h : Str) (hh : env "HOME".toList = some h) (hd : '$' ∉ h) :
    expand env ['~'] = .ok h :=
  Lemmas.Expand.expand_of_tilde_ok
    (by rw [Lemmas.Expand.tildeSpec_home, homeSpec, hh]) hd

/-- `~/rest` is `rest` below `$HOME` (`mash`: the components of `$HOME` followed by those of
    `rest`, C15) -/
theorem C17_tilde_slash (env : Env) (h rest : Str) (hh : env "HOME".toList = some h)
    (hd : '$' ∉ h) (ht : '~' ∉ rest) (hr : '$' ∉ rest) :
    expand env ('~' :: '/' :: rest) = .ok (mash h rest) :=
  Lemmas.Expand.expand_of_tilde_ok
    (by rw [Lemmas.Expand.tildeSpec_home_slash env ht, homeSpec, hh]; rfl)
    (Lemmas.Expand.dollar_not_mem_mash hd hr)

/-- more than one '~' fails -/
theorem C17_multiple_tilde_error (env : Env) (s : Str) (h : 2 ≤ s.count '~') :
    expand env s = .err .multipleHomeSymbols :=
  Lemmas.Expand.expand_of_tilde_err (Lemmas.Expand.tildeSpec_multiple env h)

/-- a single '~' that is not the whole string and not followed by a separator fails -/
theorem C17_misplaced_tilde_error (env : Env) (s : Str) (h1 : s.count '~' = 1)
    (h : ¬ (s = ['~'] ∨ ['~', '/'] <+: s)) : expand env s = .err .invalidExpansion :=
  Lemmas.Expand.expand_of_tilde_err (Lemmas.Expand.tildeSpec_misplaced env h1 h)

/-- a well placed '~' with `$HOME` unset fails -/
theorem C17_home_unset_error (env : Env) (s : Str) (h1 : s.count '~' = 1)
    (h : s = ['~'] ∨ ['~', '/'] <+: s) (hh : env "HOME".toList = none) :
    expand env s = .err .var := by
  apply Lemmas.Expand.expand_of_tilde_err
  rcases Lemmas.Expand.wellPlaced_cases h1 h with h | ⟨rest, h, hr⟩
  · subst h; rw [Lemmas.Expand.tildeSpec_home, homeSpec, hh]
  · subst h; rw [Lemmas.Expand.tildeSpec_home_slash env hr, homeSpec, hh]; rfl

/-! ### variables -/

/-- Literal equality of code and specification on every input, including the inputs the
    specification declares unspecified (`Ambiguous`) and including the kind of the error when a
    component has two defects.  FALSE (`C17_full_false` below), but no longer by a violation:
    see `C17_agree_sharp` for what holds on every specified input. -/
def C17_full : Prop := ∀ (env : Env) (s : Str), expand env s = expandSpec env s

/-- In the domain `D` (decidable: every normal component of the tilde-expanded path is
    well-formed for the grammar of `Spec/Expand.lean` and not `Ambiguous`) the code computes
    exactly the specification: each `$NAME` / `${NAME}` is replaced by the variable's value,
    with the same error and the same error kind when the specification fails. -/
theorem C17_vars_partial (env : Env) (s : Str) (h : D env s = true) :
    expand env s = expandSpec env s :=
  Lemmas.Expand.expand_eq_spec_of_D env s h

/-- environment of the examples: `HOME=/h`, `V=val` -/
def exEnv : Env := fun k =>
  if k = "V".toList then some "val".toList
  else if k = "HOME".toList then some "/h".toList else none

/-- non-vacuity: a path with a tilde and both reference forms lies in `D` -/
example : D exEnv "~/a${V}/$V".toList = true ∧
    expand exEnv "~/a${V}/$V".toList = .ok "/h/aval/val".toList := by decide

/-- non-vacuity: an unset variable lies in `D` as well (the error is part of the agreement) -/
example : D exEnv "x/$W".toList = true ∧ expand exEnv "x/$W".toList = .err .var := by decide

/-! ### failures -/

/-- The specification itself fails exactly for the documented reasons (every input). -/
theorem C17_spec_errors (env : Env) (s : Str) :
    (∃ k, expandSpec env s = .err k) ↔
      MultipleTilde s ∨ MisplacedTilde s ∨ HomeUnset env s ∨ EmptyVarName env s ∨ UnsetVar env s :=
  Lemmas.Expand.expandSpec_err_iff env s

/-- The error clause of the property at full strength, on every input the specification
    specifies (`DSpec`, decidable: no normal component of the tilde-expanded path is `Ambiguous`;
    malformed components such as `$$`, `a$$b` and — since the repair — `a$` are inside):
    the code fails iff one of the documented reasons holds: more than one '~', a misplaced '~',
    `$HOME` unset, an empty variable name, an unset variable. -/
theorem C17_errors (env : Env) (s : Str) (h : Lemmas.Expand.DSpec env s = true) :
    (∃ k, expand env s = .err k) ↔
      MultipleTilde s ∨ MisplacedTilde s ∨ HomeUnset env s ∨ EmptyVarName env s ∨ UnsetVar env s := by
  rw [(Lemmas.Expand.expand_agree_of_DSpec env s h).err_iff]
  exact Lemmas.Expand.expandSpec_err_iff env s

/-- on every specified input the code and the specification are equal, or both fail -/
theorem C17_agree (env : Env) (s : Str) (h : Lemmas.Expand.DSpec env s = true) :
    expand env s = expandSpec env s ∨
      ((∃ k, expand env s = .err k) ∧ ∃ k, expandSpec env s = .err k) :=
  Lemmas.Expand.expand_agree_of_DSpec env s h

/-- the sharp form: on every specified input the code computes the specification, except that a
    malformed component in which an unset variable is met before the malformed spot is reported
    as `Var` where the specification says `InvalidExpansion` (the property text does not order the
    reasons, see `C17_finding_error_kind_order`) -/
theorem C17_agree_sharp (env : Env) (s : Str) (h : Lemmas.Expand.DSpec env s = true) :
    expand env s = expandSpec env s ∨
      (expand env s = .err .var ∧ expandSpec env s = .err .invalidExpansion) :=
  Lemmas.Expand.expand_sharp_of_DSpec env s h

/-- consequence: whenever the specification succeeds on a specified input, the code returns
    exactly that path -/
theorem C17_spec_ok (env : Env) (s p : Str) (h : Lemmas.Expand.DSpec env s = true)
    (hs : expandSpec env s = .ok p) : expand env s = .ok p := by
  rcases C17_agree_sharp env s h with h1 | ⟨_, h2⟩
  · rw [h1, hs]
  · rw [hs] at h2; cases h2

/-- `DSpec` is exactly "no normal component of the tilde-expanded path is `Ambiguous`" -/
theorem C17_DSpec_iff (env : Env) (s : Str) :
    Lemmas.Expand.DSpec env s = true ↔
      ∀ p, tildeSpec env s = .ok p → ∀ y, Comp.normal y ∈ components p → Ambiguous y = false := by
  unfold Lemmas.Expand.DSpec
  cases ht : tildeSpec env s with
  | ok p =>
    simp only [List.all_eq_true]
    constructor
    · intro h q hq y hy
      injection hq with hq; subst hq
      simpa [Lemmas.Expand.compUnamb] using h _ hy
    · intro h c hc
      cases c with
      | normal y => simpa [Lemmas.Expand.compUnamb] using h p rfl y hc
      | root => rfl
      | cur => rfl
      | parent => rfl
  | err k => exact ⟨fun _ q hq => (nomatch hq), fun _ => rfl⟩
  | panic => exact ⟨fun _ q hq => (nomatch hq), fun _ => rfl⟩
  | hang => exact ⟨fun _ q hq => (nomatch hq), fun _ => rfl⟩

theorem C17_D_subset_DSpec (env : Env) (s : Str) (h : D env s = true) :
    Lemmas.Expand.DSpec env s = true :=
  Lemmas.Expand.DSpec_of_D h

/-- the domain `Spec.DErr` of the pre-repair theorem (`DSpec` minus the trailing-'$' class) is
    inside `DSpec`: the old partial theorem is subsumed by `C17_errors` -/
theorem C17_DErr_subset_DSpec (env : Env) (s : Str) (h : DErr env s = true) :
    Lemmas.Expand.DSpec env s = true :=
  Lemmas.Expand.DSpec_of_DErr h

/-- the same inside `D`, where no component is malformed -/
theorem C17_errors_in_D (env : Env) (s : Str) (h : D env s = true) :
    (∃ k, expand env s = .err k) ↔
      MultipleTilde s ∨ MisplacedTilde s ∨ HomeUnset env s ∨ UnsetVar env s := by
  rw [C17_errors env s (Lemmas.Expand.DSpec_of_D h)]
  have hn := Lemmas.Expand.not_emptyVarName_of_D h
  constructor
  · rintro (h | h | h | h | h)
    · exact Or.inl h
    · exact Or.inr (Or.inl h)
    · exact Or.inr (Or.inr (Or.inl h))
    · exact absurd h hn
    · exact Or.inr (Or.inr (Or.inr h))
  · rintro (h | h | h | h)
    · exact Or.inl h
    · exact Or.inr (Or.inl h)
    · exact Or.inr (Or.inr (Or.inl h))
    · exact Or.inr (Or.inr (Or.inr (Or.inr h)))

/-- non-vacuity of `DSpec` outside `D`: an empty variable name is rejected -/
example : Lemmas.Expand.DSpec exEnv "a/$$V".toList = true ∧ D exEnv "a/$$V".toList = false ∧
    expand exEnv "a/$$V".toList = .err .invalidExpansion := by decide

/-- non-vacuity of `DSpec` outside the old `DErr`: the trailing-'$' class is inside now -/
example : Lemmas.Expand.DSpec exEnv "x/a$".toList = true ∧ DErr exEnv "x/a$".toList = false ∧
    expand exEnv "x/a$".toList = .err .invalidExpansion := by decide

/-- `expand` never panics or hangs: it returns a path or an error (every input) -/
theorem C17_total (env : Env) (s : Str) :
    (∃ p, expand env s = .ok p) ∨ ∃ k, expand env s = .err k :=
  Lemmas.Expand.expand_cases env s

/-! ### the repaired finding: a trailing '$' -/

/-- formerly FINDING (a) (`expand "a$" = "a"`, the '$' silently dropped).  With the repaired
    scanner a trailing bare '$' is an empty variable name and fails, in every environment -/
theorem C17_trailing_dollar_rejected (env : Env) :
    expand env "a$".toList = .err .invalidExpansion := rfl

/-- ... which is what the specification demands of "a$" -/
theorem C17_trailing_dollar_spec (env : Env) :
    parseComp "a$".toList = none ∧ expandSpec env "a$".toList = .err .invalidExpansion :=
  ⟨by decide, rfl⟩

/-- generally: the scanner rejects every component whose only '$' is its last character -/
theorem C17_trailing_dollar_component (env : Env) (pre : Str) (hp : '$' ∉ pre) :
    expandSeg env ((pre ++ ['$']).length + 1) (pre ++ ['$']) [] = .err .invalidExpansion :=
  Lemmas.Expand.seg_lit_trailing_dollar env hp []

/-! ### recorded observations -/

/-- OBSERVATION (b), recorded, not claimed as a violation (both inputs are `Ambiguous`): unbalanced
    braces are accepted, `${V` and `$V}` expand like `${V}` -/
theorem C17_finding_unbalanced_braces :
    expand exEnv "${V}".toList = .ok "val".toList ∧
    expand exEnv "${V".toList = .ok "val".toList ∧
    expand exEnv "$V}".toList = .ok "val".toList ∧
    Ambiguous "${V".toList = true ∧ Ambiguous "$V}".toList = true ∧
    Ambiguous "${V}".toList = false := by decide

/-- recorded, not a violation: when a component is malformed AND references an unset variable
    the code reports whichever it meets first; the specification says `InvalidExpansion`
    (the property text does not order the reasons).  Both fail. -/
theorem C17_finding_error_kind_order :
    expand (fun _ => none) "$a$$".toList = .err .var ∧
    expandSpec (fun _ => none) "$a$$".toList = .err .invalidExpansion := by decide

/-- `C17_full` (literal equality everywhere) stays false, by the unordered error kinds — an
    input that is NOT `Ambiguous` (so `C17_agree_sharp` applies to it: both fail) -/
theorem C17_full_false : ¬ C17_full := by
  intro h
  have := h (fun _ => none) "$a$$".toList
  rw [C17_finding_error_kind_order.1, C17_finding_error_kind_order.2] at this
  cases this

/-- ... and by the unspecified class: "${V" expands like "${V}" although the grammar rejects it -/
theorem C17_full_false_ambiguous :
    expand exEnv "${V".toList ≠ expandSpec exEnv "${V".toList ∧ Ambiguous "${V".toList = true := by
  decide

/-- the domain hypothesis of `C17_errors` cannot be dropped: on the `Ambiguous` input "${V" the
    code succeeds although the component is malformed for the grammar -/
theorem C17_errors_needs_DSpec :
    Lemmas.Expand.DSpec exEnv "${V".toList = false ∧
    (∃ p, expand exEnv "${V".toList = .ok p) ∧ EmptyVarName exEnv "${V".toList := by
  refine ⟨by decide, ⟨_, C17_finding_unbalanced_braces.2.1⟩, ?_⟩
  exact ⟨"${V".toList, by decide, by decide, .normal "${V".toList, by decide, by decide⟩

/-! ### sanity of the specification's grammar (what `parseComp` accepts) -/

/-- a non-empty component without '$' is one literal -/
theorem C17_grammar_literal (y : Str) (hy : y ≠ []) (hd : '$' ∉ y) :
    parseComp y = some [Tok.lit y] := by
  have := Lemmas.Expand.parseComp_append_lit (lit := y) (x := []) hy hd (fun c hc => nomatch hc)
  rwa [List.append_nil] at this

/-- `$NAME` followed by the end or by a further '$' is a variable reference -/
theorem C17_grammar_plain (name x : Str) (hn : name ≠ []) (ha : ∀ c ∈ name, isNameChar c = true)
    (hx : x = [] ∨ x.head? = some '$') :
    parseComp ('$' :: (name ++ x)) = (parseComp x).map (Tok.var name :: ·) :=
  Lemmas.Expand.parseComp_plain_ok hn ha (by
    intro c hc
    rcases hx with hx | hx
    · subst hx; cases hc
    · rw [hx] at hc; injection hc with hc; subst hc; rfl)

/-- `${NAME}` is a variable reference, whatever follows -/
theorem C17_grammar_braced (name x : Str) (hn : name ≠ []) (ha : ∀ c ∈ name, isNameChar c = true) :
    parseComp ('$' :: '{' :: (name ++ '}' :: x)) = (parseComp x).map (Tok.var name :: ·) :=
  Lemmas.Expand.parseComp_braced_ok hn ha

/-- a '$' at the end of a component, or directly followed by another '$', is malformed -/
theorem C17_grammar_empty_name (pre x : Str) (hp : '$' ∉ pre) :
    parseComp (pre ++ ['$']) = none ∧ parseComp (pre ++ '$' :: '$' :: x) = none := by
  have h1 : parseComp ['$'] = none := by decide
  have h2 : parseComp ('$' :: '$' :: x) = none := by
    rw [Lemmas.Expand.parseComp_plain (by simp)]
    simp [isNameChar]
  cases pre with
  | nil => exact ⟨h1, h2⟩
  | cons c l =>
    rw [Lemmas.Expand.parseComp_append_lit (by simp) hp (by simp),
      Lemmas.Expand.parseComp_append_lit (by simp) hp (by simp), h1, h2]
    exact ⟨rfl, rfl⟩

/-! ### the scanner -/

/-- the fuel `y.length + 1` that `expand` gives the per-component scanner is enough: any larger
    fuel computes the same result -/
theorem C17_scanner_fuel (env : Env) (y acc : Str) (f : Nat) (h : y.length + 1 ≤ f) :
    expandSeg env f y acc = expandSeg env (y.length + 1) y acc :=
  Lemmas.Expand.expandSeg_fuel env f (y.length + 1) y acc (by omega) (by omega)

/-! ### behaviour (c): an absolute value replaces what was built before it -/

/-- Documentation of behaviour (c) (a one-line corollary of the definitions, `PathBuf::push`
    semantics; pinned by the repository's own unit test, NOT counted as a violation — the
    specification pushes substituted components too): if a component expands to a text starting
    with '/', everything pushed before it is discarded. -/
theorem C17_absolute_value_replaces (env : Env) (y x buf : Str) (cs : List Comp)
    (h : expandSeg env (y.length + 1) y [] = .ok x) (hx : isRooted x = true) :
    expandComps env (.normal y :: cs) buf = expandComps env cs x := by
  simp only [expandComps, h, push, hx, if_true]

/-- the repository's unit test, for every environment with an absolute `$HOME` -/
theorem C17_absolute_value_replaces_example (env : Env) (h : Str)
    (hh : env "HOME".toList = some h) (hr : isRooted h = true) :
    expand env "/foo/${HOME}".toList = .ok h :=
  Lemmas.Expand.expand_foo_home env h hh hr

end Rivia.Props
