/-
  C02RM — finding `remove_below_file` (property C02, "backends interchangeable") REPAIRED.

  Before the repair `Memfs::remove(p)` of a path that does not exist went on to its parent: after the
  "directory contains files" check it took `path.dir()?`, looked the parent entry up and called
  `MemfsEntry::remove(name)` on it, which fails with `IsNotDir` when the parent entry is a regular file
  or a link.  `Stdfs::remove` returns `Ok(())` for every path whose `symlink_metadata` fails (a path
  below a regular file is `ENOTDIR`), so the two backends disagreed on `remove("/f/x")` with `/f` a file.
  The repair inserts `if !guard.contains_entry(&path) { return Ok(()); }` after the emptiness check
  and before the parent is touched (`removeM` in Model/Memfs.lean mirrors it).

  Here:
  * `C02RM_remove_missing_ok`        — Memfs model: `remove` of a path that resolves to a key that is not an
                                       entry is `Ok(())` and changes nothing, WHATEVER the parent is
                                       (missing, directory, regular file, link);
  * `C02RM_stdfs_remove_lstat_err`,
    `C02RM_stdfs_remove_missing_ok`  — Stdfs model, any tree (no well-formedness needed): `Ok(())`, tree
                                       unchanged, as soon as `lstat` of the resolved key fails / the key is
                                       not a node;
  * `C02RM_backends_agree_missing`   — both models side by side, the Stdfs model started on `absS s`: both
                                       answer `Ok(())` and the states stay related (hypothesis: the cwd is
                                       a directory, otherwise `Stdfs::abs` itself fails for a relative path
                                       — finding S10 of Props/C02, unrelated to `remove`);
  * `C02RM_remove_root`              — `path.dir()?` is still reached for the root (`remove("/")`, the root
                                       always exists): the call fails and changes nothing, as before;
  * `C02RM_key_witness`, `C02RM_old_witness_repaired` — the old disagreement is a point of agreement
                                       (parent a regular file, and parent a link).
  The refinement theorem of C01 (`C01_remove_refines`, Props/C01B) keeps its statement: the reference
  `TreeFs.remove` answers `.unspecified` for a missing path below a non-directory, `.ok` otherwise.
-/
import Rivia.Lemmas.RemoveMissing

namespace Rivia.Props
open Rivia Rivia.Memfs Rivia.Spec Rivia.Spec.TreeFs

/-- **the repair (Memfs)**: `remove` of a path that does not exist is `Ok(())` and the state is
    unchanged — no hypothesis on the parent of the path, none on the state -/
theorem C02RM_remove_missing_ok (env : Env) (s : State) (p : Str) (k : FsPath)
    (ha : absM env p s = (.ok k, s)) (hk : alLookup k s.entries = none) :
    step env s (.remove p) = (.ok .unit, s) :=
  Lemmas.RemoveMissing.step_remove_absent ha hk

/-- **Stdfs**: `remove` is `Ok(())`, tree unchanged, whenever `symlink_metadata` of the resolved path
    fails, with any errno (any tree, no well-formedness hypothesis) -/
theorem C02RM_stdfs_remove_lstat_err (env : Env) (t : T) (p : Str) (k : FsPath) (e : Posix.Errno)
    (ha : Stdfs.absK env t p = .ok k) (he : Posix.lstat t k = .error e) :
    Stdfs.step env t (.remove p) = (.ok .unit, t) :=
  Lemmas.RemoveMissing.stdfs_remove_lstat_err ha he

/-- … in particular when the resolved key is not a node of the tree -/
theorem C02RM_stdfs_remove_missing_ok (env : Env) (t : T) (p : Str) (k : FsPath)
    (ha : Stdfs.absK env t p = .ok k) (hk : get t k = none) :
    Stdfs.step env t (.remove p) = (.ok .unit, t) :=
  Lemmas.RemoveMissing.stdfs_remove_absent ha hk

/-- **both backends**: the Stdfs model started on the abstraction of the Memfs state.  For a path that
    resolves to a missing key both answer `Ok(())`, neither changes its state (so the post-states are
    still related by `absS`).  `isDirP s s.cwd` (the cwd is a directory) only makes `Stdfs::abs` succeed. -/
theorem C02RM_backends_agree_missing (env : Env) (s : State) (p : Str) (k : FsPath)
    (ha : absM env p s = (.ok k, s)) (hk : alLookup k s.entries = none) (hc : isDirP s s.cwd = true) :
    step env s (.remove p) = (.ok .unit, s) ∧
    Stdfs.step env (absS s) (.remove p) = (.ok .unit, absS s) ∧
    absS (step env s (.remove p)).2 = (Stdfs.step env (absS s) (.remove p)).2 := by
  have h1 := C02RM_remove_missing_ok env s p k ha hk
  have h2 := C02RM_stdfs_remove_missing_ok env (absS s) p k
    (Lemmas.RemoveMissing.absK_absS ha hc) (Lemmas.RemoveMissing.get_absS_none hk)
  exact ⟨h1, h2, by rw [h1, h2]⟩

/-- `path.dir()?` still runs for a path that exists: `remove("/")` (the root entry always exists) fails
    — `DirContainsFiles` for a non-empty root, `ParentNotFound` otherwise — and changes nothing -/
theorem C02RM_remove_root (env : Env) (s : State) (p : Str) (e : Entry)
    (ha : absM env p s = (.ok [], s)) (he : alLookup [] s.entries = some e) :
    step env s (.remove p) =
      (.err (match e.files with | some (_ :: _) => .dirContainsFiles | _ => .parentNotFound), s) := by
  show mapVal (fun _ => Val.unit) (removeM env p) s = _
  unfold mapVal
  rw [Lemmas.RefineB.removeM_eq]
  simp only [Lemmas.RefineB.bind_apply, ha]
  unfold Lemmas.RefineB.removeK
  cases hf : e.files with
  | none =>
    simp only [Lemmas.RefineB.getEntry_bind, he, hf, Lemmas.RefineB.mpure_bind, Option.isNone_some,
      Bool.false_eq_true, if_false, Lemmas.RefineB.dirOf_bind, if_true]
  | some fs =>
    cases fs with
    | nil =>
      simp only [Lemmas.RefineB.getEntry_bind, he, hf, Lemmas.RefineB.mpure_bind, Option.isNone_some,
        Bool.false_eq_true, if_false, Lemmas.RefineB.dirOf_bind, if_true, List.isEmpty_nil, Bool.not_true]
    | cons n ns =>
      simp only [Lemmas.RefineB.getEntry_bind, he, hf, List.isEmpty_cons, Bool.not_false, if_true,
        Lemmas.RefineB.fail_bind]

/-! ### the old witness -/

namespace C02RMWitness
def envN : Env := fun _ => none
def pf : Str := ['/', 'f']
def pl : Str := ['/', 'l']
def pfx : Str := ['/', 'f', '/', 'x']
def plx : Str := ['/', 'l', '/', 'x']
/-- Memfs after `mkfile("/f")`, `symlink("/l", "/f")` -/
def sRM : State := run envN Memfs.init [.mkfile pf, .symlink pl pf]
/-- Stdfs after the same calls -/
def tRM : T := Stdfs.run envN Stdfs.init [.mkfile pf, .symlink pl pf]
end C02RMWitness
open C02RMWitness

/-- key level (no string pipeline): the parent `/f` of the missing key `/f/x` is a regular file, the
    parent `/l` of `/l/x` a link; `remove` of both keys is `Ok(())` and changes nothing (the pre-repair
    model answered `IsNotDir`) -/
theorem C02RM_key_witness :
    (alLookup [['f']] sRM.entries).map (fun e => (e.file, e.dir, e.link)) = some (true, false, false) ∧
    (alLookup [['l']] sRM.entries).map (fun e => (e.file, e.dir, e.link)) = some (true, false, true) ∧
    alLookup [['f'], ['x']] sRM.entries = none ∧ alLookup [['l'], ['x']] sRM.entries = none ∧
    Lemmas.RefineB.removeK [['f'], ['x']] sRM = (.ok (), sRM) ∧
    Lemmas.RefineB.removeK [['l'], ['x']] sRM = (.ok (), sRM) :=
  ⟨by decide, by decide, by decide, by decide,
   Lemmas.RefineB.removeK_absent (by decide), Lemmas.RefineB.removeK_absent (by decide)⟩

/-- `mkfile("/f"); symlink("/l", "/f")`, then `remove("/f/x")` / `remove("/l/x")`: both backends answer
    `Ok(())` and change nothing; the hypotheses of `C02RM_backends_agree_missing` hold at `sRM` -/
theorem C02RM_old_witness_repaired :
    absS sRM = tRM ∧ isDirP sRM sRM.cwd = true ∧
    absM envN pfx sRM = (.ok [['f'], ['x']], sRM) ∧ absM envN plx sRM = (.ok [['l'], ['x']], sRM) ∧
    step envN sRM (.remove pfx) = (.ok .unit, sRM) ∧ Stdfs.step envN tRM (.remove pfx) = (.ok .unit, tRM) ∧
    step envN sRM (.remove plx) = (.ok .unit, sRM) ∧ Stdfs.step envN tRM (.remove plx) = (.ok .unit, tRM) := by
  have h0 : absS sRM = tRM := by decide
  have hc : isDirP sRM sRM.cwd = true := by decide
  have h1 : absM envN pfx sRM = (.ok [['f'], ['x']], sRM) := by decide
  have h2 : absM envN plx sRM = (.ok [['l'], ['x']], sRM) := by decide
  have a1 := C02RM_backends_agree_missing envN sRM pfx _ h1 (by decide) hc
  have a2 := C02RM_backends_agree_missing envN sRM plx _ h2 (by decide) hc
  rw [h0] at a1 a2
  exact ⟨h0, hc, h1, h2, a1.1, a1.2.1, a2.1, a2.2.1⟩

end Rivia.Props
