/-
  C13 — the Vfs and VfsEntry enums are transparent wrappers.
  The table `Rivia.Generated.Dispatch` is REGENERATED from /repo on every run by
  /verif/tools/scan_rust.py; the theorems below are re-proved against it by `decide`.
  A match arm that calls another method, reorders or drops a parameter, adds a wrapper, a missing
  or extra method, or a body of any other shape makes `decide` fail.
-/
import Rivia.Generated.Dispatch

namespace Rivia.Props
open Rivia.Generated

/-- an arm calls the same-named method on the bound value with the parameters in order -/
def armOk (f : Fn) (allowUpcast : Bool) (a : Arm) : Bool :=
  a.callee == f.name && a.args == f.params && (a.wrapper == none || (allowUpcast && a.wrapper == some idUpcast))

/-- a body is `match self { E::Stdfs(x) => x.m(args), E::Memfs(x) => x.m(args) }` -/
def dispatchOk (allowUpcast : Fn → Bool) (f : Fn) : Bool :=
  match f.body with
  | .dispatch arms => arms.map (·.variant) == [idStdfs, idMemfs] && arms.all (armOk f (allowUpcast f))
  | _ => false

def exactlyOne (impl : List Fn) (m : Nat) : Bool := (impl.filter (·.name == m)).length == 1

/-- every method of `VirtualFileSystem` has exactly one body in `impl VirtualFileSystem for Vfs`,
    with the declared parameters, and that body is a transparent two-arm dispatch -/
theorem C13_vfs_arms_transparent :
    vfsImpl.length = traitVfs.length ∧
    (traitVfs.all fun m => exactlyOne vfsImpl m.1 && vfsImpl.any (fun f => f.name == m.1 && f.params == m.2)) = true ∧
    (vfsImpl.all (dispatchOk fun _ => false)) = true := by decide

/-- `impl Entry for VfsEntry`: every required method is dispatched transparently (`follow` may
    re-wrap with `.upcast()`); a default method that the wrapper does not override is overridden by
    neither backend entry (otherwise default-over-dispatch would differ from the inner override) -/
theorem C13_entry_arms_transparent :
    (traitEntry.all fun m =>
      if vfsEntryImpl.any (·.name == m.1) then
        exactlyOne vfsEntryImpl m.1 && vfsEntryImpl.any (fun f => f.name == m.1 && f.params == m.2.1)
      else m.2.2 && !stdfsEntryMethods.contains m.1 && !memfsEntryMethods.contains m.1) = true ∧
    (vfsEntryImpl.all fun f => traitEntry.any (·.1 == f.name)) = true ∧
    (vfsEntryImpl.all (dispatchOk fun f => f.name == idFollow)) = true := by decide

/-- `impl VirtualFileSystem for Stdfs`: every method forwards to the same-named associated
    function with the parameters in order (`upcast` is `Vfs::Stdfs(self)`) -/
theorem C13_stdfs_forwarders :
    stdfsImpl.length = traitVfs.length ∧
    (traitVfs.all fun m => exactlyOne stdfsImpl m.1) = true ∧
    (stdfsImpl.all fun f =>
      if f.name == idUpcast then f.body == .forward idVfs idStdfs [idSelf]
      else f.body == .forward idStdfs f.name f.params) = true := by decide

end Rivia.Props
