/-
  C02T — C02 at HISTORY level: the two backend models run SIDE BY SIDE along one history.

  Props/C02 and Props/C02R compare one step: the Stdfs model is restarted on `absS s` (the abstraction of
  the current Memfs state) at every position.  Here three runs advance in lock-step along ONE history
  from the fresh filesystem,

      sᵢ₊₁ = (Memfs.step env sᵢ opᵢ).2      s₀ = Memfs.init
      tᵢ₊₁ = (specStep   env tᵢ opᵢ).2      t₀ = absS Memfs.init          (`refRun`, the reference ALONE)
      uᵢ₊₁ = (Stdfs.step env uᵢ opᵢ).2      u₀ = Stdfs.init  (= `absS Memfs.init`)

  and the invariant `TriInv sᵢ tᵢ uᵢ` = `RInv sᵢ ∧ TEquiv (absS sᵢ) tᵢ ∧ NodupK tᵢ ∧ Wf uᵢ ∧ TEquiv uᵢ tᵢ`
  is carried along.  The Stdfs state is NEVER re-abstracted: `uᵢ` is what the syscall model itself built.

  What was missing (OPEN item of Props/C02R) and is proved in Lemmas/StdfsWfStep*.lean:
  * `C02T_stdfs_step_wf` — EVERY operation of the Stdfs model (all 53 constructors of `Op`, `copy` and
    `move_p` included, any arguments, success or failure, NO domain hypothesis) keeps the tree `Wf`
    (distinct keys, `/` a directory, the parent of every other key a directory): every syscall of
    Model/Posix does (`mkdir`, `rmdir`, `unlink`, `create_dir_all`, `remove_dir_all`, `open(O_CREAT)`,
    `write`, `chmod`, `chown`, `fs::copy`, `symlinkat`, `chdir`, `rename`), and the `SM` monad, the
    `forM` loops and the three traversals (`_chmod`, `_chown`, `_copy`) only compose them.
  * that the Stdfs model respects `TEquiv` is NOT needed: the reference does (`C01S_specStep_congr`, on
    `NodupK` trees, and `Wf uᵢ` gives `NodupK uᵢ`), so the answer of the reference from `tᵢ` is its
    answer from `uᵢ`, where `C02_stdfs_refines_reference_partial` applies.

  Hypotheses of the history theorems (all decidable, all per position):
    the finding classes of C01 (`classOf sᵢ env opᵢ = "-"`), the depth bound `DepthDom' sᵢ opᵢ` (or the
    size bound), the Stdfs domain `D2 env uᵢ opᵢ` ON THE STDFS STATE, and "the reference, run alone,
    answers every call" (`refRun … = some _`: no call outside the reference, none `.unspecified`).
  The alphabet is not a hypothesis: a call the reference answers is `NoFollowOp ∧ Refined' ∧ CoveredS`
  (`C02T_alphabet`), and every Memfs call returns (Props/C12R).
-/
import Rivia.Props.C02R
import Rivia.Lemmas.StdfsWfStepWalk

namespace Rivia.Props
open Rivia Rivia.Memfs Rivia.File Rivia.Spec Rivia.Spec.TreeFs Rivia.Stdfs Rivia.Lemmas.StdfsL
open Rivia.Lemmas
open Rivia.Lemmas.Sim (NodupK AncDir)

/-! ### 1. the Stdfs model keeps its tree well-formed -/

/-- **every operation of the Stdfs model keeps the tree well-formed** (all of `Op`, no domain hypothesis) -/
theorem C02T_stdfs_step_wf (env : Env) (t : T) (op : Op) (h : Wf t) : Wf (Stdfs.step env t op).2 :=
  StdfsWf.stdfs_step_wf env t op h

/-- … along every history -/
theorem C02T_stdfs_run_wf (env : Env) (ops : List Op) (t : T) (h : Wf t) : Wf (Stdfs.run env t ops) :=
  StdfsWf.stdfs_run_wf env ops t h

/-- the sandbox the Stdfs harness starts from is the abstraction of the fresh Memfs -/
theorem C02T_init_eq : Stdfs.init = absS Memfs.init := by decide

theorem C02T_init_wf : Wf Stdfs.init := by decide

/-- every tree the Stdfs model reaches from its sandbox is well-formed: the `Wf` hypothesis of
    `C02_stdfs_refines_reference_partial` holds on every reachable Stdfs state -/
theorem C02T_stdfs_reachable_wf (env : Env) (ops : List Op) : Wf (Stdfs.run env Stdfs.init ops) :=
  C02T_stdfs_run_wf env ops _ C02T_init_wf

/-- the Stdfs half of C02 on every tree the Stdfs model itself reaches (ANY history `pre`, any operations,
    calls succeeding or failing): the `Wf` hypothesis of `C02_stdfs_refines_reference_partial` is discharged -/
theorem C02T_stdfs_refines_reachable (env₀ env : Env) (pre : List Op) (op : Op) (r : R Val) (t' : T)
    (hD : D2 env (Stdfs.run env₀ Stdfs.init pre) op) (hC : CoveredS op = true)
    (hs : specStep env (Stdfs.run env₀ Stdfs.init pre) op = some (r, t')) :
    ResMatchOkErr (Stdfs.step env (Stdfs.run env₀ Stdfs.init pre) op).1 r ∧
      (r ≠ .unspecified → RefineA.TEquiv (Stdfs.step env (Stdfs.run env₀ Stdfs.init pre) op).2 t') :=
  C02_stdfs_refines_reference_partial env _ op r t' (C02T_stdfs_reachable_wf env₀ pre) hD hC hs

/-- `Wf` is: no duplicate key, `/` a directory, every other key has a directory parent (restates
    `wfB` through `get`) -/
theorem C02T_wf_iff (t : T) : Wf t ↔ NodupK t ∧ isDir t [] = true ∧
    ∀ k n, get t k = some n → k ≠ [] → isDir t k.dropLast = true :=
  ⟨fun h => have f := wf_facts h; ⟨f.nodup, f.root, f.parent⟩,
   fun h => StdfsWf.wf_of_facts ⟨h.1, h.2.1, h.2.2⟩⟩

/-! ### 2. three runs in lock-step -/

/-- the invariant of the three runs: Memfs state `s`, reference tree `t`, Stdfs tree `u` -/
def TriInv (s : State) (t u : T) : Prop := SimInv s t ∧ Wf u ∧ RefineB.TEquiv u t

theorem C02T_triInv_init : TriInv Memfs.init (absS Memfs.init) Stdfs.init :=
  ⟨C01S_simInv_init, C02T_init_wf, by rw [C02T_init_eq]; exact RefineB.TEquiv.refl _⟩

/-- in the invariant, the Stdfs tree is (equivalent to) the abstraction of the Memfs state -/
theorem TriInv.agree {s : State} {t u : T} (h : TriInv s t u) : RefineB.TEquiv (absS s) u :=
  Sim.TEquiv.trans h.1.2.1 (Sim.TEquiv.symm h.2.2)

/-- what the reference answers is in the alphabet of all three theorems -/
theorem C02T_covered (env : Env) (t : T) (op : Op) (h : (specStep env t op).isSome = true) :
    NoFollowOp op ∧ Refined' op ∧ CoveredS op = true :=
  have hR := C01C_covers_reference env t op h
  ⟨C12R_covered_noFollow env t op h, hR, C02R_refined_covered op hR⟩

theorem agree_of_matches {m st : Outcome Val} {r : R Val} (h1 : RefineB.ResMatch m r)
    (h2 : ResMatchOkErr st r) (hr : r ≠ .unspecified) : OutcomeAgree m st := by
  cases r with
  | unspecified => exact absurd rfl hr
  | ok w => cases m <;> cases st <;> simp_all [RefineB.ResMatch, ResMatchOkErr, OutcomeAgree]
  | err k => cases m <;> cases st <;> cases k <;> simp_all [RefineB.ResMatch, ResMatchOkErr, OutcomeAgree]

/-- **one step of the three runs**: from related states, outside the finding classes of C01 and inside
    the Stdfs domain `D2` AT THE STDFS STATE `u`, if the reference answers from its own state `t` then
    both backends return what it answers, they agree with each other, and the post-states are related
    again (in particular `Wf` of the new Stdfs tree and `TEquiv (absS s') u'`) -/
theorem C02T_step (env : Env) (s : State) (t u : T) (op : Op) (h : TriInv s t u)
    (hc : classOf s env op = "-") (hd : DepthDom' s op) (hD : D2 env u op)
    (r : R Val) (t' : T) (hs : specStep env t op = some (r, t')) (hr : r ≠ .unspecified) :
    RefineB.ResMatch (Memfs.step env s op).1 r ∧ ResMatchOkErr (Stdfs.step env u op).1 r ∧
      OutcomeAgree (Memfs.step env s op).1 (Stdfs.step env u op).1 ∧
      TriInv (Memfs.step env s op).2 t' (Stdfs.step env u op).2 := by
  obtain ⟨hS, hW, hE⟩ := h
  have hsome : (specStep env t op).isSome = true := by rw [hs]; rfl
  obtain ⟨hN, hR, hC⟩ := C02T_covered env t op hsome
  have hsd : StepDom' env s op :=
    ⟨⟨C12R_noFollow_good op hN, hR⟩, (C12R_returns env s op hS.1 hN).1, hc, hd⟩
  have hM := C01S_step' env s t op hS hsd r t' hs
  obtain ⟨t'', hs', hE'⟩ := C01S_specStep_congr' env hE (wf_facts hW).nodup hS.2.2 op r t' hs
  have hSt := C02_stdfs_refines_reference_partial env u op r t'' hW hD hC hs'
  have hE2 : RefineB.TEquiv (Stdfs.step env u op).2 t' :=
    Sim.TEquiv.trans (hSt.2 hr) hE'
  exact ⟨hM.1, hSt.1, agree_of_matches hM.1 hSt.1 hr,
    hM.2 hr, C02T_stdfs_step_wf env u op hW, hE2⟩

/-- the per-call side conditions along the two backend runs, recursively: finding class and depth bound at
    the Memfs state, `D2` at the Stdfs state -/
def SideRun (env : Env) : State → T → List Op → Prop
  | _, _, [] => True
  | s, u, op :: ops => (classOf s env op = "-" ∧ DepthDom' s op ∧ D2 env u op) ∧
      SideRun env (Memfs.step env s op).2 (Stdfs.step env u op).2 ops

/-- the same, position by position -/
theorem sideRun_of (env : Env) : ∀ (ops : List Op) (s : State) (u : T),
    (∀ pre op post, ops = pre ++ op :: post →
      classOf (run env s pre) env op = "-" ∧ DepthDom' (run env s pre) op ∧
        D2 env (Stdfs.run env u pre) op) → SideRun env s u ops := by
  intro ops
  induction ops with
  | nil => intro _ _ _; trivial
  | cons op ops ih =>
    intro s u h
    exact ⟨h [] op ops rfl, ih _ _ fun pre o post he => h (op :: pre) o post (by rw [he]; rfl)⟩

theorem sideRun_at (env : Env) : ∀ (pre : List Op) (s : State) (u : T) (op : Op) (post : List Op),
    SideRun env s u (pre ++ op :: post) →
      classOf (run env s pre) env op = "-" ∧ DepthDom' (run env s pre) op ∧ D2 env (Stdfs.run env u pre) op := by
  intro pre
  induction pre with
  | nil => intro s u op post h; exact h.1
  | cons o pre ih => intro s u op post h; exact ih _ _ op post h.2

/-- the three runs up to any point of a history the reference answers -/
theorem C02T_prefix (env : Env) : ∀ (pre : List Op) (s : State) (t u : T) (rest : List Op) (tf : T),
    TriInv s t u → SideRun env s u (pre ++ rest) → refRun env t (pre ++ rest) = some tf →
    ∃ ti, refRun env t pre = some ti ∧ TriInv (run env s pre) ti (Stdfs.run env u pre) ∧
      SideRun env (run env s pre) (Stdfs.run env u pre) rest ∧ refRun env ti rest = some tf := by
  intro pre
  induction pre with
  | nil => intro s t u rest tf h hs hr; exact ⟨t, rfl, h, hs, hr⟩
  | cons o pre ih =>
    intro s t u rest tf h hs hr
    obtain ⟨r, t', hsp, hne, hr'⟩ := refRun_cons hr
    have hst := C02T_step env s t u o h hs.1.1 hs.1.2.1 hs.1.2.2 r t' hsp hne
    obtain ⟨ti, h1, h2, h3, h4⟩ := ih _ t' _ rest tf hst.2.2.2 hs.2 hr'
    refine ⟨ti, ?_, h2, h3, h4⟩
    show refRun env t (o :: pre) = some ti
    unfold refRun
    rw [hsp]
    cases r with
    | unspecified => exact absurd rfl hne
    | ok v => exact h1
    | err k => exact h1

theorem C02T_run (env : Env) (ops : List Op) (s : State) (t u tf : T) (h : TriInv s t u)
    (hs : SideRun env s u ops) (hr : refRun env t ops = some tf) :
    TriInv (run env s ops) tf (Stdfs.run env u ops) := by
  obtain ⟨ti, _, h2, _, h4⟩ := C02T_prefix env ops s t u [] tf h (by rw [List.append_nil]; exact hs)
    (by rw [List.append_nil]; exact hr)
  cases h4
  exact h2

/-! ### 3. the history theorems -/

/-- the alphabet of a history the reference answers: no call follows links, every call is one of the 43
    operations refined on the Memfs side and covered on the Stdfs side -/
theorem C02T_alphabet (env : Env) : ∀ (ops : List Op) (t tf : T), refRun env t ops = some tf →
    ∀ o ∈ ops, NoFollowOp o ∧ Refined' o ∧ CoveredS o = true := by
  intro ops
  induction ops with
  | nil => intro _ _ _ o ho; cases ho
  | cons op ops ih =>
    intro t tf hr o ho
    obtain ⟨r, t', hsp, _, hr'⟩ := refRun_cons hr
    rcases List.mem_cons.1 ho with rfl | ho
    · exact C02T_covered env t o (by rw [hsp]; rfl)
    · exact ih t' tf hr' o ho

/-- **C02 along a history: the two backend models side by side.**  Let `ops` be any history from the
    fresh filesystem such that, position by position, the call is in no known-finding class of C01 and
    within the depth bound (at the Memfs state), within the Stdfs domain `D2` (AT THE STDFS STATE reached
    by the Stdfs model itself), and the reference, run alone, answers every call.  Then at EVERY position
    `pre ++ op :: post`:
    * before the call, the Stdfs tree is the abstraction of the Memfs state: `TEquiv (absS sᵢ) uᵢ`, and
      `Wf uᵢ`;
    * the two calls return ok/err together, with equal values on ok: `OutcomeAgree`;
    * after the call the trees agree again: `TEquiv (absS sᵢ₊₁) uᵢ₊₁`. -/
theorem C02_backends_agree_history (env : Env) (ops : List Op)
    (hdom : ∀ pre op post, ops = pre ++ op :: post →
      classOf (run env Memfs.init pre) env op = "-" ∧ DepthDom' (run env Memfs.init pre) op ∧
        D2 env (Stdfs.run env Stdfs.init pre) op)
    (tf : T) (href : refRun env (absS Memfs.init) ops = some tf) :
    ∀ pre op post, ops = pre ++ op :: post →
      RefineB.TEquiv (absS (run env Memfs.init pre)) (Stdfs.run env Stdfs.init pre) ∧
      Wf (Stdfs.run env Stdfs.init pre) ∧
      OutcomeAgree (Memfs.step env (run env Memfs.init pre) op).1
        (Stdfs.step env (Stdfs.run env Stdfs.init pre) op).1 ∧
      RefineB.TEquiv (absS (Memfs.step env (run env Memfs.init pre) op).2)
        (Stdfs.step env (Stdfs.run env Stdfs.init pre) op).2 := by
  intro pre op post he
  subst he
  have hs := sideRun_of env _ Memfs.init Stdfs.init hdom
  obtain ⟨ti, _, h2, h3, h4⟩ := C02T_prefix env pre _ _ _ (op :: post) tf C02T_triInv_init hs href
  obtain ⟨r, t', hsp, hne, _⟩ := refRun_cons h4
  have hst := C02T_step env _ ti _ op h2 h3.1.1 h3.1.2.1 h3.1.2.2 r t' hsp hne
  exact ⟨h2.agree, h2.2.1, hst.2.2.1, hst.2.2.2.agree⟩

/-- the end of the history: the tree the Stdfs model has built is the abstraction of the final Memfs
    state, and both are the reference's own final state -/
theorem C02_backends_agree_history_final (env : Env) (ops : List Op)
    (hdom : ∀ pre op post, ops = pre ++ op :: post →
      classOf (run env Memfs.init pre) env op = "-" ∧ DepthDom' (run env Memfs.init pre) op ∧
        D2 env (Stdfs.run env Stdfs.init pre) op)
    (tf : T) (href : refRun env (absS Memfs.init) ops = some tf) :
    RefineB.TEquiv (absS (run env Memfs.init ops)) (Stdfs.run env Stdfs.init ops) ∧
      RefineB.TEquiv (Stdfs.run env Stdfs.init ops) tf ∧ Wf (Stdfs.run env Stdfs.init ops) := by
  have h := C02T_run env ops _ _ _ tf C02T_triInv_init (sideRun_of env _ _ _ hdom) href
  exact ⟨h.agree, h.2.2, h.2.1⟩

/-- with the physical size bound (fewer than `usize::MAX` entries) in place of `DepthDom'` -/
theorem C02_backends_agree_history_small (env : Env) (ops : List Op)
    (hdom : ∀ pre op post, ops = pre ++ op :: post →
      classOf (run env Memfs.init pre) env op = "-" ∧ (run env Memfs.init pre).entries.length < 2 ^ 64 - 1 ∧
        D2 env (Stdfs.run env Stdfs.init pre) op)
    (tf : T) (href : refRun env (absS Memfs.init) ops = some tf) :
    ∀ pre op post, ops = pre ++ op :: post →
      RefineB.TEquiv (absS (run env Memfs.init pre)) (Stdfs.run env Stdfs.init pre) ∧
      Wf (Stdfs.run env Stdfs.init pre) ∧
      OutcomeAgree (Memfs.step env (run env Memfs.init pre) op).1
        (Stdfs.step env (Stdfs.run env Stdfs.init pre) op).1 ∧
      RefineB.TEquiv (absS (Memfs.step env (run env Memfs.init pre) op).2)
        (Stdfs.step env (Stdfs.run env Stdfs.init pre) op).2 := by
  refine C02_backends_agree_history env ops (fun pre op post he => ?_) tf href
  obtain ⟨h1, h2, h3⟩ := hdom pre op post he
  refine ⟨h1, ?_, h3⟩
  have hn := C02T_alphabet env ops _ tf href
  have hrinv := C12R_history_rinv env pre (fun o ho => (hn o (by rw [he]; exact List.mem_append_left _ ho)).1)
  exact C01C_depthDom_of_small _ op hrinv h2

/-! ### the same as one statement about the two result lists -/

/-- what the calls of the Stdfs model return, in order -/
def stdOuts (env : Env) : T → List Op → List (Outcome Val)
  | _, [] => []
  | u, op :: ops => (Stdfs.step env u op).1 :: stdOuts env (Stdfs.step env u op).2 ops

/-- position by position: same length, ok/err together, equal values on ok -/
def OutsAgree : List (Outcome Val) → List (Outcome Val) → Prop
  | [], [] => True
  | a :: as, b :: bs => OutcomeAgree a b ∧ OutsAgree as bs
  | _, _ => False

theorem C02T_trace (env : Env) : ∀ (ops : List Op) (s : State) (t u tf : T), TriInv s t u →
    SideRun env s u ops → refRun env t ops = some tf →
    OutsAgree (memOuts env s ops) (stdOuts env u ops) := by
  intro ops
  induction ops with
  | nil => intro _ _ _ _ _ _ _; trivial
  | cons op ops ih =>
    intro s t u tf h hs hr
    obtain ⟨r, t', hsp, hne, hr'⟩ := refRun_cons hr
    have hst := C02T_step env s t u op h hs.1.1 hs.1.2.1 hs.1.2.2 r t' hsp hne
    exact ⟨hst.2.2.1, ih _ t' _ tf hst.2.2.2 hs.2 hr'⟩

/-- **trace form**: the list of results of the Memfs run and the list of results of the Stdfs run agree
    position by position (same hypotheses as `C02_backends_agree_history`) -/
theorem C02_backends_agree_trace (env : Env) (ops : List Op)
    (hdom : ∀ pre op post, ops = pre ++ op :: post →
      classOf (run env Memfs.init pre) env op = "-" ∧ DepthDom' (run env Memfs.init pre) op ∧
        D2 env (Stdfs.run env Stdfs.init pre) op)
    (tf : T) (href : refRun env (absS Memfs.init) ops = some tf) :
    OutsAgree (memOuts env Memfs.init ops) (stdOuts env Stdfs.init ops) :=
  C02T_trace env ops _ _ _ tf C02T_triInv_init (sideRun_of env _ _ _ hdom) href

/-- … and each of the two lists matches the list of the reference's answers -/
theorem C02_backends_agree_trace_ref (env : Env) (ops : List Op)
    (hdom : ∀ pre op post, ops = pre ++ op :: post →
      classOf (run env Memfs.init pre) env op = "-" ∧ DepthDom' (run env Memfs.init pre) op ∧
        D2 env (Stdfs.run env Stdfs.init pre) op)
    (rs : List (R Val)) (href : refOuts env (absS Memfs.init) ops = some rs) :
    OutsAgree (memOuts env Memfs.init ops) (stdOuts env Stdfs.init ops) ∧
      TraceMatch (memOuts env Memfs.init ops) rs := by
  obtain ⟨tf, htf⟩ := refRun_of_refOuts env ops _ rs href
  exact ⟨C02_backends_agree_trace env ops hdom tf htf,
    C12R_simulates_trace env ops (fun pre op post he => ⟨(hdom pre op post he).1, (hdom pre op post he).2.1⟩) rs href⟩

/-! ### 4. non-vacuity -/

/-- executable check of the side conditions along the two runs (one evaluation of each `step` per call) -/
def sideChk (env : Env) : State → T → List Op → Bool
  | _, _, [] => true
  | s, u, op :: ops =>
    decide (classOf s env op = "-") && decide (DepthDom' s op) && d2B env u op &&
      sideChk env (Memfs.step env s op).2 (Stdfs.step env u op).2 ops

theorem sideRun_of_chk (env : Env) : ∀ (ops : List Op) (s : State) (u : T), sideChk env s u ops = true →
    SideRun env s u ops := by
  intro ops
  induction ops with
  | nil => intro _ _ _; trivial
  | cons op ops ih =>
    intro s u h
    unfold sideChk at h
    simp only [Bool.and_eq_true, decide_eq_true_eq] at h
    exact ⟨⟨h.1.1.1, h.1.1.2, h.1.2⟩, ih _ _ h.2⟩

namespace C02TWitness
open C01RWitness (S)
/-- 8 calls: a directory tree, a file with content, a link to that file, two queries (one through the
    link's own node), a listing with the link among the results, the link removed, a recursive listing -/
def hist5 : List Op :=
  [.mkdirP (S "/a/b"), .writeAll (S "/a/f") [104, 105], .symlink (S "/l") (S "/a/f"), .readlink (S "/l"),
   .readAll (S "/a/f"), .paths (S "/"), .remove (S "/l"), .allPaths (S "/")]
def isOkv : Outcome Val → Bool | .ok _ => true | _ => false
end C02TWitness
open C02TWitness C01RWitness C01CWitness

set_option maxRecDepth 100000 in
theorem C02T_hist5_side : SideRun env0 Memfs.init Stdfs.init hist5 :=
  sideRun_of_chk _ _ _ _ (by decide +kernel)

set_option maxRecDepth 100000 in
/-- the reference, run alone, answers all 8 calls (none `.unspecified`) -/
theorem C02T_hist5_ref : (refRun env0 (absS Memfs.init) hist5).isSome = true ∧
    ((refOuts env0 (absS Memfs.init) hist5).map List.length) = some 8 := by
  decide +kernel

/-- every hypothesis of `C02_backends_agree_history` / `_trace` holds of `hist5` -/
theorem C02T_hist5_hyps : ∀ pre op post, hist5 = pre ++ op :: post →
    classOf (run env0 Memfs.init pre) env0 op = "-" ∧ DepthDom' (run env0 Memfs.init pre) op ∧
      D2 env0 (Stdfs.run env0 Stdfs.init pre) op :=
  fun pre op post he => sideRun_at env0 pre _ _ op post (he ▸ C02T_hist5_side)

/-- … so the conclusions hold of it: the two result lists agree position by position and the final trees
    are equivalent -/
example : OutsAgree (memOuts env0 Memfs.init hist5) (stdOuts env0 Stdfs.init hist5) ∧
    RefineB.TEquiv (absS (run env0 Memfs.init hist5)) (Stdfs.run env0 Stdfs.init hist5) := by
  cases h : refRun env0 (absS Memfs.init) hist5 with
  | none => have := C02T_hist5_ref.1; rw [h] at this; cases this
  | some tf =>
    exact ⟨C02_backends_agree_trace env0 hist5 C02T_hist5_hyps tf h,
      (C02_backends_agree_history_final env0 hist5 C02T_hist5_hyps tf h).1⟩

set_option maxRecDepth 100000 in
/-- the history is not a sequence of failures: all 8 calls succeed on the Stdfs model, the listing before
    the `remove` shows the link, the one after it does not -/
theorem C02T_hist5_outs : (stdOuts env0 Stdfs.init hist5).all isOkv = true ∧
    (Stdfs.step env0 (Stdfs.run env0 Stdfs.init (hist5.take 5)) (.paths (S "/"))).1 =
      .ok (.paths [[S "a"], [S "l"]]) ∧
    (Stdfs.step env0 (Stdfs.run env0 Stdfs.init (hist5.take 7)) (.allPaths (S "/"))).1 =
      .ok (.paths [[S "a"], [S "a", S "b"], [S "a", S "f"]]) := by
  decide +kernel

/-! ### the `D2` hypothesis is about the Stdfs state and cannot be dropped -/

/-- (from Props/C02, finding S6) a history of four calls after which the two backends DISAGREE on a query
    through a link: `D2` fails at that position and only there -/
theorem C02T_D2_needed :
    let pre : List Op := [.mkfile (S "/f"), .symlink (S "/l") (S "/f")]
    (∀ o ∈ pre ++ [Op.isExec (S "/l")], NoFollowOp o ∧ Refined' o) ∧
    SideRun env0 Memfs.init Stdfs.init pre ∧
    ¬ D2 env0 (Stdfs.run env0 Stdfs.init pre) (.isExec (S "/l")) ∧
    (Memfs.step env0 (run env0 Memfs.init pre) (.isExec (S "/l"))).1 = .ok (.bool true) ∧
    (Stdfs.step env0 (Stdfs.run env0 Stdfs.init pre) (.isExec (S "/l"))).1 = .ok (.bool false) := by
  refine ⟨by decide, sideRun_of_chk _ _ _ _ (by decide +kernel), by decide +kernel, by decide +kernel,
    by decide +kernel⟩

-- OPEN (not proved):
--   * `D2 env uᵢ opᵢ` stays a per-position hypothesis (now on the Stdfs state itself, decidable): its state
--     part (every link has an existing non-link target with an accurate `toDir` flag, link texts resolve
--     back to their target key, the cwd is an existing directory) is not an invariant of either backend
--     (dangling links, links to links, a removed cwd are reachable: findings S9, S10), and its operation
--     part lists the Stdfs findings S6, S8, S11–S14, S16 (S7 is repaired) (`C02T_D2_needed`: S6 along a history).
--   * the reference must answer every call (`refRun … = some _`): calls outside the reference (`mkfile_m`,
--     `copy`, `copy_b`, `entry`, `entries`, the handle operations, `follow = true`) and calls it leaves
--     `.unspecified` end the comparison; the invariant `Wf uᵢ` alone survives them (`C02T_stdfs_step_wf`
--     has no domain hypothesis), `TEquiv (absS sᵢ) uᵢ` does not (no common specification to go through).
--   * symbolic `chmod_b` is answered by the reference and refined on the Memfs side, but `D2` is false
--     for it (OPEN item of Props/C02): the history theorems say nothing about histories containing it.
--   * that `Stdfs.step` itself respects `TEquiv` (same results from `TEquiv` start trees) is not proved and
--     was not needed: the comparison goes through the reference, which does (`C01S_specStep_congr`).

end Rivia.Props
