/-
  C08F — C08 with links followed (`follow = true`): the traversal yields exactly what the options
  denote — the contents of a link's target once per followed link — in order, and ends with
  `LinkLooping` rather than descending for ever when following a link cycle.
  Property theorems ONLY (helper lemmas live in Rivia/Lemmas/WalkFollow.lean).

  Spec:  `Spec.entriesSpecF snap o rootE : List Entry × Option ErrKind` (Rivia/Spec/WalkFollow.lean):
         yielded entries in order, and the error that ended the traversal (if any).
  Model: the iterator stack machine `runIter` run to exhaustion collecting what it yields
         (`modelRun`), and `collectEntries` (= `modelRun` with fuel `travFuel`, yields dropped on error).

  Hypotheses used below (all decidable)
  * `SnapWf snap`, `InSnap snap rootE`  as in C08;
  * `ExactDomF o`  links followed, `dirs_first`/`files_first` only with `sort_by_name`, and either
                   parents first with exclusive kind filters, or `contents_first` without kind
                   filter and lower depth bound (= `ExactDom` of C08 with `follow = true`);
  * `ExactDomF2 o` (Lemmas/WalkCF.lean; after the repair of `process`, finding
                   `contents_first_ignores_filter`) as `ExactDomF`, but `contents_first` (with
                   `min_depth = 0`) may be combined with `dirs()` / `files()`; for `files()` with the side
                   condition `FlagsOkFor snap o`: no snapshot entry carries both kind flags;
  * `ExactDomF3 o` (after BOTH repairs, also `contents_first_min_depth_order`): `follow = true ∧ OrdOk o ∧
                   KindOk o` — no restriction on `contents_first` or the depth window, no side condition;
  * `fuelNeed snap o rootE ≤ f`  the fuel of the model: `fuelNeed` = 3 · (number of entries the
                   walk visits, computed by `sizeF`) + 1.  The real iterator has no fuel; `.hang` of
                   the model with `travFuel` is an artifact where the walk is larger than
                   `travFuel` allows (diamond link chains, see the end of this file).
-/
import Rivia.Lemmas.WalkFollow
import Rivia.Lemmas.WalkCF

namespace Rivia.Props
open Rivia Rivia.Memfs Rivia.Spec
open Rivia.Lemmas.WalkF (DomF fuelNeed stepCons specOutcome)
open Rivia.Lemmas.WalkCF (ExactDomF2 ExactDomF3 FlagsExcl FlagsOkFor)

/-- the model run to exhaustion with the given fuel: yielded entries (in order), final outcome -/
def modelRun (snap : Snap) (o : Opts) (rootE : Entry) (fuel : Nat) : List Entry × Outcome Unit :=
  ((runIter snap o noPre rootE stepCons fuel {} []).2.reverse, (runIter snap o noPre rootE stepCons fuel {} []).1)

/-- the spec's result in the same shape -/
def specRun (snap : Snap) (o : Opts) (rootE : Entry) : List Entry × Outcome Unit :=
  ((entriesSpecF snap o rootE).1, specOutcome (entriesSpecF snap o rootE).2)

/-- the option combinations for which the implementation is exact when links are followed -/
def ExactDomF (o : Opts) : Prop := o.follow = true ∧ OrdOk o ∧ DomF o

instance (o : Opts) : Decidable (ExactDomF o) := by unfold ExactDomF; infer_instance

/-! ### small concrete snapshots used as witnesses -/

namespace C08Fw
def mkLink (path target : FsPath) : Entry :=
  { path := path, alt := some target, rel := [], dir := true, file := false, link := true,
    mode := optsMode true false true none, uid := 1000, gid := 1000, follow := false, cached := false,
    files := some [] }
/-- `/t/` with `/t/l -> /t` -/
def rootL : Entry := { mkDirEntry [['t']] none with files := some [['l']] }
def linkL : Entry := mkLink [['t'], ['l']] [['t']]
def snapL : Snap := [([['t']], rootL), ([['t'], ['l']], linkL)]
/-- `/t/` with `/t/a/` and `/t/l -> /t/a` -/
def rootS : Entry := { mkDirEntry [['t']] none with files := some [['a'], ['l']] }
def dirS : Entry := mkDirEntry [['t'], ['a']] none
def linkS : Entry := mkLink [['t'], ['l']] [['t'], ['a']]
def snapS : Snap := [([['t']], rootS), ([['t'], ['a']], dirS), ([['t'], ['l']], linkS)]
end C08Fw
open C08Fw

/-! ### a. `follow = false`: the new spec is the old one -/

theorem C08F_coincides_no_follow (snap : Snap) (o : Opts) (e : Entry)
    (hwf : SnapWf snap) (hroot : InSnap snap e) (hfol : o.follow = false) :
    entriesSpecF snap o e = (entriesSpec snap o e, none) :=
  Lemmas.WalkF.entriesSpecF_no_follow hwf hfol hroot

/-! ### b. the spec terminates by itself: its fuel is immaterial; its only errors -/

/-- any amount of fuel from `fuelF snap` = (|snap|+1)² + 1 on gives the same walk (both values of
    `follow`, every option combination): the recursion depth of the spec is bounded because a link
    is only entered when its target is not among the open directories -/
theorem C08F_spec_fuel_independent (snap : Snap) (o : Opts) (rootE : Entry) (k : Nat)
    (hwf : SnapWf snap) (hk : fuelF snap ≤ k) :
    walkF snap o k [] (present o rootE) 0 = entriesSpecF snap o rootE :=
  Lemmas.WalkF.walkF_fuel_irrel hwf o _ _ _ _ _
    (Nat.lt_of_lt_of_le (Lemmas.WalkF.mu_lt_fuelF _ _ _ _ _) hk) (Lemmas.WalkF.mu_lt_fuelF _ _ _ _ _)

/-- (restates the definition) a followed link to a directory whose target is one of the open
    directories ends the walk with `LinkLooping`, nothing is yielded for it -/
theorem C08F_loop_is_error (snap : Snap) (o : Opts) (k : Nat) (chain : List FsPath) (x : Entry) (d : Nat)
    (hfol : o.follow = true) (hl : x.link = true) (hd : x.dir = true) (hin : x.path ∈ chain) :
    walkF snap o (k + 1) chain x d = ([], some .linkLooping) := by
  have : loopsF o chain x = true := by simp [loopsF, followed, hfol, hl, hd, hin]
  simp [walkF, this]

/-- the walk ends in no other error than `LinkLooping` and `DoesNotExist` (target of a followed
    link missing from the snapshot) -/
theorem C08F_spec_errors (snap : Snap) (o : Opts) (rootE : Entry) (k : ErrKind)
    (h : (entriesSpecF snap o rootE).2 = some k) : k = .linkLooping ∨ k = .doesNotExist :=
  Lemmas.WalkF.walkF_err snap o _ _ _ _ k h

/-! ### c. the stack machine equals the recursive walk, links followed -/

/-- Central theorem (fuel-free form): for every well-formed snapshot — with link cycles, diamonds,
    links to ancestors, missing targets — and every option combination of `ExactDomF` (depth
    window, kind filters, `sort_by_name` with `dirs_first`/`files_first`, `contents_first`, any
    descriptor cap), the machine run with ANY fuel from `fuelNeed` on yields exactly the entries
    of the recursive walk, in its order, and ends as the walk ends: normally, or with the walk's
    error (`LinkLooping` / `DoesNotExist`) after the entries yielded before it. -/
theorem C08F_exact_partial (snap : Snap) (o : Opts) (rootE : Entry) (f : Nat)
    (hwf : SnapWf snap) (hroot : InSnap snap rootE) (hdom : ExactDomF o)
    (hf : fuelNeed snap o rootE ≤ f) :
    modelRun snap o rootE f = specRun snap o rootE := by
  have h := Lemmas.WalkF.runIter_exact hwf hdom.1 hdom.2.1 hdom.2.2.toW hroot f hf
  simp [modelRun, specRun, h]

/-- the same for `collectEntries` (fuel `travFuel`, the yielded entries are dropped on error),
    when `travFuel` is enough (decidable) -/
theorem C08F_collectEntries_partial (snap : Snap) (o : Opts) (rootE : Entry)
    (hwf : SnapWf snap) (hroot : InSnap snap rootE) (hdom : ExactDomF o)
    (hfuel : fuelNeed snap o rootE ≤ travFuel snap) :
    collectEntries snap o rootE =
      match entriesSpecF snap o rootE with
      | (ys, none) => .ok ys
      | (_, some k) => .err k :=
  Lemmas.WalkF.collectEntries_exactF hwf hdom.1 hdom.2.1 hdom.2.2.toW hroot hfuel

/-- the same at the level of the operation `entries(path)` of the model (`step (.entries p r)` =
    `travM`, which collects the yielded paths and the error): it returns the paths of the walk, in
    order, and the walk's error; the state is unchanged -/
theorem C08F_entries_op_partial (env : Env) (p : Str) (r : TravReq) (s : State) (k : FsPath) (rootE : Entry)
    (snap : Snap) (habs : absM env p s = (.ok k, s)) (hent : entriesOf s k = .ok (rootE, snap))
    (hwf : SnapWf snap) (hroot : InSnap snap rootE) (hdom : ExactDomF r.opts)
    (hfuel : fuelNeed snap r.opts rootE ≤ travFuel snap) :
    step env s (.entries p r) =
      (.ok (.trav ((entriesSpecF snap r.opts rootE).1.map (·.path)) (entriesSpecF snap r.opts rootE).2), s) :=
  Lemmas.WalkF.travM_exact habs hent hwf hroot hdom.1 hdom.2.1 hdom.2.2.toW hfuel

/-- no endless descent: with links followed the traversal of ANY well-formed snapshot ends (the
    model never reports `.hang` once the fuel covers the size of the walk, which is finite) -/
theorem C08F_never_hangs (snap : Snap) (o : Opts) (rootE : Entry) (f : Nat)
    (hwf : SnapWf snap) (hroot : InSnap snap rootE) (hdom : ExactDomF o)
    (hf : fuelNeed snap o rootE ≤ f) :
    (modelRun snap o rootE f).2 ≠ .hang := by
  rw [C08F_exact_partial snap o rootE f hwf hroot hdom hf]
  simp only [specRun]
  cases (entriesSpecF snap o rootE).2 <;> simp [specOutcome]

/-- no endless descent, EVERY option combination with `OrdOk` (both kind flags, `contents_first`
    with filters or `min_depth`, any cap — also where the output differs from the walk, C08 b.):
    with links followed the machine ends, never `.hang`, for any fuel from `fuelNeed` on;
    link cycles end in `LinkLooping`, diamonds are walked once per link and end -/
theorem C08F_terminates_all_options (snap : Snap) (o : Opts) (rootE : Entry) (f : Nat)
    (hwf : SnapWf snap) (hroot : InSnap snap rootE) (hfol : o.follow = true) (hord : OrdOk o)
    (hf : fuelNeed snap o rootE ≤ f) :
    (modelRun snap o rootE f).2 ≠ .hang :=
  Lemmas.WalkF.runIter_term hwf hfol hord hroot f hf

/-- the same for `collectEntries`, when `travFuel` covers `fuelNeed` (decidable) -/
theorem C08F_collectEntries_never_hangs (snap : Snap) (o : Opts) (rootE : Entry)
    (hwf : SnapWf snap) (hroot : InSnap snap rootE) (hfol : o.follow = true) (hord : OrdOk o)
    (hfuel : fuelNeed snap o rootE ≤ travFuel snap) :
    collectEntries snap o rootE ≠ .hang := by
  have h := Lemmas.WalkF.runIter_term hwf hfol hord hroot (travFuel snap) hfuel
  unfold collectEntries
  have hs : (fun e (acc : List Entry) => ((.ok () : Outcome Unit), e :: acc)) = stepCons := rfl
  rw [hs]
  revert h
  generalize runIter snap o noPre rootE stepCons (travFuel snap) {} [] = R
  obtain ⟨r, acc⟩ := R
  cases r <;> simp

/-- ... and ends either normally or with `LinkLooping` / `DoesNotExist` -/
theorem C08F_outcomes (snap : Snap) (o : Opts) (rootE : Entry) (f : Nat)
    (hwf : SnapWf snap) (hroot : InSnap snap rootE) (hdom : ExactDomF o)
    (hf : fuelNeed snap o rootE ≤ f) :
    (modelRun snap o rootE f).2 = .ok () ∨ (modelRun snap o rootE f).2 = .err .linkLooping ∨
      (modelRun snap o rootE f).2 = .err .doesNotExist := by
  rw [C08F_exact_partial snap o rootE f hwf hroot hdom hf]
  simp only [specRun]
  cases h : (entriesSpecF snap o rootE).2 with
  | none => exact Or.inl rfl
  | some k =>
    rcases C08F_spec_errors snap o rootE k h with rfl | rfl
    · exact Or.inr (Or.inl rfl)
    · exact Or.inr (Or.inr rfl)

/-- the result does not depend on the descriptor cap nor (beyond `fuelNeed`) on the fuel -/
theorem C08F_fuel_irrelevant (snap : Snap) (o : Opts) (rootE : Entry) (f f' : Nat)
    (hwf : SnapWf snap) (hroot : InSnap snap rootE) (hdom : ExactDomF o)
    (hf : fuelNeed snap o rootE ≤ f) (hf' : fuelNeed snap o rootE ≤ f') :
    modelRun snap o rootE f = modelRun snap o rootE f' := by
  rw [C08F_exact_partial snap o rootE f hwf hroot hdom hf, C08F_exact_partial snap o rootE f' hwf hroot hdom hf']

/-- every yielded entry is the root or a snapshot entry as presented (a link switched to its
    target), passes the kind filter, and was met at a depth inside the depth window: nothing a
    filter rejects is yielded, also when links are followed -/
theorem C08F_filter_respected (snap : Snap) (o : Opts) (rootE : Entry) (f : Nat)
    (hwf : SnapWf snap) (hroot : InSnap snap rootE) (hdom : ExactDomF o)
    (hf : fuelNeed snap o rootE ≤ f) :
    ∀ y ∈ (modelRun snap o rootE f).1,
      (y = present o rootE ∨ ∃ p n raw, alLookup (p ++ [n]) snap = some raw ∧ y = present o raw) ∧
      (o.files = true → y.file = true) ∧ (o.dirs = true → y.dir = true) ∧
      ∃ dy, o.minDepth ≤ dy ∧ (dy = 0 ∨ dy ≤ o.maxDepth) := by
  rw [C08F_exact_partial snap o rootE f hwf hroot hdom hf]
  intro y hy
  obtain ⟨h1, dy, _, h3, h4⟩ := Lemmas.WalkF.mem_walkF o _ _ _ _ y hy
  simp only [selected, Bool.and_eq_true, decide_eq_true_eq, Bool.or_eq_true, Bool.not_eq_true'] at h4
  refine ⟨h1, ?_, ?_, dy, h4.1.1, h3⟩
  · intro hfl; rcases h4.1.2 with h | h
    · rw [hfl] at h; cases h
    · exact h
  · intro hdl; rcases h4.2 with h | h
    · rw [hdl] at h; cases h
    · exact h

/-! ### c'. the same on the wider domain `ExactDomF2` (after the repair): `contents_first` with a
  kind filter now equals the spec walk, links followed -/

/-- `ExactDomF2` contains `ExactDomF` (where the side condition holds trivially) -/
theorem C08F_exactDomF_sub (snap : Snap) (o : Opts) (hdom : ExactDomF o) : ExactDomF2 o ∧ FlagsOkFor snap o := by
  refine ⟨⟨hdom.1, hdom.2.1, Lemmas.WalkCF.DomF.to2 hdom.2.2⟩, ?_⟩
  intro hcf hf
  rcases hdom.2.2 with h | h
  · rw [h.1] at hcf; cases hcf
  · rw [h.2.2.1] at hf; cases hf

/-- STRENGTHENED central theorem: as `C08F_exact_partial`, on `ExactDomF2` — in particular for
    `contents_first` together with `dirs()` or `files()` (and `min_depth = 0`) -/
theorem C08F_exact2_partial (snap : Snap) (o : Opts) (rootE : Entry) (f : Nat)
    (hwf : SnapWf snap) (hroot : InSnap snap rootE) (hdom : ExactDomF2 o) (hx : FlagsOkFor snap o)
    (hf : fuelNeed snap o rootE ≤ f) :
    modelRun snap o rootE f = specRun snap o rootE := by
  have h := Lemmas.WalkCF.runIter_exact2 hwf hdom.1 hdom.2.1 hdom.2.2 hx hroot f hf
  simp [modelRun, specRun, h]

theorem C08F_collectEntries2_partial (snap : Snap) (o : Opts) (rootE : Entry)
    (hwf : SnapWf snap) (hroot : InSnap snap rootE) (hdom : ExactDomF2 o) (hx : FlagsOkFor snap o)
    (hfuel : fuelNeed snap o rootE ≤ travFuel snap) :
    collectEntries snap o rootE =
      match entriesSpecF snap o rootE with
      | (ys, none) => .ok ys
      | (_, some k) => .err k :=
  Lemmas.WalkCF.collectEntries_exactF2 hwf hdom.1 hdom.2.1 hdom.2.2 hx hroot hfuel

theorem C08F_entries_op2_partial (env : Env) (p : Str) (r : TravReq) (s : State) (k : FsPath) (rootE : Entry)
    (snap : Snap) (habs : absM env p s = (.ok k, s)) (hent : entriesOf s k = .ok (rootE, snap))
    (hwf : SnapWf snap) (hroot : InSnap snap rootE) (hdom : ExactDomF2 r.opts) (hx : FlagsOkFor snap r.opts)
    (hfuel : fuelNeed snap r.opts rootE ≤ travFuel snap) :
    step env s (.entries p r) =
      (.ok (.trav ((entriesSpecF snap r.opts rootE).1.map (·.path)) (entriesSpecF snap r.opts rootE).2), s) :=
  Lemmas.WalkCF.travM_exact2 habs hent hwf hroot hdom.1 hdom.2.1 hdom.2.2 hx hfuel

/-- nothing a filter rejects is yielded — now also with `contents_first`, links followed -/
theorem C08F_filter_respected2 (snap : Snap) (o : Opts) (rootE : Entry) (f : Nat)
    (hwf : SnapWf snap) (hroot : InSnap snap rootE) (hdom : ExactDomF2 o) (hx : FlagsOkFor snap o)
    (hf : fuelNeed snap o rootE ≤ f) :
    ∀ y ∈ (modelRun snap o rootE f).1,
      (y = present o rootE ∨ ∃ p n raw, alLookup (p ++ [n]) snap = some raw ∧ y = present o raw) ∧
      (o.files = true → y.file = true) ∧ (o.dirs = true → y.dir = true) ∧
      ∃ dy, o.minDepth ≤ dy ∧ (dy = 0 ∨ dy ≤ o.maxDepth) := by
  rw [C08F_exact2_partial snap o rootE f hwf hroot hdom hx hf]
  intro y hy
  obtain ⟨h1, dy, _, h3, h4⟩ := Lemmas.WalkF.mem_walkF o _ _ _ _ y hy
  simp only [selected, Bool.and_eq_true, decide_eq_true_eq, Bool.or_eq_true, Bool.not_eq_true'] at h4
  refine ⟨h1, ?_, ?_, dy, h4.1.1, h3⟩
  · intro hfl; rcases h4.1.2 with h | h
    · rw [hfl] at h; cases h
    · exact h
  · intro hdl; rcases h4.2 with h | h
    · rw [hdl] at h; cases h
    · exact h

/-- the new part of the domain on a witness (`/t/`, `/t/a/`, `/t/l -> /t/a`):
    `dirs().contents_first().follow(true)` yields the directories after their contents, the link
    presented as its target; `files()` instead yields nothing (no directory slips through);
    model and spec evaluated independently -/
theorem C08F_witness_contents_first_filter :
    ExactDomF2 { follow := true, contentsFirst := true, dirs := true } ∧
    ¬ ExactDomF { follow := true, contentsFirst := true, dirs := true } ∧
    FlagsExcl snapS ∧
    modelRun snapS { follow := true, contentsFirst := true, dirs := true } rootS 12 =
      ([dirS, linkS.doFollow true, rootS], .ok ()) ∧
    entriesSpecF snapS { follow := true, contentsFirst := true, dirs := true } rootS =
      ([dirS, linkS.doFollow true, rootS], none) ∧
    modelRun snapS { follow := true, contentsFirst := true, files := true } rootS 12 = ([], .ok ()) ∧
    entriesSpecF snapS { follow := true, contentsFirst := true, files := true } rootS = ([], none) ∧
    fuelNeed snapS { follow := true, contentsFirst := true, dirs := true } rootS ≤ 12 := by decide

/-! ### c''. the same on `ExactDomF3` (after both repairs): every option combination with `OrdOk` and
  `KindOk` — `contents_first` with any depth window and kind filter — no side condition -/

theorem C08F_exactDomF2_sub (o : Opts) (hdom : ExactDomF2 o) : ExactDomF3 o := Lemmas.WalkCF.ExactDomF2.to3 hdom

/-- Central theorem, final form: links followed, every option combination of `ExactDomF3` -/
theorem C08F_exact3 (snap : Snap) (o : Opts) (rootE : Entry) (f : Nat)
    (hwf : SnapWf snap) (hroot : InSnap snap rootE) (hdom : ExactDomF3 o)
    (hf : fuelNeed snap o rootE ≤ f) :
    modelRun snap o rootE f = specRun snap o rootE := by
  have h := Lemmas.WalkCF.runIter_exact3 hwf hdom.1 hdom.2.1 hdom.2.2 hroot f hf
  simp [modelRun, specRun, h]

theorem C08F_collectEntries3 (snap : Snap) (o : Opts) (rootE : Entry)
    (hwf : SnapWf snap) (hroot : InSnap snap rootE) (hdom : ExactDomF3 o)
    (hfuel : fuelNeed snap o rootE ≤ travFuel snap) :
    collectEntries snap o rootE =
      match entriesSpecF snap o rootE with
      | (ys, none) => .ok ys
      | (_, some k) => .err k :=
  Lemmas.WalkCF.collectEntries_exactF3 hwf hdom.1 hdom.2.1 hdom.2.2 hroot hfuel

theorem C08F_entries_op3 (env : Env) (p : Str) (r : TravReq) (s : State) (k : FsPath) (rootE : Entry)
    (snap : Snap) (habs : absM env p s = (.ok k, s)) (hent : entriesOf s k = .ok (rootE, snap))
    (hwf : SnapWf snap) (hroot : InSnap snap rootE) (hdom : ExactDomF3 r.opts)
    (hfuel : fuelNeed snap r.opts rootE ≤ travFuel snap) :
    step env s (.entries p r) =
      (.ok (.trav ((entriesSpecF snap r.opts rootE).1.map (·.path)) (entriesSpecF snap r.opts rootE).2), s) :=
  Lemmas.WalkCF.travM_exact3 habs hent hwf hroot hdom.1 hdom.2.1 hdom.2.2 hfuel

/-- ... ends either normally or with `LinkLooping` / `DoesNotExist`, every option combination -/
theorem C08F_outcomes3 (snap : Snap) (o : Opts) (rootE : Entry) (f : Nat)
    (hwf : SnapWf snap) (hroot : InSnap snap rootE) (hdom : ExactDomF3 o)
    (hf : fuelNeed snap o rootE ≤ f) :
    (modelRun snap o rootE f).2 = .ok () ∨ (modelRun snap o rootE f).2 = .err .linkLooping ∨
      (modelRun snap o rootE f).2 = .err .doesNotExist := by
  rw [C08F_exact3 snap o rootE f hwf hroot hdom hf]
  simp only [specRun]
  cases h : (entriesSpecF snap o rootE).2 with
  | none => exact Or.inl rfl
  | some k =>
    rcases C08F_spec_errors snap o rootE k h with rfl | rfl
    · exact Or.inr (Or.inl rfl)
    · exact Or.inr (Or.inr rfl)

/-- nothing a filter or the depth window rejects is yielded, every option combination -/
theorem C08F_filter_respected3 (snap : Snap) (o : Opts) (rootE : Entry) (f : Nat)
    (hwf : SnapWf snap) (hroot : InSnap snap rootE) (hdom : ExactDomF3 o)
    (hf : fuelNeed snap o rootE ≤ f) :
    ∀ y ∈ (modelRun snap o rootE f).1,
      (y = present o rootE ∨ ∃ p n raw, alLookup (p ++ [n]) snap = some raw ∧ y = present o raw) ∧
      (o.files = true → y.file = true) ∧ (o.dirs = true → y.dir = true) ∧
      ∃ dy, o.minDepth ≤ dy ∧ (dy = 0 ∨ dy ≤ o.maxDepth) := by
  rw [C08F_exact3 snap o rootE f hwf hroot hdom hf]
  intro y hy
  obtain ⟨h1, dy, _, h3, h4⟩ := Lemmas.WalkF.mem_walkF o _ _ _ _ y hy
  simp only [selected, Bool.and_eq_true, decide_eq_true_eq, Bool.or_eq_true, Bool.not_eq_true'] at h4
  refine ⟨h1, ?_, ?_, dy, h4.1.1, h3⟩
  · intro hfl; rcases h4.1.2 with h | h
    · rw [hfl] at h; cases h
    · exact h
  · intro hdl; rcases h4.2 with h | h
    · rw [hdl] at h; cases h
    · exact h

/-- the former `min_depth` finding with links followed, on a witness (`/t/`, `/t/a/`, `/t/l -> /t/a`):
    `min_depth(1).contents_first().follow(true)`; model and spec evaluated independently -/
theorem C08F_witness_contents_first_min_depth :
    ExactDomF3 { follow := true, contentsFirst := true, minDepth := 1 } ∧
    ¬ ExactDomF2 { follow := true, contentsFirst := true, minDepth := 1 } ∧
    modelRun snapS { follow := true, contentsFirst := true, minDepth := 1 } rootS 12 =
      ([dirS, linkS.doFollow true], .ok ()) ∧
    entriesSpecF snapS { follow := true, contentsFirst := true, minDepth := 1 } rootS =
      ([dirS, linkS.doFollow true], none) ∧
    fuelNeed snapS { follow := true, contentsFirst := true, minDepth := 1 } rootS ≤ 12 := by decide

/-- non-vacuity: the hypotheses hold of concrete snapshots with a link loop / a link to a sibling;
    both option domains are inhabited -/
example : SnapWf snapL ∧ InSnap snapL rootL ∧ SnapWf snapS ∧ InSnap snapS rootS ∧
    ExactDomF { follow := true, sorted := true, dirsFirst := true, files := true, minDepth := 1, maxDepth := 3, maxDesc := 0 } ∧
    ExactDomF { follow := true, sorted := true, contentsFirst := true, maxDepth := 2 } := by decide

/-! ### d. concrete witnesses -/

/-- a link to a sibling directory: the link is presented as its target, and the target's contents
    (none here) are walked once more; no error -/
theorem C08F_witness_sibling :
    entriesSpecF snapS { follow := true } rootS =
      ([rootS, dirS, linkS.doFollow true], none) := by decide

/-- a link to the directory being walked: `LinkLooping`, after the root has been yielded -/
theorem C08F_witness_loop :
    entriesSpecF snapL { follow := true } rootL = ([rootL], some .linkLooping) := by decide

/-- observation (spec mirrors the code here): the loop check does not look at the depth limit —
    with `max_depth(1)` the link at depth 1 would not be entered, so there is no descent to
    prevent, yet the traversal ends with `LinkLooping` instead of yielding the link -/
theorem C08F_observation_loop_at_max_depth :
    entriesSpecF snapL { follow := true, maxDepth := 1 } rootL = ([rootL], some .linkLooping) := by
  decide

/-- the model on the same witnesses (direct evaluation, independent of c.): the loop is reported
    after the root was yielded; the sibling link is presented as its target; and `travFuel`
    covers `fuelNeed` there (non-vacuity of the fuel hypotheses) -/
theorem C08F_witness_model :
    modelRun snapL { follow := true } rootL 8 = ([rootL], .err .linkLooping) ∧
    modelRun snapS { follow := true } rootS 12 = ([rootS, dirS, linkS.doFollow true], .ok ()) ∧
    collectEntries snapL { follow := true } rootL = .err .linkLooping ∧
    fuelNeed snapL { follow := true } rootL ≤ 8 ∧ fuelNeed snapS { follow := true } rootS ≤ 12 ∧
    fuelNeed snapL { follow := true } rootL ≤ travFuel snapL := by decide

/-
  -- OPEN (not proved) / observed by evaluation only:
  -- * `C08F_collectEntries_full` (no fuel hypothesis): FALSE for the model — `travFuel` is
  --   quadratic in the snapshot, the walk can be exponential: diamond chain
  --   /top/d0 .. /top/d16, d_i = { m -> d_{i+1}, n -> d_{i+1} }, d_16 = { x } (50 entries),
  --   walked from /top/d0 with { follow, sorted }: the spec yields 196607 entries without error,
  --   `collectEntries` (travFuel = 173056) returns `.hang`; for 15 levels (98303 entries) both
  --   agree. Checked by `#eval` (Rivia/Spec/WalkFollowTest.lean, `diaChain`), too large for `decide`.
  --   The real iterator has no fuel: it terminates after 2^k steps (resource blow-up, not a hang).
  -- * a closed-form decidable condition on the snapshot implying `fuelNeed ≤ travFuel`
  --   (e.g. a bound on the number of directory links): not proved; `fuelNeed` itself is computable.
  -- * outside `ExactDomF3` (both kind flags at once; grouping flags without `sort_by_name` — no
  --   builder call sequence produces either): with `OrdOk` termination is proved
  --   (`C08F_terminates_all_options`), nothing without it.
  -- * the consumers with a `pre_op` / failing `step` (`chmodM`, `copyM`): not covered (`noPre`,
  --   collecting consumer only).
-/

end Rivia.Props
