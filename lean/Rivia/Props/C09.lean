/-
  C09 — copy duplicates and move_p relocates a subtree without loss or collateral change.
  Property theorems ONLY (helper lemmas live in Rivia/Lemmas/{CopyMove,AbsWf,MoveP,MoveRefine,CopyP,CopyFrame,
  CopyTree,C09Witness}.lean; the reference copy is Rivia/Spec/CopySpec.lean).

  Standing hypotheses on the pre-state `s` (all decidable):
    `Spec.Inv s`  the tree invariant of C03,
    `KeysWf s`    every name in every key and in cwd is non-empty, slash-free, not `.` / `..`,
    `KindWf s`    no entry is flagged both directory and file (true of every reachable state;
                  `Spec.Inv` does not state it, and C09 is false without it).
  That `abs` hands well-formed keys to the operations is proved (`Lemmas.absM_wf`), not assumed.
-/
import Rivia.Lemmas.MoveRefine
import Rivia.Lemmas.CopyFrame
import Rivia.Lemmas.C09Witness

namespace Rivia.Props
open Rivia Rivia.Memfs Rivia.Spec Rivia.Spec.TreeFs Rivia.Lemmas

/-! ### (a) destination keys -/

/-- `dst_root.mash(path.trim_prefix(prefix))`, computed on strings as the code does, re-roots the
    key: the entry `pre ++ r` goes to `dstRoot ++ r` (any prefix `pre`, the root `[]` included) -/
theorem C09_dstOf {dstRoot pre r : FsPath} (hd : WfKey dstRoot) (hr : WfKey r) :
    dstOf dstRoot (pre ++ r) pre = dstRoot ++ r :=
  dstOf_append hd hr

theorem C09_dstOf_root {dstRoot r : FsPath} (hd : WfKey dstRoot) (hr : WfKey r) :
    dstOf dstRoot r [] = dstRoot ++ r :=
  dstOf_append (pre := []) hd hr

/-! ### (c) a move_p that does not succeed changes nothing -/

/-- every outcome other than `Ok` (error, panic, hang) leaves the state exactly as it was -/
theorem C09_move_not_ok_noop {env : Env} {a b : Str} {s : State} (hinv : Spec.Inv s)
    (hk : KeysWf s) (hkind : KindWf s)
    (h : ∀ v, (step env s (.moveP a b)).1 ≠ .ok v) : (step env s (.moveP a b)).2 = s := by
  show (mapVal (fun _ => Val.unit) (moveM env a b) s).2 = s
  have h' : ∀ v, (mapVal (fun _ => Val.unit) (moveM env a b) s).1 ≠ .ok v := h
  unfold mapVal at h' ⊢
  rcases moveM_total (a := a) (b := b) hinv hk hkind with ⟨r, hr, _⟩ | ⟨_, _, _, _, _, _, _, hr⟩ |
    ⟨_, _, _, s', _, _, _, hr, _⟩
  · rw [hr]; cases r <;> rfl
  · rw [hr]
  · rw [hr] at h'; exact absurd rfl (h' _)

theorem C09_move_failure_noop {env : Env} {a b : Str} {s : State} {k : ErrKind} (hinv : Spec.Inv s)
    (hk : KeysWf s) (hkind : KindWf s)
    (h : (step env s (.moveP a b)).1 = .err k) : (step env s (.moveP a b)).2 = s :=
  C09_move_not_ok_noop hinv hk hkind (by intro v hv; rw [h] at hv; cases hv)

/-! ### (b) a successful move_p re-keys the source subtree and nothing else -/

/-- the destination of `move_p` as the property states it: `dk/<last name of sk>` when `dk` is a
    real directory, else `dk` -/
theorem C09_moveDst_eq {s : State} {sk dk : FsPath} (hsk : WfKey sk) (hne : sk ≠ []) (hdk : WfKey dk) :
    moveDst s sk dk = if isDirP s dk = true then dk ++ [baseName sk] else dk := by
  unfold moveDst
  cases isDirP s dk with
  | false => rfl
  | true => simp only [if_true]; exact mash_renderP_name hdk (hsk _ (baseName_mem hne))

/-- key-wise form. `sk`, `dk` are the resolved arguments, `dst` the final destination
    (`dk/<name>` when `dk` is a real directory, else `dk`). Either `dst = sk` and nothing changed, or:
    no key at or below `sk` remains, the abstract node of every `sk ++ r` is now at `dst ++ r`,
    and every other key has the abstract node it had. -/
theorem C09_move_success {env : Env} {a b : Str} {s s' : State} (hinv : Spec.Inv s)
    (hk : KeysWf s) (hkind : KindWf s)
    (h : step env s (.moveP a b) = (.ok .unit, s')) :
    ∃ sk dk, absM env a s = (.ok sk, s) ∧ absM env b s = (.ok dk, s) ∧
      (sk ≠ [] → moveDst s sk dk = if isDirP s dk = true then dk ++ [baseName sk] else dk) ∧
      ((moveDst s sk dk = sk ∧ s' = s) ∨
       (s'.cwd = s.cwd ∧
        (∀ r, alLookup (sk ++ r) s'.entries = none) ∧
        (∀ r, nodeAt s' (moveDst s sk dk ++ r) = nodeAt s (sk ++ r)) ∧
        (∀ k, (∀ r, k ≠ sk ++ r) → (∀ r, k ≠ moveDst s sk dk ++ r) → nodeAt s' k = nodeAt s k))) := by
  have h' : mapVal (fun _ => Val.unit) (moveM env a b) s = (.ok .unit, s') := h
  unfold mapVal at h'
  rcases moveM_total (a := a) (b := b) hinv hk hkind with ⟨r, hr, hne⟩ |
    ⟨sk, dk, _, ha, hb, _, hsame, hr⟩ | ⟨sk, dk, _, s'', ha, hb, _, hr, hcwd, h1, h2, h3, _⟩
  · rw [hr] at h'
    cases r with
    | ok u => exact absurd rfl (hne u)
    | err k => cases h'
    | panic => cases h'
    | hang => cases h'
  · rw [hr] at h'
    cases h'
    exact ⟨sk, dk, ha, hb, fun hne => C09_moveDst_eq (absM_wf hk.2 ha) hne (absM_wf hk.2 hb),
      Or.inl ⟨hsame, rfl⟩⟩
  · rw [hr] at h'
    cases h'
    exact ⟨sk, dk, ha, hb, fun hne => C09_moveDst_eq (absM_wf hk.2 ha) hne (absM_wf hk.2 hb),
      Or.inr ⟨hcwd, h1, h2, h3⟩⟩

/-- refinement form: the abstraction of the post-state is (equivalent to) the result of the
    reference `move_p` on the abstraction of the pre-state, and the reference succeeds too
    (moving `/` is outside the reference's domain) -/
theorem C09_move_refines {env : Env} {a b : Str} {s s' : State} (hinv : Spec.Inv s)
    (hk : KeysWf s) (hkind : KindWf s)
    (h : step env s (.moveP a b) = (.ok .unit, s')) :
    ∃ sk dk, absM env a s = (.ok sk, s) ∧ absM env b s = (.ok dk, s) ∧
      TEquiv (absS s') (TreeFs.moveP (absS s) sk dk).2 ∧
      (sk ≠ [] → (TreeFs.moveP (absS s) sk dk).1 = .ok ()) := by
  have h' : mapVal (fun _ => Val.unit) (moveM env a b) s = (.ok .unit, s') := h
  unfold mapVal at h'
  rcases moveM_total (a := a) (b := b) hinv hk hkind with ⟨r, hr, hne⟩ |
    ⟨sk, dk, srcE, ha, hb, hsrc, hsame, hr⟩ | ⟨sk, dk, _, s'', ha, hb, _, hr, _, _, _, _, hok, heq⟩
  · rw [hr] at h'
    cases r with
    | ok u => exact absurd rfl (hne u)
    | err k => cases h'
    | panic => cases h'
    | hang => cases h'
  · rw [hr] at h'
    cases h'
    refine ⟨sk, dk, ha, hb, ?_, ?_⟩
    · by_cases hne : sk = []
      · subst hne
        have : (TreeFs.moveP (absS s) [] dk).2 = absS s := by
          unfold TreeFs.moveP
          cases get (absS s) [] with
          | none => rfl
          | some sn => simp
        rw [this]; exact TEquiv.refl _
      · rw [treeMoveP_same hk (absM_wf hk.2 hb) hsrc hne hsame]; exact TEquiv.refl _
    · intro hne
      rw [treeMoveP_same hk (absM_wf hk.2 hb) hsrc hne hsame]
  · rw [hr] at h'
    cases h'
    exact ⟨sk, dk, ha, hb, heq, fun _ => hok⟩

/-! ### (d) a copy changes nothing outside its destination -/

/-- `Cmp D k`: `k` is an ancestor of `D`, `D` itself, or below `D`.  For a no-follow copy (any
    options, any outcome — success or failure) every key that is not comparable with the destination
    root `D = copyDst s sk dk` keeps its entry, its data and hence its abstract node; the cwd is
    unchanged.  (Ancestors of `D` are excluded: they may gain a child name / be created.) -/
theorem C09_copy_outside_unchanged {env : Env} {a b : Str} {c : CopyOpts} {s : State} {sk dk : FsPath}
    (hinv : Spec.Inv s) (hk : KeysWf s) (hfollow : c.follow = false)
    (ha : absM env a s = (.ok sk, s)) (hb : absM env b s = (.ok dk, s))
    (k : FsPath) (hout : ¬ Cmp (copyDst s sk dk) k) :
    alLookup k (step env s (.copyB a b c)).2.entries = alLookup k s.entries ∧
    alLookup k (step env s (.copyB a b c)).2.files = alLookup k s.files ∧
    nodeAt (step env s (.copyB a b c)).2 k = nodeAt s k ∧
    (step env s (.copyB a b c)).2.cwd = s.cwd := by
  have hst : (step env s (.copyB a b c)).2 = (copyM env a b c s).2 := mapVal_snd _ _ _
  rw [hst]
  obtain ⟨h1, h2⟩ := copyM_frame (c := c) (invF_of_inv hinv) hk hfollow ha hb (absM_wf hk.2 hb)
  exact ⟨(h1 k hout).1, (h1 k hout).2, nodeAt_eq_of_lookup (h1 k hout).1 (h1 k hout).2, h2⟩

/-- the source is untouched: when the destination root is neither at/below the source nor above it,
    every key at or below the source keeps its entry and its data (whatever the outcome) -/
theorem C09_copy_source_untouched {env : Env} {a b : Str} {c : CopyOpts} {s : State} {sk dk : FsPath}
    (hinv : Spec.Inv s) (hk : KeysWf s) (hfollow : c.follow = false)
    (ha : absM env a s = (.ok sk, s)) (hb : absM env b s = (.ok dk, s))
    (h1 : ¬ sk <+: copyDst s sk dk) (h2 : ¬ copyDst s sk dk <+: sk) (r : FsPath) :
    alLookup (sk ++ r) (step env s (.copyB a b c)).2.entries = alLookup (sk ++ r) s.entries ∧
    alLookup (sk ++ r) (step env s (.copyB a b c)).2.files = alLookup (sk ++ r) s.files ∧
    nodeAt (step env s (.copyB a b c)).2 (sk ++ r) = nodeAt s (sk ++ r) := by
  have hout : ¬ Cmp (copyDst s sk dk) (sk ++ r) := by
    rintro (h | h)
    · exact h1 ((List.prefix_append sk r).trans h)
    · rcases List.prefix_or_prefix_of_prefix h (List.prefix_append sk r) with h' | h'
      · exact h2 h'
      · exact h1 h'
  obtain ⟨e1, e2, e3, _⟩ := C09_copy_outside_unchanged (c := c) hinv hk hfollow ha hb _ hout
  exact ⟨e1, e2, e3⟩

/-! ### (e) the single-file case in full -/

/-- source a regular file, destination slot (`dk`, or `dk/<name>` when `dk` is a real directory)
    free, its parent an existing real directory: the copy succeeds and the post-state is the
    pre-state plus one file entry (source bytes; source mode, or `mode` when it applies to files),
    one data record and one more name in the parent's child set — nothing else -/
theorem C09_copy_file_concrete {env : Env} {a b : Str} {c : CopyOpts} {s : State} {sk dk : FsPath}
    {srcE pe : Entry} (hinv : Spec.Inv s) (hk : KeysWf s)
    (ha : absM env a s = (.ok sk, s)) (hb : absM env b s = (.ok dk, s)) (hne : sk ≠ dk)
    (hfollow : c.follow = false)
    (hsrc : alLookup sk s.entries = some srcE) (hfile : srcE.file = true) (hlink : srcE.link = false)
    (hdir : srcE.dir = false)
    (hDne : copyDst s sk dk ≠ [])
    (hfree : alLookup (copyDst s sk dk) s.entries = none)
    (hpar : alLookup (copyDst s sk dk).dropLast s.entries = some pe) (hped : pe.dir = true)
    (hpel : pe.link = false) :
    ∃ fs bytes, pe.files = some fs ∧ alLookup sk s.files = some bytes ∧
      step env s (.copyB a b c) =
        (.ok .unit, fileCopied s (copyDst s sk dk) c srcE pe fs bytes) := by
  obtain ⟨fs, bytes, h1, h2, h3⟩ := copyM_file (c := c) (invF_of_inv hinv) hk (absM_wf hk.2 hb) ha hb hne hfollow
    hsrc hfile hlink hdir hDne hfree hpar hped hpel
  refine ⟨fs, bytes, h1, h2, ?_⟩
  show mapVal (fun _ => Val.unit) (copyM env a b c) s = _
  unfold mapVal
  rw [h3]

/-- the same against the reference: the reference copy succeeds too and the abstraction of the
    post-state is the reference's post-state.  Domain: the source's mode is canonical — permission
    bits plus its file-type bit, which is what `MemfsEntryOpts::mode` produces for every entry since
    the `mode_type_bits` repair — and a requested `mode` is a permission value (`< 0o10000`: Memfs
    keeps its permission bits only, like chmod(2); the reference stores it uninterpreted) -/
theorem C09_copy_file_partial {env : Env} {a b : Str} {c : CopyOpts} {s : State} {sk dk : FsPath}
    {srcE pe : Entry} (hinv : Spec.Inv s) (hk : KeysWf s)
    (ha : absM env a s = (.ok sk, s)) (hb : absM env b s = (.ok dk, s)) (hne : sk ≠ dk)
    (hfollow : c.follow = false)
    (hsrc : alLookup sk s.entries = some srcE) (hfile : srcE.file = true) (hlink : srcE.link = false)
    (hdir : srcE.dir = false)
    (hDne : copyDst s sk dk ≠ [])
    (hfree : alLookup (copyDst s sk dk) s.entries = none)
    (hpar : alLookup (copyDst s sk dk).dropLast s.entries = some pe) (hped : pe.dir = true)
    (hpel : pe.link = false)
    (hmode : (srcE.mode &&& 0o7777) ||| 0o100000 = srcE.mode)
    (hperm : ∀ x, c.mode = some x → x < 0o10000) :
    ∃ s', step env s (.copyB a b c) = (.ok .unit, s') ∧
      (copySpec (absS s) sk dk c.mode c.cdirs c.cfiles).1 = .ok () ∧
      TEquiv (absS s') (copySpec (absS s) sk dk c.mode c.cdirs c.cfiles).2 := by
  obtain ⟨s', h1, h2, h3⟩ := copy_file_refines (c := c) (invF_of_inv hinv) hk (absM_wf hk.2 hb) ha hb hne hfollow
    hsrc hfile hlink hdir hDne hfree hpar hped hpel hmode hperm
  refine ⟨s', ?_, h2, h3⟩
  show mapVal (fun _ => Val.unit) (copyM env a b c) s = _
  unfold mapVal
  rw [h1]

/-! ### (f) copying a whole tree — conditional on the traversal order -/

/-- `TreeCtx s sk dk c` (all fields decidable except the universally quantified ones, which range
    over the finitely many keys of `s`): invariant, well-formed names, no-follow, source not the
    root, destination root `D = copyDst s sk dk` free with an existing real-directory parent and not
    below the source, every entry of the source subtree `SubOk` (no link; the mode is canonical:
    permission bits plus the type bit; directories have the default owner 1000:1000), a requested
    `mode` is a non-zero permission value (`< 0o10000`).
    `PreOrder s sk L`: `L` lists exactly the entries of the subtree of `sk`, each once, ancestors
    first.  `htrav`: the traversal of the snapshot yields `L` — this is the traversal theorem (C08)
    taken as an explicit hypothesis; it is proved for a concrete snapshot in `Lemmas.htrav_small`.
    Conclusion: the copy succeeds, the reference copy succeeds, and the abstraction of the
    post-state is the reference's post-state. -/
theorem C09_copy_tree_partial {env : Env} {a b : Str} {c : CopyOpts} {s : State} {sk dk : FsPath}
    {rootE travRoot : Entry} {snap : Snap} {L : List Entry}
    (ctx : TreeCtx s sk dk c)
    (ha : absM env a s = (.ok sk, s)) (hb : absM env b s = (.ok dk, s)) (hne : sk ≠ dk)
    (hsrc : alLookup sk s.entries = some rootE)
    (hent : entriesOf s sk = .ok (travRoot, snap))
    (hL : PreOrder s sk L)
    (htrav : ∀ (step : Entry → State → Outcome Unit × State) (w : State),
      runIter snap (copyOpts false) noPre travRoot step (travFuel snap) {} w = runList step L w) :
    ∃ s', step env s (.copyB a b c) = (.ok .unit, s') ∧
      (copySpec (absS s) sk dk c.mode c.cdirs c.cfiles).1 = .ok () ∧
      TEquiv (absS s') (copySpec (absS s) sk dk c.mode c.cdirs c.cfiles).2 := by
  obtain ⟨s', h1, h2, h3⟩ := copy_tree_refines ctx ha hb hne hsrc hent hL htrav
  refine ⟨s', ?_, h2, h3⟩
  show mapVal (fun _ => Val.unit) (copyM env a b c) s = _
  unfold mapVal
  rw [h1]


/-! ### the statements without `KindWf` are false; non-vacuity of the hypotheses -/

/-- `move_p` failure is a no-op, stated with `Inv` and `KeysWf` only -/
def C09_move_failure_noop_full : Prop :=
  ∀ (env : Env) (a b : Str) (s : State) (k : ErrKind), Spec.Inv s → KeysWf s →
    (step env s (.moveP a b)).1 = .err k → (step env s (.moveP a b)).2 = s

/-- `move_p("/x/x", "/")` passes validation on `weirdState` (destination `/x` "is a file"), replaces
    the directory entry `/x` and then fails with `IsNotDir` while unlinking from the old parent:
    a failed move that changed the state -/
theorem C09_move_failure_noop_full_false : ¬ C09_move_failure_noop_full := by
  intro h
  have h1 : Spec.Inv weirdState := by decide
  have h2 : KeysWf weirdState := by decide
  have h3 : (step (fun _ => none) weirdState (.moveP ['/', 'x', '/', 'x'] ['/'])).1 = .err .isNotDir := by
    decide
  have h4 : (step (fun _ => none) weirdState (.moveP ['/', 'x', '/', 'x'] ['/'])).2 ≠ weirdState := by
    decide
  exact h4 (h _ _ _ _ _ h1 h2 h3)

/-- the standing hypotheses are satisfiable, and both a successful move of a non-trivial subtree
    and a failing move exist on that state -/
example : Spec.Inv smallState ∧ KeysWf smallState ∧ KindWf smallState := by decide

example : (step (fun _ => none) smallState (.moveP ['/', 'a'] ['/', 'd'])).1 = .ok .unit := by decide

example : (step (fun _ => none) smallState (.moveP ['/', 'a'] ['/', 'a', '/', 'x'])).1 = .err .ioInvalidInput := by
  decide

/-- hypotheses of the single-file theorems are satisfiable: `/a/f` → `/d` (an existing directory) -/
example : copyDst smallState [['a'], ['f']] [['d']] = [['d'], ['f']] ∧
    alLookup [['d'], ['f']] smallState.entries = none ∧
    (alLookup [['a'], ['f']] smallState.entries).map (fun e => (e.file, e.link, e.dir, (e.mode &&& 0o7777) ||| 0o100000 == e.mode))
      = some (true, false, false, true) := by decide

/-- non-vacuity of the tree theorem: on `smallState`, `copy("/a", "/d")` satisfies every hypothesis
    of `copy_tree_refines` (the traversal hypothesis is proved for this snapshot), so it succeeds
    and refines the reference copy -/
example : ∃ s', copyM (fun _ => none) ['/', 'a'] ['/', 'd'] {} smallState = (.ok (), s') ∧
    (copySpec (absS smallState) [['a']] [['d']] none false false).1 = .ok () ∧
    TEquiv (absS s') (copySpec (absS smallState) [['a']] [['d']] none false false).2 :=
  copy_tree_refines (c := {}) treeCtx_small (by decide) (by decide) (by decide) (rootE := eA) (by decide)
    (travRoot := eA) (snap := snapA) entriesOf_small preOrder_small htrav_small


end Rivia.Props
