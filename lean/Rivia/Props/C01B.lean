/-
  C01 (group B) — "Memfs behaves as a tree filesystem for every operation history":
  one-step refinement of the destructive / structural operations (`remove`, `symlink`, `remove_all`,
  `chown`, `move_p`) against the reference tree filesystem `Rivia.Spec.TreeFs`.

  Shape of every statement (`Refines env s op`): whenever the reference pins the call down
  (`specStep env (absS s) op = some (r, t')`), the model's result matches `r` (`ResMatch`) and — unless
  `r` is `unspecified` — the abstraction of the model's post-state is pointwise equal to `t'` (`TEquiv`).
  Proofs: `Rivia/Lemmas/RefineB/*`.
-/
import Rivia.Lemmas.RefineB

namespace Rivia.Props
open Rivia Rivia.Memfs Rivia.Spec Rivia.Spec.TreeFs Rivia.Lemmas Rivia.Lemmas.RefineB

/-! ### full strength: `remove`, `symlink`, `remove_all` -/

theorem C01_remove_refines (env : Env) (s : State) (p : Str) (hI : Inv s) (hW : KeysWf s)
    (hc : classOf s env (.remove p) = "-") : Refines env s (.remove p) :=
  remove_refines env s p hI hW hc

theorem C01_symlink_refines (env : Env) (s : State) (l t : Str) (hI : Inv s) (hW : KeysWf s)
    (hc : classOf s env (.symlink l t) = "-") : Refines env s (.symlink l t) :=
  symlink_refines env s l t hI hW hc

theorem C01_removeAll_refines (env : Env) (s : State) (p : Str) (hI : Inv s) (hW : KeysWf s)
    (hc : classOf s env (.removeAll p) = "-") : Refines env s (.removeAll p) :=
  removeAll_refines env s p hI hW hc

/-! ### `chown` (recursive, no follow) and `chown_b` without follow
    Domain: `DepthOk s` (every key has fewer than `usize::MAX` components) for the recursive forms — the
    traversal stops descending at depth `usize::MAX`, the reference does not. -/

theorem C01_chown_refines_partial (env : Env) (s : State) (p : Str) (u g : Nat) (hI : Inv s) (hW : KeysWf s)
    (hc : classOf s env (.chown p u g) = "-") (hD : DepthOk s) : Refines env s (.chown p u g) :=
  chown_refines env s p u g hI hW hc hD

theorem C01_chownB_refines_partial (env : Env) (s : State) (p : Str) (c : ChownOpts) (hI : Inv s) (hW : KeysWf s)
    (hc : classOf s env (.chownB p c) = "-") (hD : c.recursive = true → DepthOk s) :
    Refines env s (.chownB p c) :=
  chownB_refines env s p c hI hW hc hD

/-! ### `move_p`
    Domain: `FlagsOk s` (a non-link entry is a file or a directory, not both) — `Inv` does not say so,
    and the validation of `moveM` reads the `file` flag where the reference reads the kind. -/

theorem C01_moveP_refines_partial (env : Env) (s : State) (a b : Str) (hI : Inv s) (hW : KeysWf s)
    (hc : classOf s env (.moveP a b) = "-") (hF : FlagsOk s) : Refines env s (.moveP a b) :=
  moveP_refines env s a b hI hW hc hF

/-- the statement without the flag hypothesis -/
def C01_moveP_full : Prop :=
  ∀ (env : Env) (s : State) (a b : Str), Inv s → KeysWf s → classOf s env (.moveP a b) = "-" →
    Refines env s (.moveP a b)

namespace C01BWitness
def S (s : String) : Str := s.toList
def env0 : Env := fun _ => none
def dirE (p : FsPath) (fs : List Str) : Entry := { mkDirEntry p none with files := some fs }
/-- an entry that claims to be a file and a directory (not reachable from `Memfs.init`) -/
def both : Entry := { mkFileEntry [S "p", S "c"] with dir := true, files := some [S "x"] }
def sX : State :=
  { entries := [([], dirE [] [S "c", S "p"]), ([S "c"], mkFileEntry [S "c"]), ([S "p"], dirE [S "p"] [S "c"]),
                ([S "p", S "c"], both), ([S "p", S "c", S "x"], mkFileEntry [S "p", S "c", S "x"])],
    files := [([S "c"], [1]), ([S "p", S "c"], [2]), ([S "p", S "c", S "x"], [3])],
    cwd := [], root := [], handles := [] }
/-- a state reached from `Memfs.init` -/
def sR : State := run env0 Memfs.init
  [.mkdirP (S "/a/b"), .writeAll (S "/a/b/f") [1, 2], .mkdirP (S "/d"), .symlink (S "/a/l") (S "/d")]
end C01BWitness
open C01BWitness

instance (n : Str) : Decidable (Wf n) := by unfold Wf; infer_instance
instance (s : State) : Decidable (KeysWf s) := by unfold KeysWf; infer_instance

/-- with `Inv` alone the model moves a file over a directory-and-file entry that still has a child,
    the reference refuses -/
theorem C01_moveP_not_full : ¬ C01_moveP_full := by
  intro h
  have hR := h env0 sX (S "/c") (S "/p") (by decide) (by decide) (by rfl)
  have hsp : specStep env0 (absS sX) (.moveP (S "/c") (S "/p")) = some (.err none, absS sX) := by rfl
  have hm : (step env0 sX (.moveP (S "/c") (S "/p"))).1 = .ok .unit := by decide
  have := (hR _ _ hsp).1
  rw [hm] at this
  exact this

/-! ### `chmod` (octal, recursive) and the octal `chmod_b` without follow
    Domain: `FlagsOk s`, `ModeOk s` (every stored mode carries type bits, so it differs from any permission
    value) and `DepthOk s` when recursive.  `Inv` implies none of them; the two witnesses below are `Inv`
    states (not reachable from `Memfs.init`) where the statement fails without them. -/

theorem C01_chmod_refines_partial (env : Env) (s : State) (p : Str) (m : Nat) (hI : Inv s) (hW : KeysWf s)
    (hc : classOf s env (.chmod p m) = "-") (hF : FlagsOk s) (hM : ModeOk s) (hD : DepthOk s) :
    Refines env s (.chmod p m) :=
  chmod_refines env s p m hI hW hc hF hM hD

theorem C01_chmodB_refines_partial (env : Env) (s : State) (p : Str) (c : ChmodOpts) (hI : Inv s) (hW : KeysWf s)
    (hc : classOf s env (.chmodB p c) = "-") (hsym : c.sym = []) (hF : FlagsOk s) (hM : ModeOk s)
    (hD : c.recursive = true → DepthOk s) : Refines env s (.chmodB p c) :=
  chmodB_refines env s p c hI hW hc hsym hF hM hD

/-- the statement without the extra hypotheses -/
def C01_chmod_full : Prop :=
  ∀ (env : Env) (s : State) (p : Str) (m : Nat), Inv s → KeysWf s → classOf s env (.chmod p m) = "-" →
    Refines env s (.chmod p m)

namespace C01BWitness
/-- a file whose stored mode has no type bits and already equals the requested value -/
def sY : State :=
  { entries := [([], dirE [] [S "f"]), ([S "f"], { mkFileEntry [S "f"] with mode := 0o644 })],
    files := [([S "f"], [])], cwd := [], root := [], handles := [] }
def tY : T :=
  { nodes := [([], ⟨.dir, 0o755, 1000, 1000, none, []⟩), ([S "f"], ⟨.file, 0o644, 1000, 1000, none, []⟩)], cwd := [] }
/-- an empty directory that also claims to be a file -/
def sZ : State :=
  { entries := [([], dirE [] [S "g"]), ([S "g"], { mkFileEntry [S "g"] with dir := true, files := some [] })],
    files := [([S "g"], [])], cwd := [], root := [], handles := [] }
def tZ : T :=
  { nodes := [([], ⟨.dir, 0o755, 1000, 1000, none, []⟩), ([S "g"], ⟨.dir, 0o700, 1000, 1000, none, []⟩)], cwd := [] }
end C01BWitness

/-- `chmod /f 0o644` on `sY`: the model sees "mode unchanged" and writes nothing, so the abstract
    permission stays 0 where the reference has 0o644 -/
theorem C01_chmod_not_full : ¬ C01_chmod_full := by
  intro h
  have hR := h env0 sY (S "/f") 0o644 (by decide) (by decide) (by rfl)
  have hsp : specStep env0 (absS sY) (.chmod (S "/f") 0o644) = some (.ok .unit, tY) := by rfl
  have := ((hR _ _ hsp).2 (by intro h; cases h)).2 [S "f"]
  exact absurd this (by decide)

/-- `FlagsOk` is needed even when `ModeOk` and `DepthOk` hold: `set_mode` adds the *file* type bits to an
    entry the abstraction classifies as a directory -/
theorem C01_chmod_needs_flags :
    ¬ (∀ (env : Env) (s : State) (p : Str) (m : Nat), Inv s → KeysWf s → classOf s env (.chmod p m) = "-" →
        ModeOk s → DepthOk s → Refines env s (.chmod p m)) := by
  intro h
  have hR := h env0 sZ (S "/g") 0o700 (by decide) (by decide) (by rfl) (by decide) (by decide)
  have hsp : specStep env0 (absS sZ) (.chmod (S "/g") 0o700) = some (.ok .unit, tZ) := by rfl
  have := ((hR _ _ hsp).2 (by intro h; cases h)).2 [S "g"]
  exact absurd this (by decide)

/-! ### the step theorem over the proved part of group B -/

/-- operations of group B whose refinement is proved -/
def GroupB : Op → Prop
  | .remove _ | .symlink _ _ | .removeAll _ | .chown _ _ _ | .chownB _ _ | .moveP _ _ | .chmod _ _ => True
  | .chmodB _ c => c.sym = []
  | _ => False

instance : DecidablePred GroupB := fun op => by unfold GroupB; split <;> infer_instance

/-- the decidable domain of the partial statements -/
def DomB (s : State) : Op → Prop
  | .chown _ _ _ => DepthOk s
  | .chownB _ c => c.follow = false → c.recursive = true → DepthOk s
  | .moveP _ _ => FlagsOk s
  | .chmod _ _ => FlagsOk s ∧ ModeOk s ∧ DepthOk s
  | .chmodB _ c => FlagsOk s ∧ ModeOk s ∧ (c.recursive = true → DepthOk s)
  | _ => True

instance (s : State) : DecidablePred (DomB s) := fun op => by unfold DomB; split <;> infer_instance

theorem C01_refines_step_groupB (env : Env) (s : State) (op : Op) (hG : GroupB op) (hI : Inv s) (hW : KeysWf s)
    (hD : DomB s op) (hc : classOf s env op = "-") :
    ∀ r t', specStep env (absS s) op = some (r, t') →
      ResMatch (step env s op).1 r ∧ (r ≠ .unspecified → TEquiv (absS (step env s op).2) t') := by
  cases op <;> try exact False.elim hG
  case remove p => exact remove_refines env s p hI hW hc
  case removeAll p => exact removeAll_refines env s p hI hW hc
  case symlink l t => exact symlink_refines env s l t hI hW hc
  case chown p u g => exact chown_refines env s p u g hI hW hc hD
  case moveP a b => exact moveP_refines env s a b hI hW hc hD
  case chmod p m => exact chmod_refines env s p m hI hW hc hD.1 hD.2.1 hD.2.2
  case chmodB p c => exact chmodB_refines env s p c hI hW hc hG hD.1 hD.2.1 hD.2.2
  case chownB p c =>
    by_cases hf : c.follow = false
    · exact chownB_refines env s p c hI hW hc (hD hf)
    · intro r t' hsp
      simp only [specStep] at hsp
      rw [if_pos (by simpa using hf)] at hsp
      cases hsp

/-- non-vacuity: a reached state satisfies every hypothesis and the reference pins the calls down -/
example : Inv sR ∧ KeysWf sR ∧ DepthOk sR ∧ FlagsOk sR ∧ ModeOk sR := by decide

example : (specStep env0 (absS sR) (.moveP (S "/a") (S "/d"))).map (fun y => y.1) = some (.ok .unit) := by rfl
example : (specStep env0 (absS sR) (.removeAll (S "/a"))).map (fun y => y.1) = some (.ok .unit) := by rfl
example : (specStep env0 (absS sR) (.chown (S "/a") 7 8)).map (fun y => y.1) = some (.ok .unit) := by rfl
example : (specStep env0 (absS sR) (.chmod (S "/a") 0o750)).map (fun y => y.1) = some (.ok .unit) := by rfl

end Rivia.Props

-- OPEN (not proved):
--   * `chmod_b` with a symbolic expression (`c.sym ≠ []`, reference `chmodSym`) and every `follow := true`
--     form: not covered here.
--   * `chown` / `chown_b` recursive without `DepthOk s`: believed false only for trees nested
--     `usize::MAX` deep (no concrete witness can be evaluated), so no `¬ full` theorem is given:
--       ∀ env s p u g, Inv s → KeysWf s → classOf s env (.chown p u g) = "-" → Refines env s (.chown p u g)
