/-
  C01 (second sentence): "A single-target call that reports failure (mkfile, mkdir_p/mkdir_m,
  write_all, append_all, remove, move_p, symlink, set_cwd) leaves the tree exactly as it was."

  Stated on the Memfs model as full structural equality of the `State` (entries, child sets, data
  map, cwd, root, handles) — stronger than equality of the abstract tree.

  * eight of the nine calls: true under `Inv` alone (`C01_failed_call_is_noop_nomove`);
  * `move_p`: FALSE under `Inv` alone (`C01_failed_call_is_noop_full_false`: `Inv` does not forbid
    an entry flagged both `dir` and `file`, and over such an entry `move_p` overwrites the
    directory and then fails in the parent update); true under `Inv ∧ KeysWf ∧ FlagsWf`
    (`C01_failed_move_is_noop`), both decidable and true of `Memfs.init`.
  Proofs are in `Rivia/Lemmas/Noop.lean` and `Rivia/Lemmas/NoopPath.lean`.
-/
import Rivia.Lemmas.NoopPath

namespace Rivia.Props
open Rivia Rivia.Memfs Rivia.Spec Rivia.Lemmas.Noop

/-- the single-target calls of C01 -/
def NoopOp : Op → Prop
  | .mkfile _ | .mkdirP _ | .mkdirM _ _ | .writeAll _ _ | .appendAll _ _ | .remove _
  | .moveP _ _ | .symlink _ _ | .setCwd _ => True
  | _ => False

instance : DecidablePred NoopOp := fun op => by cases op <;> (unfold NoopOp; infer_instance)

/-- the extra domain condition, needed for `move_p` only: regular key names and no entry flagged
    both as directory and as file -/
def MoveDomain (s : State) : Op → Prop
  | .moveP _ _ => KeysWf s ∧ FlagsWf s
  | _ => True

instance (s : State) : DecidablePred (MoveDomain s) := fun op => by
  cases op <;> (unfold MoveDomain; infer_instance)

/-- the property at full strength: under the C03 invariant alone -/
def C01_failed_call_is_noop_full : Prop :=
  ∀ (env : Env) (s : State) (op : Op), NoopOp op → Spec.Inv s →
    ∀ k, (step env s op).1 = .err k → (step env s op).2 = s

/-! ### the witness against the full statement -/

def cexEnv : Env := fun _ => none

def cexDir (p : FsPath) (fs : List Str) : Entry := { mkDirEntry p none with files := some fs }

/-- satisfies `Inv`, but `/a/c` is flagged both as a directory and as a file -/
def cexState : State :=
  { entries := [([], cexDir [] [['a']]),
                ([['a']], cexDir [['a']] [['c']]),
                ([['a'], ['c']], { cexDir [['a'], ['c']] [['c']] with file := true }),
                ([['a'], ['c'], ['c']], mkFileEntry [['a'], ['c'], ['c']])],
    files := [([['a'], ['c']], []), ([['a'], ['c'], ['c']], [])],
    cwd := [], root := [], handles := [] }

/-- `move_p("/a/c/c", "/a")` -/
def cexOp : Op := .moveP ['/', 'a', '/', 'c', '/', 'c'] ['/', 'a']

theorem cex_inv : Spec.Inv cexState := by decide

theorem cex_keysWf : KeysWf cexState := by decide

theorem cex_step : (step cexEnv cexState cexOp).1 = .err .isNotDir ∧
    (step cexEnv cexState cexOp).2 ≠ cexState := by decide

/-- `Inv` alone is not enough for `move_p` -/
theorem C01_failed_call_is_noop_full_false : ¬ C01_failed_call_is_noop_full := fun h =>
  cex_step.2 (h cexEnv cexState cexOp trivial cex_inv _ cex_step.1)

/-! ### the theorems -/

/-- `move_p` that reports failure leaves the state exactly as it was, on states with regular key
    names and exclusive `dir`/`file` flags -/
theorem C01_failed_move_is_noop (env : Env) (s : State) (a b : Str) (h : Spec.Inv s) (hk : KeysWf s)
    (hf : FlagsWf s) (k : ErrKind) (he : (step env s (.moveP a b)).1 = .err k) :
    (step env s (.moveP a b)).2 = s :=
  noop_of_mapVal (noop_moveM (invP_of_inv h) hf hk env a b) he

/-- partial variant covering all nine calls: `Inv`, plus `MoveDomain` (which is `True` except for
    `move_p`) -/
theorem C01_failed_call_is_noop (env : Env) (s : State) (op : Op) (hop : NoopOp op) (h : Spec.Inv s)
    (hmv : MoveDomain s op) (k : ErrKind) (he : (step env s op).1 = .err k) : (step env s op).2 = s := by
  have hI := invP_of_inv h
  cases op <;> first | exact absurd hop id | skip
  case mkfile p => exact noop_of_mapVal (noop_mkfileM hI env p) he
  case mkdirP p => exact noop_of_mapVal (noop_mkdirOp hI env p none) he
  case mkdirM p m => exact noop_of_mapVal (noop_mkdirOp hI env p (some m)) he
  case writeAll p d => exact noop_of_mapVal (noop_writeAllM hI env p d) he
  case appendAll p d => exact noop_of_mapVal (noop_appendAllM hI env p d) he
  case remove p => exact noop_of_mapVal (noop_removeM s env p) he
  case symlink l t => exact noop_of_mapVal (noop_symlinkM hI env l t) he
  case setCwd p => exact noop_of_mapVal (noop_setCwdM s env p) he
  case moveP a b => exact C01_failed_move_is_noop env s a b h hmv.1 hmv.2 k he

/-- the eight calls other than `move_p`: full strength (the invariant alone) -/
theorem C01_failed_call_is_noop_nomove (env : Env) (s : State) (op : Op) (hop : NoopOp op)
    (hnm : ∀ a b, op ≠ .moveP a b) (h : Spec.Inv s) (k : ErrKind) (he : (step env s op).1 = .err k) :
    (step env s op).2 = s := by
  refine C01_failed_call_is_noop env s op hop h ?_ k he
  cases op <;> first | trivial | exact absurd rfl (hnm _ _)

/-- all nine calls on states with regular names and exclusive flags -/
theorem C01_failed_call_is_noop_wf (env : Env) (s : State) (op : Op) (hop : NoopOp op) (h : Spec.Inv s)
    (hk : KeysWf s) (hf : FlagsWf s) (k : ErrKind) (he : (step env s op).1 = .err k) :
    (step env s op).2 = s := by
  refine C01_failed_call_is_noop env s op hop h ?_ k he
  cases op <;> first | trivial | exact ⟨hk, hf⟩

/-! ### non-vacuity -/

/-- the initial state is in the domain -/
theorem C01_domain_init : Spec.Inv Memfs.init ∧ KeysWf Memfs.init ∧ FlagsWf Memfs.init := by decide

/-- a populated state in the domain (`cexState` with the flags of `/a/c` repaired) -/
def okState : State :=
  { cexState with
    entries := [([], cexDir [] [['a']]),
                ([['a']], cexDir [['a']] [['c']]),
                ([['a'], ['c']], cexDir [['a'], ['c']] [['c']]),
                ([['a'], ['c'], ['c']], mkFileEntry [['a'], ['c'], ['c']])],
    files := [([['a'], ['c'], ['c']], [])] }

/-- the hypotheses of `C01_failed_call_is_noop` are satisfiable with a failing `move_p` (into its
    own subtree) and a failing `mkdir_p` (below a file) -/
example : Spec.Inv okState ∧ KeysWf okState ∧ FlagsWf okState ∧
    (step cexEnv okState (.moveP ['/', 'a'] ['/', 'a', '/', 'c'])).1 = .err .ioInvalidInput ∧
    (step cexEnv okState (.mkdirP ['/', 'a', '/', 'c', '/', 'c', '/', 'd'])).1 = .err .isNotDir := by decide

end Rivia.Props
