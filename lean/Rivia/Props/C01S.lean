/-
  C01S — C01 as a trace-level simulation against ONE run of the reference filesystem
  (the first OPEN item of Props/C01R.lean).

  Props/C01R re-abstracts before every call: the reference is stepped from `absS` of the CURRENT Memfs
  state.  Here the reference runs alone,

      t₀ = absS Memfs.init,   tᵢ₊₁ = (specStep env tᵢ opᵢ).2        (`refRun`)

  and `TEquiv (absS sᵢ) tᵢ` is shown for every i, together with result agreement at every step
  (`C01_simulates_history`), for histories in which every operation is `GoodOp ∧ Refined` (the 33
  operations of C01A / C01B), every call returns, no step is in a known-finding class
  (`classOf … = "-"`), `DepthDom` (or the physical size bound) holds at each step, and the reference
  answers every step (`refRun … = some _`: no step `.unspecified`, none outside the reference).

  What was missing in C01R (Lemmas/SimCongr.lean, Lemmas/SimStep.lean):
  * `specStep` respects `TEquiv` — `C01S_specStep_congr`, proved for ALL operations of `Op` (not only the
    33): equal results and `TEquiv` post-states on `TEquiv` arguments.  Every reference operation reads
    the node list through `get` only, except `del` (used by `remove`; `alErase` drops the FIRST
    occurrence of a key) and the six listings (sort of the selected keys): these need the node keys to
    be duplicate-free (`NodupK`) on both sides;
  * `NodupK` is an invariant of the reference run — `C01S_specStep_nodup`, all operations; `move_p`
    (`rest ++ moved`) needs "every proper ancestor of a key is a directory" (`AncDir`), which is
    `get`-determined and therefore carried over from `absS sᵢ` (`Inv sᵢ`) by `TEquiv`;
  * `absS s` has both for `Inv s`.
-/
import Rivia.Props.C01R
import Rivia.Lemmas.SimStep

namespace Rivia.Props
open Rivia Rivia.Memfs Rivia.Spec Rivia.Spec.TreeFs Rivia.Lemmas
open Rivia.Lemmas.Sim (NodupK AncDir RelO Rel)

/-! ### the reference respects `TEquiv` -/

/-- (restates the definitions) the relation between two reference answers: both undefined, or both
    defined with EQUAL results and `TEquiv` post-states -/
theorem C01S_relO_def (x y : Option SR) : RelO x y ↔
    match x, y with
    | some x, some y => x.1 = y.1 ∧ RefineB.TEquiv x.2 y.2
    | none, none => True
    | _, _ => False := by
  cases x <;> cases y <;> exact Iff.rfl

/-- **`specStep` is a congruence for `TEquiv`** on duplicate-free node lists — every operation -/
theorem C01S_specStep_congr (env : Env) {a b : T} (h : RefineB.TEquiv a b) (ha : NodupK a) (hb : NodupK b)
    (op : Op) : RelO (specStep env a op) (specStep env b op) :=
  Sim.specStep_congr env h ha hb op

/-- the same, unfolded: whatever the reference answers from `b` it answers from `a` -/
theorem C01S_specStep_congr' (env : Env) {a b : T} (h : RefineB.TEquiv a b) (ha : NodupK a) (hb : NodupK b)
    (op : Op) (r : R Val) (t' : T) (hs : specStep env b op = some (r, t')) :
    ∃ t'', specStep env a op = some (r, t'') ∧ RefineB.TEquiv t'' t' := by
  have hc := C01S_specStep_congr env h ha hb op
  rw [hs] at hc
  cases hsa : specStep env a op with
  | none => rw [hsa] at hc; exact hc.elim
  | some x =>
    rw [hsa] at hc
    obtain ⟨r'', t''⟩ := x
    obtain ⟨h1, h2⟩ := hc
    simp only at h1 h2
    subst h1
    exact ⟨t'', rfl, h2⟩

/-- **the reference keeps its node keys duplicate-free** (every operation; `AncDir`: every proper
    ancestor of a key is a directory — only `move_p` uses it) -/
theorem C01S_specStep_nodup (env : Env) {t : T} (hn : NodupK t) (hA : AncDir t) (op : Op) (r : R Val) (t' : T)
    (hs : specStep env t op = some (r, t')) : NodupK t' :=
  Sim.nodupK_specStep env hn hA op (r, t') hs

/-- the abstraction of a well-formed Memfs state is duplicate-free with directory ancestors -/
theorem C01S_absS_wf {s : State} (h : Spec.Inv s) : NodupK (absS s) ∧ AncDir (absS s) :=
  ⟨Sim.nodupK_absS h, Sim.ancDir_absS h⟩

/-- `NodupK` cannot be dropped from the congruence: `remove` erases the first occurrence only -/
theorem C01S_congr_needs_nodup :
    ∃ (a b : T), RefineB.TEquiv a b ∧ NodupK a ∧ ¬ NodupK b ∧
      ¬ RefineB.TEquiv (TreeFs.remove a [['x']]).2 (TreeFs.remove b [['x']]).2 := by
  refine ⟨⟨[([], newDir 0o755), ([['x']], newFile)], []⟩,
    ⟨[([], newDir 0o755), ([['x']], newFile), ([['x']], newFile)], []⟩, ?_, by decide, by decide, ?_⟩
  · refine ⟨rfl, fun k => ?_⟩
    unfold TreeFs.get
    simp only [alLookup]
    split
    · rfl
    · split <;> simp_all
  · intro h
    have := h.2 [['x']]
    revert this
    decide

/-! ### the single run of the reference -/

/-- the reference alone: `none` as soon as a step is outside the reference (`specStep = none`) or
    `.unspecified` -/
def refRun (env : Env) : T → List Op → Option T
  | t, [] => some t
  | t, op :: ops =>
    match specStep env t op with
    | some (.unspecified, _) => none
    | some (_, t') => refRun env t' ops
    | none => none

theorem refRun_cons {env : Env} {t t₂ : T} {op : Op} {ops : List Op} (h : refRun env t (op :: ops) = some t₂) :
    ∃ r t', specStep env t op = some (r, t') ∧ r ≠ .unspecified ∧ refRun env t' ops = some t₂ := by
  unfold refRun at h
  split at h
  · cases h
  · rename_i r t' hne heq
    refine ⟨r, t', heq, ?_, h⟩
    rintro rfl
    exact hne rfl
  · cases h

/-- the simulation relation: the invariants of C01R, the abstraction is the reference state, and the
    reference state has no duplicate key -/
def SimInv (s : State) (t : T) : Prop := RInv s ∧ RefineB.TEquiv (absS s) t ∧ NodupK t

theorem C01S_simInv_init : SimInv Memfs.init (absS Memfs.init) :=
  ⟨C01R_init, RefineB.TEquiv.refl _, by decide⟩

/-- the side conditions of one step -/
def StepDom (env : Env) (s : State) (op : Op) : Prop :=
  (GoodOp op ∧ Refined op) ∧ (step env s op).1 ≠ .hang ∧ classOf s env op = "-" ∧ DepthDom s op

instance (env : Env) (s : State) (op : Op) : Decidable (StepDom env s op) := by
  unfold StepDom; infer_instance

/-- **one step of the simulation**: from related states, the Memfs call returns what the reference
    answers FROM ITS OWN STATE `t`, and the post-states are related again -/
theorem C01S_step (env : Env) (s : State) (t : T) (op : Op) (h : SimInv s t) (hd : StepDom env s op)
    (r : R Val) (t' : T) (hs : specStep env t op = some (r, t')) :
    RefineB.ResMatch (step env s op).1 r ∧ (r ≠ .unspecified → SimInv (step env s op).2 t') := by
  obtain ⟨hI, hE, hN⟩ := h
  obtain ⟨⟨hg, hR⟩, hh, hc, hdd⟩ := hd
  have hwf := C01S_absS_wf hI.1.1
  obtain ⟨t'', hs', hE'⟩ := C01S_specStep_congr' env hE hwf.1 hN op r t' hs
  have href := C01R_refines_step env s op hI hR hc hdd r t'' hs'
  refine ⟨href.1, fun hne => ⟨C01R_good_step env s op hg hI hh, Sim.TEquiv.trans (href.2 hne) hE', ?_⟩⟩
  exact C01S_specStep_nodup env hN (Sim.ancDir_congr hE hwf.2) op r t' hs

/-- side conditions along a run, recursively -/
def DomRun (env : Env) : State → List Op → Prop
  | _, [] => True
  | s, op :: ops => StepDom env s op ∧ DomRun env (step env s op).2 ops

theorem C01S_run (env : Env) : ∀ (ops : List Op) (s : State) (t t₂ : T), SimInv s t → DomRun env s ops →
    refRun env t ops = some t₂ → SimInv (run env s ops) t₂ := by
  intro ops
  induction ops with
  | nil => intro s t t₂ h _ hr; cases hr; exact h
  | cons op ops ih =>
    intro s t t₂ h hd hr
    obtain ⟨r, t', hs, hne, hr'⟩ := refRun_cons hr
    exact ih _ t' t₂ ((C01S_step env s t op h hd.1 r t' hs).2 hne) hd.2 hr'

theorem domRun_of (env : Env) : ∀ (ops : List Op) (s : State),
    (∀ pre op post, ops = pre ++ op :: post → StepDom env (run env s pre) op) → DomRun env s ops := by
  intro ops
  induction ops with
  | nil => intro _ _; trivial
  | cons op ops ih =>
    intro s h
    refine ⟨h [] op ops rfl, ih _ fun pre o post he => ?_⟩
    have := h (op :: pre) o post (by rw [he]; rfl)
    exact this

/-- the hypotheses of the history theorems, put together position by position -/
theorem stepDom_of (env : Env) (ops : List Op)
    (hops : ∀ o ∈ ops, GoodOp o ∧ Refined o) (hret : Returns env Memfs.init ops)
    (hdom : ∀ pre op post, ops = pre ++ op :: post →
      classOf (run env Memfs.init pre) env op = "-" ∧ DepthDom (run env Memfs.init pre) op) :
    ∀ pre op post, ops = pre ++ op :: post → StepDom env (run env Memfs.init pre) op := by
  intro pre op post he
  exact ⟨hops op (by rw [he]; simp), hret pre op post he, hdom pre op post he⟩

/-- **C01 as a simulation of one reference run.**  Let `ops` be a history of refined `GoodOp`s from the
    fresh filesystem, every call returning, no call in a known-finding class, `DepthDom` at each step.
    Run the reference ALONE from `absS Memfs.init`.  Then at every position `pre ++ op :: post` of the
    history up to which the reference has answered (`refRun … pre = some t`):
    * the reference's state is the abstraction of the Memfs state, `TEquiv (absS sᵢ) tᵢ`;
    * `tᵢ` has no duplicate key;
    * the Memfs call returns what the reference answers from `tᵢ` (`ResMatch`), and unless that answer
      is `.unspecified` the next states agree again. -/
theorem C01_simulates_history (env : Env) (ops : List Op)
    (hops : ∀ o ∈ ops, GoodOp o ∧ Refined o) (hret : Returns env Memfs.init ops)
    (hdom : ∀ pre op post, ops = pre ++ op :: post →
      classOf (run env Memfs.init pre) env op = "-" ∧ DepthDom (run env Memfs.init pre) op) :
    ∀ pre op post, ops = pre ++ op :: post → ∀ t, refRun env (absS Memfs.init) pre = some t →
      RefineB.TEquiv (absS (run env Memfs.init pre)) t ∧ NodupK t ∧
      ∀ r t', specStep env t op = some (r, t') →
        RefineB.ResMatch (step env (run env Memfs.init pre) op).1 r ∧
        (r ≠ .unspecified → RefineB.TEquiv (absS (step env (run env Memfs.init pre) op).2) t') := by
  intro pre op post he t hr
  have hsd := stepDom_of env ops hops hret hdom
  have hpre : DomRun env Memfs.init pre := domRun_of env pre _ fun p o q hp =>
    hsd p o (q ++ op :: post) (by rw [he, hp]; simp)
  have hinv := C01S_run env pre _ _ t C01S_simInv_init hpre hr
  refine ⟨hinv.2.1, hinv.2.2, fun r t' hs => ?_⟩
  have := C01S_step env _ t op hinv (hsd pre op post he) r t' hs
  exact ⟨this.1, fun hne => (this.2 hne).2.1⟩

/-- the end of the run: if the reference answers every step, its final state is the abstraction of the
    final Memfs state (and every intermediate one, by `C01_simulates_history`) -/
theorem C01_simulates_history_final (env : Env) (ops : List Op)
    (hops : ∀ o ∈ ops, GoodOp o ∧ Refined o) (hret : Returns env Memfs.init ops)
    (hdom : ∀ pre op post, ops = pre ++ op :: post →
      classOf (run env Memfs.init pre) env op = "-" ∧ DepthDom (run env Memfs.init pre) op)
    (t : T) (hr : refRun env (absS Memfs.init) ops = some t) :
    RefineB.TEquiv (absS (run env Memfs.init ops)) t ∧ NodupK t :=
  have h := C01S_run env ops _ _ t C01S_simInv_init
    (domRun_of env ops _ (stepDom_of env ops hops hret hdom)) hr
  ⟨h.2.1, h.2.2⟩

/-- with the physical size bound (fewer than `usize::MAX` entries) in place of `DepthDom` -/
theorem C01_simulates_history_small (env : Env) (ops : List Op)
    (hops : ∀ o ∈ ops, GoodOp o ∧ Refined o) (hret : Returns env Memfs.init ops)
    (hdom : ∀ pre op post, ops = pre ++ op :: post →
      classOf (run env Memfs.init pre) env op = "-" ∧ (run env Memfs.init pre).entries.length < 2 ^ 64 - 1) :
    ∀ pre op post, ops = pre ++ op :: post → ∀ t, refRun env (absS Memfs.init) pre = some t →
      RefineB.TEquiv (absS (run env Memfs.init pre)) t ∧ NodupK t ∧
      ∀ r t', specStep env t op = some (r, t') →
        RefineB.ResMatch (step env (run env Memfs.init pre) op).1 r ∧
        (r ≠ .unspecified → RefineB.TEquiv (absS (step env (run env Memfs.init pre) op).2) t') := by
  refine C01_simulates_history env ops hops hret fun pre op post he => ⟨(hdom pre op post he).1, ?_⟩
  have hr : RInv (run env Memfs.init pre) :=
    C01R_good_run env _ pre (fun o ho => (hops o (by rw [he]; exact List.mem_append_left _ ho)).1) C01R_init
      ((InvAll.noHangRun_iff env _ pre).2 fun p o q hp => hret p o (q ++ op :: post) (by rw [he, hp]; simp))
  exact C01R_depthDom_of_small _ op hr (hdom pre op post he).2

/-! ### the same as one statement about the two traces -/

/-- what the Memfs calls return, in order -/
def memOuts (env : Env) : State → List Op → List (Outcome Val)
  | _, [] => []
  | s, op :: ops => (step env s op).1 :: memOuts env (step env s op).2 ops

/-- what the reference, run alone, answers, in order (`none` as `refRun`) -/
def refOuts (env : Env) : T → List Op → Option (List (R Val))
  | _, [] => some []
  | t, op :: ops =>
    match specStep env t op with
    | some (.unspecified, _) => none
    | some (r, t') => (refOuts env t' ops).map (r :: ·)
    | none => none

/-- position by position: same length, every outcome allowed by the corresponding answer -/
def TraceMatch : List (Outcome Val) → List (R Val) → Prop
  | [], [] => True
  | o :: os, r :: rs => RefineB.ResMatch o r ∧ TraceMatch os rs
  | _, _ => False

theorem C01S_trace (env : Env) : ∀ (ops : List Op) (s : State) (t : T) (rs : List (R Val)), SimInv s t →
    DomRun env s ops → refOuts env t ops = some rs →
    TraceMatch (memOuts env s ops) rs := by
  intro ops
  induction ops with
  | nil => intro s t rs _ _ hr; cases hr; trivial
  | cons op ops ih =>
    intro s t rs h hd hr
    unfold refOuts at hr
    split at hr
    · cases hr
    · rename_i r t' hne heq
      have hne' : r ≠ .unspecified := by rintro rfl; exact hne rfl
      have hst := C01S_step env s t op h hd.1 r t' heq
      cases hro : refOuts env t' ops with
      | none => rw [hro] at hr; cases hr
      | some rs' =>
        rw [hro] at hr
        cases hr
        exact ⟨hst.1, ih _ t' rs' (hst.2 hne') hd.2 hro⟩
    · cases hr

/-- **trace form**: the list of outcomes of the Memfs run matches, position by position, the list of
    answers of the reference run alone (same hypotheses as `C01_simulates_history`) -/
theorem C01_simulates_trace (env : Env) (ops : List Op)
    (hops : ∀ o ∈ ops, GoodOp o ∧ Refined o) (hret : Returns env Memfs.init ops)
    (hdom : ∀ pre op post, ops = pre ++ op :: post →
      classOf (run env Memfs.init pre) env op = "-" ∧ DepthDom (run env Memfs.init pre) op)
    (rs : List (R Val)) (hr : refOuts env (absS Memfs.init) ops = some rs) :
    TraceMatch (memOuts env Memfs.init ops) rs :=
  C01S_trace env ops _ _ rs C01S_simInv_init (domRun_of env ops _ (stepDom_of env ops hops hret hdom)) hr

/-! ### non-vacuity -/

/-- executable check of the side conditions along a run (one evaluation of `step` per call) -/
def domChk (env : Env) : State → List Op → Bool
  | _, [] => true
  | s, op :: ops =>
    decide (GoodOp op ∧ Refined op) && decide (classOf s env op = "-") && decide (DepthDom s op) &&
      match step env s op with
      | (.hang, _) => false
      | (_, s') => domChk env s' ops

theorem domRun_of_chk (env : Env) : ∀ (ops : List Op) (s : State), domChk env s ops = true → DomRun env s ops := by
  intro ops
  induction ops with
  | nil => intro _ _; trivial
  | cons op ops ih =>
    intro s h
    unfold domChk at h
    simp only [Bool.and_eq_true, decide_eq_true_eq] at h
    obtain ⟨⟨⟨h1, h2⟩, h3⟩, h4⟩ := h
    rcases hs : step env s op with ⟨o, s'⟩
    rw [hs] at h4
    unfold DomRun StepDom
    rw [hs]
    cases o with
    | hang => cases h4
    | ok v => exact ⟨⟨h1, (fun h0 => by cases h0), h2, h3⟩, ih _ h4⟩
    | err k => exact ⟨⟨h1, (fun h0 => by cases h0), h2, h3⟩, ih _ h4⟩
    | panic => exact ⟨⟨h1, (fun h0 => by cases h0), h2, h3⟩, ih _ h4⟩

theorem stepDom_of_domRun (env : Env) : ∀ (pre : List Op) (s : State) (op : Op) (post : List Op),
    DomRun env s (pre ++ op :: post) → StepDom env (run env s pre) op := by
  intro pre
  induction pre with
  | nil => intro s op post h; exact h.1
  | cons o pre ih => intro s op post h; exact ih _ op post h.2

namespace C01SWitness
open C01RWitness (S)
/-- 14 calls: a link is made and moved, a directory tree is moved, a file removed through the new
    path, the cwd changed and a relative path used, a recursive chown, a `remove_all` -/
def hist2 : List Op :=
  [.mkdirP (S "/a/b"), .writeAll (S "/a/b/f") [104, 105], .mkdirP (S "/d"), .symlink (S "/a/l") (S "/a/b/f"),
   .moveP (S "/a/l") (S "/d"), .readlink (S "/d/l"), .chmod (S "/a") 0o750, .moveP (S "/a/b") (S "/d"),
   .remove (S "/d/b/f"), .setCwd (S "/d/b"), .mkfile (S "g"),
   .chownB (S "/") { uid := some 5, recursive := true }, .removeAll (S "/a"), .isDir (S "/d/b")]
end C01SWitness
open C01SWitness C01RWitness

theorem C01S_hist2_dom : DomRun env0 Memfs.init hist2 := domRun_of_chk _ _ _ (by decide +kernel)

/-- every hypothesis of `C01_simulates_history` holds of `hist2` … -/
theorem C01S_hist2_hyps :
    (∀ o ∈ hist2, GoodOp o ∧ Refined o) ∧ Returns env0 Memfs.init hist2 ∧
    (∀ pre op post, hist2 = pre ++ op :: post →
      classOf (run env0 Memfs.init pre) env0 op = "-" ∧ DepthDom (run env0 Memfs.init pre) op) := by
  refine ⟨by decide, ?_, ?_⟩
  · intro pre op post he
    exact (stepDom_of_domRun env0 pre _ op post (he ▸ C01S_hist2_dom)).2.1
  · intro pre op post he
    exact (stepDom_of_domRun env0 pre _ op post (he ▸ C01S_hist2_dom)).2.2

set_option maxRecDepth 100000 in
/-- … and the reference, run alone, answers all 14 steps (none `.unspecified`) -/
theorem C01S_hist2_ref : (refRun env0 (absS Memfs.init) hist2).isSome = true := by decide +kernel

set_option maxRecDepth 100000 in
/-- the answers of the reference run alone exist (hypothesis of `C01_simulates_trace`), 14 of them -/
theorem C01S_hist2_outs : ((refOuts env0 (absS Memfs.init) hist2).map List.length) = some 14 := by
  decide +kernel

/-- the conclusion, instantiated: the reference's own final state is the abstraction of Memfs's -/
example : ∃ t, refRun env0 (absS Memfs.init) hist2 = some t ∧
    RefineB.TEquiv (absS (run env0 Memfs.init hist2)) t := by
  cases h : refRun env0 (absS Memfs.init) hist2 with
  | none => have := C01S_hist2_ref; rw [h] at this; cases this
  | some t =>
    exact ⟨t, rfl, (C01_simulates_history_final env0 hist2 C01S_hist2_hyps.1 C01S_hist2_hyps.2.1
      C01S_hist2_hyps.2.2 t h).1⟩


-- OPEN (not proved):
--   * The simulation is stated for the 33 operations with a step refinement theorem (`Refined`: 25 of
--     C01A, 8 of C01B).  The congruence `C01S_specStep_congr` and the `NodupK` preservation
--     `C01S_specStep_nodup` are proved for ALL operations the reference covers (also the six listings,
--     `write_lines` / `append_lines` / `append_line`, symbolic `chmod_b`), so the simulation extends to any
--     of those as soon as its per-step refinement from an `RInv` state is available; for the operations
--     the reference does not cover (`mkfile_m`, `entry`, `copy`, `copy_b`, `entries`, the handle
--     operations: `specStep = none`) a single reference run cannot continue by construction.
--   * `DepthDom` (for recursive `chown` / `chmod`: no key `usize::MAX` components deep) stays a per-step
--     side condition on the Memfs state, or the size bound of `C01_simulates_history_small`; it is no
--     invariant of the model (see Props/C01R.lean).

end Rivia.Props
