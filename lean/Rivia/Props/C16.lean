/-
  C16 — relative(path, base) is the navigation from base to path.
  Property theorems ONLY (helper lemmas live in Rivia/Lemmas/*).
-/
import Rivia.Model.Path
import Rivia.Spec.GoClean
import Rivia.Lemmas.Relative

namespace Rivia.Props
open Rivia Rivia.Spec Rivia.Str Rivia.Lemmas

/-- a well-formed component name: non-empty, no separator, not `.` or `..` -/
def WfName (n : Str) : Prop := n ≠ [] ∧ '/' ∉ n ∧ n ≠ ['.'] ∧ n ≠ ['.', '.']

/-- the clean absolute path with the given normal components (`/` for none) -/
def absPath (ns : List Str) : Str := render (.root :: ns.map Comp.normal)

/-- length of the common prefix -/
def commonLen : List Str → List Str → Nat
  | a :: as, b :: bs => if a = b then commonLen as bs + 1 else 0
  | _, _ => 0

/-- bridges to the lemma-level copies of the definitions above -/
theorem absPath_eq {ns : List Str} (h : ∀ n ∈ ns, WfName n) : absPath ns = bufOf true ns :=
  render_root_normals h

theorem commonLen_eq (ps bs : List Str) : commonLen ps bs = cLen ps bs := by
  induction ps generalizing bs with
  | nil => simp [commonLen, cLen]
  | cons a as ih => cases bs <;> simp [commonLen, cLen, ih]

/-- every clean absolute path is an `absPath` (so the theorems below cover all of them):
    a string is in normal form and rooted iff it is `absPath ns` for well-formed names -/
theorem C16_absPath_clean (ns : List Str) (h : ∀ n ∈ ns, WfName n) :
    goClean (absPath ns) = absPath ns ∧ isRooted (absPath ns) = true ∧
    components (absPath ns) = .root :: ns.map Comp.normal := by
  rw [absPath_eq h]
  exact ⟨goClean_of_normalForm (normalForm_abs h), isRooted_abs ns, components_abs h⟩

/-- shape: zero or more `..` — as many as `b` has components below the common prefix —
    followed only by the normal components of `p` below the common prefix -/
theorem C16_relative_shape (ps bs : List Str) (hp : ∀ n ∈ ps, WfName n) (hb : ∀ n ∈ bs, WfName n)
    (hne : ps ≠ bs) :
    relative (absPath ps) (absPath bs) =
      render (List.replicate (bs.length - commonLen ps bs) Comp.parent ++
              (ps.drop (commonLen ps bs)).map Comp.normal) := by
  rw [absPath_eq hp, absPath_eq hb, relative_abs hp hb hne, commonLen_eq,
    render_shape _ (fun n hn => hp n (List.mem_of_mem_drop hn))]

/-- the result is a relative path -/
theorem C16_relative_is_relative (ps bs : List Str) (hp : ∀ n ∈ ps, WfName n) (hb : ∀ n ∈ bs, WfName n)
    (hne : ps ≠ bs) : isRooted (relative (absPath ps) (absPath bs)) = false := by
  rw [absPath_eq hp, absPath_eq hb, relative_abs hp hb hne]
  exact isRooted_bufOf (bodyPiece_shape (fun n hn => hp n (List.mem_of_mem_drop hn)))

/-- navigation: cleaning `b` joined with the result yields `p` -/
theorem C16_relative_navigates (ps bs : List Str) (hp : ∀ n ∈ ps, WfName n) (hb : ∀ n ∈ bs, WfName n)
    (hne : ps ≠ bs) :
    goClean (push (absPath bs) (relative (absPath ps) (absPath bs))) = absPath ps := by
  rw [absPath_eq hp, absPath_eq hb, relative_abs hp hb hne,
    push_abs_rel (fun q hq => Wf.bodyPiece (hb q hq))
      (bodyPiece_shape (fun n hn => hp n (List.mem_of_mem_drop hn))) (shape_ne_nil hne)]
  exact goClean_navigate hp hb hne

/-- for `p = b` the result is `p` itself and joining it onto `b` still yields `p` -/
theorem C16_relative_self (ps : List Str) (hp : ∀ n ∈ ps, WfName n) :
    relative (absPath ps) (absPath ps) = absPath ps ∧
    goClean (push (absPath ps) (relative (absPath ps) (absPath ps))) = absPath ps := by
  have hrel : relative (absPath ps) (absPath ps) = absPath ps := by simp [relative]
  have hpush : push (absPath ps) (absPath ps) = absPath ps := by
    simp [push, (C16_absPath_clean ps hp).2.1]
  rw [hrel, hpush]
  exact ⟨rfl, (C16_absPath_clean ps hp).1⟩

-- non-vacuity / sanity (tests, labelled as such)
example : relative "/a/b/c".toList "/a/x".toList = "../b/c".toList := by decide
example : absPath ["a".toList, "b".toList] = "/a/b".toList := by decide
example : WfName "a".toList := by unfold WfName; decide

end Rivia.Props
