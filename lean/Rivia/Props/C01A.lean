/-
  C01 (group A) — "Memfs behaves as a tree filesystem": one step of the model refines one step of the
  reference tree filesystem for the queries and the simple creators
  (`cwd root abs exists isDir isFile isSymlink isSymlinkDir isSymlinkFile isExec isReadonly mode uid gid
   owner readAll read readlink readlinkAbs setCwd mkfile mkdirP mkdirM writeAll appendAll`).

  The statement as given (hypotheses `Inv`, `KeysWf`, class "-") is FALSE: `Inv` does not constrain the
  per-entry flags / mode / link fields that the abstraction `absS` reads.  It is kept as
  `C01_refines_step_groupA_full`, refuted, and proved under the additional decidable per-entry
  invariant `EntriesOk` (which holds initially and is preserved by every group-A operation).
-/
import Rivia.Lemmas.RefineA

namespace Rivia.Props
open Rivia Rivia.Memfs Rivia.File Rivia.Spec Rivia.Spec.TreeFs Rivia.Lemmas.RefineA

/-- the refinement statement for one group-A step, exactly as specified -/
def C01_refines_step_groupA_full : Prop :=
  ∀ (env : Env) (s : State) (op : Op), GroupA op = true →
    Spec.Inv s → KeysWf s → classOf s env op = "-" →
    ∀ (r : R Val) (t' : T), specStep env (absS s) op = some (r, t') →
      ResMatch (step env s op).1 r ∧ (r ≠ .unspecified → TEquiv (absS (step env s op).2) t')

/-! ### witnesses: states that satisfy `Inv` and `KeysWf` but are not abstractions of a tree -/

def env0 : Env := fun _ => none

def rootWith (names : List Str) : Entry := { mkDirEntry [] none with files := some names }

/-- (1) the root directory's mode lost its type bits -/
def badMode : State := { Memfs.init with entries := [([], { mkDirEntry [] none with mode := 0 })] }

/-- (2) an entry that is neither `dir` nor `file` -/
def badFlags : State :=
  { Memfs.init with entries := [([], rootWith [['a']]), ([['a']], { mkFileEntry [['a']] with file := false })] }

/-- (3) a link without a target -/
def badLink : State :=
  { Memfs.init with entries := [([], rootWith [['a']]),
      ([['a']], { mkFileEntry [['a']] with link := true, mode := 0o120777 })] }

/-- (4) a link whose stored relative target is not its target relative to its directory
    (what `move_p` of a relative link into another directory leaves behind) -/
def badRel : State :=
  { Memfs.init with entries := [([], rootWith [['a']]),
      ([['a']], { mkFileEntry [['a']] with
                    link := true, mode := 0o120777, alt := some [['b']], rel := ['.', '.', '/', 'b'] })] }

theorem C01_cex_mode :
    Spec.Inv badMode ∧ KeysWf badMode ∧ classOf badMode env0 (.mode ['/']) = "-" ∧
    specStep env0 (absS badMode) (.mode ['/']) = some (.ok (.nat 0o40000), absS badMode) ∧
    (step env0 badMode (.mode ['/'])).1 = .ok (.nat 0) :=
  ⟨by decide, by decide, rfl, rfl, by decide⟩

theorem C01_cex_flags :
    Spec.Inv badFlags ∧ KeysWf badFlags ∧ classOf badFlags env0 (.isFile ['/', 'a']) = "-" ∧
    specStep env0 (absS badFlags) (.isFile ['/', 'a']) = some (.ok (.bool true), absS badFlags) ∧
    (step env0 badFlags (.isFile ['/', 'a'])).1 = .ok (.bool false) :=
  ⟨by decide, by decide, rfl, rfl, by decide⟩

theorem C01_cex_link_target :
    Spec.Inv badLink ∧ KeysWf badLink ∧ classOf badLink env0 (.readlinkAbs ['/', 'a']) = "-" ∧
    specStep env0 (absS badLink) (.readlinkAbs ['/', 'a']) = some (.err none, absS badLink) ∧
    (step env0 badLink (.readlinkAbs ['/', 'a'])).1 = .ok (.path []) :=
  ⟨by decide, by decide, rfl, rfl, by decide⟩

/-- a link whose stored `rel` is stale (as `move_p` of a link leaves it): the class
    `moved_link_rel_stale` of `classOf` now flags it (known finding C10/moved_link_rel_stale) -/
theorem C01_cex_link_rel :
    Spec.Inv badRel ∧ KeysWf badRel ∧ classOf badRel env0 (.readlink ['/', 'a']) = "moved_link_rel_stale" ∧
    specStep env0 (absS badRel) (.readlink ['/', 'a']) = some (.ok (.str ['b']), absS badRel) ∧
    (step env0 badRel (.readlink ['/', 'a'])).1 = .ok (.str ['.', '.', '/', 'b']) :=
  ⟨by decide, by decide, by decide, rfl, by decide⟩

/-- the statement without `EntriesOk` is false (witness: `badMode`, op `mode "/"`) -/
theorem C01_refines_step_groupA_full_false : ¬ C01_refines_step_groupA_full := by
  intro h
  obtain ⟨hI, hK, hC, hS, hM⟩ := C01_cex_mode
  have := (h env0 badMode (.mode ['/']) rfl hI hK hC _ _ hS).1
  rw [hM] at this
  exact absurd this (by simp)

/-! ### the theorem -/

/-- C01, group A (partial: domain `EntriesOk s`, a decidable per-entry invariant): each group-A call
    returns what the reference returns and leaves a state whose abstraction is the reference's
    post-state -/
theorem C01_refines_step_groupA (env : Env) (s : State) (op : Op) (hA : GroupA op = true)
    (hI : Spec.Inv s) (_hK : KeysWf s) (hOk : EntriesOk s) (_hC : classOf s env op = "-")
    (r : R Val) (t' : T) (h : specStep env (absS s) op = some (r, t')) :
    ResMatch (step env s op).1 r ∧ (r ≠ .unspecified → TEquiv (absS (step env s op).2) t') :=
  refines_step_groupA env s op hA hI hOk r t' h

/-- group-A queries never change the state (no hypothesis on the state) -/
theorem C01_queries_pure (env : Env) (s : State) (op : Op) (hQ : GroupAQuery op = true) :
    (step env s op).2 = s :=
  queries_pure env s op hQ

/-- the extra invariant holds initially … -/
theorem C01_init_entriesOk : Spec.Inv Memfs.init ∧ KeysWf Memfs.init ∧ EntriesOk Memfs.init := by decide

/-- … and every group-A operation preserves it -/
theorem C01_groupA_preserves_entriesOk (env : Env) (s : State) (op : Op) (hA : GroupA op = true)
    (hs : EntriesOk s) : EntriesOk (step env s op).2 :=
  groupA_preserves_entriesOk env s op hA hs

/-- every group-A operation is covered by the reference, except `mkdir_m` with a mode outside
    `1 … 0o7777` -/
theorem C01_groupA_covered (env : Env) (t : T) (op : Op) (hA : GroupA op = true)
    (hm : ∀ p m, op = .mkdirM p m → permOk m = true ∧ m ≠ 0) : (specStep env t op).isSome = true := by
  cases op <;> first | rfl | cases hA | skip
  rename_i p m
  simp only [specStep]
  rw [if_pos (hm p m rfl)]
  rfl

/-! ### non-vacuity: a non-trivial state in the domain -/

def okState : State :=
  { entries := [([], rootWith [['d'], ['l']]),
                ([['d']], { mkDirEntry [['d']] none with files := some [['f']] }),
                ([['d'], ['f']], mkFileEntry [['d'], ['f']]),
                ([['l']], { path := [['l']], alt := some [['d'], ['f']], rel := ['d', '/', 'f'], dir := false,
                            file := true, link := true, mode := 0o120777, uid := 1000, gid := 1000,
                            follow := false, cached := false, files := none })],
    files := [([['d'], ['f']], [104, 105])], cwd := [['d']], root := [], handles := [] }

example : Spec.Inv okState ∧ KeysWf okState ∧ EntriesOk okState ∧
    GroupA (.appendAll ['f'] [33]) = true ∧ classOf okState env0 (.appendAll ['f'] [33]) = "-" :=
  ⟨by decide, by decide, by decide, rfl, rfl⟩

end Rivia.Props
