/-
  C12 — no call panics, hangs or wedges the filesystem, whatever its arguments.
  Property theorems ONLY (helper lemmas live in Rivia/Lemmas/Total.lean, Rivia/Lemmas/Fuel*.lean,
  Rivia/Lemmas/NoPanic.lean, Rivia/Lemmas/MoveWf.lean).

  In the models every place where the Rust code can panic is an explicit `.panic` / `none` branch and
  every unbounded loop is fuelled with `.hang` on exhaustion, so "total" = those branches are
  unreachable.

  Total by type (no theorem needed): `Core.slice`, `Core.drop`, `Core.nthFront/nthBack`,
  `Core.first`, `Core.hasSome`, `Core.consume`, `Core.size`, `Core.toBool`, `Core.trimSuffix`,
  `Core.has`, `Core.takeWhileP`, and on the path side `components`, `push`, `render`, `mash`,
  `trimPrefix/trimSuffix`, `trimFirst/trimLast`, `trimProtocol`, `relative`, `parsePaths`, `has*`,
  `isEmpty`, `concat`: these are plain Lean functions into `List`/`Bool`/`Str`, they have no
  `Outcome`/`Option`-as-panic result at all.
-/
import Rivia.Model.MemfsOps
import Rivia.Model.Core
import Rivia.Spec.MemfsJudge
import Rivia.Lemmas.Total
import Rivia.Lemmas.NoPanic
import Rivia.Lemmas.FuelClone
import Rivia.Lemmas.MoveWf

namespace Rivia.Props
open Rivia Rivia.Str Rivia.Memfs Rivia.Spec

/-! ### A. path / core helpers -/

/-- `expandSeg` is called with fuel `y.length + 1`; every larger fuel gives the same result, i.e.
    the fuel-0 branch is never reached with input left -/
theorem C12_expandSeg_fuel_suffices (env : Env) (y : Str) (f : Nat) (hf : y.length + 1 ≤ f) :
    expandSeg env f y [] = expandSeg env (y.length + 1) y [] :=
  Lemmas.expandSeg_fuel env f (y.length + 1) y [] (by omega) (by omega)

/-- `absLoop` is called with fuel `(components c).length + 1`; every larger fuel gives the same
    result -/
theorem C12_absLoop_fuel_suffices (cwd c : Str) (f : Nat) (hf : (components c).length + 1 ≤ f) :
    absLoop f cwd c = absLoop ((components c).length + 1) cwd c :=
  Lemmas.absLoop_fuel f ((components c).length + 1) cwd c (by omega) (by omega)

/-- the public path helpers are total on every string (and every environment / cwd) -/
theorem C12_path_helpers_total (env : Env) (cwd p s : Str) :
    cleanO s ≠ none ∧ trimPrefixO p s ≠ none ∧ trimSuffixO p s ≠ none ∧
    trimExt s ≠ .panic ∧ trimExt s ≠ .hang ∧
    name s ≠ .panic ∧ name s ≠ .hang ∧
    base s ≠ .panic ∧ base s ≠ .hang ∧ dir s ≠ .panic ∧ dir s ≠ .hang ∧
    expand env s ≠ .panic ∧ expand env s ≠ .hang ∧
    absWith env cwd s ≠ .panic ∧ absWith env cwd s ≠ .hang :=
  ⟨Lemmas.cleanO_ne_none s, Lemmas.trimPrefixO_ne_none p s, Lemmas.trimSuffixO_ne_none p s,
   (Lemmas.trimExt_fine s).1, (Lemmas.trimExt_fine s).2,
   (Lemmas.name_fine s).1, (Lemmas.name_fine s).2,
   (Lemmas.base_fine s).1, (Lemmas.base_fine s).2, (Lemmas.dir_fine s).1, (Lemmas.dir_fine s).2,
   (Lemmas.expand_fine env s).1, (Lemmas.expand_fine env s).2,
   (Lemmas.absWith_fine env cwd s).1, (Lemmas.absWith_fine env cwd s).2⟩

/-- `trim_ext` always returns `Ok` (its only failure mode in the code is the slicing panic) -/
theorem C12_trim_ext_ok (s : Str) : ∃ t, trimExt s = .ok t := Lemmas.trimExt_ok s

/-- the iterator extensions with a `Result`: never panic / hang -/
theorem C12_iter_ext_total {α} (l : List α) :
    Core.firstResult l ≠ .panic ∧ Core.firstResult l ≠ .hang ∧
    Core.lastResult l ≠ .panic ∧ Core.lastResult l ≠ .hang ∧
    Core.single l ≠ .panic ∧ Core.single l ≠ .hang := by
  refine ⟨?_, ?_, ?_, ?_, ?_, ?_⟩
  all_goals first
    | (unfold Core.firstResult; split <;> simp)
    | (unfold Core.lastResult; split <;> simp)
    | (unfold Core.single; split <;> simp)

/-! ### B. Memfs operations without a fuelled loop: total on ALL states -/

/-- every operation except `mkfile_m`, `remove_all`, `move_p`, the listings, `entries`, `chmod*`,
    `chown*`, `copy*` -/
abbrev SimpleOp (op : Op) : Prop := Lemmas.SimpleOp op = true

theorem C12_memfs_simple_ops_total (env : Env) (s : State) (op : Op) (h : SimpleOp op) :
    (step env s op).1 ≠ .panic ∧ (step env s op).1 ≠ .hang :=
  Lemmas.step_simple_fine env s op h

/-- non-vacuity: the predicate covers e.g. `mkdir_p`, `symlink`, `write_all`, `remove` -/
example : SimpleOp (.mkdirP "a/b".toList) ∧ SimpleOp (.symlink "l".toList "~/$x".toList) ∧
    SimpleOp (.writeAll [] [1, 2]) ∧ SimpleOp (.remove "..".toList) ∧ ¬ SimpleOp (.removeAll []) := by
  decide

/-! ### D. the instance stays usable: every call of a history of simple operations returns -/

/-- whatever happened before (errors included), the next simple call returns: along any history of
    simple operations, from ANY state, no step panics or hangs -/
theorem C12_history_total (env : Env) (s : State) (pre : List Op) (op : Op) (h : SimpleOp op) :
    (step env (run env s pre) op).1 ≠ .panic ∧ (step env (run env s pre) op).1 ≠ .hang :=
  Lemmas.step_simple_fine env (run env s pre) op h

/-! ### no operation ever panics (ALL operations, ALL states, no invariant) -/

/-- every `.panic` branch of the Memfs model is unreachable: whatever the state (well-formed or
    not) and whatever the arguments, no call panics -/
theorem C12_memfs_never_panics (env : Env) (s : State) (op : Op) : (step env s op).1 ≠ .panic :=
  Lemmas.step_no_panic env s op

/-! ### C. the fuelled loops terminate on well-formed states -/

/-- `remove_all` (general): the worklist loop never exhausts its fuel `4 * (entries + 2)` -/
theorem C12_remove_all_terminates (env : Env) (s : State) (p : Str) (h : Inv s) :
    (step env s (.removeAll p)).1 ≠ .hang :=
  Lemmas.step_removeAll_no_hang env p s h

/-- the snapshot worklist (`_clone_entries`; fuel 0 = `.ok acc` in the model) is never cut short:
    with the model's fuel `4 * (n+1)^2` or any larger one the result is the same -/
theorem C12_snapshot_fuel_suffices (s : State) (h : Inv s) (abs : FsPath) (g : Nat)
    (hg : 4 * (s.entries.length + 1) * (s.entries.length + 1) ≤ g) :
    cloneLoop s.entries g [abs] [] = cloneEntries s abs :=
  Lemmas.cloneEntries_fuel h abs g hg

/-- traversal without following links (general: any depth window, filter, order, contents-first,
    descriptor cap): `nextLoop` / `runIter` never exhaust `travFuel` -/
theorem C12_entries_nofollow_terminates (env : Env) (s : State) (p : Str) (r : TravReq) (h : Inv s)
    (hf : r.follow = false) : (step env s (.entries p r)).1 ≠ .hang :=
  Lemmas.step_entries_no_hang env p r s h hf

/-- the six listing helpers (they never follow links) -/
theorem C12_listings_terminate (env : Env) (s : State) (p : Str) (h : Inv s) :
    (step env s (.paths p)).1 ≠ .hang ∧ (step env s (.dirs p)).1 ≠ .hang ∧
    (step env s (.files p)).1 ≠ .hang ∧ (step env s (.allPaths p)).1 ≠ .hang ∧
    (step env s (.allDirs p)).1 ≠ .hang ∧ (step env s (.allFiles p)).1 ≠ .hang :=
  Lemmas.step_listing_no_hang env p s h

/-- all operations except `move_p`, `mkfile_m` and the traversals that follow links -/
abbrev TermOp (op : Op) : Prop := Lemmas.TermOp op = true

/-- on a well-formed state every such operation returns: `remove_all`, `entries` / `chmod_b` /
    `chown_b` / `copy_b` without `follow`, `chmod`, `chown`, `copy`, the listings and all simple
    operations neither panic nor hang -/
theorem C12_wellformed_ops_total (env : Env) (s : State) (op : Op) (h : Inv s) (ht : TermOp op) :
    (step env s op).1 ≠ .panic ∧ (step env s op).1 ≠ .hang :=
  ⟨Lemmas.step_no_panic env s op, Lemmas.step_term_no_hang env s op h ht⟩

/-- non-vacuity -/
example : Inv Memfs.init ∧ TermOp (.removeAll "/".toList) ∧ TermOp (.chmod "a".toList 0o755) ∧
    TermOp (.copyB [] [] { follow := false }) ∧ TermOp (.entries [] { max := some 3, contentsFirst := true }) ∧
    ¬ TermOp (.entries [] { follow := true }) := by decide

/-- `mkfile_m` (= `mkfile`, then a recursive `chmod` of the new file) returns provided the state
    after its `mkfile` part is well-formed — which is invariant preservation, property C03 -/
theorem C12_mkfile_m_terminates (env : Env) (s : State) (p : Str) (mode : Nat)
    (h : Inv (mkfileM env p s).2) : (step env s (.mkfileM p mode)).1 ≠ .hang :=
  Lemmas.step_mkfileM_no_hang env p mode s h

/-! #### `move_p` -/

/-- leaf case, on ANY state: if the source resolves to an entry without listed children (a file,
    a link, an empty directory) or to nothing, `move_p` returns -/
theorem C12_move_leaf_terminates (env : Env) (s : State) (a b : Str)
    (h : Lemmas.MoveSourceIsLeaf env s a) : (step env s (.moveP a b)).1 ≠ .hang :=
  Lemmas.step_moveP_leaf b h

/-- general case under a decidable domain: on a well-formed state `move_p` returns provided every
    destination key it computes (`dstOf`, through the string functions `trim_prefix` / `mash`)
    for an entry at/under the source lies outside the source subtree.  This holds whenever names
    are ordinary path components; `Inv` itself says nothing about the characters of names, which is
    why it is a hypothesis. -/
theorem C12_move_terminates_partial (env : Env) (s : State) (a b : Str) (h : Inv s)
    (hd : Lemmas.MoveOutside env s a b) : (step env s (.moveP a b)).1 ≠ .hang :=
  Lemmas.step_moveP_outside h hd

/-- a small tree `/a/f` -/
def C12_exampleState : State :=
  { entries := [([], { mkDirEntry [] none with files := some [['a']] }),
                ([['a']], { mkDirEntry [['a']] none with files := some [['f']] }),
                ([['a'], ['f']], mkFileEntry [['a'], ['f']])],
    files := [([['a'], ['f']], [])], cwd := [], root := [], handles := [] }

/-- non-vacuity of the domain (on resolved keys, so that no path pipeline is evaluated): moving the
    directory `/a` of the tree `/a/f` to `/b` -/
example : Inv C12_exampleState ∧ Lemmas.MoveDstOutside C12_exampleState [['a']] [['b']] := by decide

/-- general case on ordinary states: all names in the keys are ordinary path components (non-empty,
    no `/`, not `.` / `..`), no real directory is also a regular file, and the resolved destination
    consists of ordinary components too (it is the output of `abs`).  All three are decidable; none
    is part of `Inv`, all hold on every state the driver reaches. -/
theorem C12_move_terminates_wf (env : Env) (s : State) (a b : Str) (h : Inv s)
    (hw : Lemmas.NamesWf s) (hk : Lemmas.KindExcl s) (hd : Lemmas.DstWf env s b) :
    (step env s (.moveP a b)).1 ≠ .hang :=
  Lemmas.step_moveP_wf a h hw hk hd

/-- non-vacuity of the state hypotheses -/
example : Inv C12_exampleState ∧ Lemmas.NamesWf C12_exampleState ∧ Lemmas.KindExcl C12_exampleState ∧
    Lemmas.WfKey [['b']] := by decide

/-- the string-level destination of `move_p` / `copy` is the list-level one on ordinary names -/
theorem C12_dstOf_ordinary (d pre r : FsPath) (hd : Lemmas.WfKey d) (hp : Lemmas.WfKey pre)
    (hr : Lemmas.WfKey r) : dstOf d (pre ++ r) pre = d ++ r :=
  Lemmas.dstOf_wf hd hp hr

-- OPEN (not proved):
--   def C12_move_terminates_full : Prop :=
--     ∀ env s a b, Inv s → (step env s (.moveP a b)).1 ≠ .hang
--   Neither proved nor refuted: `Inv` does not constrain the characters of names nor exclude an entry
--   that is a directory and a regular file at once, and on such states the destination keys computed
--   through `trim_prefix` / `mash` need not stay outside the source subtree, which is what the
--   potential argument uses.  Proved instead: the leaf case on every state, the general case under
--   `MoveOutside` (C12_move_terminates_partial) and under `NamesWf ∧ KindExcl ∧ DstWf`
--   (C12_move_terminates_wf).  `DstWf` itself follows from "abs returns a clean absolute path"
--   (not proved here).
--
-- OPEN (not proved): termination of the traversals that follow links (`entries` with `follow`,
--   `chmod_b` / `chown_b` / `copy_b` with `follow`): the potential used here (3 · size of the subtree
--   of every pending item) is not decreasing when an item is replaced by the target of a link.
--   Expected to be FALSE in the model for fuel reasons only: with `follow` a directory reachable
--   through k levels of two links each is visited 2^k times (the loop check only looks at the
--   iterators that are currently open), which exceeds `travFuel = 64 (n+2)^2` for k ≈ 20, n ≈ 60;
--   the Rust code would terminate (after exponentially many steps).  Confirmed with `#eval` (not a
--   kernel proof: 262144 iterations are out of reach of `decide`): on the state built by `mkdir_p /d0 .. /d20`
--   and `symlink /di/a -> /d(i+1)`, `symlink /di/b -> /d(i+1)` (62 entries, `Inv` holds),
--   `entries "/d0"` with `follow` yields `.hang` in the model, without `follow` it yields 3 paths.

end Rivia.Props
