import Rivia.Model.MemfsOps
namespace Rivia.Props
theorem C12_placeholder : True := trivial
end Rivia.Props
