/-
  C03 (group A) — the tree invariant `Rivia.Spec.Inv` is preserved by every call of group A:
  all read-only operations, mkfile / mkfile_m, mkdir_p / mkdir_m, write_all / append_all /
  write_lines / append_lines / append_line, the write / append handles (open, put, flush, drop),
  set_cwd, chmod / chmod_b, chown / chown_b — for all environments, all states satisfying the
  invariant and all arguments, at every exit (ok, error, panic, and also hang).
  Property theorems ONLY (proofs in Rivia/Lemmas/InvA.lean).
-/
import Rivia.Lemmas.InvA

namespace Rivia.Props
open Rivia Rivia.Memfs Rivia.Spec Rivia.Lemmas.InvA

/-- (restates `inv_iff`) the decidable invariant evaluated by the judge is the conjunction of the
    eleven ∀-clauses of `InvP` -/
theorem C03_inv_iff_clauses (s : State) : Spec.Inv s ↔ InvP s := inv_iff s

/-- group A preserves the invariant, whether the call succeeds or fails -/
theorem C03_inv_step_groupA (env : Env) (s : State) (op : Op) (hc : CoveredA op) (h : Spec.Inv s)
    (hh : (step env s op).1 ≠ .hang) : Spec.Inv (step env s op).2 :=
  inv_step_A env s op hc h hh

/-- the same without the no-hang hypothesis: in group A even a call that exhausts its fuel
    (traversal of `chmod` / `chown`) leaves a well-formed tree -/
theorem C03_inv_step_groupA_any_outcome (env : Env) (s : State) (op : Op) (hc : CoveredA op)
    (h : Spec.Inv s) : Spec.Inv (step env s op).2 :=
  inv_step_A' env s op hc h

/-- queries, reads, listings and traversals return the state unchanged (any state, any outcome) -/
theorem C03_readonly_ops_do_not_change_state (env : Env) (s : State) (op : Op) (hr : ReadOnlyOp op) :
    (step env s op).2 = s :=
  step_readonly env s op hr

/-- every read-only operation is in group A -/
theorem C03_readonly_ops_are_covered (op : Op) (hr : ReadOnlyOp op) : CoveredA op := by
  cases op <;> simp_all [ReadOnlyOp, readOnlyOp, CoveredA, coveredA]

/-- a history of group-A calls from a well-formed state ends in a well-formed state -/
theorem C03_inv_run_groupA (env : Env) (s : State) (ops : List Op) (hc : ∀ op ∈ ops, CoveredA op)
    (h : Spec.Inv s) : Spec.Inv (run env s ops) := by
  induction ops generalizing s with
  | nil => exact h
  | cons op ops ih =>
    exact ih _ (fun o ho => hc o (List.mem_cons_of_mem _ ho))
      (inv_step_A' env s op (hc op List.mem_cons_self) h)

/-! ### the two auxiliary invariants of the combined induction (`InvPlus = Inv ∧ KeysWf ∧ SortedKids`) -/

/-- group A keeps `KeysWf` at every exit. The ONE extra hypothesis `AbsWf env s` says that `_abs`
    in the pre-state returns keys whose names are non-empty, not `.` and `/`-free; it follows from
    `KeysWf s` by the path-cleaning lemmas (group B proves that implication), it is kept separate
    here. No `Inv` hypothesis is needed. -/
theorem C03_keysWf_step_groupA (env : Env) (s : State) (op : Op) (hc : CoveredA op)
    (ha : AbsWf env s) (h : KeysWf s) : KeysWf (step env s op).2 :=
  keysWf_step_A env s op hc ha h

/-- group A keeps child lists sorted at every exit (`insertName` keeps a sorted list sorted;
    no `Inv` hypothesis is needed) -/
theorem C03_sortedKids_step_groupA (env : Env) (s : State) (op : Op) (hc : CoveredA op)
    (h : SortedKids s) : SortedKids (step env s op).2 :=
  sortedKids_step_A env s op hc h

/-- any invariant satisfying the seven closure conditions of `StepAInv` is kept by group A
    (the three theorems above are instances) -/
theorem C03_groupA_generic {I : State → Prop} {Q : FsPath → Prop} (hI : StepAInv I Q) (env : Env)
    (s : State) (op : Op) (hc : CoveredA op) (hq : StepAInv.AbsQ Q env s) (h : I s) :
    I (step env s op).2 :=
  hI.step env s op hc hq h

/-! non-vacuity: the initial state satisfies the invariant, group A has mutating members, the
    uncovered operations are exactly remove / remove_all / symlink / copy / copy_b / move_p -/
example : Spec.Inv Memfs.init := by decide
example : KeysWf Memfs.init ∧ SortedKids Memfs.init := by
  refine ⟨⟨?_, ?_⟩, ?_⟩
  · intro kv hkv n hn
    simp only [Memfs.init, List.mem_singleton] at hkv
    subst hkv; cases hn
  · intro n hn; cases hn
  · intro kv hkv fs hfs
    simp only [Memfs.init, List.mem_singleton] at hkv
    subst hkv
    cases hfs
    exact List.Pairwise.nil
example : CoveredA (.mkdirM ['a'] 0o700) ∧ CoveredA (.chmodB ['a'] {}) ∧ CoveredA (.hDrop 3) := by decide
example : ¬ CoveredA (.remove []) ∧ ¬ CoveredA (.removeAll []) ∧ ¬ CoveredA (.symlink [] []) ∧
    ¬ CoveredA (.copy [] []) ∧ ¬ CoveredA (.copyB [] [] {}) ∧ ¬ CoveredA (.moveP [] []) := by decide

end Rivia.Props
