/-
  C06R — the tree-content theorems of Props/C06T on REACHABLE states, without the `KeysWf` hypothesis.

  Props/C06T carries the decidable hypothesis `KeysWf s` (no name of a key or of the cwd is empty, `.`,
  `..` or contains `/`) because `C03_Strong` does not exclude `..`.  Props/C01R proves that every state
  reached from `Memfs.init` by a history of `GoodOp`s (everything but `copy_b(..).follow(true)`), each
  call returning, has it (`C01R_good_run`: `RInv = C03_Strong ∧ EntriesOk ∧ KeysW`, and `KeysW` IS
  `Lemmas.KeysWf`).  Here the two are put together: the only hypotheses about the state left are
  "`s` is reached from `Memfs.init` by GoodOp calls that return" (`Reached s`, inductive; the history
  form is `C06R_reached_of_history`) and, for copy, the depth bound
  `DepthOk s` or the physical size bound `s.entries.length < 2^64 - 1`.

  (Props/C06T and Props/C01R can be imported together: checked, no clash.)
  `GoodOp` cannot be dropped: `C01R_copy_follow_breaks_keysW` reaches a state with a key `/d/..` by a
  `copy_b(..).follow(true)`.
-/
import Rivia.Props.C06T
import Rivia.Props.C01R

namespace Rivia.Props
open Rivia Rivia.Memfs Rivia.Spec Rivia.Lemmas Rivia.Lemmas.CT
open Rivia.Lemmas.Snap (DepthOk)

/-- `s` is reached from the fresh filesystem by `GoodOp` calls that return (the environment may change
    from call to call) -/
inductive Reached : State → Prop
  | init : Reached Memfs.init
  | step {s : State} (env : Env) (op : Op) : Reached s → GoodOp op → (step env s op).1 ≠ .hang →
      Reached (step env s op).2

theorem C06R_reached_run (env : Env) : ∀ (ops : List Op) (s : State), Reached s → (∀ o ∈ ops, GoodOp o) →
    InvAll.NoHangRun env s ops → Reached (run env s ops) := by
  intro ops
  induction ops with
  | nil => intro s h _ _; exact h
  | cons op ops ih =>
    intro s h hg hh
    exact ih _ (.step env op h (hg op List.mem_cons_self) hh.1)
      (fun o ho => hg o (List.mem_cons_of_mem _ ho)) hh.2

/-- the state after a history of `GoodOp`s from the fresh filesystem, every call returning, is reached -/
theorem C06R_reached_of_history (env₀ : Env) (ops : List Op) (hg : ∀ o ∈ ops, GoodOp o)
    (hh : Returns env₀ Memfs.init ops) : Reached (run env₀ Memfs.init ops) :=
  C06R_reached_run env₀ ops _ .init hg ((InvAll.noHangRun_iff env₀ _ ops).2 hh)

theorem C06R_reached_rinv {s : State} (h : Reached s) : RInv s := by
  induction h with
  | init => exact C01R_init
  | step env op _ hg hh ih => exact C01R_good_step env _ op hg ih hh

/-- **the standing hypotheses of C06T hold on every reached state** -/
theorem C06R_reached_inv {s : State} (h : Reached s) : C03_Strong s ∧ KeysWf s :=
  have := C06R_reached_rinv h
  ⟨this.1, this.2.2⟩

/-- the depth bound of the copy theorems follows from the physical size bound -/
theorem C06R_depthOk_of_small {s : State} (h : Reached s) (hsmall : s.entries.length < 2 ^ 64 - 1) :
    DepthOk s := by
  intro kv hkv
  have := Reach.depthOk_of_small (C06R_reached_inv h).1.1 hsmall kv hkv
  omega

/-! ### (b) tree copy on reached states -/

/-- `C06_copy_tree_content` with no state hypothesis but `Reached` and `DepthOk` -/
theorem C06R_copy_tree_content {env : Env} {a b : Str} {c : CopyOpts} {s s' : State} {sk dk : FsPath}
    {v : Val} (h : Reached s) (hd : DepthOk s) (hfollow : c.follow = false)
    (ha : absM env a s = (.ok sk, s)) (hb : absM env b s = (.ok dk, s))
    (h1 : ¬ sk <+: copyDst s sk dk) (h2 : ¬ copyDst s sk dk <+: sk)
    (hc : step env s (.copyB a b c) = (.ok v, s')) :
    (∀ r e, alLookup (sk ++ r) s.entries = some e → e.file = true → e.link = false →
      content s' (copyDst s sk dk ++ r) = content s (sk ++ r)) ∧
    (∀ r, content s' (sk ++ r) = content s (sk ++ r)) ∧
    (∀ q, (∀ r e, alLookup (sk ++ r) s.entries = some e → e.dir = false → e.link = false →
        q ≠ copyDst s sk dk ++ r) → content s' q = content s q) ∧
    (∀ q, (∀ r, q ≠ copyDst s sk dk ++ r) → content s' q = content s q) :=
  have hi := C06R_reached_inv h
  C06_copy_tree_content hi.1 hi.2 hd hfollow ha hb h1 h2 hc

/-- the same with the size bound in place of `DepthOk` -/
theorem C06R_copy_tree_content_small {env : Env} {a b : Str} {c : CopyOpts} {s s' : State}
    {sk dk : FsPath} {v : Val} (h : Reached s) (hsmall : s.entries.length < 2 ^ 64 - 1)
    (hfollow : c.follow = false)
    (ha : absM env a s = (.ok sk, s)) (hb : absM env b s = (.ok dk, s))
    (h1 : ¬ sk <+: copyDst s sk dk) (h2 : ¬ copyDst s sk dk <+: sk)
    (hc : step env s (.copyB a b c) = (.ok v, s')) :
    (∀ r e, alLookup (sk ++ r) s.entries = some e → e.file = true → e.link = false →
      content s' (copyDst s sk dk ++ r) = content s (sk ++ r)) ∧
    (∀ r, content s' (sk ++ r) = content s (sk ++ r)) ∧
    (∀ q, (∀ r e, alLookup (sk ++ r) s.entries = some e → e.dir = false → e.link = false →
        q ≠ copyDst s sk dk ++ r) → content s' q = content s q) ∧
    (∀ q, (∀ r, q ≠ copyDst s sk dk ++ r) → content s' q = content s q) :=
  C06R_copy_tree_content h (C06R_depthOk_of_small h hsmall) hfollow ha hb h1 h2 hc

/-- the operation `copy(src, dst)` (default options) -/
theorem C06R_copy_tree_content_copy {env : Env} {a b : Str} {s s' : State} {sk dk : FsPath}
    {v : Val} (h : Reached s) (hd : DepthOk s)
    (ha : absM env a s = (.ok sk, s)) (hb : absM env b s = (.ok dk, s))
    (h1 : ¬ sk <+: copyDst s sk dk) (h2 : ¬ copyDst s sk dk <+: sk)
    (hc : step env s (.copy a b) = (.ok v, s')) :
    (∀ r e, alLookup (sk ++ r) s.entries = some e → e.file = true → e.link = false →
      content s' (copyDst s sk dk ++ r) = content s (sk ++ r)) ∧
    (∀ r, content s' (sk ++ r) = content s (sk ++ r)) ∧
    (∀ q, (∀ r e, alLookup (sk ++ r) s.entries = some e → e.dir = false → e.link = false →
        q ≠ copyDst s sk dk ++ r) → content s' q = content s q) ∧
    (∀ q, (∀ r, q ≠ copyDst s sk dk ++ r) → content s' q = content s q) :=
  have hi := C06R_reached_inv h
  C06_copy_tree_content_copy hi.1 hi.2 hd ha hb h1 h2 hc

/-- copy INTO an existing real directory -/
theorem C06R_copy_tree_into_dir {env : Env} {a b : Str} {c : CopyOpts} {s s' : State} {sk dk : FsPath}
    {v : Val} (h : Reached s) (hd : DepthOk s) (hfollow : c.follow = false)
    (ha : absM env a s = (.ok sk, s)) (hb : absM env b s = (.ok dk, s))
    (hinto : isDirP s dk = true)
    (h1 : ¬ sk <+: dk ++ [baseName sk]) (h2 : ¬ dk ++ [baseName sk] <+: sk)
    (hc : step env s (.copyB a b c) = (.ok v, s')) :
    ∀ r e, alLookup (sk ++ r) s.entries = some e → e.file = true → e.link = false →
      content s' (dk ++ [baseName sk] ++ r) = content s (sk ++ r) :=
  have hi := C06R_reached_inv h
  C06_copy_tree_into_dir hi.1 hi.2 hd hfollow ha hb hinto h1 h2 hc

/-- the single-file case -/
theorem C06R_copy_does_not_alias {env : Env} {a b : Str} {c : CopyOpts} {s s' : State}
    {sk dk : FsPath} {e : Entry} {v : Val}
    (h : Reached s) (hd : DepthOk s) (hfollow : c.follow = false)
    (ha : absM env a s = (.ok sk, s)) (hb : absM env b s = (.ok dk, s))
    (he : alLookup sk s.entries = some e) (hf : e.file = true) (hl : e.link = false)
    (h1 : ¬ sk <+: copyDst s sk dk) (h2 : ¬ copyDst s sk dk <+: sk)
    (hc : step env s (.copyB a b c) = (.ok v, s')) :
    (∃ bytes, content s sk = some bytes ∧ content s' (copyDst s sk dk) = some bytes) ∧
    content s' sk = content s sk ∧
    (∀ q, q ≠ copyDst s sk dk → content s' q = content s q) :=
  have hi := C06R_reached_inv h
  C06_copy_does_not_alias_wf hi.1 hi.2 hd hfollow ha hb he hf hl h1 h2 hc

/-- **copies are independent** (the two-step history of C06T (c)) from every reached state -/
theorem C06R_copy_tree_does_not_alias {env env2 : Env} {a b : Str} {c : CopyOpts} {s s' : State}
    {sk dk : FsPath} {v : Val} (h : Reached s) (hd : DepthOk s) (hfollow : c.follow = false)
    (ha : absM env a s = (.ok sk, s)) (hb : absM env b s = (.ok dk, s))
    (h1 : ¬ sk <+: copyDst s sk dk) (h2 : ¬ copyDst s sk dk <+: sk)
    (hc : step env s (.copyB a b c) = (.ok v, s'))
    (p2 : Str) (d2 : File.Bytes) (k2 : FsPath) (hk2 : absM env2 p2 s' = (.ok k2, s')) :
    ((∃ t, k2 = copyDst s sk dk ++ t) → ∀ r,
      content (step env2 s' (.writeAll p2 d2)).2 (sk ++ r) = content s (sk ++ r) ∧
      content (step env2 s' (.appendAll p2 d2)).2 (sk ++ r) = content s (sk ++ r)) ∧
    ((∃ t, k2 = sk ++ t) → ∀ r e, alLookup (sk ++ r) s.entries = some e → e.file = true →
      e.link = false →
      content (step env2 s' (.writeAll p2 d2)).2 (copyDst s sk dk ++ r) = content s (sk ++ r) ∧
      content (step env2 s' (.appendAll p2 d2)).2 (copyDst s sk dk ++ r) = content s (sk ++ r)) :=
  have hi := C06R_reached_inv h
  C06_copy_tree_does_not_alias hi.1 hi.2 hd hfollow ha hb h1 h2 hc p2 d2 k2 hk2

/-! ### (d) tree move on reached states -/

/-- `C06_move_tree_content` with no state hypothesis but `Reached` -/
theorem C06R_move_tree_content {env : Env} {a b : Str} {s s' : State} {sk dk : FsPath} {v : Val}
    (h : Reached s)
    (ha : absM env a s = (.ok sk, s)) (hb : absM env b s = (.ok dk, s))
    (hm : step env s (.moveP a b) = (.ok v, s')) :
    (sk ≠ [] → moveDst s sk dk = if isDirP s dk = true then dk ++ [baseName sk] else dk) ∧
    ((moveDst s sk dk = sk ∧ s' = s) ∨
     ((∀ r, content s' (moveDst s sk dk ++ r) = content s (sk ++ r)) ∧
      (∀ r, content s' (sk ++ r) = none) ∧
      (∀ k, (∀ r, k ≠ sk ++ r) → (∀ r, k ≠ moveDst s sk dk ++ r) → content s' k = content s k))) :=
  have hi := C06R_reached_inv h
  C06_move_tree_content hi.1 hi.2 ha hb hm

theorem C06R_move_does_not_alias {env : Env} {a b : Str} {s s' : State} {sk dk : FsPath} {v : Val}
    {bytes : File.Bytes} (h : Reached s)
    (ha : absM env a s = (.ok sk, s)) (hb : absM env b s = (.ok dk, s))
    (hne : moveDst s sk dk ≠ sk) (hbytes : content s sk = some bytes)
    (hm : step env s (.moveP a b) = (.ok v, s')) :
    content s' (moveDst s sk dk) = some bytes ∧ content s' sk = none ∧
    (∀ k, (∀ r, k ≠ sk ++ r) → (∀ r, k ≠ moveDst s sk dk ++ r) → content s' k = content s k) :=
  have hi := C06R_reached_inv h
  C06_move_does_not_alias_wf hi.1 hi.2 ha hb hne hbytes hm

/-- resolved keys are well formed on reached states (C06T (a) without hypothesis) -/
theorem C06R_abs_key_wf {env : Env} {p : Str} {s : State} {k : FsPath} (h : Reached s)
    (hp : absM env p s = (.ok k, s)) : ∀ n ∈ k, Wf n :=
  C06_abs_key_wf_of_keysWf (C06R_reached_inv h).2 hp

/-! ### the history forms (the `_reachable` theorems of C06T without `KeysWf`) -/

theorem C06R_copy_tree_content_reachable (env₀ : Env) (ops : List Op)
    (hg : ∀ o ∈ ops, GoodOp o) (hh : Returns env₀ Memfs.init ops)
    {env : Env} {a b : Str} {c : CopyOpts} {s' : State} {sk dk : FsPath} {v : Val}
    (hsmall : (run env₀ Memfs.init ops).entries.length < 2 ^ 64 - 1)
    (hfollow : c.follow = false)
    (ha : absM env a (run env₀ Memfs.init ops) = (.ok sk, run env₀ Memfs.init ops))
    (hb : absM env b (run env₀ Memfs.init ops) = (.ok dk, run env₀ Memfs.init ops))
    (h1 : ¬ sk <+: copyDst (run env₀ Memfs.init ops) sk dk)
    (h2 : ¬ copyDst (run env₀ Memfs.init ops) sk dk <+: sk)
    (hc : step env (run env₀ Memfs.init ops) (.copyB a b c) = (.ok v, s')) :
    (∀ r e, alLookup (sk ++ r) (run env₀ Memfs.init ops).entries = some e → e.file = true →
      e.link = false →
      content s' (copyDst (run env₀ Memfs.init ops) sk dk ++ r) =
        content (run env₀ Memfs.init ops) (sk ++ r)) ∧
    (∀ r, content s' (sk ++ r) = content (run env₀ Memfs.init ops) (sk ++ r)) ∧
    (∀ q, (∀ r, q ≠ copyDst (run env₀ Memfs.init ops) sk dk ++ r) →
      content s' q = content (run env₀ Memfs.init ops) q) := by
  obtain ⟨c1, c2, _, c4⟩ :=
    C06R_copy_tree_content_small (C06R_reached_of_history env₀ ops hg hh) hsmall hfollow ha hb h1 h2 hc
  exact ⟨c1, c2, c4⟩

theorem C06R_move_tree_content_reachable (env₀ : Env) (ops : List Op)
    (hg : ∀ o ∈ ops, GoodOp o) (hh : Returns env₀ Memfs.init ops)
    {env : Env} {a b : Str} {s' : State} {sk dk : FsPath} {v : Val}
    (ha : absM env a (run env₀ Memfs.init ops) = (.ok sk, run env₀ Memfs.init ops))
    (hb : absM env b (run env₀ Memfs.init ops) = (.ok dk, run env₀ Memfs.init ops))
    (hm : step env (run env₀ Memfs.init ops) (.moveP a b) = (.ok v, s')) :
    (moveDst (run env₀ Memfs.init ops) sk dk = sk ∧ s' = run env₀ Memfs.init ops) ∨
     ((∀ r, content s' (moveDst (run env₀ Memfs.init ops) sk dk ++ r) =
        content (run env₀ Memfs.init ops) (sk ++ r)) ∧
      (∀ r, content s' (sk ++ r) = none) ∧
      (∀ k, (∀ r, k ≠ sk ++ r) → (∀ r, k ≠ moveDst (run env₀ Memfs.init ops) sk dk ++ r) →
        content s' k = content (run env₀ Memfs.init ops) k)) :=
  (C06R_move_tree_content (C06R_reached_of_history env₀ ops hg hh) ha hb hm).2

/-! ### non-vacuity (tests, labelled as such) -/

namespace C06RWitness
open C01RWitness (S)
/-- `/a/b/f = "hi"`, `/d` an existing directory -/
def h3 : List Op := [.mkdirP (S "/a/b"), .writeAll (S "/a/b/f") [104, 105], .mkdirP (S "/d")]
end C06RWitness
open C06RWitness C01RWitness

theorem C06R_h3_reached : Reached (run env0 Memfs.init h3) :=
  C06R_reached_run env0 h3 _ .init (by decide) (noHangRun_of_chk _ _ _ (by decide +kernel))

set_option maxRecDepth 100000 in
/-- every hypothesis of `C06R_copy_tree_content_reachable` holds for `copy("/a", "/d")` after `h3`
    (the copy goes INTO `/d`), and the call succeeds -/
theorem C06R_h3_hyps :
    (run env0 Memfs.init h3).entries.length < 2 ^ 64 - 1 ∧
    (absM env0 (S "/a") (run env0 Memfs.init h3)).1 = .ok [S "a"] ∧
    (absM env0 (S "/d") (run env0 Memfs.init h3)).1 = .ok [S "d"] ∧
    copyDst (run env0 Memfs.init h3) [S "a"] [S "d"] = [S "d", S "a"] ∧
    (step env0 (run env0 Memfs.init h3) (.copyB (S "/a") (S "/d") {})).1 = .ok .unit ∧
    (alLookup [S "a", S "b", S "f"] (run env0 Memfs.init h3).entries).map
      (fun e => (e.file, e.link)) = some (true, false) ∧
    content (run env0 Memfs.init h3) [S "a", S "b", S "f"] = some [104, 105] := by
  decide +kernel

theorem C06R_pair_eq {α β : Type} (p : α × β) (a : α) (h : p.1 = a) : p = (a, p.2) := by
  cases p; cases h; rfl

/-- the conclusion, instantiated: after `h3`, `copy("/a", "/d")` puts the bytes of `/a/b/f` at
    `/d/a/b/f` and leaves them at `/a/b/f` — no state hypothesis was supplied -/
example : ∃ s', step env0 (run env0 Memfs.init h3) (.copyB (S "/a") (S "/d") {}) = (.ok .unit, s') ∧
    content s' [S "d", S "a", S "b", S "f"] = some [104, 105] ∧
    content s' [S "a", S "b", S "f"] = some [104, 105] := by
  obtain ⟨w1, w2, w3, w4, w5, w6, w7⟩ := C06R_h3_hyps
  have hs : step env0 (run env0 Memfs.init h3) (.copyB (S "/a") (S "/d") {}) =
      (.ok .unit, (step env0 (run env0 Memfs.init h3) (.copyB (S "/a") (S "/d") {})).2) :=
    C06R_pair_eq _ _ w5
  have ha : absM env0 (S "/a") (run env0 Memfs.init h3) = (.ok [S "a"], run env0 Memfs.init h3) :=
    (C06R_pair_eq _ _ w2).trans (by rw [InvA.absM_snd])
  have hb : absM env0 (S "/d") (run env0 Memfs.init h3) = (.ok [S "d"], run env0 Memfs.init h3) :=
    (C06R_pair_eq _ _ w3).trans (by rw [InvA.absM_snd])
  obtain ⟨e, he, hfl⟩ : ∃ e, alLookup [S "a", S "b", S "f"] (run env0 Memfs.init h3).entries = some e ∧
      (e.file, e.link) = (true, false) := by
    cases hl : alLookup [S "a", S "b", S "f"] (run env0 Memfs.init h3).entries with
    | none => rw [hl] at w6; cases w6
    | some e => rw [hl] at w6; exact ⟨e, rfl, Option.some.inj w6⟩
  have h := C06R_copy_tree_content_small (c := {}) C06R_h3_reached w1 rfl ha hb
    (by rw [w4]; decide) (by rw [w4]; decide) hs
  refine ⟨_, hs, ?_, ?_⟩
  · have := h.1 [S "b", S "f"] e he (congrArg Prod.fst hfl) (congrArg Prod.snd hfl)
    rw [w4] at this
    exact this.trans w7
  · exact (h.2.1 [S "b", S "f"]).trans w7

/-
  -- OPEN (not proved):
  -- * `Reached` quantifies over histories of `GoodOp`s: after a `copy_b(..).follow(true)` the state may
  --   hold a key with a `..` name (`C01R_copy_follow_breaks_keysW`), `KeysWf` fails there and the
  --   theorems of Props/C06T apply only with `KeysWf` as an explicit (decidable) hypothesis.
  -- * `DepthOk` (copy only; no key 2^64 names deep) is not an invariant of the model; it is either a
  --   decidable side condition or replaced by the size bound `entries.length < 2^64 - 1`
  --   (`C06R_depthOk_of_small`).
  -- * the other OPEN items of Props/C06T (`follow = true` copies, overlapping source / destination,
  --   `write_lines` / handles as the second step) are unchanged.
-/

end Rivia.Props
