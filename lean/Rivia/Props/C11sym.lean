/-
  C11 (symbolic-mode part) — the `[dfa]:[ugoa][-+=][rwx]` state machine of `sys::mode`
  against the documented comma-repeatable grammar.   Property theorems ONLY.

  State of the code: `sys::mode` after the repair of finding `sym_kind_specific_clauses`
  (a clause for another kind of entry is skipped up to the next comma instead of ending the call).
  The finding `sym_malformed` (malformed text that is accepted) is still open; it has one new
  member: a clause that is skipped is not read, so garbage in it goes unnoticed.
-/
import Rivia.Model.Chmod
import Rivia.Spec.ChmodGrammar
import Rivia.Lemmas.Chmod

namespace Rivia.Props
open Rivia Rivia.Chmod Rivia.Spec

-- some hypotheses of the original statements (`IsMode cur`, `sym ≠ []`) turned out not to be
-- needed; they are kept so that the statements are unchanged
set_option linter.unusedVariables false

/-- a `u32` mode value -/
def IsMode (m : Nat) : Prop := m < 2 ^ 32

/-! ### well-formed expressions -/

/-- FULL: every well-formed expression means what the grammar says — every clause whose target
    letters all admit the entry kind is applied, in order, the others are skipped; for every
    entry kind, all 2^32 mode values, any number of clauses of any kind mix. -/
theorem C11_symbolic_full (k : EKind) (cur : Nat) (sym : List Char) (cs : List Clause)
    (hcur : IsMode cur) (hne : sym ≠ []) (hp : parseExpr sym = some cs) :
    Chmod.mode k cur 0 sym = .ok (applyExpr k cs cur) :=
  Lemmas.mode_parsed k cur sym cs hp

/-- the same, against the specification function `symSpec` (error = `none`): on well-formed
    text the code never fails and returns the specified mode -/
theorem C11_symbolic_full_spec (k : EKind) (cur : Nat) (sym : List Char) (m : Nat)
    (hcur : IsMode cur) (hs : symSpec k cur sym = some m) : Chmod.mode k cur 0 sym = .ok m := by
  unfold symSpec at hs
  cases hp : parseExpr sym with
  | none => rw [hp] at hs; cases hs
  | some cs =>
    rw [hp] at hs
    cases hs
    exact Lemmas.mode_parsed k cur sym cs hp

/-- corollary: all clauses apply -/
theorem C11_symbolic_all_clauses_apply (k : EKind) (cur : Nat) (sym : List Char) (cs : List Clause)
    (hcur : IsMode cur) (hp : parseExpr sym = some cs) (hall : ∀ c ∈ cs, c.appliesTo k = true) :
    Chmod.mode k cur 0 sym = .ok (applyExpr k cs cur) :=
  Lemmas.mode_parsed k cur sym cs hp

/-- corollary: single clause, whatever the kind (a non-applicable clause leaves the mode) -/
theorem C11_symbolic_single_clause (k : EKind) (cur : Nat) (sym : List Char) (c : Clause)
    (hcur : IsMode cur) (hp : parseExpr sym = some [c]) :
    Chmod.mode k cur 0 sym = .ok (applyExpr k [c] cur) :=
  Lemmas.mode_parsed k cur sym [c] hp

/-- a symlink is never altered by a well-formed expression -/
theorem C11_symbolic_link_untouched (k : EKind) (cur : Nat) (sym : List Char) (cs : List Clause)
    (hl : k.link = true) (hp : parseExpr sym = some cs) : Chmod.mode k cur 0 sym = .ok cur :=
  Lemmas.mode_parsed_link k cur sym cs hl hp

/-- ... nor by any other text: on a link the call fails or returns the mode unchanged -/
theorem C11_link_never_altered (k : EKind) (cur : Nat) (sym : List Char)
    (hl : k.link = true) (hne : sym ≠ []) :
    (∃ e, Chmod.mode k cur 0 sym = .err e) ∨ Chmod.mode k cur 0 sym = .ok cur :=
  Lemmas.mode_link k cur sym hl hne

/-- Former finding `sym_kind_specific_clauses` (before the repair the first line gave `0o100644`):
    a clause for another kind no longer hides the later ones. Positive examples, code = grammar;
    multi-letter target lists are tested per letter, which is the grammar's "every letter admits
    the kind". -/
theorem C11_finding_first_clause_other_kind :
    Chmod.mode ⟨false, true, false⟩ 0o100644 0 "d:u+x,f:a+x".toList = .ok 0o100755 ∧
    symSpec ⟨false, true, false⟩ 0o100644 "d:u+x,f:a+x".toList = some 0o100755 ∧
    Chmod.mode ⟨true, false, false⟩ 0o40700 0 "d:g+rx,f:a+x,a:o+r".toList = .ok 0o40754 ∧
    symSpec ⟨true, false, false⟩ 0o40700 "d:g+rx,f:a+x,a:o+r".toList = some 0o40754 ∧
    Chmod.mode ⟨false, true, false⟩ 0o100644 0 "df:a+x,fd:a+x,fa:g+w".toList = .ok 0o100664 ∧
    symSpec ⟨false, true, false⟩ 0o100644 "df:a+x,fd:a+x,fa:g+w".toList = some 0o100664 ∧
    Chmod.mode ⟨false, true, false⟩ 0o100644 0 "f:u+x,d:a+w".toList = .ok 0o100744 ∧
    symSpec ⟨false, true, false⟩ 0o100644 "f:u+x,d:a+w".toList = some 0o100744 := by decide

/-! ### file-type bits, octal, empty -/

/-- the file-type bits (everything above the 9 permission bits... up to bit 31) are kept by
    every symbolic expression that is accepted -/
theorem C11_type_bits_kept (k : EKind) (cur : Nat) (sym : List Char) (m : Nat)
    (hcur : IsMode cur) (h : Chmod.mode k cur 0 sym = .ok m) (hne : sym ≠ []) :
    m / 512 = cur / 512 ∧ IsMode m :=
  Lemmas.mode_keeps k cur sym m hcur h hne

theorem C11_octal_wins (k : EKind) (cur oct : Nat) (sym : List Char) (h : oct ≠ 0) :
    Chmod.mode k cur oct sym = .ok oct := by
  unfold Chmod.mode; rw [if_pos h]

theorem C11_nothing_requested (k : EKind) (cur : Nat) : Chmod.mode k cur 0 [] = .ok 0 := rfl

/-! ### malformed first clause (open finding `sym_malformed`) -/

/-- Full statement (false, see witnesses): a malformed first clause is always reported. -/
def C11_malformed_first_clause_full : Prop :=
  ∀ (k : EKind) (cur : Nat) (sym : List Char), sym ≠ [] →
    parseClause ((splitComma sym).headD []) = none → ∃ e, Chmod.mode k cur 0 sym = .err e

/-- findings (`sym_malformed`): truncated clauses are silently accepted; an empty target list is
    accepted as "all"; and — new with the repair — a clause for another kind is skipped UNREAD, so
    any garbage after the offending target letter is accepted, and the later clauses are applied.
    The grammar rejects every one of these texts. -/
theorem C11_finding_malformed_accepted :
    -- truncated
    Chmod.mode ⟨false, true, false⟩ 0o100644 0 "f:a+".toList = .ok 0o100644 ∧
    Chmod.mode ⟨false, true, false⟩ 0o100644 0 "f:".toList = .ok 0o100644 ∧
    -- empty target list
    Chmod.mode ⟨false, true, false⟩ 0o100644 0 ":a+x".toList = .ok 0o100755 ∧
    -- skipped unread: end of text
    Chmod.mode ⟨false, true, false⟩ 0o100644 0 "d:q+r".toList = .ok 0o100644 ∧
    Chmod.mode ⟨false, true, false⟩ 0o100644 0 "d".toList = .ok 0o100644 ∧
    Chmod.mode ⟨false, true, false⟩ 0o100644 0 "fd".toList = .ok 0o100644 ∧
    -- skipped unread: the later clauses are applied
    Chmod.mode ⟨false, true, false⟩ 0o100644 0 "d:q+r,f:a+x".toList = .ok 0o100755 ∧
    Chmod.mode ⟨false, true, false⟩ 0o100644 0 "d?!,f:a+x".toList = .ok 0o100755 ∧
    Chmod.mode ⟨false, true, false⟩ 0o100644 0 "fdz:u+,f:a+x".toList = .ok 0o100755 ∧
    Chmod.mode ⟨true, false, false⟩ 0o40755 0 "f,a:o-rx".toList = .ok 0o40750 ∧
    -- the grammar's verdict
    parseClause "f:a+".toList = none ∧ parseClause "f:".toList = none ∧
    parseClause ":a+x".toList = none ∧ parseClause "d:q+r".toList = none ∧
    parseClause "d".toList = none ∧ parseClause "fd".toList = none ∧
    parseExpr "d:q+r,f:a+x".toList = none ∧ parseExpr "d?!,f:a+x".toList = none ∧
    parseExpr "fdz:u+,f:a+x".toList = none ∧ parseExpr "f,a:o-rx".toList = none := by decide

/-- the same malformed clause IS reported on an entry of the kind it names: whether malformed text
    is noticed depends on the entry it is applied to -/
theorem C11_finding_malformed_kind_dependent :
    Chmod.mode ⟨true, false, false⟩ 0o40755 0 "d:q+r,f:a+x".toList = .err .invalidChmodGroup ∧
    Chmod.mode ⟨false, true, false⟩ 0o100644 0 "d:q+r,f:a+x".toList = .ok 0o100755 ∧
    Chmod.mode ⟨true, false, false⟩ 0o40755 0 "d?!,f:a+x".toList = .err .invalidChmodTarget ∧
    Chmod.mode ⟨false, true, false⟩ 0o100644 0 "d?!,f:a+x".toList = .ok 0o100755 := by decide

theorem C11_malformed_first_clause_full_is_false : ¬ C11_malformed_first_clause_full := by
  intro h
  obtain ⟨e, he⟩ := h ⟨false, true, false⟩ 0o100644 "f:a+".toList (by decide) (by decide)
  have hok : Chmod.mode ⟨false, true, false⟩ 0o100644 0 "f:a+".toList = .ok 0o100644 := by decide
  rw [hok] at he
  cases he

/-- the leading target letters of the text all admit the entry kind (decidable) -/
def LeadingTargetsAdmit (k : EKind) (sym : List Char) : Prop :=
  ∀ y ∈ sym.takeWhile isTargetCh, Lemmas.letterOk k y = true

instance (k : EKind) (sym : List Char) : Decidable (LeadingTargetsAdmit k sym) := by
  unfold LeadingTargetsAdmit; infer_instance

/-- Exact behaviour of a skip, for ARBITRARY text `r` after the offending letter (`r` is not
    validated): if the entry is not a link, `t` are target letters admitting the entry kind and
    `x` is `d`/`f` not admitting it, then `t ++ x :: r` means what the text after the next comma
    means — nothing if there is no comma or nothing after it. -/
theorem C11_skipped_clause_unread (k : EKind) (cur : Nat) (t : List Char) (x : Char) (r : List Char)
    (hl : k.link = false) (ht : ∀ y ∈ t, isTargetCh y = true ∧ Lemmas.letterOk k y = true)
    (hx : x = 'd' ∨ x = 'f') (hbad : Lemmas.letterOk k x = false) :
    Chmod.mode k cur 0 (t ++ x :: r) =
      if skipClause r = [] then .ok cur else Chmod.mode k cur 0 (skipClause r) :=
  Lemmas.mode_skip_first k cur t x r hl ht hx hbad

/-- partial: for every `sym` whose first segment does not parse, whose first character is one of
    `d f a` (non-empty target list) and whose leading target letters all admit the entry kind
    (so the clause is not skipped): the result is an error, or it is `.ok cur` (mode unchanged). -/
theorem C11_malformed_first_clause_partial (k : EKind) (cur : Nat) (sym : List Char)
    (hne : sym ≠ []) (hmal : parseClause ((splitComma sym).headD []) = none)
    (htl : ∃ c rest, sym = c :: rest ∧ (c = 'd' ∨ c = 'f' ∨ c = 'a'))
    (hadm : LeadingTargetsAdmit k sym) :
    (∃ e, Chmod.mode k cur 0 sym = .err e) ∨ Chmod.mode k cur 0 sym = .ok cur :=
  Lemmas.mode_malformed k cur sym hmal htl hadm

/-- the hypothesis `LeadingTargetsAdmit` of the partial theorem cannot be dropped -/
theorem C11_malformed_first_clause_partial_needs_admit :
    ¬ ∀ (k : EKind) (cur : Nat) (sym : List Char), sym ≠ [] →
      parseClause ((splitComma sym).headD []) = none →
      (∃ c rest, sym = c :: rest ∧ (c = 'd' ∨ c = 'f' ∨ c = 'a')) →
      (∃ e, Chmod.mode k cur 0 sym = .err e) ∨ Chmod.mode k cur 0 sym = .ok cur := by
  intro h
  have hv : Chmod.mode ⟨false, true, false⟩ 0o100644 0 "d:q+r,f:a+x".toList = .ok 0o100755 := by
    decide
  rcases h ⟨false, true, false⟩ 0o100644 "d:q+r,f:a+x".toList (by decide) (by decide)
    ⟨'d', ":q+r,f:a+x".toList, rfl, .inl rfl⟩ with ⟨e, he⟩ | he
  · rw [hv] at he; cases he
  · rw [hv] at he; revert he; decide

/-- complement (no hypothesis on the text): a malformed first clause is
    (1) reported, or (2) ignored (mode unchanged), or (3) starts with `:` (empty target list), or
    (4) is skipped unread at a target letter for another kind, and then the call means exactly
        what the text after the next comma means. -/
theorem C11_malformed_first_clause_classified (k : EKind) (cur : Nat) (sym : List Char)
    (hne : sym ≠ []) (hmal : parseClause ((splitComma sym).headD []) = none) :
    (∃ e, Chmod.mode k cur 0 sym = .err e) ∨ Chmod.mode k cur 0 sym = .ok cur ∨
      (∃ rest, sym = ':' :: rest) ∨
      (k.link = false ∧ ∃ t x r, sym = t ++ x :: r ∧
        (∀ y ∈ t, isTargetCh y = true ∧ Lemmas.letterOk k y = true) ∧ (x = 'd' ∨ x = 'f') ∧
        Lemmas.letterOk k x = false ∧ skipClause r ≠ [] ∧
        Chmod.mode k cur 0 sym = Chmod.mode k cur 0 (skipClause r)) :=
  Lemmas.mode_malformed_any k cur sym hne hmal

/-! ### revoking_mode -/
theorem C11_revoking_mode (old new : Nat) :
    revokingMode old new = true ↔
      (new &&& 0o500 < old &&& 0o500 ∨ new &&& 0o050 < old &&& 0o050 ∨ new &&& 0o005 < old &&& 0o005) :=
  Lemmas.revokingMode_iff old new

-- non-vacuity / sanity (tests, labelled as such)
example : Chmod.mode ⟨false, true, false⟩ 0o100644 0 "f:a+r,f:a-wx".toList = .ok 0o100444 := by decide
example : parseExpr "a:go-rwx".toList = some [⟨['a'], ['g', 'o'], '-', ['r', 'w', 'x']⟩] := by decide
example : (⟨['f'], ['u'], '+', ['x']⟩ : Clause).appliesTo ⟨false, true, false⟩ = true := by decide
-- `C11_symbolic_full`: a parsed expression with clauses of both kinds
example : parseExpr "d:u+x,f:a+x".toList =
    some [⟨['d'], ['u'], '+', ['x']⟩, ⟨['f'], ['a'], '+', ['x']⟩] := by decide
-- `C11_malformed_first_clause_partial`: hypotheses satisfiable by a non-trivial value
example : parseClause ((splitComma "fa:u+q,f:a+x".toList).headD []) = none ∧
    LeadingTargetsAdmit ⟨false, true, false⟩ "fa:u+q,f:a+x".toList ∧
    Chmod.mode ⟨false, true, false⟩ 0o100644 0 "fa:u+q,f:a+x".toList = .err .invalidChmodPermissions := by
  decide
-- `C11_skipped_clause_unread`: hypotheses satisfiable
example : (∀ y ∈ ['f', 'a'], isTargetCh y = true ∧ Lemmas.letterOk ⟨false, true, false⟩ y = true) ∧
    Lemmas.letterOk ⟨false, true, false⟩ 'd' = false := by decide

end Rivia.Props
