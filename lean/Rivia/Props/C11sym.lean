/-
  C11 (symbolic-mode part) — the `[dfa]:[ugoa][-+=][rwx]` state machine of `sys::mode`
  against the documented comma-repeatable grammar.   Property theorems ONLY.
-/
import Rivia.Model.Chmod
import Rivia.Spec.ChmodGrammar
import Rivia.Lemmas.Chmod

namespace Rivia.Props
open Rivia Rivia.Chmod Rivia.Spec

-- some hypotheses of the original statements (`IsMode cur`, `sym ≠ []`) turned out not to be
-- needed; they are kept so that the statements are unchanged
set_option linter.unusedVariables false

/-- a `u32` mode value -/
def IsMode (m : Nat) : Prop := m < 2 ^ 32

/-! ### well-formed expressions -/

/-- Every well-formed expression whose clauses all apply to the entry (kind matches every
    target letter, entry is not a symlink) is evaluated exactly as the grammar prescribes —
    for all 2^32 mode values, any number of clauses. -/
theorem C11_symbolic_all_clauses_apply (k : EKind) (cur : Nat) (sym : List Char) (cs : List Clause)
    (hcur : IsMode cur) (hp : parseExpr sym = some cs) (hall : ∀ c ∈ cs, c.appliesTo k = true) :
    Chmod.mode k cur 0 sym = .ok (applyExpr k cs cur) := by
  rw [Lemmas.mode_parsed k cur sym cs hp, Lemmas.takeWhile_all _ _ hall]

/-- corollary: single clause, whatever the kind (a non-applicable clause leaves the mode) -/
theorem C11_symbolic_single_clause (k : EKind) (cur : Nat) (sym : List Char) (c : Clause)
    (hcur : IsMode cur) (hp : parseExpr sym = some [c]) :
    Chmod.mode k cur 0 sym = .ok (applyExpr k [c] cur) := by
  rw [Lemmas.mode_parsed k cur sym [c] hp]
  by_cases h : c.appliesTo k = true
  · have : [c].takeWhile (fun c => c.appliesTo k) = [c] :=
      List.takeWhile_cons_of_pos (p := fun (c : Clause) => c.appliesTo k) h
    rw [this]
  · have : [c].takeWhile (fun c => c.appliesTo k) = [] :=
      List.takeWhile_cons_of_neg (p := fun (c : Clause) => c.appliesTo k) h
    rw [this]; simp [applyExpr, h]

/-- a symlink is never altered by a well-formed expression -/
theorem C11_symbolic_link_untouched (k : EKind) (cur : Nat) (sym : List Char) (cs : List Clause)
    (hl : k.link = true) (hp : parseExpr sym = some cs) : Chmod.mode k cur 0 sym = .ok cur :=
  Lemmas.mode_parsed_link k cur sym cs hl hp

/-- Full statement (false on the current code, see the witness below): every well-formed
    expression means what the grammar says, also when some clause does not apply. -/
def C11_symbolic_full : Prop :=
  ∀ (k : EKind) (cur : Nat) (sym : List Char) (cs : List Clause), IsMode cur → sym ≠ [] →
    parseExpr sym = some cs → Chmod.mode k cur 0 sym = .ok (applyExpr k cs cur)

/-- finding: once a clause's target does not match, all later clauses are skipped -/
theorem C11_finding_first_clause_other_kind :
    Chmod.mode ⟨false, true, false⟩ 0o100644 0 "d:u+x,f:a+x".toList = .ok 0o100644 ∧
    symSpec ⟨false, true, false⟩ 0o100644 "d:u+x,f:a+x".toList = some 0o100755 := by decide

theorem C11_symbolic_full_is_false : ¬ C11_symbolic_full := by
  intro h
  have h1 := h ⟨false, true, false⟩ 0o100644 "d:u+x,f:a+x".toList
    [⟨['d'], ['u'], '+', ['x']⟩, ⟨['f'], ['a'], '+', ['x']⟩] (by unfold IsMode; decide) (by decide) (by decide)
  revert h1
  decide

/-- what the code does instead (exact characterisation): clauses are applied in order up to the
    first one that does not apply to the entry; the rest is ignored -/
theorem C11_symbolic_prefix_semantics (k : EKind) (cur : Nat) (sym : List Char) (cs : List Clause)
    (hcur : IsMode cur) (hne : sym ≠ []) (hp : parseExpr sym = some cs) :
    Chmod.mode k cur 0 sym = .ok (applyExpr k (cs.takeWhile (fun c => c.appliesTo k)) cur) :=
  Lemmas.mode_parsed k cur sym cs hp

/-! ### file-type bits, octal, empty -/

/-- the file-type bits (everything above the 9 permission bits... up to bit 31) are kept by
    every symbolic expression that is accepted -/
theorem C11_type_bits_kept (k : EKind) (cur : Nat) (sym : List Char) (m : Nat)
    (hcur : IsMode cur) (h : Chmod.mode k cur 0 sym = .ok m) (hne : sym ≠ []) :
    m / 512 = cur / 512 ∧ IsMode m :=
  Lemmas.mode_keeps k cur sym m hcur h hne

theorem C11_octal_wins (k : EKind) (cur oct : Nat) (sym : List Char) (h : oct ≠ 0) :
    Chmod.mode k cur oct sym = .ok oct := by
  unfold Chmod.mode; rw [if_pos h]

theorem C11_nothing_requested (k : EKind) (cur : Nat) : Chmod.mode k cur 0 [] = .ok 0 := rfl

/-! ### malformed first clause -/

/-- Full statement (false, see witnesses): a malformed first clause is always reported. -/
def C11_malformed_first_clause_full : Prop :=
  ∀ (k : EKind) (cur : Nat) (sym : List Char), sym ≠ [] →
    parseClause ((splitComma sym).headD []) = none → ∃ e, Chmod.mode k cur 0 sym = .err e

/-- findings: truncated clauses are silently accepted; a kind mismatch hides any later garbage;
    an empty target list is accepted as "all" -/
theorem C11_finding_malformed_accepted :
    Chmod.mode ⟨false, true, false⟩ 0o100644 0 "f:a+".toList = .ok 0o100644 ∧
    Chmod.mode ⟨false, true, false⟩ 0o100644 0 "f:".toList = .ok 0o100644 ∧
    Chmod.mode ⟨false, true, false⟩ 0o100644 0 "d:q+r".toList = .ok 0o100644 ∧
    Chmod.mode ⟨false, true, false⟩ 0o100644 0 ":a+x".toList = .ok 0o100755 ∧
    parseClause "f:a+".toList = none ∧ parseClause "f:".toList = none ∧
    parseClause "d:q+r".toList = none ∧ parseClause ":a+x".toList = none := by decide

theorem C11_malformed_first_clause_full_is_false : ¬ C11_malformed_first_clause_full := by
  intro h
  obtain ⟨e, he⟩ := h ⟨false, true, false⟩ 0o100644 "f:a+".toList (by decide) (by decide)
  have hok : Chmod.mode ⟨false, true, false⟩ 0o100644 0 "f:a+".toList = .ok 0o100644 := by decide
  rw [hok] at he
  cases he

/-- partial: whenever the code does NOT report an error for a malformed first clause, it at least
    changes nothing ... except for the empty-target-list class. State and prove the strongest
    version you can; target: for every `sym` whose first segment does not parse and whose first
    character is one of `d f a` (non-empty target list):
      the result is an error, or it is `.ok cur` (mode unchanged). -/
theorem C11_malformed_first_clause_partial (k : EKind) (cur : Nat) (sym : List Char)
    (hne : sym ≠ []) (hmal : parseClause ((splitComma sym).headD []) = none)
    (htl : ∃ c rest, sym = c :: rest ∧ (c = 'd' ∨ c = 'f' ∨ c = 'a')) :
    (∃ e, Chmod.mode k cur 0 sym = .err e) ∨ Chmod.mode k cur 0 sym = .ok cur :=
  Lemmas.mode_malformed k cur sym hmal htl

/-- complement (no hypothesis on the first character): the ONLY malformed first clauses that are
    neither reported nor ignored are those starting with `:` (empty target list) -/
theorem C11_malformed_first_clause_classified (k : EKind) (cur : Nat) (sym : List Char)
    (hne : sym ≠ []) (hmal : parseClause ((splitComma sym).headD []) = none) :
    (∃ e, Chmod.mode k cur 0 sym = .err e) ∨ Chmod.mode k cur 0 sym = .ok cur ∨
      ∃ rest, sym = ':' :: rest :=
  Lemmas.mode_malformed_any k cur sym hne hmal

/-! ### revoking_mode -/
theorem C11_revoking_mode (old new : Nat) :
    revokingMode old new = true ↔
      (new &&& 0o500 < old &&& 0o500 ∨ new &&& 0o050 < old &&& 0o050 ∨ new &&& 0o005 < old &&& 0o005) :=
  Lemmas.revokingMode_iff old new

-- non-vacuity / sanity (tests, labelled as such)
example : Chmod.mode ⟨false, true, false⟩ 0o100644 0 "f:a+r,f:a-wx".toList = .ok 0o100444 := by decide
example : parseExpr "a:go-rwx".toList = some [⟨['a'], ['g', 'o'], '-', ['r', 'w', 'x']⟩] := by decide
example : (⟨['f'], ['u'], '+', ['x']⟩ : Clause).appliesTo ⟨false, true, false⟩ = true := by decide

end Rivia.Props
