/-
  C03, group C — the `copy` / `copy_b` operations keep the tree invariant.

  "After any sequence of calls with arbitrary arguments, whether they succeed or fail, every existing
  path other than the root has an existing parent that is a real directory and lists it; every name a
  directory lists exists; exactly the regular non-link files have byte content; every entry reports
  the path it is stored under; nothing is orphaned, duplicated or left with dangling data."

  All statements are FULL: no side condition on the environment, the state (beyond `Inv`), the
  arguments or the options (`mode`, `cdirs`, `cfiles`, `follow`), and every outcome is covered
  (`ok`, every `err`, `panic`, `hang`) — a copy failing half-way leaves exactly the state of the
  corresponding cut point, which is the second component of `step`.
-/
import Rivia.Lemmas.InvC
import Rivia.Lemmas.InvCPlus

namespace Rivia.Props
open Rivia Rivia.Memfs Rivia.Spec Rivia.Lemmas.InvC

/-- one `copy`/`copy_b` call keeps the invariant, whatever its outcome -/
theorem C03_inv_step_groupC (env : Env) (s : State) (op : Op) (hc : CoveredC op) (h : Spec.Inv s) :
    Spec.Inv (step env s op).2 :=
  inv_step_C' env s op hc h

/-- the same in the shape shared with the other groups (the non-hang hypothesis is not needed) -/
theorem C03_inv_step_groupC_nohang (env : Env) (s : State) (op : Op) (hc : CoveredC op)
    (h : Spec.Inv s) (hh : (step env s op).1 ≠ .hang) : Spec.Inv (step env s op).2 :=
  inv_step_C env s op hc h hh

/-- `copy_b` spelled out: all sources, destinations and option values -/
theorem C03_inv_copyB (env : Env) (s : State) (src dst : Str) (c : CopyOpts) (h : Spec.Inv s) :
    Spec.Inv (step env s (.copyB src dst c)).2 :=
  inv_step_C' env s _ trivial h

/-- `copy` spelled out -/
theorem C03_inv_copy (env : Env) (s : State) (src dst : Str) (h : Spec.Inv s) :
    Spec.Inv (step env s (.copy src dst)).2 :=
  inv_step_C' env s _ trivial h

/-- any history of group-C calls from an invariant state -/
theorem C03_inv_run_groupC (env : Env) (s : State) (ops : List Op) (hc : ∀ op ∈ ops, CoveredC op)
    (h : Spec.Inv s) : Spec.Inv (run env s ops) :=
  inv_run_C env s ops hc h

/-- the building block behind the cut-point claim: `_add` of a shape-consistent entry keeps the
    invariant at every exit (used for the symlink, directory and file branches of `_copy`) -/
theorem C03_add_keeps_inv (e : Entry) (hok : AddOK e) (s : State) (h : Spec.Inv s) :
    Spec.Inv (add e s).2 :=
  (inv_iff _).2 (add_pres e hok s ((inv_iff _).1 h))

/-- the traversal lifting: any predicate kept by the consumer at each exit is kept by the loop -/
theorem C03_runIter_keeps {σ : Type} (P : σ → Prop) (snap : Snap) (o : Opts) (rootE : Entry)
    (stepF : Entry → σ → Outcome Unit × σ) (hstep : ∀ e w, P w → P (stepF e w).2)
    (f : Nat) (st : ISt) (w : σ) (h : P w) : P (runIter snap o noPre rootE stepF f st w).2 :=
  runIter_pres snap o noPre P (noPre_pres P) rootE stepF hstep f st w h

/-! ### the strengthened induction hypothesis `InvPlus = Inv ∧ KeysWf ∧ SortedKids` -/

/-- keys stay lists of well-formed pieces (independent of `Inv`) -/
theorem C03_keysWf_step_groupC (env : Env) (s : State) (op : Op) (hc : CoveredC op) (h : KeysWf s) :
    KeysWf (step env s op).2 :=
  keysWf_step_C env s op hc h

/-- child lists stay sorted (independent of `Inv`) -/
theorem C03_sortedKids_step_groupC (env : Env) (s : State) (op : Op) (hc : CoveredC op)
    (h : SortedKids s) : SortedKids (step env s op).2 :=
  sortedKids_step_C env s op hc h

theorem C03_invPlus_step_groupC (env : Env) (s : State) (op : Op) (hc : CoveredC op) (h : InvPlus s) :
    InvPlus (step env s op).2 :=
  invPlus_step_C env s op hc h

/-- every destination key computed by `_copy` is well formed, for all arguments -/
theorem C03_dstOf_wf (dstRoot path pre : FsPath) : ∀ n ∈ dstOf dstRoot path pre, Lemmas.BodyPiece n :=
  dstOf_wf dstRoot path pre

/-! non-vacuity: the hypotheses are satisfiable by non-trivial values -/
example : InvPlus Memfs.init := invPlus_init
example : CoveredC (.copyB ['a'] ['b'] { follow := true, mode := some 0o600, cfiles := true }) := trivial
example : Spec.Inv Memfs.init := by decide
example (env : Env) : Spec.Inv (step env Memfs.init (.copyB ['a'] ['b'] { follow := true })).2 :=
  C03_inv_step_groupC env _ _ trivial (by decide)

end Rivia.Props
