/-
  C04 — Memfs operations are atomic and deadlock-free under concurrent use.
  Property theorems ONLY (helper lemmas and auxiliary definitions live in Rivia/Lemmas/Conc.lean).

  Model (Rivia/Model/Conc.lean): a program is a list of per-thread call lists; a call whose guard
  table entry is one section (`SingleSection`) executes as ONE atomic step of the sequential model
  `Memfs.step`; a schedule is the list of thread ids in the order in which they take the lock.

  Real-time precedence (remark). A call occupies exactly one position of the schedule: its single
  critical section, which lies inside the call's real-time interval (invocation … return). If call A
  returns before call B is invoked, A's section precedes B's section, i.e. A's schedule position is
  smaller. `C04_schedule_positions` shows that the position of a call in the induced sequential order
  IS its schedule position (and that it is made by the thread scheduled there), so the induced order
  respects real-time precedence; `C04_single_section_linearizable` (c) gives program order.

  Out of the model's reach: that the Rust code takes exactly the tabulated guards (validated by the
  `sched` harness through the lock hook, not proved), and that the sequential `step` never returns
  `panic`/`hang` for the listed calls (a sequential property; a panic inside a section is what would
  poison the lock).
-/
import Rivia.Lemmas.Conc

namespace Rivia.Props
open Rivia Rivia.Memfs Rivia.Conc Rivia.Lemmas Rivia.File

/-! ## 1. linearizability of single-section calls -/

/-- Full strength, any number of threads / calls, any schedule. If the schedule runs, then
    (a) the final state is the sequential execution of the induced order,
    (b) every thread's result list is exactly the results of its own calls in that sequential
        execution, in order (`resultsOf i` filters the thread-tagged results),
    (c) when the schedule is complete the induced order is an order-preserving merge of the threads'
        programs: it contains exactly the program's calls and respects every thread's program order. -/
theorem C04_single_section_linearizable (env : Env) (s : State) (todo : List (List Op))
    (sched : List Nat) (c' : Cfg)
    (h : runSchedule env ⟨s, todo, todo.map (fun _ => [])⟩ sched = some c') :
    c'.st = (runSeq env s (induced todo sched)).1 ∧
    (∀ i, i < todo.length →
      c'.done[i]? = some (resultsOf i
        ((inducedTagged todo sched).zip (runSeq env s (induced todo sched)).2))) ∧
    ((∀ l ∈ c'.todo, l = []) → Interleaving todo (induced todo sched)) := by
  refine ⟨runSchedule_state sched s todo _ c' h, ?_, ?_⟩
  · intro i hi
    rw [runSchedule_done sched s todo _ c' h i]
    simp [List.getElem?_eq_getElem hi]
  · intro hall
    have := runSchedule_interleaving_ext sched s todo _ c' h [] (Interleaving.nil _ hall)
    simpa using this

/-- (b) for thread ids outside the program, and the shape of the result table: one list per thread -/
theorem C04_result_table_shape (env : Env) (s : State) (todo : List (List Op))
    (sched : List Nat) (c' : Cfg)
    (h : runSchedule env ⟨s, todo, todo.map (fun _ => [])⟩ sched = some c') :
    c'.done.length = todo.length ∧ c'.todo.length = todo.length := by
  have := runSchedule_todo_length sched _ c' h
  exact ⟨by simpa using this.2, by simpa using this.1⟩

/-- (c) for incomplete schedules: the induced order followed by ANY order-preserving merge of the
    calls still to make is an order-preserving merge of the whole program — the induced order is a
    prefix of a legal sequential order; and per thread, the calls it has made (in induced order)
    followed by the calls it still has to make are its program. -/
theorem C04_prefix_linearizable (env : Env) (s : State) (todo : List (List Op))
    (done : List (List (Outcome Val))) (sched : List Nat) (c' : Cfg)
    (h : runSchedule env ⟨s, todo, done⟩ sched = some c') :
    (∀ l, Interleaving c'.todo l → Interleaving todo (induced todo sched ++ l)) ∧
    (∀ i, todo[i]? = (c'.todo[i]?).map (fun r =>
      ((inducedTagged todo sched).filterMap (fun x => if x.1 = i then some x.2 else none)) ++ r)) :=
  ⟨runSchedule_interleaving_ext sched s todo done c' h, runSchedule_todo_split sched s todo done c' h⟩

/-- Real-time precedence, formal part: the induced order has exactly one call per schedule position,
    the call at position `n` is made by thread `sched[n]`, and forgetting the tags gives `induced`. -/
theorem C04_schedule_positions (env : Env) (s : State) (todo : List (List Op))
    (done : List (List (Outcome Val))) (sched : List Nat) (c' : Cfg)
    (h : runSchedule env ⟨s, todo, done⟩ sched = some c') :
    (induced todo sched).length = sched.length ∧
    (inducedTagged todo sched).map Prod.fst = sched ∧
    (inducedTagged todo sched).map Prod.snd = induced todo sched ∧
    (runSeq env s (induced todo sched)).2.length = sched.length := by
  refine ⟨runSchedule_induced_length sched s todo done c' h, runSchedule_tagged_fst sched s todo done c' h,
    inducedTagged_map_snd _ _, ?_⟩
  rw [runSeq_length, runSchedule_induced_length sched s todo done c' h]

/-- Converse (the schedule model loses no behaviour): every order-preserving merge of the threads'
    programs is the induced order of a schedule that runs to completion. -/
theorem C04_every_order_reachable (env : Env) (s : State) (todo : List (List Op)) (l : List Op)
    (h : Interleaving todo l) :
    ∃ sched c', runSchedule env ⟨s, todo, todo.map (fun _ => [])⟩ sched = some c' ∧
      induced todo sched = l ∧ ∀ x ∈ c'.todo, x = [] :=
  interleaving_exists_schedule h s _

/-- an order-preserving merge is a permutation of all the program's calls (each exactly once) -/
theorem C04_induced_perm (env : Env) (s : State) (todo : List (List Op)) (sched : List Nat) (c' : Cfg)
    (h : runSchedule env ⟨s, todo, todo.map (fun _ => [])⟩ sched = some c')
    (hall : ∀ l ∈ c'.todo, l = []) :
    (induced todo sched).Perm todo.flatten :=
  interleaving_perm ((C04_single_section_linearizable env s todo sched c' h).2.2 hall)

/-! ## 2. the section table -/

/-- Every operation the property lists as single-step takes exactly one guard in the model
    (table facts; `sections` is validated against the code by the scheduler harness). -/
theorem C04_section_table :
    (∀ p, SingleSection (.mkdirP p)) ∧ (∀ p m, SingleSection (.mkdirM p m)) ∧
    (∀ p, SingleSection (.mkfile p)) ∧ (∀ p, SingleSection (.remove p)) ∧
    (∀ p, SingleSection (.removeAll p)) ∧ (∀ a b, SingleSection (.moveP a b)) ∧
    (∀ a b, SingleSection (.copy a b)) ∧ (∀ a b c, SingleSection (.copyB a b c)) ∧
    (∀ l t, SingleSection (.symlink l t)) ∧ (∀ p, SingleSection (.setCwd p)) ∧
    (∀ p d, SingleSection (.appendAll p d)) ∧ (∀ p d, SingleSection (.writeAll p d)) ∧
    -- reads
    (∀ p, SingleSection (.readAll p)) ∧ (∀ p, SingleSection (.read p)) ∧
    (∀ p, SingleSection (.readLines p)) ∧ (∀ p, SingleSection (.readlink p)) ∧
    (∀ p, SingleSection (.readlinkAbs p)) ∧
    -- queries
    SingleSection .cwd ∧ SingleSection .root ∧ (∀ p, SingleSection (.abs p)) ∧
    (∀ p, SingleSection (.exists p)) ∧ (∀ p, SingleSection (.isFile p)) ∧
    (∀ p, SingleSection (.isDir p)) ∧ (∀ p, SingleSection (.isSymlink p)) ∧
    (∀ p, SingleSection (.isSymlinkDir p)) ∧ (∀ p, SingleSection (.isSymlinkFile p)) ∧
    (∀ p, SingleSection (.isExec p)) ∧ (∀ p, SingleSection (.isReadonly p)) ∧
    (∀ p, SingleSection (.mode p)) ∧ (∀ p, SingleSection (.uid p)) ∧ (∀ p, SingleSection (.gid p)) ∧
    (∀ p, SingleSection (.owner p)) ∧ (∀ p, SingleSection (.entry p)) ∧
    -- listing snapshots (`is_dir` check and snapshot under one read guard)
    (∀ p, SingleSection (.paths p)) ∧ (∀ p, SingleSection (.dirs p)) ∧
    (∀ p, SingleSection (.files p)) ∧ (∀ p, SingleSection (.allPaths p)) ∧
    (∀ p, SingleSection (.allDirs p)) ∧ (∀ p, SingleSection (.allFiles p)) := by
  refine ⟨?_, ?_, ?_, ?_, ?_, ?_, ?_, ?_, ?_, ?_, ?_, ?_, ?_, ?_, ?_, ?_, ?_, ?_, ?_, ?_, ?_, ?_, ?_,
    ?_, ?_, ?_, ?_, ?_, ?_, ?_, ?_, ?_, ?_, ?_, ?_, ?_, ?_, ?_, ?_⟩ <;> intros <;>
    first | exact ⟨.W, rfl⟩ | exact ⟨.R, rfl⟩

/-- Guard kinds (restates the table, labelled as such): every mutator takes the write guard, every
    read / query / listing takes the read guard. -/
theorem C04_section_kinds (op : Op) (k : GKind) (h : sections op = some [k]) :
    k = .W ↔ (∃ p, op = .mkfile p) ∨ (∃ p, op = .mkdirP p) ∨ (∃ p m, op = .mkdirM p m) ∨
      (∃ p, op = .remove p) ∨ (∃ p, op = .removeAll p) ∨ (∃ a b, op = .moveP a b) ∨
      (∃ l t, op = .symlink l t) ∨ (∃ p, op = .setCwd p) ∨ (∃ p d, op = .writeAll p d) ∨
      (∃ p d, op = .appendAll p d) ∨ (∃ a b, op = .copy a b) ∨ (∃ a b c, op = .copyB a b c) := by
  cases op <;> simp [sections] at h <;> subst h <;> simp

/-- Scope of the table: an operation is single-section iff it is tabulated at all; the calls outside
    the table (state-dependent guard sequences) are NOT covered by the theorems of this file. -/
theorem C04_section_scope (op : Op) : SingleSection op ↔ sections op ≠ none := by
  cases op <;> simp [SingleSection, sections]

theorem C04_not_tabulated :
    (∀ p m, ¬ SingleSection (.mkfileM p m)) ∧ (∀ p m, ¬ SingleSection (.chmod p m)) ∧
    (∀ p c, ¬ SingleSection (.chmodB p c)) ∧ (∀ p u g, ¬ SingleSection (.chown p u g)) ∧
    (∀ p c, ¬ SingleSection (.chownB p c)) ∧ (∀ p r, ¬ SingleSection (.entries p r)) ∧
    (∀ p ls, ¬ SingleSection (.writeLines p ls)) ∧ (∀ p ls, ¬ SingleSection (.appendLines p ls)) ∧
    (∀ p l, ¬ SingleSection (.appendLine p l)) ∧
    (∀ i p, ¬ SingleSection (.hWrite i p)) ∧ (∀ i p, ¬ SingleSection (.hAppend i p)) ∧
    (∀ i d, ¬ SingleSection (.hPut i d)) ∧ (∀ i, ¬ SingleSection (.hFlush i)) ∧
    (∀ i, ¬ SingleSection (.hDrop i)) := by
  refine ⟨?_, ?_, ?_, ?_, ?_, ?_, ?_, ?_, ?_, ?_, ?_, ?_, ?_, ?_⟩ <;> intros <;>
    simp [SingleSection, sections]

/-! ## 3. concurrent appends -/

/-- `append_all` never changes the working directory (whatever it returns), so the key a path
    resolves to is the same before and after. -/
theorem C04_appendAll_keeps_cwd (env : Env) (s : State) (p q : Str) (d : Bytes) :
    (step env s (.appendAll p d)).2.cwd = s.cwd ∧
    keyOf env (step env s (.appendAll p d)).2 q = keyOf env s q :=
  ⟨step_appendAll_cwd env s p d, keyOf_cwd (step_appendAll_cwd env s p d) q⟩

/-- The sequential fact as literally requested: a successful `append_all p d` maps stored content
    `some old` to `some (old ++ d)`. FALSE on states with orphan data (bytes without an entry):
    `_add` creates the missing entry and resets the bytes to empty first. -/
def C04_append_content_full : Prop :=
  ∀ (env : Env) (s : State) (p : Str) (d : Bytes) (k : FsPath) (old : Bytes),
    keyOf env s p = some k → contentOf s k = some old →
    (step env s (.appendAll p d)).1.isOk = true →
    contentOf (step env s (.appendAll p d)).2 k = some (old ++ d)

set_option maxRecDepth 8000 in
theorem C04_append_content_full_false : ¬ C04_append_content_full := by
  intro h
  have := h env0 orphan ['/', 'f'] [2] [['f']] [1] (by decide) (by decide) (by decide)
  revert this
  decide

/-- Full strength, every state: a successful `append_all p d` leaves `appendBase s k ++ d` under the
    key of `p`, where `appendBase` is the stored content if `k` has an entry and empty otherwise;
    afterwards `k` has an entry. -/
theorem C04_append_content (env : Env) (s : State) (p : Str) (d : Bytes) (k : FsPath)
    (hk : keyOf env s p = some k) (hok : (step env s (.appendAll p d)).1.isOk = true) :
    contentOf (step env s (.appendAll p d)).2 k = some (appendBase s k ++ d) ∧
    (alLookup k (step env s (.appendAll p d)).2.entries).isSome = true :=
  ⟨(step_appendAll_ok hk hok).2.2, (step_appendAll_ok hk hok).2.1⟩

/-- Partial variant of the requested fact, on the decidable domain `NoOrphan s k`: content
    `some old` (or `none`, read as empty) becomes `some (old ++ d)`. -/
theorem C04_append_content_partial (env : Env) (s : State) (p : Str) (d : Bytes) (k : FsPath)
    (hdom : NoOrphan s k)
    (hk : keyOf env s p = some k) (hok : (step env s (.appendAll p d)).1.isOk = true) :
    contentOf (step env s (.appendAll p d)).2 k = some ((contentOf s k).getD [] ++ d) := by
  rw [← appendBase_of_noOrphan hdom]
  exact (C04_append_content env s p d k hk hok).1

/-- Concurrent appends to one file, any number of threads and calls, any complete schedule: if every
    call is an `append_all` on the same path and every call returned `Ok`, the final content is the
    base content followed by the chunks concatenated in the induced order, and that order is a
    permutation of all the program's chunks — every appended chunk is present exactly once (none
    lost, none duplicated, none torn). The key of the path is still `k` at the end. -/
theorem C04_appends_present_exactly_once (env : Env) (s : State) (todo : List (List Op))
    (sched : List Nat) (c' : Cfg) (p : Str) (k : FsPath)
    (h : runSchedule env ⟨s, todo, todo.map (fun _ => [])⟩ sched = some c')
    (hcomplete : ∀ l ∈ c'.todo, l = [])
    (happ : ∀ l ∈ todo, ∀ op ∈ l, ∃ d, op = .appendAll p d)
    (hok : ∀ l ∈ c'.done, ∀ o ∈ l, o.isOk = true)
    (hk : keyOf env s p = some k)
    (hne : todo.flatten ≠ []) :
    contentOf c'.st k = some (appendBase s k ++ ((induced todo sched).map chunkOf).flatten) ∧
    ((induced todo sched).map chunkOf).Perm (todo.flatten.map chunkOf) ∧
    keyOf env c'.st p = some k := by
  exact appends_content h hcomplete happ hok hk hne

/-- the same with the initial content spelled out, on the decidable domain `NoOrphan s k` -/
theorem C04_appends_present_exactly_once_partial (env : Env) (s : State) (todo : List (List Op))
    (sched : List Nat) (c' : Cfg) (p : Str) (k : FsPath)
    (hdom : NoOrphan s k)
    (h : runSchedule env ⟨s, todo, todo.map (fun _ => [])⟩ sched = some c')
    (hcomplete : ∀ l ∈ c'.todo, l = [])
    (happ : ∀ l ∈ todo, ∀ op ∈ l, ∃ d, op = .appendAll p d)
    (hok : ∀ l ∈ c'.done, ∀ o ∈ l, o.isOk = true)
    (hk : keyOf env s p = some k)
    (hne : todo.flatten ≠ []) :
    contentOf c'.st k =
      some ((contentOf s k).getD [] ++ ((induced todo sched).map chunkOf).flatten) := by
  rw [← appendBase_of_noOrphan hdom]
  exact (C04_appends_present_exactly_once env s todo sched c' p k h hcomplete happ hok hk hne).1

/-! ## 4. no nested acquisition, progress, termination -/

/-- Documentation lemma (structural, restates the shape of the table): a tabulated call takes exactly
    one guard during its whole execution — `sections` is a flat list of length one — so no call
    acquires a guard while holding one. -/
theorem C04_no_nested_acquire (op : Op) (gs : List GKind) (h : sections op = some gs) :
    gs.length = 1 := by
  cases op <;> simp [sections] at h <;> subst h <;> rfl

/-- Progress: a thread that still has a call can always take its step, whatever the state and
    whatever the other threads have done (no call blocks inside its section on another thread). -/
theorem C04_progress (env : Env) (c : Cfg) (i : Nat) (op : Op) (rest : List Op)
    (h : c.todo[i]? = some (op :: rest)) : stepThread env c i ≠ none := by
  rw [stepThread_of_todo h]; simp

/-- Deadlock freedom of the model: there is no configuration in which some thread has calls left and
    no thread can move. -/
theorem C04_no_deadlock (env : Env) (c : Cfg) (h : ¬ ∀ l ∈ c.todo, l = []) :
    ∃ i c', stepThread env c i = some c' := by
  obtain ⟨i, op, rest, hi⟩ := exists_pending_of_ne c.todo h
  exact ⟨i, _, stepThread_of_todo hi⟩

/-- Every call returns: from any configuration (in particular the one reached by any schedule so far)
    the program can be run to completion, and the completing schedule makes exactly the remaining
    calls. -/
theorem C04_all_calls_return (env : Env) (c : Cfg) :
    ∃ sched c', runSchedule env c sched = some c' ∧ ∀ l ∈ c'.todo, l = [] :=
  exists_complete_schedule env _ c rfl

/-! ## non-vacuity / sanity (tests, labelled as such) -/

-- the hypotheses of `C04_appends_present_exactly_once` are satisfiable: two threads, three appends,
-- schedule `[0, 1, 0]` (thread 1's append lands between thread 0's two appends)
set_option maxRecDepth 20000 in
example : ∃ c', runSchedule env0 ⟨Memfs.init, appendProg, appendProg.map (fun _ => [])⟩ [0, 1, 0] = some c' ∧
    (∀ l ∈ c'.todo, l = []) ∧ (∀ l ∈ c'.done, ∀ o ∈ l, o.isOk = true) ∧
    (∀ l ∈ appendProg, ∀ op ∈ l, ∃ d, op = .appendAll ['/', 'f'] d) ∧
    keyOf env0 Memfs.init ['/', 'f'] = some [['f']] ∧ appendProg.flatten ≠ [] ∧
    NoOrphan Memfs.init [['f']] ∧
    contentOf c'.st [['f']] = some [1, 3, 2] := by
  refine ⟨_, rfl, ?_, ?_, ?_, ?_, ?_, ?_, ?_⟩ <;> first | decide | simp [appendProg]

example : induced appendProg [0, 1, 0] =
    [.appendAll ['/', 'f'] [1], .appendAll ['/', 'f'] [3], .appendAll ['/', 'f'] [2]] := by decide

-- the domain predicate separates the witness of `C04_append_content_full_false` from regular states
example : ¬ NoOrphan orphan [['f']] := by decide

end Rivia.Props
