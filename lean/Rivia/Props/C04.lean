import Rivia.Model.Conc
namespace Rivia.Props
open Rivia.Conc
theorem C04_placeholder : sections .cwd = some [.R] := rfl
end Rivia.Props
