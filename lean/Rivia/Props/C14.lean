/-
  C14 — clean() returns the shortest lexically equivalent path (= Go's path.Clean).
  Property theorems ONLY (helper lemmas live in Rivia/Lemmas/*).
-/
import Rivia.Model.Path
import Rivia.Spec.GoClean
import Rivia.Lemmas.Clean

namespace Rivia.Props
open Rivia Rivia.Spec

/-- Full strength: for every path string the model of `sys::clean` never panics and returns
    exactly what Go's `path.Clean` (the six documented rules) returns. -/
theorem C14_clean_eq_go (s : Str) : cleanO s = some (goClean s) :=
  Lemmas.cleanO_eq_goClean s

/-- `clean` never takes the `prev.unwrap()` panic branch. -/
theorem C14_never_panics (s : Str) : cleanO s ≠ none := by
  rw [C14_clean_eq_go]; simp

/-- idempotent -/
theorem C14_idempotent (s : Str) : cleanO (goClean s) = some (goClean s) := by
  rw [C14_clean_eq_go, Lemmas.goClean_idem]

/-- preserves absoluteness (both directions) -/
theorem C14_preserves_absolute (s : Str) : isRooted (goClean s) = isRooted s :=
  Lemmas.goClean_rooted s

/-- never returns an empty path -/
theorem C14_never_empty (s : Str) : goClean s ≠ [] :=
  Lemmas.goClean_ne_nil s

/-- The result is in normal form: its `/`-pieces contain no empty piece (no `//`, no trailing
    `/`) except for the root marker, no `.` piece unless the whole result is `.`, and `..` pieces
    only as a leading run of a non-rooted path. -/
theorem C14_normal_form (s : Str) : Lemmas.NormalForm (goClean s) :=
  Lemmas.goClean_normalForm s

-- non-vacuity / sanity: concrete evaluations (tests, labelled as such)
example : cleanO "/a/../../b/./c//".toList = some "/b/c".toList := by decide
example : cleanO "".toList = some ".".toList := by decide
example : cleanO "../a/../..".toList = some "../..".toList := by decide

end Rivia.Props
