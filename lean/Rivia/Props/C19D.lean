/-
  C19 (last clause) — "a defer guard runs its closure exactly once when its scope ends, in reverse
  order of creation, whether the scope is left normally, by early return or by unwinding."

  `Rivia.Model.Defer` models the Rust drop discipline the guard rests on (`defer!(e)` is a local whose
  `Drop` runs `e`); the model is validated against the compiled Rust by differential testing.  Here:
  what the model guarantees.  Property theorems ONLY (helper lemmas: Rivia/Lemmas/Defer.lean).
  `Balanced prog` = the blocks of the program are syntactically balanced (it compiles).
-/
import Rivia.Model.Defer
import Rivia.Lemmas.Defer

namespace Rivia.Props
open Rivia.Defer

/-! ### (a) exactly once -/

/-- Every guard created before the function ended (labels `0 … executedRegs prog - 1`) runs exactly
once, and nothing else runs. -/
theorem C19_defer_exactly_once (prog : List DItem) (hb : Balanced prog = true) (k : Nat) :
    (runDefer prog).log.count k = if k < executedRegs prog then 1 else 0 := by
  have h := (exitState_inv prog).count_final k
  have hn := exec_next prog DState.init (by simpa [DState.init, Balanced] using hb)
  simp only [DState.init, Nat.zero_add] at hn
  rw [← hn]; exact h

/-- the same as a permutation: the log is a rearrangement of `0, 1, …, n-1` -/
theorem C19_defer_log_perm (prog : List DItem) (hb : Balanced prog = true) :
    (runDefer prog).log.Perm (List.range (executedRegs prog)) := by
  rw [List.perm_iff_count]; intro k
  rw [C19_defer_exactly_once prog hb k, List.count_range]

/-- … spelled out: no duplicates, and exactly the labels below `executedRegs prog` -/
theorem C19_defer_nodup_mem (prog : List DItem) (hb : Balanced prog = true) :
    (runDefer prog).log.Nodup ∧ (∀ k, k ∈ (runDefer prog).log ↔ k < executedRegs prog) ∧
      (runDefer prog).log.length = executedRegs prog := by
  have hp := C19_defer_log_perm prog hb
  exact ⟨hp.nodup_iff.mpr List.nodup_range, fun k => by rw [hp.mem_iff, List.mem_range],
    by rw [hp.length_eq, List.length_range]⟩

/-- without any hypothesis on the program: no guard ever runs twice -/
theorem C19_defer_at_most_once (prog : List DItem) : (runDefer prog).log.Nodup := by
  rw [List.nodup_iff_count]; intro k
  have h := (exitState_inv prog).count_final k
  show List.count k (_ ++ _) ≤ 1
  rw [h]; split <;> omega

/-! ### (b) reverse order of creation inside one scope instance
`runDeferI` is the same machine with a ghost scope id attached to every label at creation. -/

/-- the ghost ids do not change what runs -/
theorem C19_defer_ghost_erase (prog : List DItem) :
    (runDeferI prog).map (·.2) = (runDefer prog).log := runDeferI_erase prog

/-- Two guards created in the same scope instance: the one that runs earlier has the larger label,
i.e. was created later.  (Positions `i < j` of the log.) -/
theorem C19_defer_reverse_order (prog : List DItem) (i j : Nat) (hi : i < (runDeferI prog).length)
    (hj : j < (runDeferI prog).length) (hij : i < j)
    (hsame : ((runDeferI prog)[i]).1 = ((runDeferI prog)[j]).1) :
    ((runDeferI prog)[i]).2 > ((runDeferI prog)[j]).2 :=
  List.pairwise_iff_getElem.mp (execI_iinv prog iinv_init).final i j hi hj hij hsame

theorem C19_defer_reverse_order_pairwise (prog : List DItem) :
    (runDeferI prog).Pairwise (fun x y => x.1 = y.1 → x.2 > y.2) :=
  (execI_iinv prog iinv_init).final

/-- The guards of one scope instance run as ONE contiguous block (all of them when the scope ends,
nothing of another scope in between): between two log entries of the same scope instance there are
only entries of that instance.  With `C19_defer_reverse_order`: a contiguous decreasing block. -/
theorem C19_defer_scope_contiguous (prog : List DItem) (i j k : Nat) (hij : i < j) (hjk : j < k)
    (hk : k < (runDeferI prog).length)
    (hsame : ((runDeferI prog)[i]).1 = ((runDeferI prog)[k]).1) :
    ((runDeferI prog)[j]).1 = ((runDeferI prog)[k]).1 :=
  runDeferI_contig prog i j k hij hjk hk hsame

/-! ### (c) at a function exit (`return`, `panic!()`, end of body) everything still pending runs,
innermost scope first -/

/-- (restates the definition) the log is what had run before the exit followed by the guards pending
at the exit -/
theorem C19_defer_exit_split (prog : List DItem) :
    (runDefer prog).log = (exec .init prog).1.log ++ (exec .init prog).1.pending := rfl

/-- the guards pending at the exit run in strictly decreasing label order -/
theorem C19_defer_exit_decreasing (prog : List DItem) :
    (exec .init prog).1.pending.Pairwise (· > ·) := (exitState_inv prog).dec

/-- so of two guards pending at the exit, the one created later (`b`: same or inner scope) runs
before the one created earlier (`a`: same or enclosing scope) -/
theorem C19_defer_inner_before_outer (prog : List DItem) (a b : Nat)
    (ha : a ∈ (exec .init prog).1.pending) (hb : b ∈ (exec .init prog).1.pending) (hab : a < b) :
    (runDefer prog).log.idxOf b < (runDefer prog).log.idxOf a := by
  have hinv := exitState_inv prog
  rw [C19_defer_exit_split, List.idxOf_append, List.idxOf_append,
    if_neg (hinv.not_mem_log ha), if_neg (hinv.not_mem_log hb)]
  have := idxOf_lt_of_pairwise_gt hinv.dec ha hb hab
  omega

/-! ### (d) how the function is left does not matter -/

/-- replacing a `return` by `panic!()`, or cutting the body off at that point, does not change
what runs -/
theorem C19_defer_ending_irrelevant (pre post : List DItem) :
    (runDefer (pre ++ .ret :: post)).log = (runDefer (pre ++ .pan :: post)).log ∧
    (runDefer (pre ++ .ret :: post)).log = (runDefer pre).log := by
  simp only [runDefer, finish, exec_append_exit pre post .ret (Or.inl rfl),
    exec_append_exit pre post .pan (Or.inr rfl), and_self]

/-- … while the ending is reported faithfully (so the three runs above really differ) -/
theorem C19_defer_ending (pre post : List DItem) (x : DItem)
    (hb : Balanced (pre ++ x :: post) = true) (hpre : ∀ i ∈ pre, i ≠ .ret ∧ i ≠ .pan) :
    (runDefer (pre ++ x :: post)).ending = (exec (exec .init pre).1 (x :: post)).2 := by
  have hp := balancedAt_prefixOk pre (x :: post) 0 hb
  simp only [runDefer, finish]
  rw [exec_append_noExit pre (x :: post) ((noExit_iff pre).mpr hpre) DState.init
    (by simpa [DState.init] using hp)]

theorem C19_defer_ending_ret (pre post : List DItem)
    (hb : Balanced (pre ++ .ret :: post) = true) (hpre : ∀ i ∈ pre, i ≠ .ret ∧ i ≠ .pan) :
    (runDefer (pre ++ .ret :: post)).ending = .returned := by
  rw [C19_defer_ending pre post .ret hb hpre]; rfl

theorem C19_defer_ending_pan (pre post : List DItem)
    (hb : Balanced (pre ++ .pan :: post) = true) (hpre : ∀ i ∈ pre, i ≠ .ret ∧ i ≠ .pan) :
    (runDefer (pre ++ .pan :: post)).ending = .panicked := by
  rw [C19_defer_ending pre post .pan hb hpre]; rfl

/-! ### non-vacuity -/

/-- `d{dd}dr` -/
def exProg : List DItem := [.reg, .openS, .reg, .reg, .closeS, .reg, .ret]

example : parseDefer "d{dd}dr" = some exProg := by decide
example : Balanced exProg = true := by decide
example : executedRegs exProg = 4 := by decide
example : runDefer exProg = ⟨[2, 1, 3, 0], .returned⟩ := by decide
example : runDeferI exProg = [(1, 2), (1, 1), (0, 3), (0, 0)] := by decide
example : (exec .init exProg).1.pending = [3, 0] := by decide
/-- a panic inside two nested blocks: everything unwinds, innermost first -/
example : runDefer [.reg, .openS, .reg, .openS, .reg, .pan, .closeS, .reg, .closeS, .reg]
    = ⟨[2, 1, 0], .panicked⟩ := by decide
/-- guards of a closed block run at its `}`, before later guards of the enclosing scope are created -/
example : runDefer [.openS, .reg, .closeS, .reg] = ⟨[0, 1], .normal⟩ := by decide
/-- the hypotheses of `C19_defer_ending_ret` are satisfiable by a non-trivial program -/
example : Balanced ([.reg, .openS, .reg] ++ .ret :: [.closeS, .reg]) = true ∧
    ∀ i ∈ [DItem.reg, .openS, .reg], i ≠ .ret ∧ i ≠ .pan := by decide
/-- `Balanced` is needed in (a): an unbalanced `}` ends the function in the model, `executedRegs`
does not see that -/
example : Balanced [.reg, .closeS, .reg] = false ∧ (runDefer [.reg, .closeS, .reg]).log = [0] ∧
    executedRegs [.reg, .closeS, .reg] = 2 := by decide
#guard showDOut (runDefer exProg) == "ok d:2,1,3,0|r"
#guard showDOut (runDefer []) == "ok d:|n"
#guard parseDefer "dx" == none

end Rivia.Props
