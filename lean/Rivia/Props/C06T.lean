/-
  C06T — C06 for whole trees: file contents are isolated values under `copy` / `move_p` of a
  directory tree, and resolved keys are well formed (the two OPEN items of Props/C06.lean).
  Property theorems ONLY; proofs in Rivia/Lemmas/ContentTree.lean (copy, write/append frame) and
  Rivia/Lemmas/ContentMove.lean (move_p).

  Why a second file: Props/C06.lean lives on Lemmas/Content.lean, which cannot be imported together
  with the copy/move/traversal development (Lemmas/CopyMove.lean … SnapshotCopy.lean: both sides
  declare `Rivia.Lemmas.bind_ok`, `dropLast_ne_self`, `copyM_file`, …).  This file lives on the
  copy/move side; `content` is re-declared (`Lemmas.CT.content s k = alLookup k s.files`, the same
  definition as `Lemmas.content` of C06) and the independence of `write_all` / `append_all`
  (C06_independence) is re-proved here for the two operations needed (`C06_write_append_frame`).

  Standing hypotheses on the pre-state (all decidable):
    `C03_Strong s`  the global invariant of C03 (every reachable state has it),
    `KeysWf s`      every name in every key and in cwd is non-empty, slash-free, not `.` / `..`
                    (`C03_Strong` only excludes `.`; see the OPEN block),
    `DepthOk s`     no key is 2^64 names deep (copy only: the traversal's default `max_depth`).
  Nothing is assumed about the traversal: the snapshot theorems of C08S are used.
-/
import Rivia.Props.C08S
import Rivia.Lemmas.ContentTree
import Rivia.Lemmas.ContentMove

namespace Rivia.Props
open Rivia Rivia.Memfs Rivia.Spec Rivia.Lemmas Rivia.Lemmas.CT
open Rivia.Lemmas.Snap (DepthOk)

/-- (restates the definition) the byte-vector view of the data map, as in C06 -/
theorem C06T_content_def (s : State) (k : FsPath) : content s k = alLookup k s.files := rfl

/-! ### (a) resolved keys are well formed -/

/-- every key `abs` returns is well formed (each name non-empty, slash-free, not `.` / `..`),
    provided the names of the working directory are -/
theorem C06_abs_key_wf {env : Env} {p : Str} {s : State} {k : FsPath}
    (hcwd : ∀ n ∈ s.cwd, Wf n) (h : absM env p s = (.ok k, s)) : ∀ n ∈ k, Wf n :=
  absM_wf hcwd h

theorem C06_abs_key_wf_of_keysWf {env : Env} {p : Str} {s : State} {k : FsPath}
    (hk : KeysWf s) (h : absM env p s = (.ok k, s)) : ∀ n ∈ k, Wf n :=
  absM_wf hk.2 h

/-- hence the side condition `dstOf dk sk sk = dk` of `C06_copy_does_not_alias` /
    `C06_move_does_not_alias` (Props/C06.lean) holds for every pair of resolved keys -/
theorem C06_dstOf_self_of_abs {env : Env} {a b : Str} {s : State} {sk dk : FsPath}
    (hcwd : ∀ n ∈ s.cwd, Wf n) (_ha : absM env a s = (.ok sk, s)) (hb : absM env b s = (.ok dk, s)) :
    dstOf dk sk sk = dk :=
  dstOf_self (absM_wf hcwd hb)

/-- the destination `_copy` / `move_p` compute on strings (`dst_root.mash(path.trim_prefix(prefix))`)
    for the entry `sk ++ r` is `copyDst s sk dk ++ r`, where `copyDst s sk dk` is `dk/<name of sk>`
    when `dk` is an existing real directory (copy INTO it) and `dk` otherwise -/
theorem C06_copy_tree_dst {s : State} {sk dk r pre : FsPath} (hdk : WfKey dk) (hsk : WfKey sk)
    (hr : WfKey r)
    (hpre : if isDirP s dk = true then sk ≠ [] ∧ pre = sk.dropLast else pre = sk) :
    dstOf dk (sk ++ r) pre = copyDst s sk dk ++ r :=
  dstOf_copyDst hdk hsk hr hpre

theorem C06_copyDst_def (s : State) (sk dk : FsPath) :
    copyDst s sk dk = if isDirP s dk = true then dk ++ [baseName sk] else dk := rfl

/-! ### (b) tree copy -/

theorem C06T_kindWf_of_strong {s : State} (h : C03_Strong s) : KindWf s := by
  intro kv hkv
  have := h.2.2.2 kv hkv
  cases hd : kv.2.dir <;> cases hf : kv.2.file <;> simp_all

theorem C06T_cctx {env : Env} {b : Str} {c : CopyOpts} {s : State} {sk dk : FsPath}
    (h : C03_Strong s) (hk : KeysWf s) (hfollow : c.follow = false)
    (hb : absM env b s = (.ok dk, s))
    (h1 : ¬ sk <+: copyDst s sk dk) (h2 : ¬ copyDst s sk dk <+: sk) : CCtx s sk dk c :=
  ⟨invF_of_inv h.1, hk, absM_wf hk.2 hb, hfollow, h1, h2⟩

/-- **content after a successful no-follow `copy` / `copy_b`** of a file or a whole directory tree
    (links inside the tree allowed; the destination may be free, an existing file, or an existing
    directory — then the copy goes INTO it; any mode options).  `D = copyDst s sk dk` is the
    destination root; it must be neither at/below the source nor above it (`h1`, `h2`, decidable).
    * every regular file `sk ++ r` of the source subtree has its bytes at `D ++ r`;
    * every source key keeps its bytes;
    * frame: every key that is not the image `D ++ r` of a regular source file keeps its bytes —
      in particular everything outside the destination subtree. -/
theorem C06_copy_tree_content {env : Env} {a b : Str} {c : CopyOpts} {s s' : State} {sk dk : FsPath}
    {v : Val} (h : C03_Strong s) (hk : KeysWf s) (hd : DepthOk s) (hfollow : c.follow = false)
    (ha : absM env a s = (.ok sk, s)) (hb : absM env b s = (.ok dk, s))
    (h1 : ¬ sk <+: copyDst s sk dk) (h2 : ¬ copyDst s sk dk <+: sk)
    (hc : step env s (.copyB a b c) = (.ok v, s')) :
    (∀ r e, alLookup (sk ++ r) s.entries = some e → e.file = true → e.link = false →
      content s' (copyDst s sk dk ++ r) = content s (sk ++ r)) ∧
    (∀ r, content s' (sk ++ r) = content s (sk ++ r)) ∧
    (∀ q, (∀ r e, alLookup (sk ++ r) s.entries = some e → e.dir = false → e.link = false →
        q ≠ copyDst s sk dk ++ r) → content s' q = content s q) ∧
    (∀ q, (∀ r, q ≠ copyDst s sk dk ++ r) → content s' q = content s q) := by
  have ctx := C06T_cctx (c := c) h hk hfollow hb h1 h2
  have hrun : copyM env a b c s = (.ok (), s') := by
    have hc' : mapVal (fun _ => Val.unit) (copyM env a b c) s = (.ok v, s') := hc
    unfold mapVal at hc'
    cases hm : copyM env a b c s with
    | mk r σ =>
      rw [hm] at hc'
      cases r with
      | ok u => cases u; cases hc'; rfl
      | err k => cases hc'
      | panic => cases hc'
      | hang => cases hc'
  obtain ⟨hdone, hother⟩ := copyM_content h.1 h.2.2.1 hd ctx ha hb hrun
  refine ⟨?_, ?_, hother, ?_⟩
  · intro r e he hf hl
    have hdir : e.dir = false := by
      have := h.2.2.2 (sk ++ r, e) (alLookup_mem he)
      cases hd : e.dir with
      | false => rfl
      | true => exact absurd ⟨hf, hd⟩ this
    exact hdone r e he hdir hl
  · intro r
    exact hother _ (fun r' _ _ _ _ => ctx.ne r r')
  · intro q hq
    exact hother q (fun r _ _ _ _ => hq r)

/-- the same for the operation `copy(src, dst)` (default options) -/
theorem C06_copy_tree_content_copy {env : Env} {a b : Str} {s s' : State} {sk dk : FsPath}
    {v : Val} (h : C03_Strong s) (hk : KeysWf s) (hd : DepthOk s)
    (ha : absM env a s = (.ok sk, s)) (hb : absM env b s = (.ok dk, s))
    (h1 : ¬ sk <+: copyDst s sk dk) (h2 : ¬ copyDst s sk dk <+: sk)
    (hc : step env s (.copy a b) = (.ok v, s')) :
    (∀ r e, alLookup (sk ++ r) s.entries = some e → e.file = true → e.link = false →
      content s' (copyDst s sk dk ++ r) = content s (sk ++ r)) ∧
    (∀ r, content s' (sk ++ r) = content s (sk ++ r)) ∧
    (∀ q, (∀ r e, alLookup (sk ++ r) s.entries = some e → e.dir = false → e.link = false →
        q ≠ copyDst s sk dk ++ r) → content s' q = content s q) ∧
    (∀ q, (∀ r, q ≠ copyDst s sk dk ++ r) → content s' q = content s q) :=
  C06_copy_tree_content (c := {}) h hk hd rfl ha hb h1 h2 hc

/-- copy INTO an existing real directory `dk`: the file `sk ++ r` is found at `dk/<name of sk>/r` -/
theorem C06_copy_tree_into_dir {env : Env} {a b : Str} {c : CopyOpts} {s s' : State} {sk dk : FsPath}
    {v : Val} (h : C03_Strong s) (hk : KeysWf s) (hd : DepthOk s) (hfollow : c.follow = false)
    (ha : absM env a s = (.ok sk, s)) (hb : absM env b s = (.ok dk, s))
    (hinto : isDirP s dk = true)
    (h1 : ¬ sk <+: dk ++ [baseName sk]) (h2 : ¬ dk ++ [baseName sk] <+: sk)
    (hc : step env s (.copyB a b c) = (.ok v, s')) :
    ∀ r e, alLookup (sk ++ r) s.entries = some e → e.file = true → e.link = false →
      content s' (dk ++ [baseName sk] ++ r) = content s (sk ++ r) := by
  have hD : copyDst s sk dk = dk ++ [baseName sk] := by unfold copyDst; rw [if_pos hinto]
  have := (C06_copy_tree_content h hk hd hfollow ha hb (hD ▸ h1) (hD ▸ h2) hc).1
  rw [hD] at this
  exact this

/-- a regular file of a state satisfying the invariant HAS content (so the equations above are
    between `some` values) -/
theorem C06_regular_file_has_content {s : State} (h : C03_Strong s) {k : FsPath} {e : Entry}
    (he : alLookup k s.entries = some e) (hf : e.file = true) (hl : e.link = false) :
    ∃ b, content s k = some b := by
  have := (invF_of_inv h.1).data k e he
  rw [hf, hl] at this
  cases hb : alLookup k s.files with
  | none => rw [hb] at this; simp at this
  | some b => exact ⟨b, hb⟩

/-- the single-file case without the `dstOf dk sk sk = dk` hypothesis of `C06_copy_does_not_alias`:
    the destination holds the source bytes, the source and every third key keep theirs -/
theorem C06_copy_does_not_alias_wf {env : Env} {a b : Str} {c : CopyOpts} {s s' : State}
    {sk dk : FsPath} {e : Entry} {v : Val}
    (h : C03_Strong s) (hk : KeysWf s) (hd : DepthOk s) (hfollow : c.follow = false)
    (ha : absM env a s = (.ok sk, s)) (hb : absM env b s = (.ok dk, s))
    (he : alLookup sk s.entries = some e) (hf : e.file = true) (hl : e.link = false)
    (h1 : ¬ sk <+: copyDst s sk dk) (h2 : ¬ copyDst s sk dk <+: sk)
    (hc : step env s (.copyB a b c) = (.ok v, s')) :
    (∃ bytes, content s sk = some bytes ∧ content s' (copyDst s sk dk) = some bytes) ∧
    content s' sk = content s sk ∧
    (∀ q, q ≠ copyDst s sk dk → content s' q = content s q) := by
  obtain ⟨c1, c2, c3, _⟩ := C06_copy_tree_content h hk hd hfollow ha hb h1 h2 hc
  have hi := invF_of_inv h.1
  have hdir : e.dir = false := by
    have := h.2.2.2 (sk, e) (alLookup_mem he)
    cases hd : e.dir with
    | false => rfl
    | true => exact absurd ⟨hf, hd⟩ this
  obtain ⟨bytes, hbytes⟩ := C06_regular_file_has_content h he hf hl
  refine ⟨⟨bytes, hbytes, ?_⟩, ?_, ?_⟩
  · have := c1 [] e (by rw [List.append_nil]; exact he) hf hl
    rw [List.append_nil, List.append_nil] at this
    rw [this]; exact hbytes
  · have := c2 []; rw [List.append_nil] at this; exact this
  · intro q hq
    apply c3 q
    intro r e' he' _ _
    by_cases hr : r = []
    · subst hr; rw [List.append_nil]; exact hq
    · rw [nothing_below hi (Or.inr ⟨e, he, hdir⟩) hr] at he'; cases he'

/-! ### (c) independence after a tree copy: a two-step history -/

/-- `write_all` / `append_all` change the bytes of the ONE key their path resolves to (whatever the
    outcome; no hypothesis on the state).  This is `C06_independence` for these two operations,
    re-proved on this side of the import split. -/
theorem C06_write_append_frame (env : Env) (s : State) (p : Str) (d : File.Bytes) (q : FsPath)
    (hq : ∀ k, absM env p s = (.ok k, s) → q ≠ k) :
    content (step env s (.writeAll p d)).2 q = content s q ∧
    content (step env s (.appendAll p d)).2 q = content s q :=
  step_write_files env s p d q hq

/-- **copies are independent**: after a successful tree copy `s → s'`, a `write_all` / `append_all`
    (any environment, any outcome) whose path resolves to a key under the DESTINATION leaves every
    source key with the bytes it had before the copy; one whose path resolves to a key under the
    SOURCE leaves every copied file with the bytes its original had when it was copied -/
theorem C06_copy_tree_does_not_alias {env env2 : Env} {a b : Str} {c : CopyOpts} {s s' : State}
    {sk dk : FsPath} {v : Val} (h : C03_Strong s) (hk : KeysWf s) (hd : DepthOk s)
    (hfollow : c.follow = false)
    (ha : absM env a s = (.ok sk, s)) (hb : absM env b s = (.ok dk, s))
    (h1 : ¬ sk <+: copyDst s sk dk) (h2 : ¬ copyDst s sk dk <+: sk)
    (hc : step env s (.copyB a b c) = (.ok v, s'))
    (p2 : Str) (d2 : File.Bytes) (k2 : FsPath) (hk2 : absM env2 p2 s' = (.ok k2, s')) :
    ((∃ t, k2 = copyDst s sk dk ++ t) → ∀ r,
      content (step env2 s' (.writeAll p2 d2)).2 (sk ++ r) = content s (sk ++ r) ∧
      content (step env2 s' (.appendAll p2 d2)).2 (sk ++ r) = content s (sk ++ r)) ∧
    ((∃ t, k2 = sk ++ t) → ∀ r e, alLookup (sk ++ r) s.entries = some e → e.file = true →
      e.link = false →
      content (step env2 s' (.writeAll p2 d2)).2 (copyDst s sk dk ++ r) = content s (sk ++ r) ∧
      content (step env2 s' (.appendAll p2 d2)).2 (copyDst s sk dk ++ r) = content s (sk ++ r)) := by
  have ctx := C06T_cctx (c := c) h hk hfollow hb h1 h2
  obtain ⟨c1, c2, _, _⟩ := C06_copy_tree_content h hk hd hfollow ha hb h1 h2 hc
  constructor
  · rintro ⟨t, rfl⟩ r
    have hq : ∀ k, absM env2 p2 s' = (.ok k, s') → sk ++ r ≠ k := by
      intro k hk'
      rw [hk2] at hk'
      cases hk'
      exact ctx.ne r t
    obtain ⟨w, ap⟩ := C06_write_append_frame env2 s' p2 d2 (sk ++ r) hq
    exact ⟨w.trans (c2 r), ap.trans (c2 r)⟩
  · rintro ⟨t, rfl⟩ r e he hf hl
    have hq : ∀ k, absM env2 p2 s' = (.ok k, s') → copyDst s sk dk ++ r ≠ k := by
      intro k hk'
      rw [hk2] at hk'
      cases hk'
      exact (ctx.ne t r).symm
    obtain ⟨w, ap⟩ := C06_write_append_frame env2 s' p2 d2 (copyDst s sk dk ++ r) hq
    exact ⟨w.trans (c1 r e he hf hl), ap.trans (c1 r e he hf hl)⟩

/-! ### (d) tree move -/

/-- **content after a successful `move_p`** of a file or a whole directory tree.  `D = moveDst s sk dk`
    is the final destination (`dk/<name of sk>` when `dk` is an existing real directory, else `dk`).
    Either `D = sk` and nothing changed, or: the bytes of every `sk ++ r` are now at `D ++ r`
    (`none` stays `none`), no key at or below `sk` has bytes any more, every other key keeps its
    bytes. -/
theorem C06_move_tree_content {env : Env} {a b : Str} {s s' : State} {sk dk : FsPath} {v : Val}
    (h : C03_Strong s) (hk : KeysWf s)
    (ha : absM env a s = (.ok sk, s)) (hb : absM env b s = (.ok dk, s))
    (hm : step env s (.moveP a b) = (.ok v, s')) :
    (sk ≠ [] → moveDst s sk dk = if isDirP s dk = true then dk ++ [baseName sk] else dk) ∧
    ((moveDst s sk dk = sk ∧ s' = s) ∨
     ((∀ r, content s' (moveDst s sk dk ++ r) = content s (sk ++ r)) ∧
      (∀ r, content s' (sk ++ r) = none) ∧
      (∀ k, (∀ r, k ≠ sk ++ r) → (∀ r, k ≠ moveDst s sk dk ++ r) → content s' k = content s k))) := by
  have hrun : moveM env a b s = (.ok (), s') := by
    have hm' : mapVal (fun _ => Val.unit) (moveM env a b) s = (.ok v, s') := hm
    unfold mapVal at hm'
    cases hmm : moveM env a b s with
    | mk r σ =>
      rw [hmm] at hm'
      cases r with
      | ok u => cases u; cases hm'; rfl
      | err k => cases hm'
      | panic => cases hm'
      | hang => cases hm'
  refine ⟨fun hne => C09_moveDst_eq (absM_wf hk.2 ha) hne (absM_wf hk.2 hb), ?_⟩
  obtain ⟨sk', dk', srcE, ha', hb', _, hcase⟩ := moveM_content h.1 hk (C06T_kindWf_of_strong h) hrun
  rw [ha] at ha'
  rw [hb] at hb'
  cases ha'
  cases hb'
  rcases hcase with hsame | ⟨_, m1, m2, m3⟩
  · exact Or.inl hsame
  · exact Or.inr ⟨m2, m1, m3⟩

/-- the single-entry case without the `dstOf dk sk sk = dk` hypothesis of `C06_move_does_not_alias`
    (and for any source, not only an entry without children) -/
theorem C06_move_does_not_alias_wf {env : Env} {a b : Str} {s s' : State} {sk dk : FsPath} {v : Val}
    {bytes : File.Bytes}
    (h : C03_Strong s) (hk : KeysWf s)
    (ha : absM env a s = (.ok sk, s)) (hb : absM env b s = (.ok dk, s))
    (hne : moveDst s sk dk ≠ sk) (hbytes : content s sk = some bytes)
    (hm : step env s (.moveP a b) = (.ok v, s')) :
    content s' (moveDst s sk dk) = some bytes ∧ content s' sk = none ∧
    (∀ k, (∀ r, k ≠ sk ++ r) → (∀ r, k ≠ moveDst s sk dk ++ r) → content s' k = content s k) := by
  rcases (C06_move_tree_content h hk ha hb hm).2 with ⟨hsame, _⟩ | ⟨m1, m2, m3⟩
  · exact absurd hsame hne
  · refine ⟨?_, ?_, m3⟩
    · have := m1 []; rw [List.append_nil, List.append_nil] at this; rw [this]; exact hbytes
    · have := m2 []; rw [List.append_nil] at this; exact this

/-! ### reachable states -/

/-- (b) on every state reachable from the fresh filesystem (`KeysWf` / `DepthOk` remain decidable
    side conditions on that state, see the OPEN block) -/
theorem C06_copy_tree_content_reachable (env₀ : Env) (ops : List Op)
    (hh : ∀ pre op post, ops = pre ++ op :: post → (step env₀ (run env₀ Memfs.init pre) op).1 ≠ .hang)
    {env : Env} {a b : Str} {c : CopyOpts} {s' : State} {sk dk : FsPath} {v : Val}
    (hk : KeysWf (run env₀ Memfs.init ops)) (hd : DepthOk (run env₀ Memfs.init ops))
    (hfollow : c.follow = false)
    (ha : absM env a (run env₀ Memfs.init ops) = (.ok sk, run env₀ Memfs.init ops))
    (hb : absM env b (run env₀ Memfs.init ops) = (.ok dk, run env₀ Memfs.init ops))
    (h1 : ¬ sk <+: copyDst (run env₀ Memfs.init ops) sk dk)
    (h2 : ¬ copyDst (run env₀ Memfs.init ops) sk dk <+: sk)
    (hc : step env (run env₀ Memfs.init ops) (.copyB a b c) = (.ok v, s')) :
    (∀ r e, alLookup (sk ++ r) (run env₀ Memfs.init ops).entries = some e → e.file = true →
      e.link = false →
      content s' (copyDst (run env₀ Memfs.init ops) sk dk ++ r) =
        content (run env₀ Memfs.init ops) (sk ++ r)) ∧
    (∀ r, content s' (sk ++ r) = content (run env₀ Memfs.init ops) (sk ++ r)) ∧
    (∀ q, (∀ r, q ≠ copyDst (run env₀ Memfs.init ops) sk dk ++ r) →
      content s' q = content (run env₀ Memfs.init ops) q) := by
  obtain ⟨c1, c2, _, c4⟩ :=
    C06_copy_tree_content (C03_strong_reachable env₀ ops hh) hk hd hfollow ha hb h1 h2 hc
  exact ⟨c1, c2, c4⟩

/-- (d) on every reachable state -/
theorem C06_move_tree_content_reachable (env₀ : Env) (ops : List Op)
    (hh : ∀ pre op post, ops = pre ++ op :: post → (step env₀ (run env₀ Memfs.init pre) op).1 ≠ .hang)
    {env : Env} {a b : Str} {s' : State} {sk dk : FsPath} {v : Val}
    (hk : KeysWf (run env₀ Memfs.init ops))
    (ha : absM env a (run env₀ Memfs.init ops) = (.ok sk, run env₀ Memfs.init ops))
    (hb : absM env b (run env₀ Memfs.init ops) = (.ok dk, run env₀ Memfs.init ops))
    (hm : step env (run env₀ Memfs.init ops) (.moveP a b) = (.ok v, s')) :
    (moveDst (run env₀ Memfs.init ops) sk dk = sk ∧ s' = run env₀ Memfs.init ops) ∨
     ((∀ r, content s' (moveDst (run env₀ Memfs.init ops) sk dk ++ r) =
        content (run env₀ Memfs.init ops) (sk ++ r)) ∧
      (∀ r, content s' (sk ++ r) = none) ∧
      (∀ k, (∀ r, k ≠ sk ++ r) → (∀ r, k ≠ moveDst (run env₀ Memfs.init ops) sk dk ++ r) →
        content s' k = content (run env₀ Memfs.init ops) k)) :=
  (C06_move_tree_content (C03_strong_reachable env₀ ops hh) hk ha hb hm).2

/-! ### non-vacuity (tests, labelled as such) -/

/-- the hypotheses of `C06_copy_tree_content` hold of `copy("/a", "/d")` on `smallState`
    (`/a/f = [1,2,3]`, `/d` an existing directory: the copy goes INTO `/d`): the copied file holds
    the bytes, the source still does -/
example : ∃ s', step (fun _ => none) smallState (.copyB ['/', 'a'] ['/', 'd'] {}) = (.ok .unit, s') ∧
    content s' [['d'], ['a'], ['f']] = some [1, 2, 3] ∧ content s' [['a'], ['f']] = some [1, 2, 3] := by
  obtain ⟨s', hs, _⟩ := C09_copy_tree_strong (env := fun _ => none) (a := ['/', 'a']) (b := ['/', 'd'])
    (c := {}) (rootE := eA) (by decide) (by decide) treeCtx_small (by decide) (by decide) (by decide)
    (by decide)
  have h := C06_copy_tree_content (c := {}) (sk := [['a']]) (dk := [['d']]) (by decide) (by decide)
    (by decide) rfl (by decide) (by decide) (by decide) (by decide) hs
  have hD : copyDst smallState [['a']] [['d']] = [['d'], ['a']] := by decide
  refine ⟨s', hs, ?_, ?_⟩
  · have := h.1 [['f']] eF (by decide) rfl rfl
    rw [hD] at this
    exact this
  · exact h.2.1 [['f']]

/-- … and a later `write_all("/d/a/f", …)` leaves the original alone (hypotheses of
    `C06_copy_tree_does_not_alias`, first clause; `absM` of the second step taken as a hypothesis) -/
example (s' : State) (hs : step (fun _ => none) smallState (.copyB ['/', 'a'] ['/', 'd'] {}) = (.ok .unit, s'))
    (hk2 : absM (fun _ => none) ['/', 'd', '/', 'a', '/', 'f'] s' = (.ok [['d'], ['a'], ['f']], s')) :
    content (step (fun _ => none) s' (.writeAll ['/', 'd', '/', 'a', '/', 'f'] [9])).2 [['a'], ['f']] =
      some [1, 2, 3] :=
  ((C06_copy_tree_does_not_alias (c := {}) (sk := [['a']]) (dk := [['d']]) (by decide) (by decide)
    (by decide) rfl (by decide) (by decide) (by decide) (by decide) hs _ [9] _ hk2).1
      ⟨[['f']], by decide⟩ [['f']]).1

/-- the hypotheses of `C06_move_tree_content` hold of `move_p("/a", "/d")` on `smallState`: the
    bytes are at `/d/a/f`, nothing is left at `/a/f` -/
example : ∃ s', step (fun _ => none) smallState (.moveP ['/', 'a'] ['/', 'd']) = (.ok .unit, s') ∧
    content s' [['d'], ['a'], ['f']] = some [1, 2, 3] ∧ content s' [['a'], ['f']] = none := by
  have hm : step (fun _ => none) smallState (.moveP ['/', 'a'] ['/', 'd']) =
      (.ok .unit, (step (fun _ => none) smallState (.moveP ['/', 'a'] ['/', 'd'])).2) :=
    Prod.ext (by decide) rfl
  have h := C06_move_tree_content (sk := [['a']]) (dk := [['d']]) (by decide) (by decide) (by decide)
    (by decide) hm
  have hD : moveDst smallState [['a']] [['d']] = [['d'], ['a']] := by decide
  rcases h.2 with ⟨hsame, _⟩ | ⟨m1, m2, _⟩
  · rw [hD] at hsame; exact absurd hsame (by decide)
  · refine ⟨_, hm, ?_, m2 [['f']]⟩
    have := m1 [['f']]
    rw [hD] at this
    exact this

/-
  -- OPEN (not proved):
  -- * `KeysWf s` (no name of a key or of cwd is empty, `.`, `..` or contains `/`) on REACHABLE states.
  --   `C03_Strong` (proved for every reachable state) gives all of it except "not `..`"; the `Wf`
  --   version would need the same 53-operation induction as C03 (`abs` never returns `..`:
  --   `C06_abs_key_wf`, so only the bookkeeping is missing).  It stays a decidable hypothesis of every
  --   theorem here, also of the `_reachable` forms.
  -- * `copy` with `follow = true`, and copies whose destination root is at/below or above the source
  --   (`h1`, `h2`; the overlapping case is C13).  `DepthOk` (copy only) is a decidable side condition.
  -- * `write_lines` / `append_lines` / handles as the second step of `C06_copy_tree_does_not_alias`:
  --   only `write_all` / `append_all` are re-proved on this side of the import split
  --   (`C06_write_append_frame`); `C06_independence` (Props/C06.lean) covers all content operations
  --   from ANY state, so the statement is true for them as well, it just cannot be cited here.
-/

end Rivia.Props
