/-
  C08 — traversal yields exactly the selected entries, once, in order, and terminates.
  Property theorems ONLY (helper lemmas live in Rivia/Lemmas/Walk.lean); links are not followed
  (`follow = false`) throughout.

  Spec: `Spec.entriesSpec snap o rootE` (Rivia/Spec/Walk.lean), the plain recursive walk.
  Model: `collectEntries snap o rootE`, the iterator stack machine run to exhaustion.

  Hypotheses used below
  * `SnapWf snap`        (decidable) every entry reports its key, child names strictly sorted,
                         listed children present;
  * `InSnap snap rootE`  the root entry is the snapshot's entry at its own path (`entriesOf`);
  * `KindOk o`           not both `dirs` and `files` (the builder calls are exclusive);
  * `OrdOk o`            `dirs_first`/`files_first` only with `sort_by_name` (the builder sets
                         them together).
-/
import Rivia.Lemmas.Walk
import Rivia.Lemmas.WalkCF

namespace Rivia.Props
open Rivia Rivia.Memfs Rivia.Spec
open Rivia.Spec.TreeFs (pathLt)
open Rivia.Lemmas.WalkCF (ExactDom2 ExactDom3 FlagsExcl FlagsOkFor)

/-! ### small concrete snapshots used as witnesses -/

namespace C08w
def rootB : Entry := { mkDirEntry [] none with files := some [['f']] }
def fileB : Entry := mkFileEntry [['f']]
/-- `/` with one file `/f` -/
def snapB : Snap := [([], rootB), ([['f']], fileB)]
def oB : Opts := { files := true, contentsFirst := true, sorted := true }

def rootM : Entry := { mkDirEntry [] none with files := some [['a'], ['b']] }
def dirA : Entry := mkDirEntry [['a']] none
def fileM : Entry := mkFileEntry [['b']]
/-- `/` with an empty directory `/a` and a file `/b` -/
def snapM : Snap := [([], rootM), ([['a']], dirA), ([['b']], fileM)]
def oM : Opts := { minDepth := 1, contentsFirst := true, sorted := true }

/-- an entry with BOTH kind flags (no constructor of the implementation builds one) -/
def dirX : Entry := { mkDirEntry [['a']] none with file := true }
def rootX : Entry := { mkDirEntry [] none with files := some [['a'], ['g']] }
def fileX : Entry := mkFileEntry [['g']]
/-- `/` with `/a` (directory AND file flag) and a file `/g` -/
def snapX : Snap := [([], rootX), ([['a']], dirX), ([['g']], fileX)]
def oX : Opts := { files := true, contentsFirst := true }
end C08w
open C08w

/-! ### a. the stack machine equals the recursive walk (parents first) -/

/-- the full statement: for every option combination the machine yields the walk -/
def C08_full : Prop :=
  ∀ (snap : Snap) (o : Opts) (rootE : Entry), SnapWf snap → InSnap snap rootE → o.follow = false →
    o.sorted = true → KindOk o → collectEntries snap o rootE = .ok (entriesSpec snap o rootE)

/-- Central theorem: with `sort_by_name` and without `contents_first`, for all depth windows,
    both kind filters, `dirs_first`/`files_first` and ANY descriptor cap `maxDesc`, iteration
    terminates (`travFuel` suffices) and yields exactly the recursive walk. -/
theorem C08_no_follow_exact_partial (snap : Snap) (o : Opts) (rootE : Entry)
    (hwf : SnapWf snap) (hroot : InSnap snap rootE) (hfol : o.follow = false)
    (hsorted : o.sorted = true) (hcf : o.contentsFirst = false) (hk : KindOk o) :
    collectEntries snap o rootE = .ok (entriesSpec snap o rootE) :=
  Lemmas.Walk.collectEntries_pre hwf hfol hcf (Or.inl hsorted) hk hroot

/-- model-level remark: without `sort_by_name` (and without grouping flags) the model yields the
    walk in the order the snapshot stores the names (its stand-in for the `HashSet` order) -/
theorem C08_no_follow_exact_unsorted (snap : Snap) (o : Opts) (rootE : Entry)
    (hwf : SnapWf snap) (hroot : InSnap snap rootE) (hfol : o.follow = false)
    (hcf : o.contentsFirst = false) (hord : OrdOk o) (hk : KindOk o) :
    collectEntries snap o rootE = .ok (entriesSpec snap o rootE) :=
  Lemmas.Walk.collectEntries_pre hwf hfol hcf hord hk hroot

/-- the conclusion on a concrete snapshot (`/`, `/a/`, `/b`), and the spec's fuel is immaterial:
    any larger amount gives the same walk -/
example : collectEntries snapM { sorted := true } rootM = .ok [rootM, dirA, fileM] := by decide

theorem C08_spec_fuel_independent (snap : Snap) (o : Opts) (rootE : Entry) (k : Nat)
    (hwf : SnapWf snap) (hroot : InSnap snap rootE) (hk : snap.length < k) :
    walk snap o k rootE 0 = entriesSpec snap o rootE :=
  Lemmas.Walk.walk_fuel_irrel hwf o _ _ rootE 0 hroot
    (Nat.lt_of_le_of_lt (Lemmas.Walk.pot_le _ _) hk) (Nat.lt_succ_of_le (Lemmas.Walk.pot_le _ _))

/-- the boundary of `KindOk`: with both kind flags set (no builder call sequence does that) the
    implementation only applies `files`, the conjunction of the two filters selects nothing -/
example : collectEntries C08w.snapB { dirs := true, files := true } C08w.rootB = .ok [C08w.fileB] ∧
    entriesSpec C08w.snapB { dirs := true, files := true } C08w.rootB = [] := by decide

/-- the result does not depend on the descriptor cap -/
theorem C08_max_desc_irrelevant (snap : Snap) (o : Opts) (rootE : Entry) (m : Nat)
    (hwf : SnapWf snap) (hroot : InSnap snap rootE) (hfol : o.follow = false)
    (hcf : o.contentsFirst = false) (hord : OrdOk o) (hk : KindOk o) :
    collectEntries snap { o with maxDesc := m } rootE = collectEntries snap o rootE := by
  rw [Lemmas.Walk.collectEntries_pre hwf hfol hcf hord hk hroot,
    Lemmas.Walk.collectEntries_pre (o := { o with maxDesc := m }) hwf hfol hcf hord hk hroot]
  exact congrArg Outcome.ok (Lemmas.Walk.walk_maxDesc snap o m _ rootE 0)

/-! ### b. `contents_first` with a kind filter and with `min_depth`: both findings repaired -/

/-- REPAIRED (was the finding `contents_first_ignores_filter`: deferred directories bypassed the
    kind filter, the traversal below yielded `[/f, /]`). `process` now filters before it defers;
    on the former witness — `entries("/").files().contents_first()` over `/`, `/f` — the
    directory `/` is no longer yielded, and the result is what the spec says -/
theorem C08_repaired_contents_first_filter_witness :
    SnapWf snapB ∧ InSnap snapB rootB ∧ rootB.file = false ∧
    collectEntries snapB oB rootB = .ok [fileB] ∧ entriesSpec snapB oB rootB = [fileB] := by
  have h2 : collectEntries snapB oB rootB = .ok [fileB] := by decide
  refine ⟨by decide, by decide, by decide, h2, ?_⟩
  have h := Lemmas.WalkCF.collectEntries_exact2 (snap := snapB) (o := oB) (rootE := rootB)
    (by decide) (by decide) (fun _ _ => by decide) (by decide)
  rw [h2] at h
  exact (Outcome.ok.inj h).symm

/-- REPAIRED (was the finding `contents_first_min_depth_order`: with `min_depth(1).contents_first()`
    over `/`, `/a/`, `/b` the directory `/a` was yielded AFTER its later sibling `/b`, because a
    deferred directory was only released when the stack was lower than the deferred list). The
    deferred stack now records the depth a directory was found at, and the directory is released as
    soon as the stack of open directories is back at that depth; on the former witness the
    traversal yields what the spec says, `/a` before `/b` -/
theorem C08_repaired_contents_first_min_depth_witness :
    SnapWf snapM ∧ InSnap snapM rootM ∧
    collectEntries snapM oM rootM = .ok [dirA, fileM] ∧ entriesSpec snapM oM rootM = [dirA, fileM] := by
  have h2 : collectEntries snapM oM rootM = .ok [dirA, fileM] := by decide
  refine ⟨by decide, by decide, h2, ?_⟩
  have h := Lemmas.WalkCF.collectEntries_exact3 (snap := snapM) (o := oM) (rootE := rootM)
    (by decide) (by decide) (by decide)
  rw [h2] at h
  exact (Outcome.ok.inj h).symm

/-- after both repairs the full statement HOLDS: for every option combination (sorted, exclusive
    kind filters, any depth window, `dirs_first`/`files_first`, `contents_first`, any cap) the
    machine yields the walk -/
theorem C08_full_holds : C08_full := by
  intro snap o rootE hwf hroot hfol hsorted hk
  exact Lemmas.WalkCF.collectEntries_exact3 hwf ⟨hfol, Or.inl hsorted, hk⟩ hroot

/-! ### c. `contents_first` without kind filter and lower depth bound: the post-order walk -/

/-- with `contents_first`, no kind filter and `min_depth = 0` (any `max_depth`, ordering, cap) the
    machine yields the post-order walk: every directory after its contents -/
theorem C08_contents_first_partial (snap : Snap) (o : Opts) (rootE : Entry)
    (hwf : SnapWf snap) (hroot : InSnap snap rootE) (hfol : o.follow = false)
    (hcf : o.contentsFirst = true) (_hmin : o.minDepth = 0) (hfiles : o.files = false) (_hdirs : o.dirs = false)
    (hord : OrdOk o) :
    collectEntries snap o rootE = .ok (entriesSpec snap o rootE) :=
  Lemmas.Walk.collectEntries_post hwf hfol hcf (by unfold KindOk; simp [hfiles]) hord hroot

/-- STRENGTHENED (after the repair): `contents_first` WITH a kind filter — `dirs()` or `files()`,
    `min_depth = 0`, any `max_depth`, ordering, cap — yields the post-order walk restricted to the
    selected entries. For `files()` the entries must not carry both kind flags (`FlagsExcl`,
    decidable; see `C08_flags_excl_needed`) -/
theorem C08_contents_first_filter_partial (snap : Snap) (o : Opts) (rootE : Entry)
    (hwf : SnapWf snap) (hroot : InSnap snap rootE) (hfol : o.follow = false)
    (hcf : o.contentsFirst = true) (hmin : o.minDepth = 0) (hk : KindOk o) (hord : OrdOk o)
    (hx : o.files = true → FlagsExcl snap) :
    collectEntries snap o rootE = .ok (entriesSpec snap o rootE) :=
  Lemmas.WalkCF.collectEntries_exact2 hwf ⟨hfol, hord, Or.inr ⟨hcf, hmin, hk⟩⟩ (fun _ => hx) hroot

/-- with `dirs().contents_first()` no side condition is needed -/
theorem C08_contents_first_dirs_partial (snap : Snap) (o : Opts) (rootE : Entry)
    (hwf : SnapWf snap) (hroot : InSnap snap rootE) (hfol : o.follow = false)
    (hcf : o.contentsFirst = true) (_hmin : o.minDepth = 0) (hfiles : o.files = false) (hord : OrdOk o) :
    collectEntries snap o rootE = .ok (entriesSpec snap o rootE) :=
  Lemmas.Walk.collectEntries_post hwf hfol hcf (by unfold KindOk; simp [hfiles]) hord hroot

/-- STRENGTHENED (after the second repair): `contents_first` with ANY depth window and any
    exclusive kind filter, no side condition -/
theorem C08_contents_first_all_partial (snap : Snap) (o : Opts) (rootE : Entry)
    (hwf : SnapWf snap) (hroot : InSnap snap rootE) (hfol : o.follow = false)
    (hcf : o.contentsFirst = true) (hk : KindOk o) (hord : OrdOk o) :
    collectEntries snap o rootE = .ok (entriesSpec snap o rootE) :=
  Lemmas.Walk.collectEntries_post hwf hfol hcf hk hord hroot

/-- model-level remark: since the second repair the side condition `FlagsExcl` (no entry carries
    both kind flags) is NOT needed any more. On `snapX` (`/a` flagged directory AND file) the first
    repair alone still yielded `[/g, /a]` for `files().contents_first()`; with the depth-tagged
    deferred stack `/a` is released as soon as its (empty) contents are done -/
theorem C08_flags_excl_not_needed :
    SnapWf snapX ∧ InSnap snapX rootX ∧ ¬ FlagsExcl snapX ∧
    collectEntries snapX oX rootX = .ok [dirX, fileX] ∧ entriesSpec snapX oX rootX = [dirX, fileX] := by
  decide

/-! ### f. termination -/

/-- for EVERY option combination (kind filters, depth window, ordering, `contents_first`, cap)
    the traversal of a well-formed snapshot ends — never `.hang` — and without an error -/
theorem C08_terminates_no_follow (snap : Snap) (o : Opts) (rootE : Entry)
    (hwf : SnapWf snap) (hroot : InSnap snap rootE) (hfol : o.follow = false) :
    ∃ es, collectEntries snap o rootE = .ok es :=
  Lemmas.Walk.collectEntries_ok hwf hfol hroot

theorem C08_never_hangs_no_follow (snap : Snap) (o : Opts) (rootE : Entry)
    (hwf : SnapWf snap) (hroot : InSnap snap rootE) (hfol : o.follow = false) :
    collectEntries snap o rootE ≠ .hang := by
  obtain ⟨es, h⟩ := Lemmas.Walk.collectEntries_ok (o := o) hwf hfol hroot
  rw [h]; intro h'; cases h'

/-- for EVERY option combination (also outside `KindOk` / `OrdOk`): no path is yielded twice, and everything yielded is a
    snapshot entry at or below the root, not deeper than `max_depth` -/
theorem C08_each_once_all_options (snap : Snap) (o : Opts) (rootE : Entry) (es : List Entry)
    (hwf : SnapWf snap) (hroot : InSnap snap rootE) (hfol : o.follow = false)
    (h : collectEntries snap o rootE = .ok es) :
    (es.map (·.path)).Nodup ∧ ∀ y ∈ es, InSnap snap y ∧ rootE.path <+: y.path ∧
      (y = rootE ∨ y.path.length - rootE.path.length ≤ o.maxDepth) :=
  Lemmas.Walk.collectEntries_all hwf hfol hroot h

/-! ### d. corollaries: what is yielded, once, in which order

  `ExactDom o` (decidable) = the union of the option domains of a. and c. -/

theorem C08_exact (snap : Snap) (o : Opts) (rootE : Entry)
    (hwf : SnapWf snap) (hroot : InSnap snap rootE) (hdom : ExactDom o) :
    collectEntries snap o rootE = .ok (entriesSpec snap o rootE) :=
  Lemmas.Walk.collectEntries_exact hwf hdom hroot

/-- "exactly the entries the options denote": an entry is yielded iff it is a snapshot entry at
    `root ++ t`, reachable through real directories that list each next name (`Chain`), not
    deeper than `max_depth`, and selected by `min_depth` and the kind filter at its depth -/
theorem C08_membership (snap : Snap) (o : Opts) (rootE : Entry) (es : List Entry)
    (hwf : SnapWf snap) (hroot : InSnap snap rootE) (hdom : ExactDom o)
    (h : collectEntries snap o rootE = .ok es) (y : Entry) :
    y ∈ es ↔ InSnap snap y ∧ ∃ t, y.path = rootE.path ++ t ∧ (t = [] ∨ t.length ≤ o.maxDepth) ∧
      Chain snap rootE.path t ∧ selected o y t.length = true := by
  rw [Lemmas.Walk.es_eq_of_exact hwf hroot hdom h, entriesSpec,
    Lemmas.Walk.mem_walk_iff hwf o _ rootE 0 y hroot (Nat.lt_succ_of_le (Lemmas.Walk.pot_le _ _))]
  simp only [Nat.zero_add]

/-- each selected entry is yielded exactly once: no path occurs twice -/
theorem C08_each_once (snap : Snap) (o : Opts) (rootE : Entry) (es : List Entry)
    (hwf : SnapWf snap) (hroot : InSnap snap rootE) (hdom : ExactDom o)
    (h : collectEntries snap o rootE = .ok es) : (es.map (·.path)).Nodup := by
  rw [Lemmas.Walk.es_eq_of_exact hwf hroot hdom h]
  exact Lemmas.Walk.walk_nodup hwf o _ rootE 0 hroot

/-- every yielded entry passes the kind filter and lies in the depth window (and is a snapshot
    entry below the root); nothing a filter rejects is yielded -/
theorem C08_filter_respected (snap : Snap) (o : Opts) (rootE : Entry) (es : List Entry)
    (hwf : SnapWf snap) (hroot : InSnap snap rootE) (hdom : ExactDom o)
    (h : collectEntries snap o rootE = .ok es) :
    ∀ y ∈ es, InSnap snap y ∧ rootE.path <+: y.path ∧
      (o.files = true → y.file = true) ∧ (o.dirs = true → y.dir = true) ∧
      o.minDepth ≤ y.path.length - rootE.path.length ∧
      (y = rootE ∨ y.path.length - rootE.path.length ≤ o.maxDepth) := by
  rw [Lemmas.Walk.es_eq_of_exact hwf hroot hdom h]
  exact Lemmas.Walk.spec_filter_respected hwf o hroot

/-- parents before their contents: no entry is a proper ancestor of an earlier one -/
theorem C08_parents_before_contents (snap : Snap) (o : Opts) (rootE : Entry) (es : List Entry)
    (hwf : SnapWf snap) (hroot : InSnap snap rootE) (hdom : ExactDom o) (hcf : o.contentsFirst = false)
    (h : collectEntries snap o rootE = .ok es) :
    es.Pairwise (fun a b => ¬ (b.path <+: a.path ∧ b.path ≠ a.path)) := by
  rw [Lemmas.Walk.es_eq_of_exact hwf hroot hdom h]
  exact Lemmas.Walk.walk_parents_first hwf o hcf _ rootE 0 hroot

/-- with `contents_first` (c.'s domain) contents come before their parents: no entry is a proper
    ancestor of a later one -/
theorem C08_contents_before_parents (snap : Snap) (o : Opts) (rootE : Entry) (es : List Entry)
    (hwf : SnapWf snap) (hroot : InSnap snap rootE) (hdom : ExactDom o) (hcf : o.contentsFirst = true)
    (h : collectEntries snap o rootE = .ok es) :
    es.Pairwise (fun a b => ¬ (a.path <+: b.path ∧ a.path ≠ b.path)) := by
  rw [Lemmas.Walk.es_eq_of_exact hwf hroot hdom h]
  exact Lemmas.Walk.walk_contents_first hwf o hcf _ rootE 0 hroot

/-- siblings (entries `p ++ [n]`, `p ++ [n']` of the same directory) come in the order of
    `sibOrd`: with `dirs_first` no file before a directory, with `files_first` no directory
    before a file, by name inside a group and by name throughout without grouping -/
theorem C08_sorted_siblings (snap : Snap) (o : Opts) (rootE : Entry) (es : List Entry)
    (hwf : SnapWf snap) (hroot : InSnap snap rootE) (hdom : ExactDom o)
    (h : collectEntries snap o rootE = .ok es) :
    es.Pairwise (fun a b => ∀ p n n', a.path = p ++ [n] → b.path = p ++ [n'] → sibOrd o a b) := by
  rw [Lemmas.Walk.es_eq_of_exact hwf hroot hdom h]
  exact Lemmas.Walk.walk_siblings hwf o _ rootE 0 hroot

/-- without grouping and `contents_first` the yielded paths are strictly increasing in the
    lexicographic order on component lists (`TreeFs.pathLt`; names compared byte-wise) -/
theorem C08_lexicographic_order (snap : Snap) (o : Opts) (rootE : Entry) (es : List Entry)
    (hwf : SnapWf snap) (hroot : InSnap snap rootE) (hdom : ExactDom o) (hcf : o.contentsFirst = false)
    (hdf : o.dirsFirst = false) (hff : o.filesFirst = false)
    (h : collectEntries snap o rootE = .ok es) :
    (es.map (·.path)).Pairwise (fun p q => pathLt p q = true) := by
  rw [Lemmas.Walk.es_eq_of_exact hwf hroot hdom h]
  exact Lemmas.Walk.walk_lex hwf o hcf hdf hff _ rootE 0 hroot

/-- non-vacuity: the hypotheses hold of a concrete snapshot; both option domains are inhabited -/
example : SnapWf C08w.snapM ∧ InSnap C08w.snapM C08w.rootM ∧
    ExactDom { sorted := true, dirsFirst := true, files := true, minDepth := 1, maxDepth := 3, maxDesc := 0 } ∧
    ExactDom { sorted := true, contentsFirst := true, maxDepth := 2 } := by decide

/-! ### d'. the same on the wider domain `ExactDom2` (after the repair)

  `ExactDom2 o` (decidable, Lemmas/WalkCF.lean) = `ExactDom o` with the `contents_first` alternative
  widened to "`min_depth = 0` and `KindOk`": `contents_first` may be combined with `dirs()` or
  `files()`. `FlagsOkFor snap o` (decidable) = with `files().contents_first()` no snapshot entry
  carries both kind flags. Every theorem of d. is an instance (`ExactDom.to2`). -/

theorem C08_exact2 (snap : Snap) (o : Opts) (rootE : Entry)
    (hwf : SnapWf snap) (hroot : InSnap snap rootE) (hdom : ExactDom2 o) (hx : FlagsOkFor snap o) :
    collectEntries snap o rootE = .ok (entriesSpec snap o rootE) :=
  Lemmas.WalkCF.collectEntries_exact2 hwf hdom hx hroot

/-- `ExactDom2` contains `ExactDom` (where `FlagsOkFor` holds trivially) -/
theorem C08_exactDom_sub (snap : Snap) (o : Opts) (hdom : ExactDom o) : ExactDom2 o ∧ FlagsOkFor snap o := by
  refine ⟨Lemmas.WalkCF.ExactDom.to2 hdom, ?_⟩
  intro hcf hf
  obtain ⟨_, _, h | h⟩ := hdom
  · rw [h.1] at hcf; cases hcf
  · rw [h.2.2.1] at hf; cases hf

theorem C08_membership2 (snap : Snap) (o : Opts) (rootE : Entry) (es : List Entry)
    (hwf : SnapWf snap) (hroot : InSnap snap rootE) (hdom : ExactDom2 o) (hx : FlagsOkFor snap o)
    (h : collectEntries snap o rootE = .ok es) (y : Entry) :
    y ∈ es ↔ InSnap snap y ∧ ∃ t, y.path = rootE.path ++ t ∧ (t = [] ∨ t.length ≤ o.maxDepth) ∧
      Chain snap rootE.path t ∧ selected o y t.length = true := by
  rw [Lemmas.WalkCF.es_eq_of_exact2 hwf hroot hdom hx h, entriesSpec,
    Lemmas.Walk.mem_walk_iff hwf o _ rootE 0 y hroot (Nat.lt_succ_of_le (Lemmas.Walk.pot_le _ _))]
  simp only [Nat.zero_add]

theorem C08_each_once2 (snap : Snap) (o : Opts) (rootE : Entry) (es : List Entry)
    (hwf : SnapWf snap) (hroot : InSnap snap rootE) (hdom : ExactDom2 o) (hx : FlagsOkFor snap o)
    (h : collectEntries snap o rootE = .ok es) : (es.map (·.path)).Nodup := by
  rw [Lemmas.WalkCF.es_eq_of_exact2 hwf hroot hdom hx h]
  exact Lemmas.Walk.walk_nodup hwf o _ rootE 0 hroot

/-- nothing a filter rejects is yielded — now also with `contents_first` -/
theorem C08_filter_respected2 (snap : Snap) (o : Opts) (rootE : Entry) (es : List Entry)
    (hwf : SnapWf snap) (hroot : InSnap snap rootE) (hdom : ExactDom2 o) (hx : FlagsOkFor snap o)
    (h : collectEntries snap o rootE = .ok es) :
    ∀ y ∈ es, InSnap snap y ∧ rootE.path <+: y.path ∧
      (o.files = true → y.file = true) ∧ (o.dirs = true → y.dir = true) ∧
      o.minDepth ≤ y.path.length - rootE.path.length ∧
      (y = rootE ∨ y.path.length - rootE.path.length ≤ o.maxDepth) := by
  rw [Lemmas.WalkCF.es_eq_of_exact2 hwf hroot hdom hx h]
  exact Lemmas.Walk.spec_filter_respected hwf o hroot

theorem C08_contents_before_parents2 (snap : Snap) (o : Opts) (rootE : Entry) (es : List Entry)
    (hwf : SnapWf snap) (hroot : InSnap snap rootE) (hdom : ExactDom2 o) (hx : FlagsOkFor snap o)
    (hcf : o.contentsFirst = true) (h : collectEntries snap o rootE = .ok es) :
    es.Pairwise (fun a b => ¬ (a.path <+: b.path ∧ a.path ≠ b.path)) := by
  rw [Lemmas.WalkCF.es_eq_of_exact2 hwf hroot hdom hx h]
  exact Lemmas.Walk.walk_contents_first hwf o hcf _ rootE 0 hroot

theorem C08_sorted_siblings2 (snap : Snap) (o : Opts) (rootE : Entry) (es : List Entry)
    (hwf : SnapWf snap) (hroot : InSnap snap rootE) (hdom : ExactDom2 o) (hx : FlagsOkFor snap o)
    (h : collectEntries snap o rootE = .ok es) :
    es.Pairwise (fun a b => ∀ p n n', a.path = p ++ [n] → b.path = p ++ [n'] → sibOrd o a b) := by
  rw [Lemmas.WalkCF.es_eq_of_exact2 hwf hroot hdom hx h]
  exact Lemmas.Walk.walk_siblings hwf o _ rootE 0 hroot

/-- non-vacuity: the new part of the domain is inhabited, the side condition holds of the
    witnesses (and fails only for the artificial `snapX`) -/
example : ExactDom2 { sorted := true, contentsFirst := true, files := true, maxDepth := 2 } ∧
    ExactDom2 { sorted := true, dirsFirst := true, contentsFirst := true, dirs := true } ∧
    ¬ ExactDom { sorted := true, contentsFirst := true, files := true, maxDepth := 2 } ∧
    FlagsExcl C08w.snapM ∧ FlagsExcl C08w.snapB ∧ FlagsOkFor C08w.snapM C08w.oB := by decide

/-! ### d''. the same on the domain `ExactDom3` (after both repairs): NO restriction on
  `contents_first` or the depth window, no side condition

  `ExactDom3 o` (decidable, Lemmas/WalkCF.lean) = `follow = false ∧ OrdOk o ∧ KindOk o`. Every
  theorem of d. and d'. is an instance (`ExactDom.to3`, `ExactDom2.to3`). -/

theorem C08_exact3 (snap : Snap) (o : Opts) (rootE : Entry)
    (hwf : SnapWf snap) (hroot : InSnap snap rootE) (hdom : ExactDom3 o) :
    collectEntries snap o rootE = .ok (entriesSpec snap o rootE) :=
  Lemmas.WalkCF.collectEntries_exact3 hwf hdom hroot

theorem C08_exactDom2_sub (o : Opts) (hdom : ExactDom2 o) : ExactDom3 o := Lemmas.WalkCF.ExactDom2.to3 hdom

theorem C08_membership3 (snap : Snap) (o : Opts) (rootE : Entry) (es : List Entry)
    (hwf : SnapWf snap) (hroot : InSnap snap rootE) (hdom : ExactDom3 o)
    (h : collectEntries snap o rootE = .ok es) (y : Entry) :
    y ∈ es ↔ InSnap snap y ∧ ∃ t, y.path = rootE.path ++ t ∧ (t = [] ∨ t.length ≤ o.maxDepth) ∧
      Chain snap rootE.path t ∧ selected o y t.length = true := by
  rw [Lemmas.WalkCF.es_eq_of_exact3 hwf hroot hdom h, entriesSpec,
    Lemmas.Walk.mem_walk_iff hwf o _ rootE 0 y hroot (Nat.lt_succ_of_le (Lemmas.Walk.pot_le _ _))]
  simp only [Nat.zero_add]

theorem C08_each_once3 (snap : Snap) (o : Opts) (rootE : Entry) (es : List Entry)
    (hwf : SnapWf snap) (hroot : InSnap snap rootE) (hdom : ExactDom3 o)
    (h : collectEntries snap o rootE = .ok es) : (es.map (·.path)).Nodup := by
  rw [Lemmas.WalkCF.es_eq_of_exact3 hwf hroot hdom h]
  exact Lemmas.Walk.walk_nodup hwf o _ rootE 0 hroot

/-- nothing a filter or the depth window rejects is yielded, for every option combination -/
theorem C08_filter_respected3 (snap : Snap) (o : Opts) (rootE : Entry) (es : List Entry)
    (hwf : SnapWf snap) (hroot : InSnap snap rootE) (hdom : ExactDom3 o)
    (h : collectEntries snap o rootE = .ok es) :
    ∀ y ∈ es, InSnap snap y ∧ rootE.path <+: y.path ∧
      (o.files = true → y.file = true) ∧ (o.dirs = true → y.dir = true) ∧
      o.minDepth ≤ y.path.length - rootE.path.length ∧
      (y = rootE ∨ y.path.length - rootE.path.length ≤ o.maxDepth) := by
  rw [Lemmas.WalkCF.es_eq_of_exact3 hwf hroot hdom h]
  exact Lemmas.Walk.spec_filter_respected hwf o hroot

/-- with `contents_first` (any depth window, any filter) contents come before their parents -/
theorem C08_contents_before_parents3 (snap : Snap) (o : Opts) (rootE : Entry) (es : List Entry)
    (hwf : SnapWf snap) (hroot : InSnap snap rootE) (hdom : ExactDom3 o)
    (hcf : o.contentsFirst = true) (h : collectEntries snap o rootE = .ok es) :
    es.Pairwise (fun a b => ¬ (a.path <+: b.path ∧ a.path ≠ b.path)) := by
  rw [Lemmas.WalkCF.es_eq_of_exact3 hwf hroot hdom h]
  exact Lemmas.Walk.walk_contents_first hwf o hcf _ rootE 0 hroot

theorem C08_sorted_siblings3 (snap : Snap) (o : Opts) (rootE : Entry) (es : List Entry)
    (hwf : SnapWf snap) (hroot : InSnap snap rootE) (hdom : ExactDom3 o)
    (h : collectEntries snap o rootE = .ok es) :
    es.Pairwise (fun a b => ∀ p n n', a.path = p ++ [n] → b.path = p ++ [n'] → sibOrd o a b) := by
  rw [Lemmas.WalkCF.es_eq_of_exact3 hwf hroot hdom h]
  exact Lemmas.Walk.walk_siblings hwf o _ rootE 0 hroot

/-- non-vacuity: the domain contains `contents_first` with `min_depth` and a filter -/
example : ExactDom3 { sorted := true, contentsFirst := true, files := true, minDepth := 2, maxDepth := 5 } ∧
    ExactDom3 C08w.oM ∧ ¬ ExactDom2 C08w.oM ∧ ExactDom3 { contentsFirst := true, dirs := true, minDepth := 1 } := by
  decide

/-! ### e. the listing helpers `paths`/`dirs`/`files` (`maxDepth = some 1`) and `all_*` (`none`)

  Stated over the state-level `listing`. Two facts about `_clone_entries` are taken as EXPLICIT
  (decidable) hypotheses instead of being derived from `Spec.Inv s`: `SnapWf snap` (in particular
  the sortedness of the child-name lists, which `Inv` does not record) and `SnapOf s a snap` (the
  snapshot agrees with the state on the keys at or below `a`). -/

theorem C08_listing_helpers (env : Env) (path : Str) (maxDepth : Option Nat) (dirs files : Bool)
    (s : State) (a : FsPath) (rootE : Entry) (snap : Snap)
    (hinv : Spec.Inv s) (habs : absM env path s = (.ok a, s)) (hdir : isDirP s a = true)
    (hent : entriesOf s a = .ok (rootE, snap)) (hwf : SnapWf snap) (hsnap : SnapOf s a snap) :
    ∃ ps, listing env path maxDepth dirs files s = (.ok ps, s) ∧
      -- in walk order, links skipped by `dirs` / `files` / `all_dirs` / `all_files` (not by
      -- `paths` / `all_paths`: both flags false) ...
      ps = ((entriesSpec snap (listingOpts maxDepth dirs files) rootE).filter
              (fun e => !((dirs || files) && e.link))).map (·.path) ∧
      -- ... which is the lexicographic order on component lists (name-sorted); distinct
      ps.Pairwise (fun p q => pathLt p q = true) ∧ ps.Nodup ∧
      -- the argument itself is excluded
      a ∉ ps ∧
      -- exactly the keys strictly below the directory, within the depth limit (depth 1 for
      -- `some 1`), whose entry is a real file (`file ∧ ¬link`) / a real directory (`dir ∧ ¬link`);
      -- all keys below for `paths` / `all_paths`; in particular they exist
      ∀ p, p ∈ ps ↔ ∃ t e, p = a ++ t ∧ t ≠ [] ∧ t.length ≤ depthCap maxDepth ∧
        alLookup p s.entries = some e ∧ (files = true → e.file = true ∧ e.link = false) ∧
        (dirs = true → files = false → e.dir = true ∧ e.link = false) :=
  Lemmas.Walk.listing_spec maxDepth dirs files hinv habs hdir hent hwf hsnap

/-- agreement with `exists` / `is_dir` / `is_file` (= entry present / `dir && !link` = `isDirP` /
    `file && !link`), in both directions and with NO hypothesis about links (the class
    `listing_includes_links` is repaired): the listed paths are exactly the paths strictly below the
    directory within the depth limit that exist and, for `files` / `all_files`, satisfy `is_file`, for
    `dirs` / `all_dirs` satisfy `is_dir` -/
theorem C08_listing_agrees_with_queries (env : Env) (path : Str) (maxDepth : Option Nat) (dirs files : Bool)
    (s : State) (a : FsPath) (rootE : Entry) (snap : Snap) (ps : List FsPath)
    (hinv : Spec.Inv s) (habs : absM env path s = (.ok a, s)) (hdir : isDirP s a = true)
    (hent : entriesOf s a = .ok (rootE, snap)) (hwf : SnapWf snap) (hsnap : SnapOf s a snap)
    (h : listing env path maxDepth dirs files s = (.ok ps, s)) :
    ∀ p, p ∈ ps ↔ ∃ t e, p = a ++ t ∧ t ≠ [] ∧ t.length ≤ depthCap maxDepth ∧
      alLookup p s.entries = some e ∧
      (files = true → (e.file && !e.link) = true) ∧ (dirs = true → files = false → isDirP s p = true) :=
  Lemmas.Walk.listing_agrees_iff maxDepth dirs files hinv habs hdir hent hwf hsnap h

namespace C08w
/-- `/`, `/a/`, `/a/b` -/
def sL : State :=
  { entries := [([], { mkDirEntry [] none with files := some [['a']] }),
                ([['a']], { mkDirEntry [['a']] none with files := some [['b']] }),
                ([['a'], ['b']], mkFileEntry [['a'], ['b']])],
    files := [([['a'], ['b']], [])], cwd := [], root := [], handles := [] }
end C08w

/-- non-vacuity of the hypotheses of e. (all but `absM`, which is the string pipeline of C05) -/
example : ∃ rootE snap, Spec.Inv sL ∧ isDirP sL [['a']] = true ∧ entriesOf sL [['a']] = .ok (rootE, snap) ∧
    SnapWf snap ∧ SnapOf sL [['a']] snap ∧ snap.length = 2 :=
  ⟨_, _, by decide, by decide, rfl, by decide, by decide, by decide⟩

/-
  -- OPEN (not proved):
  -- * `cloneEntries_wf`: for `Spec.Inv s` (plus sorted child-name lists, which `Inv` does not
  --   record) and `entriesOf s a = .ok (rootE, snap)`: `SnapWf snap ∧ SnapOf s a snap`.
  --   Needs the fuel analysis of the `cloneLoop` worklist (link targets are re-queued); both are
  --   explicit decidable hypotheses of `C08_listing_helpers`, checked by `#eval` on model-generated
  --   states with links in Rivia/Spec/WalkTest.lean.
  -- * `follow = true` (LinkLooping instead of endless descent): no spec written yet.
  -- * both `contents_first` findings are repaired: the machine is exact on `ExactDom3` (d''.),
  --   `C08_full` holds (`C08_full_holds`). Outside `ExactDom3` only: both kind flags at once
  --   (`KindOk`; no builder call sequence sets both) and grouping flags without `sort_by_name`
  --   (`OrdOk`; the builder sets them together) — there `C08_terminates_no_follow` and
  --   `C08_each_once_all_options` hold.
  -- * `FlagsOkFor` / `FlagsExcl` (hypotheses of the d'. theorems) are no longer used by any proof.
-/

end Rivia.Props
