/-
  C12R — "every call returns", discharged for histories that do not follow links.

  The model's loops are fuelled (`.hang` on exhaustion), so the history-level theorems of Props/C01R,
  C01S, C01C, C03, C06R, C08S carry a hypothesis "every call of the history returns" (`Returns`,
  `NoHangRun`, `∀ pre op post, … ≠ .hang`).  Props/C12 proves termination piecewise from `Inv` (+ side
  conditions for `move_p` / `mkfile_m`).  Here the two are put together:

    NoFollowOp op  :=  op's options do not ask to follow links
                       (`entries` / `chmod_b` / `chown_b` / `copy_b` with `follow = false`, all other
                        49 constructors unconditionally)

  * `C12R_returns`: from every state with `RInv` (the invariant of reachable states of C01R) every
    `NoFollowOp` call returns (no `.hang`, no `.panic`) — NO further side condition:
      - 36 operations without a fuelled loop: total on every state;
      - `remove_all`, the six listings, `entries`, `chmod` / `chmod_b`, `chown` / `chown_b`, `copy` /
        `copy_b` (all without `follow`): `Spec.Inv s` suffices (fuel `travFuel = 64 (n+2)^2`, resp.
        `4 (n+2)`, is enough whatever the depth window / recursion flag / size);
      - `mkfile_m`: needs `Inv` of the state after its `mkfile` half = preservation (C03), so
        `C03_Strong s`;
      - `move_p`: needs ordinary names in all keys and in the resolved destination (`KeysW s`, `abs`
        returns a well-formed key) and "no real directory is also a file" (from `EntriesOk s`).
  * `C12R_history_returns`: hence every history over `NoFollowOp` from `Memfs.init` returns at every
    step, and its final state is `Reached` / satisfies `RInv` — no hypothesis but the alphabet
    (`NoFollowOp → GoodOp`).
  * corollaries: the history theorems restated without the "returns" hypothesis; for the trace-level
    simulation even the alphabet hypothesis disappears (an operation the reference answers is
    `Refined'` and does not follow links).

  Import note: the termination lemmas (Lemmas/Fuel*, NoPanic, MoveWf) cannot be imported together with
  the C01R family (both declare `Rivia.Lemmas.alLookup_of_mem`, `alLookup_alInsert`, `WfKey`, …); this
  file uses the copies Lemmas/Returns*.lean (namespace `Rivia.Lemmas.Ret`).  For the same reason
  Props/C12 itself cannot be imported here.
-/
import Rivia.Lemmas.ReturnsAll
import Rivia.Props.C01C
import Rivia.Props.C06R
import Rivia.Props.C08S

namespace Rivia.Props
open Rivia Rivia.Memfs Rivia.Spec Rivia.Spec.TreeFs Rivia.Lemmas
open Rivia.Lemmas.Sim (NodupK AncDir)
open Rivia.Lemmas.Snap (DepthOk)

/-! ### the alphabet -/

/-- the calls whose options do not ask to follow links: `entries` / `chmod_b` / `chown_b` / `copy_b`
    with `follow = false`, every other operation unconditionally -/
abbrev NoFollowOp (op : Op) : Prop := RetAll.NoFollowOp op

/-- (restates the definition) -/
theorem C12R_noFollowOp_iff (op : Op) : NoFollowOp op ↔
    (∀ p r, op = .entries p r → r.follow = false) ∧ (∀ p c, op = .chmodB p c → c.follow = false) ∧
    (∀ p c, op = .chownB p c → c.follow = false) ∧ (∀ a b c, op = .copyB a b c → c.follow = false) := by
  cases op <;> simp [NoFollowOp, RetAll.NoFollowOp]

/-- the alphabet is inside C01R's `GoodOp` (everything but `copy_b(..).follow(true)`) -/
theorem C12R_noFollow_good (op : Op) (h : NoFollowOp op) : GoodOp op := by
  cases op <;> first | exact trivial | exact h

/-- every operation the reference answers (`specStep … = some _`) is in the alphabet -/
theorem C12R_covered_noFollow (env : Env) (t : T) (op : Op) (h : (specStep env t op).isSome = true) :
    NoFollowOp op := by
  cases op <;> first
    | exact trivial
    | (exfalso; simp [specStep] at h; done)
    | skip
  all_goals
    rename_i p c
    show c.follow = false
    cases hf : c.follow with
    | false => rfl
    | true => simp [specStep, hf] at h

/-! ### a. one call -/

/-- on a state with C03's inductive invariant every `NoFollowOp` call other than `move_p` returns -/
theorem C12R_returns_strong (env : Env) (s : State) (op : Op) (h : C03_Strong s) (hn : NoFollowOp op)
    (hm : ∀ a b, op ≠ .moveP a b) : (step env s op).1 ≠ .hang := by
  by_cases h2 : ∃ p m, op = .mkfileM p m
  · obtain ⟨p, m, rfl⟩ := h2
    exact RetAll.step_mkfileM_returns env s p m h
  · exact Ret.step_term_no_hang env s op h.1
      (RetAll.termOp_of_noFollow op hn hm (fun p m he => h2 ⟨p, m, he⟩))

/-- **every call that does not follow links returns** from every state with the invariant of reachable
    states: no `.hang` (the fuel of every loop suffices), no `.panic` -/
theorem C12R_returns (env : Env) (s : State) (op : Op) (h : RInv s) (hn : NoFollowOp op) :
    (step env s op).1 ≠ .hang ∧ (step env s op).1 ≠ .panic := by
  refine ⟨?_, Ret.step_no_panic env s op⟩
  by_cases h1 : ∃ a b, op = .moveP a b
  · obtain ⟨a, b, rfl⟩ := h1
    exact RetAll.step_moveP_returns env s a b h.1.1 h.2.2 h.2.1
  · exact C12R_returns_strong env s op h.1 hn (fun a b he => h1 ⟨a, b, he⟩)

/-- … and keeps that invariant -/
theorem C12R_step (env : Env) (s : State) (op : Op) (h : RInv s) (hn : NoFollowOp op) :
    RInv (step env s op).2 :=
  C01R_good_step env s op (C12R_noFollow_good op hn) h (C12R_returns env s op h hn).1

/-! ### b. histories -/

theorem C12R_run (env : Env) : ∀ (ops : List Op) (s : State), RInv s → (∀ o ∈ ops, NoFollowOp o) →
    InvAll.NoHangRun env s ops ∧ RInv (run env s ops) := by
  intro ops
  induction ops with
  | nil => intro s h _; exact ⟨trivial, h⟩
  | cons op ops ih =>
    intro s h hn
    have h1 := C12R_returns env s op h (hn op List.mem_cons_self)
    have h2 := ih _ (C12R_step env s op h (hn op List.mem_cons_self))
      (fun o ho => hn o (List.mem_cons_of_mem _ ho))
    exact ⟨⟨h1.1, h2.1⟩, h2.2⟩

/-- **every call of every history that does not follow links returns** (fresh filesystem, any
    environment, arbitrary arguments, calls succeeding or failing) -/
theorem C12R_history_returns (env : Env) (ops : List Op) (hn : ∀ o ∈ ops, NoFollowOp o) :
    Returns env Memfs.init ops :=
  (InvAll.noHangRun_iff env _ ops).1 (C12R_run env ops _ C01R_init hn).1

/-- the same, spelled out, with "no panic" -/
theorem C12R_history_total (env : Env) (ops : List Op) (hn : ∀ o ∈ ops, NoFollowOp o) :
    ∀ pre op post, ops = pre ++ op :: post →
      (step env (run env Memfs.init pre) op).1 ≠ .hang ∧ (step env (run env Memfs.init pre) op).1 ≠ .panic :=
  fun pre op post he => ⟨C12R_history_returns env ops hn pre op post he, Ret.step_no_panic env _ op⟩

/-- the final state has the invariant of reachable states … -/
theorem C12R_history_rinv (env : Env) (ops : List Op) (hn : ∀ o ∈ ops, NoFollowOp o) :
    RInv (run env Memfs.init ops) :=
  (C12R_run env ops _ C01R_init hn).2

/-- … and is `Reached` (Props/C06R) -/
theorem C12R_history_reached (env : Env) (ops : List Op) (hn : ∀ o ∈ ops, NoFollowOp o) :
    Reached (run env Memfs.init ops) :=
  C06R_reached_of_history env ops (fun o ho => C12R_noFollow_good o (hn o ho))
    (C12R_history_returns env ops hn)

/-- `Reached` is closed under `NoFollowOp` calls, the environment may change from call to call -/
theorem C12R_reached_step {s : State} (env : Env) (op : Op) (h : Reached s) (hn : NoFollowOp op) :
    Reached (step env s op).2 :=
  .step env op h (C12R_noFollow_good op hn) (C12R_returns env s op (C06R_reached_rinv h) hn).1

/-- every side invariant of the refinement theorems, no hypothesis on the history but the alphabet -/
theorem C12R_history_inv (env : Env) (ops : List Op) (hn : ∀ o ∈ ops, NoFollowOp o) :
    Spec.Inv (run env Memfs.init ops) ∧ C03_KeysWf (run env Memfs.init ops) ∧
    C03_SortedKids (run env Memfs.init ops) ∧ C03_FlagsOk (run env Memfs.init ops) ∧
    RefineA.KeysWf (run env Memfs.init ops) ∧ RefineB.KeysWf (run env Memfs.init ops) ∧
    RefineA.EntriesOk (run env Memfs.init ops) ∧ RefineB.FlagsOk (run env Memfs.init ops) ∧
    RefineB.ModeOk (run env Memfs.init ops) :=
  C01R_rinv_facts (C12R_history_rinv env ops hn)

/-! ### c. the history theorems without the "returns" hypothesis -/

/-- C03: every state reached without following links is a well-formed tree (strong invariant) -/
theorem C12R_strong_reachable (env : Env) (ops : List Op) (hn : ∀ o ∈ ops, NoFollowOp o) :
    C03_Strong (run env Memfs.init ops) :=
  (C12R_history_rinv env ops hn).1

theorem C12R_inv_reachable (env : Env) (ops : List Op) (hn : ∀ o ∈ ops, NoFollowOp o) :
    Spec.Inv (run env Memfs.init ops) :=
  (C12R_history_rinv env ops hn).1.1

/-- **C01 along histories** (`C01_refines_history'` unconditionally): after ANY history `pre` that does
    not follow links, a call of one of the 43 refined operations outside the known-finding classes
    returns what the reference returns on the abstraction of the current state and leaves a state
    whose abstraction is the reference's post-state -/
theorem C12R_refines_history (env : Env) (pre : List Op) (op : Op)
    (hn : ∀ o ∈ pre, NoFollowOp o) (hR : Refined' op)
    (hc : classOf (run env Memfs.init pre) env op = "-") (hd : DepthDom' (run env Memfs.init pre) op)
    (r : R Val) (t' : T)
    (hs : specStep env (absS (run env Memfs.init pre)) op = some (r, t')) :
    RefineB.ResMatch (step env (run env Memfs.init pre) op).1 r ∧
      (r ≠ .unspecified → RefineB.TEquiv (absS (step env (run env Memfs.init pre) op).2) t') :=
  C01R_refines_step' env _ op (C12R_history_rinv env pre hn) hR hc hd r t' hs

/-- with the physical size bound (fewer than `usize::MAX` entries) in place of `DepthDom'` -/
theorem C12R_refines_history_small (env : Env) (pre : List Op) (op : Op)
    (hn : ∀ o ∈ pre, NoFollowOp o) (hR : Refined' op)
    (hc : classOf (run env Memfs.init pre) env op = "-")
    (hsmall : (run env Memfs.init pre).entries.length < 2 ^ 64 - 1) (r : R Val) (t' : T)
    (hs : specStep env (absS (run env Memfs.init pre)) op = some (r, t')) :
    RefineB.ResMatch (step env (run env Memfs.init pre) op).1 r ∧
      (r ≠ .unspecified → RefineB.TEquiv (absS (step env (run env Memfs.init pre) op).2) t') :=
  have hr := C12R_history_rinv env pre hn
  C01R_refines_step' env _ op hr hR hc (C01C_depthDom_of_small _ op hr hsmall) r t' hs

/-- the class / depth side conditions along a run, recursively -/
def ClassRun (env : Env) : State → List Op → Prop
  | _, [] => True
  | s, op :: ops => (classOf s env op = "-" ∧ DepthDom' s op) ∧ ClassRun env (step env s op).2 ops

theorem classRun_of (env : Env) : ∀ (ops : List Op) (s : State),
    (∀ pre op post, ops = pre ++ op :: post →
      classOf (run env s pre) env op = "-" ∧ DepthDom' (run env s pre) op) → ClassRun env s ops := by
  intro ops
  induction ops with
  | nil => intro _ _; trivial
  | cons op ops ih =>
    intro s h
    exact ⟨h [] op ops rfl, ih _ fun pre o post he => h (op :: pre) o post (by rw [he]; rfl)⟩

/-- along a run the reference answers, all side conditions of `C01S_step'` but class / depth hold by
    themselves: the operation is refined, does not follow links, and the call returns -/
theorem domRun_of_ref (env : Env) : ∀ (ops : List Op) (s : State) (t t₂ : T), SimInv s t →
    ClassRun env s ops → refRun env t ops = some t₂ → DomRun' env s ops := by
  intro ops
  induction ops with
  | nil => intro _ _ _ _ _ _; trivial
  | cons op ops ih =>
    intro s t t₂ h hc hr
    obtain ⟨r, t', hs, hne, hr'⟩ := refRun_cons hr
    have hsome : (specStep env t op).isSome = true := by rw [hs]; rfl
    have hN := C12R_covered_noFollow env t op hsome
    have hsd : StepDom' env s op :=
      ⟨⟨C12R_noFollow_good op hN, C01C_covers_reference env t op hsome⟩,
        (C12R_returns env s op h.1 hN).1, hc.1.1, hc.1.2⟩
    exact ⟨hsd, ih _ t' t₂ ((C01S_step' env s t op h hsd r t' hs).2 hne) hc.2 hr'⟩

theorem refRun_of_refOuts (env : Env) : ∀ (ops : List Op) (t : T) (rs : List (R Val)),
    refOuts env t ops = some rs → ∃ t₂, refRun env t ops = some t₂ := by
  intro ops
  induction ops with
  | nil => intro t _ _; exact ⟨t, rfl⟩
  | cons op ops ih =>
    intro t rs h
    unfold refOuts at h
    unfold refRun
    split at h
    · cases h
    · rename_i r t' hne heq
      cases hro : refOuts env t' ops with
      | none => rw [hro] at h; cases h
      | some rs' =>
        obtain ⟨t₂, ht₂⟩ := ih t' rs' hro
        exact ⟨t₂, ht₂⟩
    · cases h

/-- **C01 as a simulation of one reference run, no hypothesis on the history** but the class / depth
    side conditions: whenever the reference, run ALONE from `absS Memfs.init`, answers every call of
    `ops` (so every call is one of the 43 refined operations and none follows links), its final state is
    the abstraction of the final Memfs state.  Every Memfs call returns — proved, not assumed. -/
theorem C12R_simulates_history_final (env : Env) (ops : List Op)
    (hdom : ∀ pre op post, ops = pre ++ op :: post →
      classOf (run env Memfs.init pre) env op = "-" ∧ DepthDom' (run env Memfs.init pre) op)
    (t : T) (hr : refRun env (absS Memfs.init) ops = some t) :
    RefineB.TEquiv (absS (run env Memfs.init ops)) t ∧ NodupK t ∧ Returns env Memfs.init ops := by
  have hc := classRun_of env ops _ hdom
  have hd := domRun_of_ref env ops _ _ t C01S_simInv_init hc hr
  have h := C01S_run' env ops _ _ t C01S_simInv_init hd hr
  refine ⟨h.2.1, h.2.2, ?_⟩
  intro pre op post he
  exact (stepDom_of_domRun' env pre _ op post (he ▸ hd)).2.1

/-- **trace form**: the list of outcomes of the Memfs run matches, position by position, the list of
    answers of the reference run alone — for EVERY history the reference answers, outside the
    known-finding classes -/
theorem C12R_simulates_trace (env : Env) (ops : List Op)
    (hdom : ∀ pre op post, ops = pre ++ op :: post →
      classOf (run env Memfs.init pre) env op = "-" ∧ DepthDom' (run env Memfs.init pre) op)
    (rs : List (R Val)) (hr : refOuts env (absS Memfs.init) ops = some rs) :
    TraceMatch (memOuts env Memfs.init ops) rs := by
  obtain ⟨t₂, ht₂⟩ := refRun_of_refOuts env ops _ rs hr
  exact C01S_trace' env ops _ _ rs C01S_simInv_init
    (domRun_of_ref env ops _ _ t₂ C01S_simInv_init (classRun_of env ops _ hdom) ht₂) hr

/-- with the physical size bound in place of `DepthDom'` -/
theorem C12R_simulates_trace_small (env : Env) (ops : List Op)
    (hdom : ∀ pre op post, ops = pre ++ op :: post →
      classOf (run env Memfs.init pre) env op = "-" ∧ (run env Memfs.init pre).entries.length < 2 ^ 64 - 1)
    (hn : ∀ o ∈ ops, NoFollowOp o)
    (rs : List (R Val)) (hr : refOuts env (absS Memfs.init) ops = some rs) :
    TraceMatch (memOuts env Memfs.init ops) rs := by
  refine C12R_simulates_trace env ops (fun pre op post he => ⟨(hdom pre op post he).1, ?_⟩) rs hr
  have hrinv := C12R_history_rinv env pre (fun o ho => hn o (by rw [he]; exact List.mem_append_left _ ho))
  exact C01C_depthDom_of_small _ op hrinv (hdom pre op post he).2

/-- C06R: tree copy keeps / produces the contents, on every state reached without following links -/
theorem C12R_copy_tree_content_reachable (env₀ : Env) (ops : List Op) (hn : ∀ o ∈ ops, NoFollowOp o)
    {env : Env} {a b : Str} {c : CopyOpts} {s' : State} {sk dk : FsPath} {v : Val}
    (hsmall : (run env₀ Memfs.init ops).entries.length < 2 ^ 64 - 1)
    (hfollow : c.follow = false)
    (ha : absM env a (run env₀ Memfs.init ops) = (.ok sk, run env₀ Memfs.init ops))
    (hb : absM env b (run env₀ Memfs.init ops) = (.ok dk, run env₀ Memfs.init ops))
    (h1 : ¬ sk <+: copyDst (run env₀ Memfs.init ops) sk dk)
    (h2 : ¬ copyDst (run env₀ Memfs.init ops) sk dk <+: sk)
    (hc : step env (run env₀ Memfs.init ops) (.copyB a b c) = (.ok v, s')) :
    (∀ r e, alLookup (sk ++ r) (run env₀ Memfs.init ops).entries = some e → e.file = true →
      e.link = false →
      CT.content s' (copyDst (run env₀ Memfs.init ops) sk dk ++ r) =
        CT.content (run env₀ Memfs.init ops) (sk ++ r)) ∧
    (∀ r, CT.content s' (sk ++ r) = CT.content (run env₀ Memfs.init ops) (sk ++ r)) ∧
    (∀ q, (∀ r, q ≠ copyDst (run env₀ Memfs.init ops) sk dk ++ r) →
      CT.content s' q = CT.content (run env₀ Memfs.init ops) q) :=
  C06R_copy_tree_content_reachable env₀ ops (fun o ho => C12R_noFollow_good o (hn o ho))
    (C12R_history_returns env₀ ops hn) hsmall hfollow ha hb h1 h2 hc

theorem C12R_move_tree_content_reachable (env₀ : Env) (ops : List Op) (hn : ∀ o ∈ ops, NoFollowOp o)
    {env : Env} {a b : Str} {s' : State} {sk dk : FsPath} {v : Val}
    (ha : absM env a (run env₀ Memfs.init ops) = (.ok sk, run env₀ Memfs.init ops))
    (hb : absM env b (run env₀ Memfs.init ops) = (.ok dk, run env₀ Memfs.init ops))
    (hm : step env (run env₀ Memfs.init ops) (.moveP a b) = (.ok v, s')) :
    (moveDst (run env₀ Memfs.init ops) sk dk = sk ∧ s' = run env₀ Memfs.init ops) ∨
     ((∀ r, CT.content s' (moveDst (run env₀ Memfs.init ops) sk dk ++ r) =
        CT.content (run env₀ Memfs.init ops) (sk ++ r)) ∧
      (∀ r, CT.content s' (sk ++ r) = none) ∧
      (∀ k, (∀ r, k ≠ sk ++ r) → (∀ r, k ≠ moveDst (run env₀ Memfs.init ops) sk dk ++ r) →
        CT.content s' k = CT.content (run env₀ Memfs.init ops) k)) :=
  C06R_move_tree_content_reachable env₀ ops (fun o ho => C12R_noFollow_good o (hn o ho))
    (C12R_history_returns env₀ ops hn) ha hb hm

/-- C08S: the snapshot (`_clone_entries`) is correct on every state reached without following links -/
theorem C12R_snapshot_correct_reachable (env : Env) (ops : List Op) (hn : ∀ o ∈ ops, NoFollowOp o)
    (a : FsPath) (rootE : Entry) (hroot : alLookup a (run env Memfs.init ops).entries = some rootE) :
    ∃ snap, entriesOf (run env Memfs.init ops) a = .ok (rootE, snap) ∧ SnapWf snap ∧ InSnap snap rootE ∧
      SnapOf (run env Memfs.init ops) a snap :=
  snapshot_correct_reachable env ops (C12R_history_returns env ops hn) a rootE hroot

/-- C08: the listing helpers return exactly the entries below the directory, sorted, on every state
    reached without following links -/
theorem C12R_listing_helpers_reachable (env₀ : Env) (ops : List Op) (hn : ∀ o ∈ ops, NoFollowOp o)
    (env : Env) (path : Str) (maxDepth : Option Nat) (dirs files : Bool) (a : FsPath)
    (habs : absM env path (run env₀ Memfs.init ops) = (.ok a, run env₀ Memfs.init ops))
    (hdir : isDirP (run env₀ Memfs.init ops) a = true) :
    ∃ ps, listing env path maxDepth dirs files (run env₀ Memfs.init ops) = (.ok ps, run env₀ Memfs.init ops) ∧
      ps.Pairwise (fun p q => pathLt p q = true) ∧ ps.Nodup ∧ a ∉ ps ∧
      ∀ p, p ∈ ps ↔ ∃ t e, p = a ++ t ∧ t ≠ [] ∧ t.length ≤ depthCap maxDepth ∧
        alLookup p (run env₀ Memfs.init ops).entries = some e ∧ (files = true → e.file = true ∧ e.link = false) ∧
        (dirs = true → files = false → e.dir = true ∧ e.link = false) :=
  C08_listing_helpers_reachable env₀ ops (C12R_history_returns env₀ ops hn) env path maxDepth dirs files a
    habs hdir

/-- C08: on every state reached without following links, the listed paths are exactly the paths strictly
    below the directory (within the depth limit) that exist and satisfy `is_file` (`files` / `all_files`),
    `is_dir` (`dirs` / `all_dirs`) — whatever links lie below -/
theorem C12R_listing_agrees_with_queries_reachable (env₀ : Env) (ops : List Op) (hn : ∀ o ∈ ops, NoFollowOp o)
    (env : Env) (path : Str) (maxDepth : Option Nat) (dirs files : Bool) (a : FsPath) (ps : List FsPath)
    (habs : absM env path (run env₀ Memfs.init ops) = (.ok a, run env₀ Memfs.init ops))
    (hdir : isDirP (run env₀ Memfs.init ops) a = true)
    (hl : listing env path maxDepth dirs files (run env₀ Memfs.init ops) = (.ok ps, run env₀ Memfs.init ops)) :
    ∀ p, p ∈ ps ↔ ∃ t e, p = a ++ t ∧ t ≠ [] ∧ t.length ≤ depthCap maxDepth ∧
      alLookup p (run env₀ Memfs.init ops).entries = some e ∧
      (files = true → (e.file && !e.link) = true) ∧
      (dirs = true → files = false → isDirP (run env₀ Memfs.init ops) p = true) :=
  C08_listing_agrees_with_queries_reachable env₀ ops (C12R_history_returns env₀ ops hn) env path maxDepth
    dirs files a ps habs hdir hl

/-- C09: tree copy is the reference's `copySpec` on every state reached without following links -/
theorem C12R_copy_tree_reachable (env₀ : Env) (ops : List Op) (hn : ∀ o ∈ ops, NoFollowOp o)
    {env : Env} {a b : Str} {c : CopyOpts} {sk dk : FsPath} {rootE : Entry}
    (hd : DepthOk (run env₀ Memfs.init ops)) (ctx : TreeCtx (run env₀ Memfs.init ops) sk dk c)
    (ha : absM env a (run env₀ Memfs.init ops) = (.ok sk, run env₀ Memfs.init ops))
    (hb : absM env b (run env₀ Memfs.init ops) = (.ok dk, run env₀ Memfs.init ops)) (hne : sk ≠ dk)
    (hsrc : alLookup sk (run env₀ Memfs.init ops).entries = some rootE) :
    ∃ s', step env (run env₀ Memfs.init ops) (.copyB a b c) = (.ok .unit, s') ∧
      (copySpec (absS (run env₀ Memfs.init ops)) sk dk c.mode c.cdirs c.cfiles).1 = .ok () ∧
      TEquiv (absS s') (copySpec (absS (run env₀ Memfs.init ops)) sk dk c.mode c.cdirs c.cfiles).2 :=
  C09_copy_tree_reachable env₀ ops (C12R_history_returns env₀ ops hn) hd ctx ha hb hne hsrc

/-! ### d. non-vacuity -/

namespace C12RWitness
open C01RWitness (S)
/-- 11 calls with every fuelled loop of the model: `mkfile_m`, a `move_p` of a directory tree holding a
    link, a tree `copy`, recursive `chmod_b` / `chown`, a contents-first sorted traversal, a recursive
    listing, `remove_all` of a tree -/
def hist4 : List Op :=
  [.mkdirP (S "/a/b"), .mkfileM (S "/a/b/f") 0o600, .symlink (S "/a/l") (S "/a/b"), .mkdirP (S "/d"),
   .moveP (S "/a") (S "/d"), .copy (S "/d/a") (S "/c"), .chmodB (S "/c") { dirs := 0o750, files := 0o640 },
   .chown (S "/c") 5 6, .entries (S "/") { contentsFirst := true, order := 's' }, .allPaths (S "/c"),
   .removeAll (S "/d")]
def isOk : Outcome Val → Bool | .ok _ => true | _ => false
end C12RWitness
open C12RWitness C01RWitness C01CWitness

/-- the alphabet hypothesis holds of `hist4`; the boundary: the `follow` forms are outside -/
theorem C12R_hist4_alphabet : (∀ o ∈ hist4, NoFollowOp o) ∧
    ¬ NoFollowOp (.entries (S "/") { follow := true }) ∧ ¬ NoFollowOp (.copyB (S "/a") (S "/b") { follow := true }) ∧
    ¬ NoFollowOp (.chmodB (S "/a") { follow := true }) ∧ ¬ NoFollowOp (.chownB (S "/a") { follow := true }) := by
  decide

/-- the conclusions, instantiated — for EVERY environment, without evaluating anything -/
example (env : Env) : Returns env Memfs.init hist4 ∧ RInv (run env Memfs.init hist4) ∧
    Reached (run env Memfs.init hist4) :=
  ⟨C12R_history_returns env hist4 C12R_hist4_alphabet.1, C12R_history_rinv env hist4 C12R_hist4_alphabet.1,
    C12R_history_reached env hist4 C12R_hist4_alphabet.1⟩

set_option maxRecDepth 100000 in
/-- (test) the history is not a sequence of failing calls: with the empty environment all 11 calls
    succeed and leave the copied, re-moded, re-owned tree `/c` -/
theorem C12R_hist4_runs : (memOuts env0 Memfs.init hist4).all isOk = true ∧
    (run env0 Memfs.init hist4).entries.map (fun kv => (kv.1, kv.2.mode, kv.2.uid, kv.2.link)) =
      [([], 0o40755, 1000, false), ([S "c"], 0o40750, 5, false), ([S "c", S "b"], 0o40750, 5, false),
       ([S "c", S "b", S "f"], 0o100640, 5, false), ([S "c", S "l"], 0o120777, 5, true)] := by
  decide +kernel

/-- `C12R_simulates_trace` applies to `hist3` of Props/C01C (15 calls, 11 of group C) with the class /
    depth facts alone: neither the alphabet nor "every call returns" is supplied -/
example : ∃ rs, refOuts env0 (absS Memfs.init) hist3 = some rs ∧ TraceMatch (memOuts env0 Memfs.init hist3) rs := by
  cases h : refOuts env0 (absS Memfs.init) hist3 with
  | none => have := C01C_hist3_outs.1; rw [h] at this; cases this
  | some rs => exact ⟨rs, rfl, C12R_simulates_trace env0 hist3 C01C_hist3_hyps.2.2 rs h⟩

-- OPEN (not proved):
--   * the calls OUTSIDE `NoFollowOp` (`entries` / `chmod_b` / `chown_b` / `copy_b` with `follow = true`): no
--     unconditional "returns" theorem, and none is expected in the MODEL — with `follow` a directory
--     reachable through k levels of two links each is visited 2^k times, which exceeds the model's fuel
--     `travFuel = 64 (n+2)^2` for k ≈ 20 (Props/C12, end of file: checked with `#eval` only, 262144 loop
--     iterations are out of reach of the kernel, so `¬ (∀ op, RInv s → … ≠ .hang)` is NOT a theorem
--     here).  Props/C08F proves their termination under the computable bound
--     `fuelNeed snap opts rootE ≤ travFuel snap`.  `copy_b(..).follow(true)` moreover leaves `RInv`
--     (`C01R_copy_follow_breaks_keysW`), so it cannot occur in the histories of this file at all, while
--     the other three `follow` forms keep `RInv` (C01R table) and could be admitted in the prefix under
--     the per-call hypothesis "this call returns" (that is `C01R_good_run` as it stands).
--   * `DepthDom'` (no key `usize::MAX` components deep) stays a per-step side condition of the refinement
--     corollaries (or the size bound of the `_small` forms); it is irrelevant for termination.

end Rivia.Props
