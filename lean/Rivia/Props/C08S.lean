/-
  C08S — the snapshot hypotheses of the traversal theorems, discharged.

  `Memfs::_clone_entries` (model `cloneLoop` / `cloneEntries` / `entriesOf`) is run by every traversal
  before the iterator starts. C08 / C08F / C09 take what it produces as explicit hypotheses
  (`SnapWf snap`, `InSnap snap rootE`, `SnapOf s a snap`, for C09 the pre-order listing and the
  traversal yielding it). Here they are proved from the global invariant `C03_Strong s`
  (= `Inv ∧ KeysWf ∧ SortedKids ∧ FlagsOk`, Props/C03.lean), which every reachable state satisfies,
  and the theorems are restated without them, for every state with `C03_Strong` and for every
  reachable state.

  Property theorems ONLY; proofs in Rivia/Lemmas/{SnapshotFuel,Snapshot,SnapshotCopy}.lean.

  Remarks
  * The snapshot contains more than the subtree of `a`: the existing targets of the links it meets
    and the subtrees of those targets go through the same worklist (`C08S_witness_link_target`).
    `SnapOf s a snap` only speaks about keys at or below `a`, and every pair of the snapshot is a
    pair of the state (`C08S_snapshot_sub`), so `SnapOf` as defined is TRUE of these snapshots.
  * Strict sortedness of the child lists (`SnapWf`) comes from `C03_SortedKids` (non-strict order)
    and the absence of duplicate names (`Inv`), through trichotomy of `strLt`.
  * `DepthOk s` (no key `2^64` names deep; decidable) is needed for the copy theorem only: the model
    keeps the implementation's default `max_depth = u64::MAX`.
-/
import Rivia.Props.C03
import Rivia.Props.C08
import Rivia.Props.C08F
import Rivia.Props.C09
import Rivia.Lemmas.SnapshotCopy

namespace Rivia.Props
open Rivia Rivia.Memfs Rivia.Spec Rivia.Spec.TreeFs Rivia.Lemmas
open Rivia.Lemmas.WalkF (fuelNeed)
open Rivia.Lemmas.Snap (DepthOk)
open Rivia.Spec.TreeFs (pathLt)

/-! ### 1. the snapshot is correct -/

/-- **`_clone_entries` is correct**: on every state satisfying the global invariant, for every
    existing key `a`, `entriesOf s a` succeeds (no `DoesNotExist`, no fuel-truncated result) with the
    entry stored at `a` and a snapshot that is well-formed, holds the root entry under its key, and
    agrees with the state on every key at or below `a` -/
theorem snapshot_correct (s : State) (h : C03_Strong s) (a : FsPath) (rootE : Entry)
    (hroot : alLookup a s.entries = some rootE) :
    ∃ snap, entriesOf s a = .ok (rootE, snap) ∧ SnapWf snap ∧ InSnap snap rootE ∧ SnapOf s a snap := by
  obtain ⟨snap, h1, h2, h3, h4, _⟩ := Snap.snapshot_correct_core h.1 h.2.2.1 hroot
  exact ⟨snap, h1, h2, h3, h4⟩

/-- nothing is invented: every pair of the snapshot is a pair of the state, also the link targets
    (and their subtrees) that lie outside the subtree of `a` -/
theorem C08S_snapshot_sub (s : State) (h : C03_Strong s) (a : FsPath) (rootE : Entry) (snap : Snap)
    (hent : entriesOf s a = .ok (rootE, snap)) : ∀ kv ∈ snap, kv ∈ s.entries := by
  unfold entriesOf at hent
  cases hl : alLookup a s.entries with
  | none => rw [hl] at hent; cases hent
  | some e =>
    obtain ⟨snap', h1, _, _, _, h5⟩ := Snap.snapshot_correct_core h.1 h.2.2.1 hl
    unfold entriesOf at h1
    rw [hl] at hent h1
    rw [h1] at hent
    cases hent
    exact h5

/-- the same read from a successful `entriesOf`: whatever it returns satisfies the snapshot
    hypotheses of C08 / C08F -/
theorem C08S_entriesOf_correct (s : State) (h : C03_Strong s) (a : FsPath) (rootE : Entry) (snap : Snap)
    (hent : entriesOf s a = .ok (rootE, snap)) :
    alLookup a s.entries = some rootE ∧ SnapWf snap ∧ InSnap snap rootE ∧ SnapOf s a snap := by
  cases hl : alLookup a s.entries with
  | none => rw [Snap.entriesOf_missing hl] at hent; cases hent
  | some e =>
    obtain ⟨snap', h1, h2, h3, h4⟩ := snapshot_correct s h a e hl
    rw [h1] at hent
    cases hent
    exact ⟨rfl, h2, h3, h4⟩

/-- `entriesOf` fails exactly when the key does not exist, and then with `DoesNotExist` -/
theorem C08S_entriesOf_outcome (s : State) (h : C03_Strong s) (a : FsPath) :
    (∃ rootE snap, alLookup a s.entries = some rootE ∧ entriesOf s a = .ok (rootE, snap)) ∨
    (alLookup a s.entries = none ∧ entriesOf s a = .err .doesNotExist) := by
  cases hl : alLookup a s.entries with
  | none => exact .inr ⟨rfl, Snap.entriesOf_missing hl⟩
  | some e =>
    obtain ⟨snap, h1, _⟩ := snapshot_correct s h a e hl
    exact .inl ⟨e, snap, rfl, h1⟩

namespace C08Sw
/-- `/`, `/a/`, `/a/l -> /t`, `/t/`, `/t/x` -/
def sK : State :=
  { entries := [([], { mkDirEntry [] none with files := some [['a'], ['t']] }),
                ([['a']], { mkDirEntry [['a']] none with files := some [['l']] }),
                ([['a'], ['l']], C08Fw.mkLink [['a'], ['l']] [['t']]),
                ([['t']], { mkDirEntry [['t']] none with files := some [['x']] }),
                ([['t'], ['x']], mkFileEntry [['t'], ['x']])],
    files := [([['t'], ['x']], [])], cwd := [], root := [], handles := [] }
end C08Sw

/-- witness: the snapshot of `/a` contains the link's target `/t` and its child `/t/x`, which are
    not below `/a`; `SnapWf`, `InSnap`, `SnapOf` hold of it (as `snapshot_correct` says).
    Also non-vacuity of `C03_Strong` on a state with a link. -/
theorem C08S_witness_link_target :
    C03_Strong C08Sw.sK ∧
    ∃ rootE snap, entriesOf C08Sw.sK [['a']] = .ok (rootE, snap) ∧
      snap.map (·.1) = [[['a']], [['a'], ['l']], [['t']], [['t'], ['x']]] ∧
      SnapWf snap ∧ InSnap snap rootE ∧ SnapOf C08Sw.sK [['a']] snap :=
  ⟨by decide, _, _, rfl, by decide, by decide, by decide, by decide⟩

/-- `SortedKids` cannot be dropped: on `C03_wUnsorted` (`Inv` holds, `/` lists `b, a, c`; no history
    produces it) the snapshot is not `SnapWf`, so `snapshot_correct` from `Spec.Inv` alone is false -/
def snapshot_correct_inv_only : Prop :=
  ∀ (s : State) (a : FsPath) (rootE : Entry), Spec.Inv s → alLookup a s.entries = some rootE →
    ∃ snap, entriesOf s a = .ok (rootE, snap) ∧ SnapWf snap ∧ InSnap snap rootE ∧ SnapOf s a snap

theorem snapshot_correct_inv_only_false : ¬ snapshot_correct_inv_only := by
  intro h
  have hinv : Spec.Inv C03_wUnsorted := by decide
  obtain ⟨snap, h1, h2, _⟩ := h C03_wUnsorted [] _ hinv rfl
  have h3 : ∃ snap', entriesOf C03_wUnsorted [] = .ok (_, snap') ∧ ¬ SnapWf snap' := ⟨_, rfl, by decide⟩
  obtain ⟨snap', h4, h5⟩ := h3
  rw [h1] at h4
  cases h4
  exact h5 h2

/-! ### 2. the theorems of C08 / C08F / C09 without snapshot hypotheses -/

/-- C08 a./c. at state level: for every option combination of `ExactDom` the traversal of what
    `entriesOf` returns yields exactly the recursive walk -/
theorem C08_exact_strong (s : State) (h : C03_Strong s) (a : FsPath) (rootE : Entry) (snap : Snap) (o : Opts)
    (hent : entriesOf s a = .ok (rootE, snap)) (hdom : ExactDom o) :
    collectEntries snap o rootE = .ok (entriesSpec snap o rootE) := by
  obtain ⟨_, hwf, hr, _⟩ := C08S_entriesOf_correct s h a rootE snap hent
  exact C08_exact snap o rootE hwf hr hdom

/-- the side condition of the `files().contents_first()` theorems is discharged on every state
    satisfying the strengthened invariant: its fourth conjunct says no entry carries both kind
    flags, and every pair of a snapshot is a pair of the state (`C08S_snapshot_sub`) -/
theorem flagsExcl_of_strong (s : State) (h : C03_Strong s) (a : FsPath) (rootE : Entry) (snap : Snap)
    (hent : entriesOf s a = .ok (rootE, snap)) : Lemmas.WalkCF.FlagsExcl snap := by
  intro kv hkv hd
  have hm := C08S_snapshot_sub s h a rootE snap hent kv hkv
  have hf := h.2.2.2 kv hm
  cases hfile : kv.2.file with
  | false => rfl
  | true => exact absurd ⟨hfile, hd⟩ hf

/-- the same on the wider domain `ExactDom2` (after the repair of `process`: `contents_first` with
    a kind filter, `min_depth = 0`), without any hypothesis on the snapshot -/
theorem C08_exact2_strong (s : State) (h : C03_Strong s) (a : FsPath) (rootE : Entry) (snap : Snap) (o : Opts)
    (hent : entriesOf s a = .ok (rootE, snap)) (hdom : Lemmas.WalkCF.ExactDom2 o) :
    collectEntries snap o rootE = .ok (entriesSpec snap o rootE) := by
  obtain ⟨_, hwf, hr, _⟩ := C08S_entriesOf_correct s h a rootE snap hent
  exact C08_exact2 snap o rootE hwf hr hdom (fun _ _ => flagsExcl_of_strong s h a rootE snap hent)

/-- the final form (both `contents_first` findings repaired): on every state satisfying the
    strengthened invariant, for EVERY option combination with `follow = false`, `OrdOk`, `KindOk`
    (any depth window, kind filter, ordering, `contents_first`, cap) the traversal of what
    `entriesOf` returns yields exactly the recursive walk -/
theorem C08_exact3_strong (s : State) (h : C03_Strong s) (a : FsPath) (rootE : Entry) (snap : Snap) (o : Opts)
    (hent : entriesOf s a = .ok (rootE, snap)) (hdom : Lemmas.WalkCF.ExactDom3 o) :
    collectEntries snap o rootE = .ok (entriesSpec snap o rootE) := by
  obtain ⟨_, hwf, hr, _⟩ := C08S_entriesOf_correct s h a rootE snap hent
  exact C08_exact3 snap o rootE hwf hr hdom

/-- `C08_listing_helpers` without `entriesOf` / `SnapWf` / `SnapOf` hypotheses: `paths`, `dirs`,
    `files` (`maxDepth = some 1`) and `all_*` (`none`) of a real directory `a` succeed and return, in
    lexicographic order and without repetition, exactly the keys strictly below `a` within the depth
    limit whose entry is a real file (`file ∧ ¬link`) / a real directory (`dir ∧ ¬link`) — all keys
    below for `paths` / `all_paths` -/
theorem C08_listing_helpers_strong (env : Env) (path : Str) (maxDepth : Option Nat) (dirs files : Bool)
    (s : State) (a : FsPath)
    (h : C03_Strong s) (habs : absM env path s = (.ok a, s)) (hdir : isDirP s a = true) :
    ∃ ps, listing env path maxDepth dirs files s = (.ok ps, s) ∧
      ps.Pairwise (fun p q => pathLt p q = true) ∧ ps.Nodup ∧ a ∉ ps ∧
      ∀ p, p ∈ ps ↔ ∃ t e, p = a ++ t ∧ t ≠ [] ∧ t.length ≤ depthCap maxDepth ∧
        alLookup p s.entries = some e ∧ (files = true → e.file = true ∧ e.link = false) ∧
        (dirs = true → files = false → e.dir = true ∧ e.link = false) := by
  cases hl : alLookup a s.entries with
  | none => unfold isDirP at hdir; rw [hl] at hdir; cases hdir
  | some rootE =>
    obtain ⟨snap, hent, hwf, _, hso⟩ := snapshot_correct s h a rootE hl
    obtain ⟨ps, h1, _, h3, h4, h5, h6⟩ :=
      C08_listing_helpers env path maxDepth dirs files s a rootE snap h.1 habs hdir hent hwf hso
    exact ⟨ps, h1, h3, h4, h5, h6⟩

/-- the walk-order clause of `C08_listing_helpers`, for the snapshot `entriesOf` returns -/
theorem C08_listing_walk_order_strong (env : Env) (path : Str) (maxDepth : Option Nat) (dirs files : Bool)
    (s : State) (a : FsPath) (rootE : Entry) (snap : Snap)
    (h : C03_Strong s) (habs : absM env path s = (.ok a, s)) (hdir : isDirP s a = true)
    (hent : entriesOf s a = .ok (rootE, snap)) :
    listing env path maxDepth dirs files s =
      (.ok (((entriesSpec snap (listingOpts maxDepth dirs files) rootE).filter
              (fun e => !((dirs || files) && e.link))).map (·.path)), s) := by
  obtain ⟨_, hwf, _, hso⟩ := C08S_entriesOf_correct s h a rootE snap hent
  obtain ⟨ps, h1, h2, _⟩ :=
    C08_listing_helpers env path maxDepth dirs files s a rootE snap h.1 habs hdir hent hwf hso
  rw [h1, h2]

/-- `C08_listing_agrees_with_queries` without snapshot hypotheses (and, since the repair of
    `listing_includes_links`, without any hypothesis about links): the listed paths are exactly the paths
    strictly below `a` within the depth limit that exist and satisfy `is_file` (`files` / `all_files`),
    `is_dir` (`dirs` / `all_dirs`) -/
theorem C08_listing_agrees_with_queries_strong (env : Env) (path : Str) (maxDepth : Option Nat)
    (dirs files : Bool) (s : State) (a : FsPath) (ps : List FsPath)
    (h : C03_Strong s) (habs : absM env path s = (.ok a, s)) (hdir : isDirP s a = true)
    (hl : listing env path maxDepth dirs files s = (.ok ps, s)) :
    ∀ p, p ∈ ps ↔ ∃ t e, p = a ++ t ∧ t ≠ [] ∧ t.length ≤ depthCap maxDepth ∧
      alLookup p s.entries = some e ∧
      (files = true → (e.file && !e.link) = true) ∧ (dirs = true → files = false → isDirP s p = true) := by
  cases hlk : alLookup a s.entries with
  | none => unfold isDirP at hdir; rw [hlk] at hdir; cases hdir
  | some rootE =>
    obtain ⟨snap, hent, hwf, _, hso⟩ := snapshot_correct s h a rootE hlk
    exact C08_listing_agrees_with_queries env path maxDepth dirs files s a rootE snap ps h.1 habs hdir
      hent hwf hso hl

/-- `C08F_entries_op_partial` with `SnapWf` / `InSnap` discharged: the operation `entries(path)` with
    links followed returns the paths of the recursive walk `entriesSpecF` over the snapshot, in
    order, and the walk's error; the state is unchanged. (`hfuel` is about the MODEL's fuel only, see
    C08F: the walk with links followed can be exponentially larger than the snapshot.) -/
theorem C08F_entries_op_strong (env : Env) (p : Str) (r : TravReq) (s : State) (k : FsPath) (rootE : Entry)
    (snap : Snap) (h : C03_Strong s) (habs : absM env p s = (.ok k, s))
    (hent : entriesOf s k = .ok (rootE, snap)) (hdom : ExactDomF r.opts)
    (hfuel : fuelNeed snap r.opts rootE ≤ travFuel snap) :
    step env s (.entries p r) =
      (.ok (.trav ((entriesSpecF snap r.opts rootE).1.map (·.path)) (entriesSpecF snap r.opts rootE).2), s) := by
  obtain ⟨_, hwf, hr, _⟩ := C08S_entriesOf_correct s h k rootE snap hent
  exact C08F_entries_op_partial env p r s k rootE snap habs hent hwf hr hdom hfuel

/-- the same on the wider domain `ExactDomF2` (`contents_first` with a kind filter, repaired) -/
theorem C08F_entries_op2_strong (env : Env) (p : Str) (r : TravReq) (s : State) (k : FsPath) (rootE : Entry)
    (snap : Snap) (h : C03_Strong s) (habs : absM env p s = (.ok k, s))
    (hent : entriesOf s k = .ok (rootE, snap)) (hdom : Lemmas.WalkCF.ExactDomF2 r.opts)
    (hfuel : fuelNeed snap r.opts rootE ≤ travFuel snap) :
    step env s (.entries p r) =
      (.ok (.trav ((entriesSpecF snap r.opts rootE).1.map (·.path)) (entriesSpecF snap r.opts rootE).2), s) := by
  obtain ⟨_, hwf, hr, _⟩ := C08S_entriesOf_correct s h k rootE snap hent
  exact C08F_entries_op2_partial env p r s k rootE snap habs hent hwf hr hdom
    (fun _ _ => flagsExcl_of_strong s h k rootE snap hent) hfuel

/-- the final form with links followed: every option combination of `ExactDomF3` -/
theorem C08F_entries_op3_strong (env : Env) (p : Str) (r : TravReq) (s : State) (k : FsPath) (rootE : Entry)
    (snap : Snap) (h : C03_Strong s) (habs : absM env p s = (.ok k, s))
    (hent : entriesOf s k = .ok (rootE, snap)) (hdom : Lemmas.WalkCF.ExactDomF3 r.opts)
    (hfuel : fuelNeed snap r.opts rootE ≤ travFuel snap) :
    step env s (.entries p r) =
      (.ok (.trav ((entriesSpecF snap r.opts rootE).1.map (·.path)) (entriesSpecF snap r.opts rootE).2), s) := by
  obtain ⟨_, hwf, hr, _⟩ := C08S_entriesOf_correct s h k rootE snap hent
  exact C08F_entries_op3 env p r s k rootE snap habs hent hwf hr hdom hfuel

/-- the same from the existence of the key: `entriesOf` succeeds, and the operation returns the walk -/
theorem C08F_entries_op_strong' (env : Env) (p : Str) (r : TravReq) (s : State) (k : FsPath) (rootE : Entry)
    (h : C03_Strong s) (habs : absM env p s = (.ok k, s))
    (hroot : alLookup k s.entries = some rootE) (hdom : ExactDomF r.opts) :
    ∃ snap, entriesOf s k = .ok (rootE, snap) ∧ SnapOf s k snap ∧
      (fuelNeed snap r.opts rootE ≤ travFuel snap →
        step env s (.entries p r) =
          (.ok (.trav ((entriesSpecF snap r.opts rootE).1.map (·.path)) (entriesSpecF snap r.opts rootE).2), s)) := by
  obtain ⟨snap, hent, _, _, hso⟩ := snapshot_correct s h k rootE hroot
  exact ⟨snap, hent, hso, fun hfuel => C08F_entries_op_strong env p r s k rootE snap h habs hent hdom hfuel⟩

/-- with links followed the traversal of what `entriesOf` returns never hangs (any fuel from
    `fuelNeed` on), for every option combination with `OrdOk` -/
theorem C08F_terminates_strong (s : State) (h : C03_Strong s) (a : FsPath) (rootE : Entry) (snap : Snap)
    (o : Opts) (f : Nat) (hent : entriesOf s a = .ok (rootE, snap)) (hfol : o.follow = true) (hord : OrdOk o)
    (hf : fuelNeed snap o rootE ≤ f) : (modelRun snap o rootE f).2 ≠ .hang := by
  obtain ⟨_, hwf, hr, _⟩ := C08S_entriesOf_correct s h a rootE snap hent
  exact C08F_terminates_all_options snap o rootE f hwf hr hfol hord hf

/-- C09 (f) `C09_copy_tree_partial` with the traversal hypotheses discharged (`entriesOf`, the
    `PreOrder` listing, and "the unsorted no-follow traversal feeds the consumer that listing" for
    every consumer): in the setting `TreeCtx` a no-follow `copy` of a link-free subtree succeeds, the
    reference copy succeeds, and the abstraction of the post-state is the reference's post-state -/
theorem C09_copy_tree_strong {env : Env} {a b : Str} {c : CopyOpts} {s : State} {sk dk : FsPath}
    {rootE : Entry} (h : C03_Strong s) (hd : DepthOk s) (ctx : TreeCtx s sk dk c)
    (ha : absM env a s = (.ok sk, s)) (hb : absM env b s = (.ok dk, s)) (hne : sk ≠ dk)
    (hsrc : alLookup sk s.entries = some rootE) :
    ∃ s', step env s (.copyB a b c) = (.ok .unit, s') ∧
      (copySpec (absS s) sk dk c.mode c.cdirs c.cfiles).1 = .ok () ∧
      TEquiv (absS s') (copySpec (absS s) sk dk c.mode c.cdirs c.cfiles).2 := by
  obtain ⟨s', h1, h2, h3⟩ := Snap.copy_tree_refines_strong h.1 h.2.2.1 hd ctx ha hb hne hsrc
  refine ⟨s', ?_, h2, h3⟩
  show mapVal (fun _ => Val.unit) (copyM env a b c) s = _
  unfold mapVal
  rw [h1]

/-- the two traversal facts behind it, at snapshot level: for ANY consumer (it may fail and stop the
    loop) the parents-first no-follow machine feeds it exactly the recursive walk … -/
theorem C08S_runIter_feeds_walk {σ : Type} (snap : Snap) (o : Opts) (rootE : Entry)
    (hwf : SnapWf snap) (hroot : InSnap snap rootE) (hfol : o.follow = false)
    (hcf : o.contentsFirst = false) (hord : OrdOk o) (hk : KindOk o)
    (step : Entry → σ → Outcome Unit × σ) (w : σ) :
    runIter snap o noPre rootE step (travFuel snap) {} w = runList step (entriesSpec snap o rootE) w :=
  Snap.runIter_walk hwf hfol hcf hord hk hroot step w

/-- … and the walk with the options of `copy` is a pre-order listing of the subtree -/
theorem C08S_copy_walk_preorder (s : State) (h : C03_Strong s) (hd : DepthOk s) (sk : FsPath)
    (rootE : Entry) (snap : Snap) (hent : entriesOf s sk = .ok (rootE, snap)) :
    PreOrder s sk (entriesSpec snap (copyOpts false) rootE) := by
  obtain ⟨hl, hwf, hr, hso⟩ := C08S_entriesOf_correct s h sk rootE snap hent
  exact Snap.preOrder_walk h.1 hd hwf hr hso ((invF_of_inv h.1).path sk rootE hl)

/-! ### 3. every reachable state -/

/-- every state reachable from the fresh filesystem (any environment, any history of calls each of
    which returns) and every existing key: the snapshot is correct -/
theorem snapshot_correct_reachable (env : Env) (ops : List Op)
    (hh : ∀ pre op post, ops = pre ++ op :: post → (step env (run env Memfs.init pre) op).1 ≠ .hang)
    (a : FsPath) (rootE : Entry) (hroot : alLookup a (run env Memfs.init ops).entries = some rootE) :
    ∃ snap, entriesOf (run env Memfs.init ops) a = .ok (rootE, snap) ∧ SnapWf snap ∧ InSnap snap rootE ∧
      SnapOf (run env Memfs.init ops) a snap :=
  snapshot_correct _ (C03_strong_reachable env ops hh) a rootE hroot

theorem C08_listing_helpers_reachable (env₀ : Env) (ops : List Op)
    (hh : ∀ pre op post, ops = pre ++ op :: post → (step env₀ (run env₀ Memfs.init pre) op).1 ≠ .hang)
    (env : Env) (path : Str) (maxDepth : Option Nat) (dirs files : Bool) (a : FsPath)
    (habs : absM env path (run env₀ Memfs.init ops) = (.ok a, run env₀ Memfs.init ops))
    (hdir : isDirP (run env₀ Memfs.init ops) a = true) :
    ∃ ps, listing env path maxDepth dirs files (run env₀ Memfs.init ops) = (.ok ps, run env₀ Memfs.init ops) ∧
      ps.Pairwise (fun p q => pathLt p q = true) ∧ ps.Nodup ∧ a ∉ ps ∧
      ∀ p, p ∈ ps ↔ ∃ t e, p = a ++ t ∧ t ≠ [] ∧ t.length ≤ depthCap maxDepth ∧
        alLookup p (run env₀ Memfs.init ops).entries = some e ∧ (files = true → e.file = true ∧ e.link = false) ∧
        (dirs = true → files = false → e.dir = true ∧ e.link = false) :=
  C08_listing_helpers_strong env path maxDepth dirs files _ a (C03_strong_reachable env₀ ops hh) habs hdir

theorem C08_listing_agrees_with_queries_reachable (env₀ : Env) (ops : List Op)
    (hh : ∀ pre op post, ops = pre ++ op :: post → (step env₀ (run env₀ Memfs.init pre) op).1 ≠ .hang)
    (env : Env) (path : Str) (maxDepth : Option Nat) (dirs files : Bool) (a : FsPath) (ps : List FsPath)
    (habs : absM env path (run env₀ Memfs.init ops) = (.ok a, run env₀ Memfs.init ops))
    (hdir : isDirP (run env₀ Memfs.init ops) a = true)
    (hl : listing env path maxDepth dirs files (run env₀ Memfs.init ops) = (.ok ps, run env₀ Memfs.init ops)) :
    ∀ p, p ∈ ps ↔ ∃ t e, p = a ++ t ∧ t ≠ [] ∧ t.length ≤ depthCap maxDepth ∧
      alLookup p (run env₀ Memfs.init ops).entries = some e ∧
      (files = true → (e.file && !e.link) = true) ∧
      (dirs = true → files = false → isDirP (run env₀ Memfs.init ops) p = true) :=
  C08_listing_agrees_with_queries_strong env path maxDepth dirs files _ a ps
    (C03_strong_reachable env₀ ops hh) habs hdir hl

theorem C08F_entries_op_reachable (env₀ : Env) (ops : List Op)
    (hh : ∀ pre op post, ops = pre ++ op :: post → (step env₀ (run env₀ Memfs.init pre) op).1 ≠ .hang)
    (env : Env) (p : Str) (r : TravReq) (k : FsPath) (rootE : Entry) (snap : Snap)
    (habs : absM env p (run env₀ Memfs.init ops) = (.ok k, run env₀ Memfs.init ops))
    (hent : entriesOf (run env₀ Memfs.init ops) k = .ok (rootE, snap)) (hdom : ExactDomF r.opts)
    (hfuel : fuelNeed snap r.opts rootE ≤ travFuel snap) :
    step env (run env₀ Memfs.init ops) (.entries p r) =
      (.ok (.trav ((entriesSpecF snap r.opts rootE).1.map (·.path)) (entriesSpecF snap r.opts rootE).2),
        run env₀ Memfs.init ops) :=
  C08F_entries_op_strong env p r _ k rootE snap (C03_strong_reachable env₀ ops hh) habs hent hdom hfuel

/-- `C08_exact2_strong` on reachable states: `contents_first` with `dirs()` / `files()`
    (`min_depth = 0`) yields exactly the recursive walk, no snapshot hypothesis left -/
theorem C08_exact2_reachable (env₀ : Env) (ops : List Op)
    (hh : ∀ pre op post, ops = pre ++ op :: post → (step env₀ (run env₀ Memfs.init pre) op).1 ≠ .hang)
    (a : FsPath) (rootE : Entry) (snap : Snap) (o : Opts)
    (hent : entriesOf (run env₀ Memfs.init ops) a = .ok (rootE, snap)) (hdom : Lemmas.WalkCF.ExactDom2 o) :
    collectEntries snap o rootE = .ok (entriesSpec snap o rootE) :=
  C08_exact2_strong _ (C03_strong_reachable env₀ ops hh) a rootE snap o hent hdom

/-- `C08_exact3_strong` on reachable states -/
theorem C08_exact3_reachable (env₀ : Env) (ops : List Op)
    (hh : ∀ pre op post, ops = pre ++ op :: post → (step env₀ (run env₀ Memfs.init pre) op).1 ≠ .hang)
    (a : FsPath) (rootE : Entry) (snap : Snap) (o : Opts)
    (hent : entriesOf (run env₀ Memfs.init ops) a = .ok (rootE, snap)) (hdom : Lemmas.WalkCF.ExactDom3 o) :
    collectEntries snap o rootE = .ok (entriesSpec snap o rootE) :=
  C08_exact3_strong _ (C03_strong_reachable env₀ ops hh) a rootE snap o hent hdom

/-- `C08F_entries_op3_strong` on reachable states -/
theorem C08F_entries_op3_reachable (env₀ : Env) (ops : List Op)
    (hh : ∀ pre op post, ops = pre ++ op :: post → (step env₀ (run env₀ Memfs.init pre) op).1 ≠ .hang)
    (env : Env) (p : Str) (r : TravReq) (k : FsPath) (rootE : Entry) (snap : Snap)
    (habs : absM env p (run env₀ Memfs.init ops) = (.ok k, run env₀ Memfs.init ops))
    (hent : entriesOf (run env₀ Memfs.init ops) k = .ok (rootE, snap)) (hdom : Lemmas.WalkCF.ExactDomF3 r.opts)
    (hfuel : fuelNeed snap r.opts rootE ≤ travFuel snap) :
    step env (run env₀ Memfs.init ops) (.entries p r) =
      (.ok (.trav ((entriesSpecF snap r.opts rootE).1.map (·.path)) (entriesSpecF snap r.opts rootE).2),
        run env₀ Memfs.init ops) :=
  C08F_entries_op3_strong env p r _ k rootE snap (C03_strong_reachable env₀ ops hh) habs hent hdom hfuel

/-- `C08F_entries_op2_strong` on reachable states -/
theorem C08F_entries_op2_reachable (env₀ : Env) (ops : List Op)
    (hh : ∀ pre op post, ops = pre ++ op :: post → (step env₀ (run env₀ Memfs.init pre) op).1 ≠ .hang)
    (env : Env) (p : Str) (r : TravReq) (k : FsPath) (rootE : Entry) (snap : Snap)
    (habs : absM env p (run env₀ Memfs.init ops) = (.ok k, run env₀ Memfs.init ops))
    (hent : entriesOf (run env₀ Memfs.init ops) k = .ok (rootE, snap)) (hdom : Lemmas.WalkCF.ExactDomF2 r.opts)
    (hfuel : fuelNeed snap r.opts rootE ≤ travFuel snap) :
    step env (run env₀ Memfs.init ops) (.entries p r) =
      (.ok (.trav ((entriesSpecF snap r.opts rootE).1.map (·.path)) (entriesSpecF snap r.opts rootE).2),
        run env₀ Memfs.init ops) :=
  C08F_entries_op2_strong env p r _ k rootE snap (C03_strong_reachable env₀ ops hh) habs hent hdom hfuel

theorem C09_copy_tree_reachable (env₀ : Env) (ops : List Op)
    (hh : ∀ pre op post, ops = pre ++ op :: post → (step env₀ (run env₀ Memfs.init pre) op).1 ≠ .hang)
    {env : Env} {a b : Str} {c : CopyOpts} {sk dk : FsPath} {rootE : Entry}
    (hd : DepthOk (run env₀ Memfs.init ops)) (ctx : TreeCtx (run env₀ Memfs.init ops) sk dk c)
    (ha : absM env a (run env₀ Memfs.init ops) = (.ok sk, run env₀ Memfs.init ops))
    (hb : absM env b (run env₀ Memfs.init ops) = (.ok dk, run env₀ Memfs.init ops)) (hne : sk ≠ dk)
    (hsrc : alLookup sk (run env₀ Memfs.init ops).entries = some rootE) :
    ∃ s', step env (run env₀ Memfs.init ops) (.copyB a b c) = (.ok .unit, s') ∧
      (copySpec (absS (run env₀ Memfs.init ops)) sk dk c.mode c.cdirs c.cfiles).1 = .ok () ∧
      TEquiv (absS s') (copySpec (absS (run env₀ Memfs.init ops)) sk dk c.mode c.cdirs c.cfiles).2 :=
  C09_copy_tree_strong (C03_strong_reachable env₀ ops hh) hd ctx ha hb hne hsrc

/-! ### non-vacuity -/

/-- the hypotheses of `C09_copy_tree_strong` hold of `copy("/a", "/d")` on `smallState` (C09's
    witness): the theorem applies without any traversal hypothesis -/
example : ∃ s', step (fun _ => none) smallState (.copyB ['/', 'a'] ['/', 'd'] {}) = (.ok .unit, s') ∧
    (copySpec (absS smallState) [['a']] [['d']] none false false).1 = .ok () ∧
    TEquiv (absS s') (copySpec (absS smallState) [['a']] [['d']] none false false).2 :=
  C09_copy_tree_strong (c := {}) (rootE := eA) (by decide) (by decide) treeCtx_small (by decide) (by decide)
    (by decide) (by decide)

/-- the remaining hypotheses of `C08F_entries_op_strong` (all but `absM`, the string pipeline of C05)
    hold on the state with a link `C08Sw.sK`, walking `/a` with links followed -/
example : ∃ rootE snap, C03_Strong C08Sw.sK ∧ entriesOf C08Sw.sK [['a']] = .ok (rootE, snap) ∧
    ExactDomF ({ follow := true } : TravReq).opts ∧
    fuelNeed snap ({ follow := true } : TravReq).opts rootE ≤ travFuel snap ∧
    ((entriesSpecF snap ({ follow := true } : TravReq).opts rootE).1.map (·.path),
      (entriesSpecF snap ({ follow := true } : TravReq).opts rootE).2) =
      ([[['a']], [['t']], [['t'], ['x']]], none) :=
  ⟨_, _, by decide, rfl, by decide, by decide, by decide⟩

/-- the reachable-state theorems apply to a concrete history (hypothesis `hh` satisfiable, for every
    environment): the snapshot of `/` is correct there -/
example (env : Env) : ∃ rootE snap,
    entriesOf (run env Memfs.init [Op.exists ['a'], Op.isDir ['/'], Op.cwd]) [] = .ok (rootE, snap) ∧
    SnapWf snap ∧ SnapOf (run env Memfs.init [Op.exists ['a'], Op.isDir ['/'], Op.cwd]) [] snap := by
  have hh := (InvAll.noHangRun_iff env Memfs.init [Op.exists ['a'], Op.isDir ['/'], Op.cwd]).1
    (InvAll.noHangRun_simpleQueries env _ _ (by simp [InvAll.simpleQuery]))
  obtain ⟨rootE, hroot, _⟩ := (invF_of_inv (C03_inv_reachable env _ hh)).root
  obtain ⟨snap, h1, h2, _, h4⟩ := snapshot_correct_reachable env _ hh [] rootE hroot
  exact ⟨rootE, snap, h1, h2, h4⟩

/-
  -- OPEN / limits:
  -- * `hfuel : fuelNeed snap r.opts rootE ≤ travFuel snap` of the follow=true theorems is about the
  --   model's traversal fuel, not about the snapshot; it is not dischargeable (C08F: the walk with
  --   links followed can be exponentially larger than the snapshot, diamond chains).
  -- * `DepthOk` is not an invariant of `C03_Strong` (nothing bounds the depth of a key); it is a
  --   decidable side condition of the copy theorem only.
  -- * C09 with `follow = true`, and the copy of subtrees containing links: outside `TreeCtx` (C09).
-/

end Rivia.Props
