/-
  Rivia.Model.Memfs — transcription of the in-memory backend (`src/sys/fs/memfs/{vfs,entry}.rs`).

  * Keys are component lists (`FsPath = List Str`, `[]` = `/`): every key in the Rust maps went
    through `_abs` and is a clean absolute path, on which `dir`/`base`/`mash` are
    `dropLast`/`getLast`/`++ [name]` (lemmas in Rivia/Lemmas relate the string functions of
    Model/Path to these). Where the Rust code computes on the *string* form in a way that can
    matter (`trim_prefix` on traversal paths while following links, `symlink` targets, every
    user-supplied path argument) the model renders, applies the string function and re-parses.
  * The three redundant indexes are kept as they are in the code: the entry map, the per-directory
    child-name sets (`Entry.files`) and the data map (`files`) — C03 is about their agreement.
  * An operation is `State → Outcome α × State`: a failing Rust call keeps whatever it mutated
    before the `?` that failed.
  * HashMap/HashSet iteration order is unspecified; the model keeps child names sorted and the
    maps as association lists; unsorted observations are compared as multisets.
-/
import Rivia.Model.Path
import Rivia.Model.Chmod
import Rivia.Model.File

namespace Rivia.Memfs
open Rivia Rivia.File

abbrev FsPath := List Str

/-- the string form of a key: `/` joined names -/
def renderP (p : FsPath) : Str := '/' :: Str.joinWith '/' p

/-- parse a clean absolute string into a key -/
def toPath (s : Str) : FsPath := (splitSlash s).filter (· ≠ [])

/-- byte-wise (= code point) lexicographic order on names -/
def strLt : Str → Str → Bool
  | [], [] => false
  | [], _ :: _ => true
  | _ :: _, [] => false
  | a :: as, b :: bs => if a.val < b.val then true else if a.val > b.val then false else strLt as bs

def strLe (a b : Str) : Bool := !(strLt b a)

/-- insertion into a sorted list of names without duplicates; returns whether it was new -/
def insertName (n : Str) : List Str → Bool × List Str
  | [] => (true, [n])
  | x :: xs =>
    if n = x then (false, x :: xs)
    else if strLt n x then (true, n :: x :: xs)
    else let (b, r) := insertName n xs; (b, x :: r)

structure Entry where
  path : FsPath
  alt : Option FsPath          -- `None` = empty PathBuf (not a link)
  rel : Str
  dir : Bool
  file : Bool
  link : Bool
  mode : Nat
  uid : Nat
  gid : Nat
  follow : Bool
  cached : Bool
  files : Option (List Str)    -- child names, kept sorted
  deriving Repr, DecidableEq

/-- a write/append handle that is still open -/
structure Handle where
  id : Nat
  path : FsPath
  data : Bytes
  deriving Repr, DecidableEq

structure State where
  entries : List (FsPath × Entry)
  files : List (FsPath × Bytes)
  cwd : FsPath
  root : FsPath
  handles : List Handle
  deriving Repr, DecidableEq

/-! ### association lists -/

def alLookup {β} (k : FsPath) : List (FsPath × β) → Option β
  | [] => none
  | (k', v) :: r => if k' = k then some v else alLookup k r

def alInsert {β} (k : FsPath) (v : β) : List (FsPath × β) → List (FsPath × β)
  | [] => [(k, v)]
  | (k', v') :: r => if k' = k then (k, v) :: r else (k', v') :: alInsert k v r

def alErase {β} (k : FsPath) : List (FsPath × β) → List (FsPath × β)
  | [] => []
  | (k', v') :: r => if k' = k then r else (k', v') :: alErase k r

/-! ### entry construction (MemfsEntryOpts) -/

def defaultMode (link file : Bool) : Nat :=
  if link then 0o120777 else if file then 0o100644 else 0o40755

/-- `MemfsEntryOpts::mode(Option<u32>)` given the current flags -/
def optsMode (link file dir : Bool) (mode : Option Nat) : Nat :=
  let m := mode.getD (defaultMode link file)
  -- only the permission bits of the given mode count (as for chmod(2)); the file type bits are
  -- those of the entry itself
  let m := if link ∨ file ∨ dir then m &&& 0o7777 else m
  if link then m ||| 0o120000 else if file then m ||| 0o100000 else if dir then m ||| 0o40000 else m

/-- `MemfsEntry::opts(path).mode(mode).build()` (what `_mkdir_m` creates) -/
def mkDirEntry (path : FsPath) (mode : Option Nat) : Entry :=
  let m0 := optsMode false false false mode
  let m := optsMode false false true (if m0 = 0 then none else some m0)
  { path, alt := none, rel := [], dir := true, file := false, link := false, mode := m,
    uid := 1000, gid := 1000, follow := false, cached := false, files := some [] }

/-- `MemfsEntry::opts(path).file().build()` -/
def mkFileEntry (path : FsPath) : Entry :=
  { path, alt := none, rel := [], dir := false, file := true, link := false,
    mode := optsMode false true false none,
    uid := 1000, gid := 1000, follow := false, cached := false, files := none }

/-- `MemfsEntry::set_mode(Some(m))` -/
def Entry.setMode (e : Entry) (m : Nat) : Entry := { e with mode := optsMode e.link e.file e.dir (some m) }

def Entry.setOwner (e : Entry) (uid gid : Option Nat) : Entry :=
  { e with uid := uid.getD e.uid, gid := gid.getD e.gid }

/-- `Entry::follow(true)`: swap path and alt exactly once -/
def Entry.doFollow (e : Entry) (follow : Bool) : Entry :=
  if follow ∧ e.link ∧ !e.follow then
    { e with follow := true, path := e.alt.getD [], alt := some e.path }
  else e

/-- `MemfsEntry::add(name)` -/
def Entry.addChild (e : Entry) (name : Str) : Outcome (Bool × Entry) :=
  if !e.dir then .err .isNotDir
  else match e.files with
    | some fs => let (b, fs') := insertName name fs; .ok (b, { e with files := some fs' })
    | none => .ok (true, { e with files := some [name] })

/-- `MemfsEntry::remove(name)` -/
def Entry.removeChild (e : Entry) (name : Str) : Outcome Entry :=
  if !e.dir then .err .isNotDir
  else match e.files with
    | some fs => .ok { e with files := some (fs.filter (· ≠ name)) }
    | none => .ok e

/-- `Path::base()` of a key (`/` for the root) -/
def baseName (p : FsPath) : Str := match p.getLast? with | some n => n | none => ['/']

/-! ### the state monad with early exit -/

abbrev M (α : Type) := State → Outcome α × State

namespace M
@[inline] def pure {α} (a : α) : M α := fun s => (.ok a, s)
@[inline] def bind {α β} (m : M α) (f : α → M β) : M β := fun s =>
  match m s with
  | (.ok a, s') => f a s'
  | (.err k, s') => (.err k, s')
  | (.panic, s') => (.panic, s')
  | (.hang, s') => (.hang, s')
instance : Monad M where
  pure := M.pure
  bind := M.bind
def fail {α} (k : ErrKind) : M α := fun s => (.err k, s)
def hang {α} : M α := fun s => (.hang, s)
def get : M State := fun s => (.ok s, s)
def modify (f : State → State) : M Unit := fun s => (.ok (), f s)
def liftO {α} (o : Outcome α) : M α := fun s => (o, s)
end M
open M

def getEntry (p : FsPath) : M (Option Entry) := fun s => (.ok (alLookup p s.entries), s)
def setEntry (p : FsPath) (e : Entry) : M Unit := modify fun s => { s with entries := alInsert p e s.entries }
def removeEntry (p : FsPath) : M (Option Entry) := fun s =>
  (.ok (alLookup p s.entries), { s with entries := alErase p s.entries })
def getFile (p : FsPath) : M (Option Bytes) := fun s => (.ok (alLookup p s.files), s)
def setFile (p : FsPath) (b : Bytes) : M Unit := modify fun s => { s with files := alInsert p b s.files }
def removeFile (p : FsPath) : M (Option Bytes) := fun s =>
  (.ok (alLookup p s.files), { s with files := alErase p s.files })

/-- `Path::dir()?` on a key -/
def dirOf (p : FsPath) : M FsPath := if p = [] then fail .parentNotFound else M.pure p.dropLast

/-- `Memfs::_abs`: every user-supplied path goes through the string pipeline of Model/Path -/
def absM (env : Env) (s : Str) : M FsPath := fun st =>
  match absWith env (renderP st.cwd) s with
  | .ok a => (.ok (toPath a), st)
  | .err k => (.err k, st)
  | .panic => (.panic, st)
  | .hang => (.hang, st)

/-! ### `_add`, `_mkdir_m`, `_symlink` -/

def add (e : Entry) : M FsPath := do
  let path := e.path
  if path = [] then return path
  let dir := path.dropLast
  match (← getEntry dir) with
  | some d => if !d.dir || d.link then fail .isNotDir else
    match (← getEntry path) with
    | some x =>
      if e.file && !x.file then fail .isNotFile
      else if e.link && !x.link then fail .isNotSymlink
      else if e.dir && !x.dir then fail .isNotDir
      else return path
    | none =>
      if !e.link && e.file then setFile path []
      setEntry path e
      match (← getEntry dir) with
      | some parent =>
        let (isNew, parent') ← liftO (parent.addChild (baseName path))
        setEntry dir parent'
        if !isNew then fail .existsAlready else return path
      | none => return path
  | none => fail .doesNotExist

/-- all prefixes of a key, shortest first, including `[]` and the key itself -/
def prefixes (p : FsPath) : List FsPath := (List.range (p.length + 1)).map (fun n => p.take n)

def mkdirM (abs : FsPath) (mode : Option Nat) : M Unit :=
  (prefixes abs).forM (fun p => do let _ ← add (mkDirEntry p mode))

def symlinkM (env : Env) (link target : Str) : M FsPath := do
  let l ← absM env link
  if (← getEntry l).isSome then fail .existsAlready else
  let tstr ← if isAbsolute target then M.pure target else do
    let d ← dirOf l
    M.pure (mash (renderP d) target)
  let t ← absM env tstr
  -- `MemfsEntry::opts(&link).file().link_to(&target)?`
  let ldir ← dirOf l
  let rel := relative (renderP t) (renderP ldir)
  let tIsDir := match (← getEntry t) with | some x => x.dir | none => false
  let e : Entry := { path := l, alt := some t, rel := rel, dir := tIsDir, file := !tIsDir, link := true,
                     mode := optsMode true (!tIsDir) tIsDir none, uid := 1000, gid := 1000,
                     follow := false, cached := false, files := if tIsDir then some [] else none }
  let _ ← add e
  return l

/-! ### snapshot (`_clone_entries`) and traversal (`Entries` / `EntriesIter`) -/

abbrev Snap := List (FsPath × Entry)

/-- worklist version of `_clone_entries`; `none` in the result = some reached path is missing -/
def cloneLoop (ents : List (FsPath × Entry)) : Nat → List FsPath → Snap → Outcome Snap
  | 0, _, acc => .ok acc
  | _ + 1, [], acc => .ok acc
  | f + 1, p :: work, acc =>
    match alLookup p ents with
    | none => .err .doesNotExist
    | some e =>
      let acc := alInsert e.path e acc
      let kids := match e.files with | some fs => fs.map (fun n => e.path ++ [n]) | none => []
      let work := kids.reverse ++ work
      let work := match e.alt with
        | some a => if e.link ∧ (alLookup a ents).isSome ∧ (alLookup a acc).isNone then a :: work else work
        | none => work
      cloneLoop ents f work acc

def cloneEntries (s : State) (abs : FsPath) : Outcome Snap :=
  cloneLoop s.entries (4 * (s.entries.length + 1) * (s.entries.length + 1)) [abs] []

structure Opts where
  dirs : Bool := false
  files : Bool := false
  follow : Bool := false
  minDepth : Nat := 0
  maxDepth : Nat := 2 ^ 64 - 1
  maxDesc : Nat := 50
  dirsFirst : Bool := false
  filesFirst : Bool := false
  contentsFirst : Bool := false
  sorted : Bool := false
  deriving Repr, DecidableEq

def Opts.setMin (o : Opts) (m : Nat) : Opts := { o with minDepth := if m > o.maxDepth then o.maxDepth else m }
def Opts.setMax (o : Opts) (m : Nat) : Opts := { o with maxDepth := if m < o.minDepth then o.minDepth else m }

/-- one directory iterator of the stack (`EntryIter` over a `MemfsEntryIter`) -/
structure EIter where
  path : FsPath
  cached : Bool
  items : List Entry
  deriving Repr

/-- `x.file_name().cmp(&y.file_name())` -/
def nameLe (a b : Entry) : Bool :=
  match a.path.getLast?, b.path.getLast? with
  | none, _ => true
  | some _, none => false
  | some x, some y => strLe x y

def insertSorted (le : Entry → Entry → Bool) (x : Entry) : List Entry → List Entry
  | [] => [x]
  | y :: ys => if le x y then x :: y :: ys else y :: insertSorted le x ys

/-- stable insertion sort (`sort_by` is stable) -/
def sortEntries (le : Entry → Entry → Bool) (l : List Entry) : List Entry :=
  l.foldr (fun x acc => insertSorted (fun a b => le a b) x acc) []

/-- `iter_from(path, follow)` followed by the sort / dirs_first / files_first / cache step -/
def mkIter (snap : Snap) (o : Opts) (path : FsPath) : Outcome EIter :=
  match alLookup path snap with
  | none => .err .doesNotExist
  | some e =>
    let kids := match e.files with | some fs => fs.map (fun n => path ++ [n]) | none => []
    -- MemfsEntryIter::next stops at the first child missing from the snapshot
    let raw := (kids.map (fun k => alLookup k snap)).takeWhile Option.isSome |>.filterMap id
    let items := raw.map (fun x => x.doFollow o.follow)
    if o.sorted then
      if o.dirsFirst then
        .ok ⟨path, true, sortEntries nameLe (items.filter (·.dir)) ++ sortEntries nameLe (items.filter (fun x => !x.dir))⟩
      else if o.filesFirst then
        .ok ⟨path, true, sortEntries nameLe (items.filter (fun x => !x.dir)) ++ sortEntries nameLe (items.filter (·.dir))⟩
      else .ok ⟨path, true, sortEntries nameLe items⟩
    else .ok ⟨path, false, items⟩

structure ISt where
  started : Bool := false
  openDesc : Nat := 0
  iters : List EIter := []      -- top of the stack at the head
  deferred : List (Nat × Entry) := []   -- top of the stack at the head; with the depth it was found at

/-- `EntriesIter::process`; `σ` is what the `pre_op` closure mutates -/
def process {σ} (snap : Snap) (o : Opts) (preOp : Entry → σ → Outcome Unit × σ)
    (st : ISt) (e : Entry) (w : σ) : Option (Outcome Entry) × ISt × σ :=
  let depth := st.iters.length
  let descend : Option (Outcome Entry) × ISt × σ :=
    if e.dir ∧ (!e.link ∨ o.follow) then
      if e.link ∧ st.iters.any (fun x => x.path = e.path) then (some (.err .linkLooping), st, w)
      else if st.iters.length < o.maxDepth then
        match preOp e w with
        | (.ok (), w') =>
          match mkIter snap o e.path with
          | .ok it =>
            if o.sorted ∨ st.openDesc + 1 > o.maxDesc then
              (none, { st with iters := { it with cached := true } :: st.iters }, w')
            else (none, { st with iters := it :: st.iters, openDesc := st.openDesc + 1 }, w')
          | .err k => (some (.err k), st, w')
          | .panic => (some .panic, st, w')
          | .hang => (some .hang, st, w')
        | (.err k, w') => (some (.err k), st, w')
        | (.panic, w') => (some .panic, st, w')
        | (.hang, w') => (some .hang, st, w')
      else (none, st, w)
    else (none, st, w)
  match descend with
  | (some r, st', w') => (some r, st', w')
  | (none, st', w') =>
    if depth < o.minDepth then (none, st', w')
    else if (o.files ∧ !e.file) ∨ (!o.files ∧ o.dirs ∧ !e.dir) then (none, st', w')
    else if e.dir ∧ o.contentsFirst then (none, { st' with deferred := (depth, e) :: st'.deferred }, w')
    else (some (.ok e), st', w')

/-- `self.deferred.last().map_or(false, |x| x.0 >= self.iters.len())`: the directory on top of the
    deferred stack was found at a depth that the iterator stack has come back to -/
def deferredReady (itersLen : Nat) : List (Nat × Entry) → Bool
  | (d, _) :: _ => decide (itersLen ≤ d)
  | [] => false

/-- the `while !self.iters.is_empty()` loop of `EntriesIter::next` -/
def nextLoop {σ} (snap : Snap) (o : Opts) (preOp : Entry → σ → Outcome Unit × σ) :
    Nat → ISt → σ → Option (Outcome Entry) × ISt × σ
  | 0, st, w => (some .hang, st, w)
  | f + 1, st, w =>
    match st.iters with
    | [] =>
      -- after the `while` loop: every remaining deferred directory is released, one per call
      if o.contentsFirst then
        match st.deferred with
        | d :: ds => (some (.ok d.2), { st with deferred := ds }, w)
        | [] => (none, st, w)
      else (none, st, w)
    | top :: below =>
      -- `self.deferred.last().map_or(false, |x| x.0 >= self.iters.len())`
      if o.contentsFirst ∧ deferredReady st.iters.length st.deferred then
        match st.deferred with
        | d :: ds => (some (.ok d.2), { st with deferred := ds }, w)
        | [] => (none, st, w)
      else match top.items with
        | x :: xs =>
          let st1 := { st with iters := { top with items := xs } :: below }
          match process snap o preOp st1 (x.doFollow o.follow) w with
          | (some r, st2, w2) => (some r, st2, w2)
          | (none, st2, w2) => nextLoop snap o preOp f st2 w2
        | [] =>
          let st1 := { st with iters := below, openDesc := if top.cached then st.openDesc else st.openDesc - 1 }
          nextLoop snap o preOp f st1 w

def nextE {σ} (snap : Snap) (o : Opts) (preOp : Entry → σ → Outcome Unit × σ) (rootE : Entry)
    (fuel : Nat) (st : ISt) (w : σ) : Option (Outcome Entry) × ISt × σ :=
  if !st.started then
    match process snap o preOp { st with started := true } (rootE.doFollow o.follow) w with
    | (some r, st', w') => (some r, st', w')
    | (none, st', w') => nextLoop snap o preOp fuel st' w'
  else nextLoop snap o preOp fuel st w

/-- iterate to exhaustion, threading `σ`; the consumer `step` sees every yielded item and may stop
    (the `?` of a `for` loop) -/
def runIter {σ} (snap : Snap) (o : Opts) (preOp : Entry → σ → Outcome Unit × σ) (rootE : Entry)
    (step : Entry → σ → Outcome Unit × σ) : Nat → ISt → σ → Outcome Unit × σ
  | 0, _, w => (.hang, w)
  | f + 1, st, w =>
    match nextE snap o preOp rootE (f + 1) st w with
    | (none, _, w') => (.ok (), w')
    | (some (.ok e), st', w') =>
      match step e w' with
      | (.ok (), w'') => runIter snap o preOp rootE step f st' w''
      | r => r
    | (some (.err k), _, w') => (.err k, w')
    | (some .panic, _, w') => (.panic, w')
    | (some .hang, _, w') => (.hang, w')

def noPre {σ} : Entry → σ → Outcome Unit × σ := fun _ w => (.ok (), w)

def travFuel (snap : Snap) : Nat := 64 * (snap.length + 2) * (snap.length + 2)

/-- collect every yielded entry (stops at the first error, like `for e in it { let e = e?; .. }`) -/
def collectEntries (snap : Snap) (o : Opts) (rootE : Entry) : Outcome (List Entry) :=
  match runIter snap o noPre rootE (fun e (acc : List Entry) => (.ok (), e :: acc)) (travFuel snap) {} [] with
  | (.ok (), acc) => .ok acc.reverse
  | (.err k, _) => .err k
  | (.panic, _) => .panic
  | (.hang, _) => .hang

/-- `Memfs::_entries(path)`: root entry + snapshot -/
def entriesOf (s : State) (abs : FsPath) : Outcome (Entry × Snap) :=
  match alLookup abs s.entries with
  | none => .err .doesNotExist
  | some e => match cloneEntries s abs with
    | .ok snap => .ok (e, snap)
    | .err k => .err k
    | .panic => .panic
    | .hang => .hang

/-! ### queries -/

def isDirP (s : State) (p : FsPath) : Bool := match alLookup p s.entries with | some e => e.dir && !e.link | none => false

/-- listing helpers: `is_dir` check, then the sorted traversal with the given depth window and filter;
    `dirs` / `files` / `all_dirs` / `all_files` (not `paths` / `all_paths`) skip link entries in the
    collecting loop (`if entry.is_symlink() { continue; }`, repair of `listing_includes_links`) -/
def listing (env : Env) (path : Str) (maxDepth : Option Nat) (dirs files : Bool) : M (List FsPath) := do
  let s ← get
  -- `if !self.is_dir(&path)`: abs errors count as "not a directory"
  let isd := match absM env path s with | (.ok a, _) => isDirP s a | _ => false
  if !isd then fail .isNotDir else
  let a ← absM env path
  let (rootE, snap) ← liftO (entriesOf s a)
  let o : Opts := {}
  let o := o.setMin 1
  let o := match maxDepth with | some d => o.setMax d | none => o
  let o := { o with sorted := true, dirs := dirs ∧ !files, files := files }
  let es ← liftO (collectEntries snap o rootE)
  -- `let entry = entry?; if entry.is_symlink() { continue; } paths.push(entry.path_buf());`
  let es := if dirs ∨ files then es.filter (fun e => !e.link) else es
  return es.map (·.path)

/-! ### mutators -/

def mkfileM (env : Env) (path : Str) : M FsPath := do
  let p ← absM env path
  let r ← add (mkFileEntry p)
  if (← getFile r).isNone then fail .isNotFile else return r

def mkdirOp (env : Env) (path : Str) (mode : Option Nat) : M FsPath := do
  let p ← absM env path
  mkdirM p mode
  return p

def removeM (env : Env) (path : Str) : M Unit := do
  let p ← absM env path
  match (← getEntry p) with
  | some e => match e.files with
    | some fs => if !fs.isEmpty then fail .dirContainsFiles else M.pure ()
    | none => M.pure ()
  | none => M.pure ()
  -- `if !guard.contains_entry(&path) { return Ok(()); }` (repair of `remove_below_file`)
  if (← getEntry p).isNone then return () else
  let d ← dirOf p
  match (← getEntry d) with
  | some pe =>
    let pe' ← liftO (pe.removeChild (baseName p))
    setEntry d pe'
  | none => M.pure ()
  match (← getEntry p) with
  | some e => if e.file then do let _ ← removeFile p
  | none => M.pure ()
  let _ ← removeEntry p
  return ()

def removeAllLoop : Nat → List FsPath → M Unit
  | 0, _ => M.hang
  | _ + 1, [] => M.pure ()
  | f + 1, p :: work => do
    match (← getEntry p) with
    | none => removeAllLoop f work
    | some e =>
      match e.files with
      | some (n :: ns) =>
        removeAllLoop f (((n :: ns).map (fun x => p ++ [x])).reverse ++ p :: work)
      | _ =>
        let d ← dirOf p
        match (← getEntry d) with
        | some pe =>
          let pe' ← liftO (pe.removeChild (baseName p))
          setEntry d pe'
        | none => M.pure ()
        let _ ← removeFile p
        let _ ← removeEntry p
        removeAllLoop f work

def removeAllM (env : Env) (path : Str) : M Unit := do
  let p ← absM env path
  let s ← get
  removeAllLoop (4 * (s.entries.length + 2)) [p]

def setCwdM (env : Env) (path : Str) : M FsPath := do
  let p ← absM env path
  match (← getEntry p) with
  | none => fail .doesNotExist
  | some e =>
    if !e.dir then fail .isNotDir else
    modify fun s => { s with cwd := p }
    return p

/-- destination of one entry in `move_p` / `_copy`: `dst_root.mash(path.trim_prefix(prefix))`
    computed on the string forms, as the code does -/
def dstOf (dstRoot path pre : FsPath) : FsPath :=
  toPath (mash (renderP dstRoot) (trimPrefix (renderP path) (renderP pre)))

def moveLoop (srcRoot dstRoot : FsPath) (copyInto : Bool) : Nat → List FsPath → M Unit
  | 0, _ => M.hang
  | _ + 1, [] => M.pure ()
  | f + 1, srcPath :: work => do
    let pre ← if copyInto then dirOf srcRoot else M.pure srcRoot
    let dstPath := dstOf dstRoot srcPath pre
    match (← removeEntry srcPath) with
    | none => fail .doesNotExist
    | some srcEntry =>
      -- `if dst_entry.link { dst_entry.rel = dst_entry.alt.relative(dst_path.dir()?)?; }`
      -- (after `remove_entry`, before `insert_entry`; `relative` is total in Model/Path)
      let rel ← (if srcEntry.link then do
          let ld ← dirOf dstPath
          M.pure (relative (renderP (srcEntry.alt.getD [])) (renderP ld))
        else M.pure srcEntry.rel : M Str)
      setEntry dstPath { srcEntry with path := dstPath, rel := rel }
      match (← removeFile srcPath) with
      | some b => setFile dstPath b
      | none => M.pure ()
      let sd ← dirOf srcPath
      match (← getEntry sd) with
      | some oldParent =>
        let op' ← liftO (oldParent.removeChild (baseName srcPath))
        setEntry sd op'
        let dd ← dirOf dstPath
        match (← getEntry dd) with
        | some newParent =>
          let (_, np') ← liftO (newParent.addChild (baseName dstPath))
          setEntry dd np'
        | none => fail .parentNotFound
      | none => M.pure ()
      let kids := match srcEntry.files with | some fs => fs.map (fun n => srcEntry.path ++ [n]) | none => []
      moveLoop srcRoot dstRoot copyInto f (kids.reverse ++ work)

def moveM (env : Env) (src dst : Str) : M Unit := do
  let s ← absM env src
  let d ← absM env dst
  let st ← get
  let copyInto := isDirP st d
  -- validation before any mutation
  let srcE ← match (← getEntry s) with
    | some x => M.pure x
    | none => fail .doesNotExist
  let dstFinal := if copyInto then toPath (mash (renderP d) (baseName s)) else d
  if dstFinal = s then return ()
  if s.isPrefixOf dstFinal then fail .ioInvalidInput
  let dd ← dirOf dstFinal
  match (← getEntry dd) with
  | some x => if x.dir && !x.link then M.pure () else fail .isNotDir
  | none => fail .doesNotExist
  match (← getEntry dstFinal) with
  | some x => if x.file && !x.link && srcE.file && !srcE.link then M.pure () else fail .existsAlready
  | none => M.pure ()
  moveLoop s d copyInto (8 * (st.entries.length + 2)) [s]

/-! ### file content -/

/-- `sync` of a handle carrying `data` for `path` (errors are ignored on drop) -/
def syncM (path : FsPath) (data : Bytes) : M Unit := do
  match (← getEntry path) with
  | some _ =>
    match (← getFile path) with
    | some _ => setFile path data
    | none => M.pure ()
  | none => fail .ioNotFound

/-- `write(path)`: `_add`, new empty handle -/
def openWriteM (env : Env) (path : Str) (id : Nat) : M Unit := do
  let p ← absM env path
  let _ ← add (mkFileEntry p)
  if (← getFile p).isNone then fail .isNotFile else
  modify fun s => { s with handles := ⟨id, p, []⟩ :: s.handles }

/-- `append(path)`: `_add`, handle starts from a clone of the stored bytes -/
def openAppendM (env : Env) (path : Str) (id : Nat) : M Unit := do
  let p ← absM env path
  let _ ← add (mkFileEntry p)
  match (← getFile p) with
  | some b => modify fun s => { s with handles := ⟨id, p, b⟩ :: s.handles }
  | none => fail .doesNotExist

def handleWriteM (id : Nat) (chunk : Bytes) : M Unit :=
  modify fun s => { s with handles := s.handles.map (fun h => if h.id = id then { h with data := h.data ++ chunk } else h) }

def handleFlushM (id : Nat) : M Unit := do
  let s ← get
  match s.handles.find? (·.id = id) with
  | some h => syncM h.path h.data
  | none => M.pure ()

/-- drop: sync (result ignored), handle gone -/
def handleDropM (id : Nat) : M Unit := fun s =>
  match s.handles.find? (·.id = id) with
  | some h =>
    let (_, s') := syncM h.path h.data s
    (.ok (), { s' with handles := s'.handles.filter (·.id ≠ id) })
  | none => (.ok (), s)

/-- `write_all`: open, buffer, drop (sync result ignored) -/
def writeAllM (env : Env) (path : Str) (data : Bytes) : M Unit := do
  let p ← absM env path
  let _ ← add (mkFileEntry p)
  if (← getFile p).isNone then fail .isNotFile else
  fun s => let (_, s') := syncM p data s; (.ok (), s')

/-- `append_all`: open (clone), write, flush (`?`), drop -/
def appendAllM (env : Env) (path : Str) (data : Bytes) : M Unit := do
  let p ← absM env path
  let _ ← add (mkFileEntry p)
  match (← getFile p) with
  | some b =>
    syncM p (b ++ data)
    fun s => let (_, s') := syncM p (b ++ data) s; (.ok (), s')
  | none => fail .doesNotExist

def nl : UInt8 := 10

def utf8 (s : Str) : Bytes := (String.ofList s).toUTF8.toList

/-- `lines.join("\n") + "\n"` unless the join is empty -/
def joinLines (ls : List Str) : Option Bytes :=
  let j := Str.joinWith '\n' ls
  if j = [] then none else some (utf8 j ++ [nl])

def writeLinesM (env : Env) (path : Str) (ls : List Str) : M Unit :=
  match joinLines ls with
  | some b => writeAllM env path b
  | none => M.pure ()

def appendLinesM (env : Env) (path : Str) (ls : List Str) : M Unit :=
  match joinLines ls with
  | some b => appendAllM env path b
  | none => M.pure ()

def appendLineM (env : Env) (path : Str) (l : Str) : M Unit :=
  if l = [] then M.pure () else appendAllM env path (utf8 l ++ [nl])

/-- `_clone_file` -/
def cloneFileM (env : Env) (path : Str) : M Bytes := do
  let p ← absM env path
  match (← getEntry p) with
  | some e => if !e.file then fail .isNotFile else M.pure ()
  | none => M.pure ()
  match (← getFile p) with
  | some b => return b
  | none => fail .doesNotExist

def decodeUtf8 (b : Bytes) : Option Str := (String.fromUTF8? ⟨b.toArray⟩).map String.toList

def readAllM (env : Env) (path : Str) : M Str := do
  let b ← cloneFileM env path
  match decodeUtf8 b with
  | some s => return s
  | none => fail .ioInvalidData

/-- `BufRead::lines`: split after `\n`, strip the `\n` and then one `\r` -/
def splitLines (s : Str) : List Str :=
  let ps := Str.splitOn '\n' s
  -- a trailing newline does not start a new line; the last piece has no `\n` so keeps its `\r`
  let n := ps.length
  let strip (l : Str) : Str := match l.reverse with | '\r' :: r => r.reverse | _ => l
  let body := (ps.take (n - 1)).map strip
  match ps.getLast? with
  | some [] => body
  | some lastp => body ++ [lastp]
  | none => body

def readLinesM (env : Env) (path : Str) : M (List Str) := do
  let b ← cloneFileM env path
  match decodeUtf8 b with
  | some s => return splitLines s
  | none => fail .ioInvalidData

/-! ### chmod / chown -/

structure ChmodOpts where
  dirs : Nat := 0
  files : Nat := 0
  follow : Bool := false
  recursive : Bool := true
  sym : Str := []
  deriving Repr, DecidableEq

def ekind (e : Entry) : Chmod.EKind := ⟨e.dir, e.file, e.link⟩

/-- `Memfs::_chmod` -/
def chmodM (env : Env) (path : Str) (c : ChmodOpts) : M Unit := do
  let p ← absM env path                       -- `chmod_b` resolves the path when the builder is made
  let s ← get
  let (rootE, snap) ← liftO (entriesOf s p)
  let o : Opts := { contentsFirst := true, follow := c.follow, dirsFirst := true, sorted := true }
  let o := o.setMax (if c.recursive then 2 ^ 64 - 1 else 0)
  let preOp : Entry → State → Outcome Unit × State := fun x st =>
    match Chmod.mode (ekind x) x.mode c.dirs c.sym with
    | .ok m1 =>
      if (!x.link ∨ c.follow) ∧ x.dir ∧ m1 ≠ 0 ∧ !Chmod.revokingMode x.mode m1 ∧ x.mode ≠ m1 then
        match alLookup x.path st.entries with
        | some e => (.ok (), { st with entries := alInsert x.path (e.setMode m1) st.entries })
        | none => (.ok (), st)
      else (.ok (), st)
    | .err k => (.err k, st)
    | .panic => (.panic, st)
    | .hang => (.hang, st)
  let step : Entry → State → Outcome Unit × State := fun src st =>
    let m2o : Outcome Nat :=
      if src.dir then Chmod.mode (ekind src) src.mode c.dirs c.sym
      else if src.file then Chmod.mode (ekind src) src.mode c.files c.sym
      else .ok 0
    match m2o with
    | .ok m2 =>
      if (!src.link ∨ c.follow) ∧ m2 ≠ src.mode ∧ m2 ≠ 0 then
        match alLookup src.path st.entries with
        | some e => (.ok (), { st with entries := alInsert src.path (e.setMode m2) st.entries })
        | none => (.ok (), st)
      else (.ok (), st)
    | .err k => (.err k, st)
    | .panic => (.panic, st)
    | .hang => (.hang, st)
  fun st => runIter snap o preOp rootE step (travFuel snap) {} st

structure ChownOpts where
  uid : Option Nat := none
  gid : Option Nat := none
  follow : Bool := false
  recursive : Bool := true
  deriving Repr, DecidableEq

def chownM (env : Env) (path : Str) (c : ChownOpts) : M Unit := do
  let p ← absM env path
  let s ← get
  let (rootE, snap) ← liftO (entriesOf s p)
  let o : Opts := { follow := c.follow }
  let o := o.setMax (if c.recursive then 2 ^ 64 - 1 else 0)
  let step : Entry → State → Outcome Unit × State := fun src st =>
    match alLookup src.path st.entries with
    | some e => (.ok (), { st with entries := alInsert src.path (e.setOwner c.uid c.gid) st.entries })
    | none => (.ok (), st)
  fun st => runIter snap o noPre rootE step (travFuel snap) {} st

/-! ### copy -/

structure CopyOpts where
  mode : Option Nat := none
  cdirs : Bool := false
  cfiles : Bool := false
  follow : Bool := false
  deriving Repr, DecidableEq

/-- `_symlink` with already absolute link and target keys (used by `_copy`) -/
def symlinkAbs (l t : FsPath) : M FsPath := do
  if (← getEntry l).isSome then fail .existsAlready else
  let ldir ← dirOf l
  let rel := relative (renderP t) (renderP ldir)
  let tIsDir := match (← getEntry t) with | some x => x.dir | none => false
  let e : Entry := { path := l, alt := some t, rel := rel, dir := tIsDir, file := !tIsDir, link := true,
                     mode := optsMode true (!tIsDir) tIsDir none, uid := 1000, gid := 1000,
                     follow := false, cached := false, files := if tIsDir then some [] else none }
  let _ ← add e
  return l

def copyM (env : Env) (src dst : Str) (c : CopyOpts) : M Unit := do
  let srcRoot ← absM env src
  let dstRoot ← absM env dst
  if srcRoot = dstRoot then return ()
  let dirMode := match c.mode with | some x => if c.cdirs ∨ !c.cfiles then some x else none | none => none
  let fileMode := match c.mode with | some x => if c.cfiles ∨ !c.cdirs then some x else none | none => none
  let s ← get
  let copyInto := isDirP s dstRoot
  let rootE0 ← match alLookup srcRoot s.entries with
    | some e => M.pure e
    | none => fail .doesNotExist
  let rootE := rootE0.doFollow c.follow
  -- `self._entries(guard, src_root.path())?.follow(cp.follow)`
  let (travRoot, snap) ← liftO (entriesOf s rootE.path)
  let o : Opts := { follow := c.follow }
  let step : Entry → State → Outcome Unit × State := fun e st =>
    let body : M Unit := do
      let pre ← if copyInto then dirOf rootE.path else M.pure rootE.path
      let dstPath := dstOf dstRoot e.path pre
      if !c.follow ∧ e.link then
        let _ ← symlinkAbs dstPath (e.alt.getD [])
      else
        let srcE ← match (← getEntry e.path) with
          | some x => M.pure x
          | none => fail .doesNotExist
        if srcE.dir then
          mkdirM dstPath (some (dirMode.getD srcE.mode))
        else
          let dd ← dirOf dstPath
          if (← getEntry dd).isNone then
            let pm ← match dirMode with
              | some x => M.pure x
              | none => do
                let sd ← dirOf srcE.path
                match (← getEntry sd) with
                | some x => M.pure x.mode
                | none => fail .doesNotExist
            mkdirM dd (some pm)
          let dstE := ({ srcE with path := dstPath }).setMode (fileMode.getD srcE.mode)
          let _ ← add dstE
          if !srcE.link then
            -- `_clone_file(src.path())` then `insert_file`
            if (← getFile dstPath).isNone then fail .isNotFile
            if !srcE.file then fail .isNotFile
            match (← getFile srcE.path) with
            | some b => setFile dstPath b
            | none => fail .doesNotExist
    body st
  fun st => runIter snap o noPre travRoot step (travFuel snap) {} st

/-! ### the initial state -/

def init : State :=
  { entries := [([], mkDirEntry [] none)], files := [], cwd := [], root := [], handles := [] }

end Rivia.Memfs
