/-
  Rivia.Model.Defer — model of `src/core/defer.rs`.

  Rust: `pub struct Defer<T: FnMut()>(T); impl Drop for Defer<T> { fn drop(&mut self) { (self.0)(); } }`
  and `defer!(expr)` = `let _defer = defer(|| expr);`.  A guard is therefore an ordinary local whose
  destructor runs the closure.  What is modelled here is the LANGUAGE guarantee the guard rests on:
  locals are dropped in reverse order of declaration when their block ends, whether the block is left
  by falling off its end, by `return`, or by unwinding from a `panic!`.  The model is validated against
  the real code by differential testing (the harness compiles each program to Rust).

  A program is the body of one function, a list of items over the alphabet
      d  `defer!(log.push(k))`  k = number of `d` items executed so far (labels 0,1,2,…)
      {  open a nested block          }  close the innermost nested block
      r  `return`                      p  `panic!()`
  (import-free: linked into the native driver)
-/
namespace Rivia.Defer

inductive DItem where
  | reg | openS | closeS | ret | pan
  deriving DecidableEq, Repr

inductive DEnd where
  | normal | returned | panicked
  deriving DecidableEq, Repr

structure DOut where
  log : List Nat
  ending : DEnd
  deriving DecidableEq, Repr

/-- The open scopes are `cur :: outer` (innermost first); every scope lists the labels of its live
guards in creation order.  `next` is the next fresh label, `log` what has run so far. -/
structure DState where
  next : Nat
  cur : List Nat
  outer : List (List Nat)
  log : List Nat
  deriving DecidableEq, Repr

def DState.init : DState := ⟨0, [], [], []⟩

/-- dropping the given scopes, innermost first, each in reverse creation order -/
def unwindScopes : List (List Nat) → List Nat
  | [] => []
  | s :: ss => s.reverse ++ unwindScopes ss

/-- what runs when the function is left in state `s`: ALL open scopes -/
def DState.pending (s : DState) : List Nat := unwindScopes (s.cur :: s.outer)

/-- Execute items until the function ends; returns the state at that moment and how it ended.
A `}` with only the function scope left ends the function normally (never happens in a
`Balanced` program). -/
def exec : DState → List DItem → DState × DEnd
  | s, [] => (s, .normal)
  | s, .reg :: r => exec { s with next := s.next + 1, cur := s.cur ++ [s.next] } r
  | s, .openS :: r => exec { s with cur := [], outer := s.cur :: s.outer } r
  | s, .closeS :: r =>
    match s.outer with
    | [] => (s, .normal)
    | t :: ss => exec { s with cur := t, outer := ss, log := s.log ++ s.cur.reverse } r
  | s, .ret :: _ => (s, .returned)
  | s, .pan :: _ => (s, .panicked)

/-- the log after leaving the function in state `s` with ending `e` -/
def finish (x : DState × DEnd) : DOut := ⟨x.1.log ++ x.1.pending, x.2⟩

def runDefer (prog : List DItem) : DOut := finish (exec .init prog)

/-- syntactic block balance at nesting depth `d` (what makes the program compile) -/
def balancedAt : Nat → List DItem → Bool
  | d, [] => d == 0
  | d, .openS :: r => balancedAt (d + 1) r
  | 0, .closeS :: _ => false
  | d + 1, .closeS :: r => balancedAt d r
  | d, _ :: r => balancedAt d r

def Balanced (prog : List DItem) : Bool := balancedAt 0 prog

/-- the part of the program that is executed: everything before the first `return` / `panic!()` -/
def livePart (prog : List DItem) : List DItem :=
  prog.takeWhile (fun i => i != .ret && i != .pan)

/-- number of `defer!` statements executed before the function ended -/
def executedRegs (prog : List DItem) : Nat := (livePart prog).count .reg

/-! driver protocol -/

def parseItem : Char → Option DItem
  | 'd' => some .reg | '{' => some .openS | '}' => some .closeS | 'r' => some .ret | 'p' => some .pan
  | _ => none

def parseDefer (s : String) : Option (List DItem) := s.toList.mapM parseItem

def DEnd.tag : DEnd → String
  | .normal => "n" | .returned => "r" | .panicked => "p"

def showDOut (o : DOut) : String :=
  "ok d:" ++ String.intercalate "," (o.log.map toString) ++ "|" ++ o.ending.tag

/-! Ghost semantics: the same machine, every label additionally carries the identity of the scope
instance it was created in (`0` = the function body, then `1, 2, …` in order of `{`).  Not used by
the driver; `Rivia.Lemmas.Defer.execI_erase` proves that forgetting the ids gives `exec`. -/

structure IState where
  next : Nat
  nextSid : Nat
  curSid : Nat
  cur : List (Nat × Nat)
  outer : List (Nat × List (Nat × Nat))
  log : List (Nat × Nat)
  deriving DecidableEq, Repr

def IState.init : IState := ⟨0, 1, 0, [], [], []⟩

def unwindScopesI : List (List (Nat × Nat)) → List (Nat × Nat)
  | [] => []
  | s :: ss => s.reverse ++ unwindScopesI ss

def IState.pending (s : IState) : List (Nat × Nat) := unwindScopesI (s.cur :: s.outer.map (·.2))

def execI : IState → List DItem → IState × DEnd
  | s, [] => (s, .normal)
  | s, .reg :: r => execI { s with next := s.next + 1, cur := s.cur ++ [(s.curSid, s.next)] } r
  | s, .openS :: r =>
    execI { s with nextSid := s.nextSid + 1, curSid := s.nextSid, cur := [],
                   outer := (s.curSid, s.cur) :: s.outer } r
  | s, .closeS :: r =>
    match s.outer with
    | [] => (s, .normal)
    | t :: ss => execI { s with curSid := t.1, cur := t.2, outer := ss, log := s.log ++ s.cur.reverse } r
  | s, .ret :: _ => (s, .returned)
  | s, .pan :: _ => (s, .panicked)

/-- the log of `(scope id, label)` pairs -/
def runDeferI (prog : List DItem) : List (Nat × Nat) :=
  let x := execI .init prog
  x.1.log ++ x.1.pending

end Rivia.Defer
