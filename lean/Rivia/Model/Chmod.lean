/-
  Rivia.Model.Chmod — transcription of `sys::mode` (the symbolic-mode state machine of
  `src/sys/fs/chmod.rs`) and `revoking_mode`.  `chars` (a reversed Vec used as a stack) is
  modelled by the list of the characters still to come, in order.
-/
import Rivia.Model.Outcome

namespace Rivia.Chmod
open Rivia

/-- what the state machine asks of the entry -/
structure EKind where
  dir : Bool
  file : Bool
  link : Bool
  deriving DecidableEq, Repr

inductive TargetRes where
  | ret (o : Outcome Nat)
  | toGroup (rest : List Char)
  | skip (rest : List Char)     -- clause for another kind: stay in `State::Target` with `rest`

/-- `while let Some(x) = chars.pop() { if x == ',' { break; } }`: discard up to and including the
    next `,` (or everything); the result is what is left in `chars` -/
def skipClause : List Char → List Char
  | [] => []
  | x :: rest => if x = ',' then rest else skipClause rest

/-- `State::Target` inner loop; the list starts with the current char `c`. -/
def targetLoop (k : EKind) (mode : Nat) : List Char → TargetRes
  | [] => .ret (.err .invalidChmod)                       -- `_pop` on an empty vector
  | c :: rest =>
    if c ≠ 'd' ∧ c ≠ 'f' ∧ c ≠ 'a' ∧ c ≠ ':' then .ret (.err .invalidChmodTarget)
    else if k.link then .ret (.ok mode)                   -- links are never altered
    else if (c = 'd' ∧ !k.dir) ∨ (c = 'f' ∧ !k.file) then .skip (skipClause rest)
    else if c = ':' then .toGroup rest
    else targetLoop k mode rest

inductive GroupRes where
  | ret (o : Outcome Nat)
  | toPerms (op : Char) (group : Nat) (rest : List Char)

/-- `State::Group` inner loop -/
def groupLoop : List Char → Nat → GroupRes
  | [], _ => .ret (.err .invalidChmod)
  | c :: rest, group =>
    if c = 'u' then groupLoop rest (group ||| 0o700)
    else if c = 'g' then groupLoop rest (group ||| 0o070)
    else if c = 'o' then groupLoop rest (group ||| 0o007)
    else if c = 'a' then groupLoop rest (group ||| 0o777)
    else if c = '-' ∨ c = '+' ∨ c = '=' then .toPerms c group rest
    else .ret (.err .invalidChmodGroup)

inductive PermsRes where
  | ret (o : Outcome Nat)
  | done (perm : Nat) (rest : List Char)

/-- `State::Perms` inner loop -/
def permsLoop : List Char → Nat → PermsRes
  | [], perm => .done perm []
  | c :: rest, perm =>
    if c = 'r' then permsLoop rest (perm ||| 0o444)
    else if c = 'w' then permsLoop rest (perm ||| 0o222)
    else if c = 'x' then permsLoop rest (perm ||| 0o111)
    else if c = ',' then .done perm rest
    else .ret (.err .invalidChmodPermissions)

/-- `!x` on the low 32 bits -/
def not32 (x : Nat) : Nat := 0xFFFFFFFF ^^^ x

def applyOp (op : Char) (group perm mode : Nat) : Nat :=
  if op = '-' then mode &&& not32 (group &&& perm)
  else if op = '+' then mode ||| (group &&& perm)
  else (not32 group &&& mode) ||| (group &&& perm)

/-- the outer `while let Some(c) = chars.pop()` loop, one clause per iteration -/
def symLoop (k : EKind) : Nat → Nat → List Char → Outcome Nat
  | 0, mode, _ => .ok mode
  | _ + 1, mode, [] => .ok mode
  | f + 1, mode, cs =>
    match targetLoop k mode cs with
    | .ret o => o
    | .skip rest => symLoop k f mode rest                 -- next clause (or `.ok mode` at the end)
    | .toGroup [] => .ok mode
    | .toGroup rest =>
      match groupLoop rest 0 with
      | .ret o => o
      | .toPerms op group rest =>
        if group = 0 then .err .invalidChmodGroup
        else match rest with
          | [] => .ok mode
          | _ =>
            match permsLoop rest 0 with
            | .ret o => o
            | .done perm rest' =>
              if perm = 0 then .err .invalidChmodPermissions
              else symLoop k f (applyOp op group perm mode) rest'

/-- `sys::mode(entry, octal, sym)` where `cur` is `entry.mode()` -/
def mode (k : EKind) (cur octal : Nat) (sym : List Char) : Outcome Nat :=
  if octal ≠ 0 then .ok octal
  else if sym = [] then .ok 0
  else symLoop k (sym.length + 1) cur sym

/-- `sys::revoking_mode` -/
def revokingMode (old new : Nat) : Bool :=
  decide (old &&& 0o500 > new &&& 0o500) || decide (old &&& 0o050 > new &&& 0o050) ||
    decide (old &&& 0o005 > new &&& 0o005)

end Rivia.Chmod
