/-
  Rivia.Model.Str — text is `List Char` everywhere inside the model (DESIGN §4).
  Import-free so that the driver links as a native executable.
-/
namespace Rivia

abbrev Str := List Char

namespace Str

/-- UTF-8 length in bytes (Rust `str::len`). -/
def byteLen : Str → Nat
  | [] => 0
  | c :: cs => c.utf8Size + byteLen cs

/-- Rust `&s[n..]` for a byte index `n`: `none` = panic (not on a char boundary / out of range). -/
def dropBytes : Str → Nat → Option Str
  | s, 0 => some s
  | [], _ + 1 => none
  | c :: cs, n + 1 => if c.utf8Size ≤ n + 1 then dropBytes cs (n + 1 - c.utf8Size) else none

/-- Rust `&s[..n]` for a byte index `n`: `none` = panic. -/
def takeBytes : Str → Nat → Option Str
  | _, 0 => some []
  | [], _ + 1 => none
  | c :: cs, n + 1 =>
    if c.utf8Size ≤ n + 1 then (takeBytes cs (n + 1 - c.utf8Size)).map (c :: ·) else none

/-- Split on a separator character; always returns at least one piece (like Rust `str::split`). -/
def splitOn (sep : Char) : Str → List Str
  | [] => [[]]
  | c :: cs =>
    if c = sep then [] :: splitOn sep cs
    else match splitOn sep cs with
      | [] => [[c]]
      | h :: t => (c :: h) :: t

/-- `intercalate`-style join with a single separator char. -/
def joinWith (sep : Char) : List Str → Str
  | [] => []
  | [x] => x
  | x :: y :: rest => x ++ sep :: joinWith sep (y :: rest)

def startsWith (s p : Str) : Bool := p.isPrefixOf s
def endsWith (s p : Str) : Bool := p.isSuffixOf s

/-- Substring test (Rust `str::contains(&str)`). -/
def contains : Str → Str → Bool
  | [], p => p.isEmpty
  | s@(_ :: cs), p => p.isPrefixOf s || contains cs p

/-- Index (in chars) of the first occurrence of `p` in `s` (Rust `find`, but in chars). -/
def findIdx : Str → Str → Option Nat
  | [], p => if p.isEmpty then some 0 else none
  | s@(_ :: cs), p => if p.isPrefixOf s then some 0 else (findIdx cs p).map (· + 1)

/-- ASCII lower-casing; the model of `to_lowercase` (DESIGN §4, validated over all scalars). -/
def lowerChar (c : Char) : Char :=
  if 'A'.val ≤ c.val ∧ c.val ≤ 'Z'.val then Char.ofNat (c.toNat + 32) else c

def lower (s : Str) : Str := s.map lowerChar

/-- Rust `trim_start_matches(pat)` for a non-empty pattern: strips repeatedly. Fuel = length. -/
def trimStartMatchesAux (pat : Str) : Nat → Str → Str
  | 0, s => s
  | fuel + 1, s => if pat.isPrefixOf s then trimStartMatchesAux pat fuel (s.drop pat.length) else s

def trimStartMatches (s pat : Str) : Str :=
  if pat.isEmpty then s else trimStartMatchesAux pat s.length s

end Str
end Rivia
