/-
  Rivia.Model.Core — transcription of `src/core/{iter,string,option,peekable}.rs`.
  A finite double-ended cloneable iterator is modelled by the list of items it still yields.
  `isize`/`usize` arithmetic is modelled on `Int`/`Nat` with the casts made explicit.
-/
import Rivia.Model.Str
import Rivia.Model.Outcome

namespace Rivia.Core
open Rivia

def isizeMin : Int := -(2 ^ 63)
def isizeMax : Int := 2 ^ 63 - 1
def usizeMod : Nat := 2 ^ 64

/-- `x as usize` for an `isize` value -/
def asUsize (x : Int) : Nat := (x % (2 ^ 64 : Int)).toNat

/-- `Iterator::nth(k)` used for its side effect: consumes `k+1` items from the front. -/
def nthFront {α} (l : List α) (k : Nat) : List α := l.drop (k + 1)

/-- `(&mut it).rev().nth(k)`: consumes `k+1` items from the back. -/
def nthBack {α} (l : List α) (k : Nat) : List α := l.take (l.length - (k + 1))

/-- `IteratorExt::consume` — returns the exhausted iterator. -/
def consume {α} (_ : List α) : List α := []

/-- `IteratorExt::drop(n)` -/
def drop {α} (l : List α) (n : Int) : List α :=
  if n > 0 then nthFront l (n.toNat - 1)
  else if n < 0 then nthBack l (n.natAbs - 1)
  else l

def first {α} (l : List α) : Option α := l.head?

def firstResult {α} (l : List α) : Outcome α :=
  match l with
  | a :: _ => .ok a
  | [] => .err .iterItemNotFound

def lastResult {α} (l : List α) : Outcome α :=
  match l.getLast? with
  | some a => .ok a
  | none => .err .iterItemNotFound

def single {α} (l : List α) : Outcome α :=
  match l with
  | [] => .err .iterItemNotFound
  | [a] => .ok a
  | _ :: _ :: _ => .err .iterMultipleItemsFound

def hasSome {α} (l : List α) : Bool := !l.isEmpty

/-- `IteratorExt::slice(left, right)`; `left`, `right` range over `isize`. None of the arithmetic
    can overflow (`unsigned_abs`, guarded subtractions), so the function is total. -/
def slice {α} (l0 : List α) (left right : Int) : List α :=
  let len : Int := l0.length
  -- Convert left to positive notation and trim
  let l : Nat := if left < 0 then asUsize (len + left) else asUsize left
  let it := if l > 0 then nthFront l0 (l - 1) else l0
  -- Convert right to negative notation and trim (the original `len` is used)
  let r : Nat :=
    if right ≥ 0 ∧ right < len then (right - len + 1).natAbs
    else if right < 0 ∧ right.natAbs ≤ l0.length then (right.natAbs - 1)
    else if right < 0 then l0.length
    else 0
  if r > 0 then nthBack it (r - 1) else it

/-- `StringExt::size` -/
def size (s : Str) : Nat := s.length

/-- `StringExt::to_bool` -/
def toBool (s : Str) : Bool :=
  let x := Str.lower s
  !(x.isEmpty || x == "false".toList || x == "0".toList)

/-- `StringExt::trim_suffix` (byte-correct, unlike `sys::trim_suffix`) -/
def trimSuffix (s suf : Str) : Str :=
  if suf.isSuffixOf s then s.take (s.length - suf.length) else s

/-- `OptionExt::has` -/
def has {α} [DecidableEq α] (o : Option α) (x : α) : Bool :=
  match o with
  | some y => x = y
  | none => false

/-- `take_while_p`: collected prefix and the iterator left behind (first failing item kept). -/
def takeWhileP {α} (p : α → Bool) : List α → List α × List α
  | [] => ([], [])
  | a :: as => if p a then let (t, r) := takeWhileP p as; (a :: t, r) else ([], a :: as)

end Rivia.Core
