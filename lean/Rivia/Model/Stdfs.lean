/-
  Rivia.Model.Stdfs — transcription of the real-filesystem backend
  (`src/sys/fs/stdfs/{mod,entry}.rs`) as compositions of the syscalls of `Rivia.Model.Posix`, IN THE
  ORDER the Rust code makes them.  `step : Env → T → Op → Outcome Val × T` has the same shape as
  `Memfs.step`; results use the same `Val` constructors.

  Differential check (2026-09-30, rustc 1.95, Linux, as root): random scripts of up to 80 calls over a
  five-name universe, cut at the first call outside the domain (an argument or link target that
  passes THROUGH a link), replayed against the real `Stdfs` in a sandbox (600 scripts before the
  repairs, 250 after the first five, 250 after all of them, each against the tree of the time): every returned value and the final tree (names,
  kinds, permission bits, link texts, bytes, process cwd) agree, except for the spelling of a moved link's text.

  Conventions
  * Every user-supplied path goes through `absP` (= `Stdfs::abs`, the string pipeline of Model/Path,
    against the process cwd) and is then parsed into a key; `Path::dir()?` on a key is `dropLast`
    (`ParentNotFound` for `/`), as in the Memfs model.  Where the Rust code hands a path it computed
    itself to another `Stdfs::` function (which calls `abs` AGAIN, re-expanding `~`/`$`), the model
    renders the key and calls the string version.
  * `Stdfs::is_dir` / `Stdfs::is_file` (since fix 0b4a978) are `abs` + `symlink_metadata`, like every
    other query.  Where the Rust code applies them (or `Stdfs::exists`) to a path that already IS the
    result of `abs`, the model uses the key-level `lstat`/`stat` directly: `abs` is the identity on
    such a path unless one of its names contains `~` or `$` (C05, idempotence).
  * This file follows the tree with the five repairs 0b4a978 (is_dir/is_file), 07b9520 (remove),
    fb609ee (remove_all), 65f3327 (mkdir_m), 1506af7 (readlink_abs), c6af400 (mkdir_p), fcf2bdc (all_*),
    82971d7 + 84ccdca (copy).
  * io errors are mapped by `ioErr`; C02 compares success with failure only.
  * NOT MODELLED (return `.err .other`): `entry`, `entries`, the open-handle operations
    (`hWrite … hDrop`: a `File` is kernel state the tree does not have), `follow = true` for
    `chmod_b`/`chown_b`/`copy_b`.  Unsorted traversals (`chown`, `copy`) visit siblings in name order
    (the real `readdir` order is unspecified; it matters only for which error comes first).
-/
import Rivia.Model.Posix

namespace Rivia.Stdfs
open Rivia Rivia.Memfs Rivia.File Rivia.Spec.TreeFs Rivia.Posix

/-! ### plumbing -/

def ioErr : Errno → ErrKind
  | .ENOENT => .ioNotFound
  | .EINVAL => .ioInvalidInput
  | _ => .ioOther

/-- `?` on an `io::Result` -/
def io {α} : Except Errno α → Outcome α
  | .ok a => .ok a
  | .error e => .err (ioErr e)

abbrev SM (α : Type) := T → Outcome α × T

namespace SM
@[inline] def pure {α} (a : α) : SM α := fun t => (.ok a, t)
@[inline] def bind {α β} (m : SM α) (f : α → SM β) : SM β := fun t =>
  match m t with
  | (.ok a, t') => f a t'
  | (.err k, t') => (.err k, t')
  | (.panic, t') => (.panic, t')
  | (.hang, t') => (.hang, t')
instance : Monad SM where
  pure := SM.pure
  bind := SM.bind
def fail {α} (k : ErrKind) : SM α := fun t => (.err k, t)
def getT : SM T := fun t => (.ok t, t)
def liftO {α} (o : Outcome α) : SM α := fun t => (o, t)
/-- a syscall that only reads -/
def qry {α} (f : T → Except Errno α) : SM α := fun t => (io (f t), t)
/-- a syscall that changes the tree (nothing changes when it fails) -/
def sysM (f : T → Except Errno T) : SM Unit := fun t =>
  match f t with
  | .ok t' => (.ok (), t')
  | .error e => (.err (ioErr e), t)
end SM
open SM

def mapVal {α} (f : α → Val) (m : SM α) : SM Val := fun t =>
  match m t with
  | (.ok a, t') => (.ok (f a), t')
  | (.err k, t') => (.err k, t')
  | (.panic, t') => (.panic, t')
  | (.hang, t') => (.hang, t')

/-! ### `Stdfs::abs` -/

/-- `Stdfs::abs`: the pipeline `absStdWith` against `std::env::current_dir()`.  `Stdfs::cwd()?` is only
    evaluated for a path that is still relative after expansion and cleaning; it fails once the
    process cwd has been removed. -/
def absP (env : Env) (t : T) (s : Str) : Outcome Str :=
  if isDir t t.cwd then absStdWith env (renderP t.cwd) s
  else if isEmpty s then .err .empty
  else match expand env s with
    | .ok p =>
      match cleanO (trimProtocol p) with
      | none => .panic
      | some c => if isAbsolute c then .ok c else .err .ioNotFound
    | .err k => .err k
    | .panic => .panic
    | .hang => .hang

/-- `abs`, parsed into a key -/
def absK (env : Env) (t : T) (s : Str) : Outcome FsPath :=
  match absP env t s with
  | .ok a => .ok (toPath a)
  | .err k => .err k
  | .panic => .panic
  | .hang => .hang

def absM (env : Env) (s : Str) : SM FsPath := fun t => (absK env t s, t)

/-- `Path::dir()?` on a key -/
def dirOf (k : FsPath) : SM FsPath := if k = [] then fail .parentNotFound else SM.pure k.dropLast

/-- `Stdfs::is_dir(&p)` / `Stdfs::is_file(&p)` applied to an absolute clean path (the result of `abs`) -/
def isDirK (t : T) (k : FsPath) : Bool := match lstat t k with | .ok n => n.kind = .dir | .error _ => false
def isFileK (t : T) (k : FsPath) : Bool := match lstat t k with | .ok n => n.kind = .file | .error _ => false

/-- `Stdfs::is_dir(p)` / `Stdfs::is_file(p)` on a user string: `abs` (an error counts as `false`),
    then `symlink_metadata` -/
def isDirS (env : Env) (t : T) (s : Str) : Bool :=
  match absK env t s with
  | .ok k => isDirK t k
  | _ => false

/-- `Stdfs::exists(p)`: `abs` errors count as "does not exist"; `fs::metadata` follows links -/
def existsS (env : Env) (t : T) (s : Str) : Bool :=
  match absK env t s with
  | .ok k => Posix.exists t k
  | _ => false

/-! ### `StdfsEntry::from` -/

structure SEntry where
  path : FsPath      -- `path` (the result of `abs`, as a key)
  alt : Str          -- `alt`: empty unless a link
  dir : Bool         -- of the TARGET for a link (`fs::metadata` follows)
  file : Bool
  link : Bool
  mode : Nat         -- `st_mode` of the target for a link
  deriving Repr, DecidableEq

/-- `StdfsEntry::from(path)`: `abs`; `exists` (follows: a dangling link "does not exist");
    `symlink_metadata`; for a link `read_link`, `abs` of the text joined to the link's directory,
    `relative` (needs `dir()` again), then `metadata` of the target replaces the link's own. -/
def entryFrom (env : Env) (t : T) (p : Str) : Outcome SEntry :=
  match absK env t p with
  | .err k => .err k
  | .panic => .panic
  | .hang => .hang
  | .ok k =>
    if !(Posix.exists t k) then .err .doesNotExist
    else match lstat t k with
      | .error e => .err (ioErr e)
      | .ok n =>
        match n.kind with
        | .link _ =>
          match readlink t k with
          | .error e => .err (ioErr e)
          | .ok text =>
            if k = [] then .err .parentNotFound     -- `path.dir()?` (a link is never `/`)
            else
              let tstr := if isAbsolute text then text else mash (renderP k.dropLast) text
              match absP env t tstr with
              | .err e => .err e
              | .panic => .panic
              | .hang => .hang
              | .ok alt =>
                match stat t k with
                | .error e => .err (ioErr e)
                | .ok m => .ok ⟨k, alt, m.kind = .dir, m.kind = .file, true, m.mode⟩
        | _ => .ok ⟨k, [], n.kind = .dir, n.kind = .file, false, n.mode⟩

/-- the `match StdfsEntry::from(path) { Ok(x) => f(x), _ => false }` queries -/
def entryBool (env : Env) (t : T) (p : Str) (f : SEntry → Bool) : Outcome Val :=
  match entryFrom env t p with
  | .ok e => .ok (.bool (f e))
  | .panic => .panic
  | _ => .ok (.bool false)

/-- the `match Stdfs::abs(path) { Ok(x) => match fs::metadata(x) { Ok(y) => f(y), .. } .. }` queries -/
def statBool (env : Env) (t : T) (p : Str) (f : Node → Bool) : Outcome Val :=
  match absK env t p with
  | .ok k => .ok (.bool (match stat t k with | .ok n => f n | .error _ => false))
  | .panic => .panic
  | _ => .ok (.bool false)

/-! ### creators and content -/

/-- `Stdfs::mkfile` -/
def mkfile (env : Env) (p : Str) : SM FsPath := do
  let k ← absM env p
  let d ← dirOf k
  let t ← getT
  -- `if let Ok(meta) = fs::symlink_metadata(&dir) { if !meta.is_dir() { IsNotDir } } else { DoesNotExist }`
  match lstat t d with
  | .ok n => if n.kind ≠ .dir then fail .isNotDir else SM.pure ()
  | .error _ => fail .doesNotExist
  -- `if let Ok(meta) = fs::symlink_metadata(&path) { if !meta.is_file() { IsNotFile } } else { File::create }`
  match lstat t k with
  | .ok n => if n.kind ≠ .file then fail .isNotFile else SM.pure ()
  | .error _ => sysM (fun t => (createFile t k).map (·.2))
  return k

/-- `Stdfs::mkfile_m`: `mkfile`, then `fs::set_permissions` -/
def mkfileM (env : Env) (p : Str) (mode : Nat) : SM FsPath := do
  let k ← mkfile env p
  sysM (Posix.chmod · k mode)
  return k

/-- `Stdfs::mkdir_m`: for every prefix of the absolute path, `if !path.exists() { create_dir;
    set_permissions } else if !path.is_dir() { return Err(IsNotDir) }` (`Path::exists` / `Path::is_dir`:
    `stat`, following links) -/
def mkdirM (env : Env) (p : Str) (mode : Nat) : SM FsPath := do
  let k ← absM env p
  (prefixes k).forM (fun q => do
    let t ← getT
    if !(Posix.exists t q) then
      sysM (Posix.mkdir · q 0o777)
      sysM (Posix.chmod · q mode)
    else if !(statIsDir t q) then fail .isNotDir)
  return k

/-- `Stdfs::mkdir_p` (since fix c6af400 the kind test is `Path::is_dir`: `stat`, follows a final link) -/
def mkdirP (env : Env) (p : Str) : SM FsPath := do
  let k ← absM env p
  let t ← getT
  if !(Posix.exists t k) then sysM (createDirAll · (k.length + 1) k)
  else if !(statIsDir t k) then fail .isNotDir
  return k

/-- `Stdfs::write_all` -/
def writeAll (env : Env) (p : Str) (data : Bytes) : SM Unit := do
  let k ← absM env p
  let d ← dirOf k
  let t ← getT
  if Posix.exists t d then (if !(isDirK t d) then fail .isNotDir else SM.pure ())
  else fail .doesNotExist
  if Posix.exists t k && !(isFileK t k) then fail .isNotFile
  -- `File::create`, `write_all`, `sync_all`
  fun t => match createFile t k with
    | .ok (fk, t1) => (.ok (), writeFd t1 fk data)
    | .error e => (.err (ioErr e), t)

/-- `Stdfs::append_all`: `mkfile(&path)?`, `abs(path)?` again, open with `O_APPEND`, write, flush -/
def appendAll (env : Env) (p : Str) (data : Bytes) : SM Unit := do
  let _ ← mkfile env p
  let k ← absM env p
  fun t => match openAppend t k with
    | .ok fk => (.ok (), writeFd t fk data)
    | .error e => (.err (ioErr e), t)

def writeLines (env : Env) (p : Str) (ls : List Str) : SM Unit :=
  match joinLines ls with
  | some b => writeAll env p b
  | none => SM.pure ()

def appendLines (env : Env) (p : Str) (ls : List Str) : SM Unit :=
  match joinLines ls with
  | some b => appendAll env p b
  | none => SM.pure ()

def appendLine (env : Env) (p : Str) (l : Str) : SM Unit :=
  if l = [] then SM.pure () else appendAll env p (utf8 l ++ [nl])

/-- `Stdfs::read_all`: `symlink_metadata` must say regular file, then `read_to_string` -/
def readAll (env : Env) (p : Str) : SM Str := do
  let k ← absM env p
  let t ← getT
  match lstat t k with
  | .ok n =>
    if n.kind ≠ .file then fail .isNotFile
    else
      let b ← qry (readFile · k)
      match decodeUtf8 b with
      | some s => return s
      | none => fail .ioInvalidData
  | .error _ => fail .doesNotExist

/-- `Stdfs::read` (the bytes the returned handle yields) -/
def read (env : Env) (p : Str) : SM Bytes := do
  let k ← absM env p
  let t ← getT
  if Posix.exists t k then (if !(isFileK t k) then fail .isNotFile else SM.pure ())
  else fail .doesNotExist
  qry (readFile · k)

/-- `Stdfs::read_lines`: `BufReader::lines()` over `Stdfs::read`; a line that is not UTF-8 is an error
    (some line is invalid iff the whole content is) -/
def readLines (env : Env) (p : Str) : SM (List Str) := do
  let b ← read env p
  match decodeUtf8 b with
  | some s => return splitLines s
  | none => fail .ioInvalidData

/-! ### remove -/

/-- `Stdfs::remove`: `symlink_metadata` (no following); anything but a directory → `remove_file`;
    a directory → `remove_dir`; metadata error (missing path) → `Ok` -/
def remove (env : Env) (p : Str) : SM Unit := do
  let k ← absM env p
  let t ← getT
  match lstat t k with
  | .ok n =>
    if n.kind ≠ .dir then sysM (unlink · k)
    else
      fun t => match rmdir t k with
        | .ok t' => (.ok (), t')
        | .error .ENOTEMPTY => (.err .dirContainsFiles, t)     -- message contains "Directory not empty"
        | .error e => (.err (ioErr e), t)
  | .error _ => SM.pure ()

/-- `Stdfs::remove_all`: `symlink_metadata`; a directory → `fs::remove_dir_all`, anything else →
    `fs::remove_file`; missing → `Ok` -/
def removeAll (env : Env) (p : Str) : SM Unit := do
  let k ← absM env p
  let t ← getT
  match lstat t k with
  | .ok n => if n.kind = .dir then sysM (removeDirAll · k) else sysM (unlink · k)
  | .error _ => SM.pure ()

/-! ### links, cwd, move -/

/-- `Stdfs::symlink(link, target)` -/
def symlink (env : Env) (link target : Str) : SM FsPath := do
  let l ← absM env link
  -- `Stdfs::abs(if !target.is_absolute() { link.dir()?.mash(target) } else { target })?`
  let tstr ← if isAbsolute target then SM.pure target else do
    let d ← dirOf l
    SM.pure (mash (renderP d) target)
  let tg ← absM env tstr
  -- `target.relative(link.dir()?)?` — the text; the model keeps the key it denotes
  let _ ← dirOf l
  sysM (symlinkat · l tg)
  return l

/-- `Stdfs::readlink`: the stored text -/
def readlinkS (env : Env) (p : Str) : SM Str := do
  let k ← absM env p
  qry (readlink · k)

/-- `Stdfs::readlink_abs`: `StdfsEntry::from(link)?`; IsNotSymlink unless the entry is a link; its `alt` -/
def readlinkAbs (env : Env) (p : Str) : SM Val := fun t =>
  match entryFrom env t p with
  | .ok e => (if e.link then .ok (.path (toPath e.alt)) else .err .isNotSymlink, t)
  | .err k => (.err k, t)
  | .panic => (.panic, t)
  | .hang => (.hang, t)

/-- `Stdfs::set_cwd`: returns the path it was given (resolved lexically), whatever the kernel reached -/
def setCwd (env : Env) (p : Str) : SM FsPath := do
  let k ← absM env p
  sysM (chdir · k)
  return k

/-- `Stdfs::move_p`: one `rename(2)` -/
def moveP (env : Env) (s d : Str) : SM Unit := do
  let sk ← absM env s
  let dk ← absM env d
  let t ← getT
  let copyInto := isDirK t dk
  -- `dst_root.mash(src_path.base()?)`
  let dst := if copyInto then toPath (mash (renderP dk) (baseName sk)) else dk
  sysM (rename · sk dst)

/-! ### traversal (`Entries` over `fs::read_dir` + `StdfsEntry::from`) -/

def sequenceO {α} : List (Outcome α) → Outcome (List α)
  | [] => .ok []
  | .ok a :: r => (match sequenceO r with | .ok l => .ok (a :: l) | .err k => .err k | .panic => .panic | .hang => .hang)
  | .err k :: _ => .err k
  | .panic :: _ => .panic
  | .hang :: _ => .hang

def insertBy (le : SEntry → SEntry → Bool) (x : SEntry) : List SEntry → List SEntry
  | [] => [x]
  | y :: ys => if le x y then x :: y :: ys else y :: insertBy le x ys

/-- `x.file_name().cmp(&y.file_name())`, stable -/
def sortByName (l : List SEntry) : List SEntry :=
  l.foldr (insertBy (fun a b => strLe (baseName a.path) (baseName b.path))) []

/-- the entries of one directory as a CACHED iterator holds them: every `DirEntry::path()` goes through
    `StdfsEntry::from` (and therefore `abs`); errors sort before everything else, so one bad child
    (e.g. a dangling link) fails the whole directory before any sibling is seen -/
def childEntries (env : Env) (t : T) (k : FsPath) : Outcome (List SEntry) :=
  match readDir t k with
  | .error e => .err (ioErr e)
  | .ok names => sequenceO (names.map (fun n => entryFrom env t (renderP (k ++ [n]))))

/-- `self.iters.len() < self.opts.max_depth`; `none` = `usize::MAX` (deeper than any path can be) -/
def belowMax (depth : Nat) : Option Nat → Bool
  | some m => decide (depth < m)
  | none => true

/-- one iteration of the consumer loop over the (sorted) entries of a directory: the entry itself if the
    filter accepts it, then whatever the walk below it yields; the first error ends everything -/
def listStep (want : SEntry → Bool) (below : SEntry → Outcome (List FsPath))
    (acc : Outcome (List FsPath)) (c : SEntry) : Outcome (List FsPath) :=
  match acc with
  | .ok ps =>
    (match below c with
     | .ok qs => .ok (ps ++ (if want c then [c.path] else []) ++ qs)
     | o => o)
  | o => o

/-- what a sorted traversal with `min_depth(1)` yields below `e` (pre-order, siblings by name); only
    real directories are descended into (`follow = false`); `want` is the `dirs()`/`files()` filter -/
def listKids (env : Env) (t : T) (want : SEntry → Bool) (maxDepth : Option Nat) :
    Nat → Nat → SEntry → Outcome (List FsPath)
  | 0, _, _ => .hang
  | f + 1, depth, e =>
    if e.dir && !e.link && belowMax depth maxDepth then
      match childEntries env t e.path with
      | .ok kids => (sortByName kids).foldl (listStep want (listKids env t want maxDepth f (depth + 1))) (.ok [])
      | .err k => .err k
      | .panic => .panic
      | .hang => .hang
    else .ok []

/-- fuel of a traversal: more than the length of the longest key (each level of recursion uses one) -/
def walkFuel (t : T) : Nat := t.nodes.foldl (fun m kv => max m kv.1.length) 0 + 2

/-- `paths` / `dirs` / `files`: `if !Stdfs::is_dir(&path)`, then `Stdfs::entries(path)?` with
    `min_depth(1).max_depth(1).sort_by_name()` -/
def listing1 (env : Env) (p : Str) (want : SEntry → Bool) : SM (List FsPath) := fun t =>
  if !(isDirS env t p) then (.err .isNotDir, t)
  else match entryFrom env t p with
    | .ok e => (listKids env t want (some 1) (walkFuel t) 0 e, t)
    | .err k => (.err k, t)
    | .panic => (.panic, t)
    | .hang => (.hang, t)

/-- `all_paths` / `all_dirs` / `all_files`: `StdfsEntry::from(path)?`, IsNotDir unless the entry
    `is_dir() && !is_symlink()` (fix fcf2bdc), then `Stdfs::entries(src.path())?` -/
def listingAll (env : Env) (p : Str) (want : SEntry → Bool) : SM (List FsPath) := fun t =>
  match entryFrom env t p with
  | .ok src =>
    if !src.dir || src.link then (.err .isNotDir, t)
    else match entryFrom env t (renderP src.path) with
      | .ok e => (listKids env t want none (walkFuel t) 0 e, t)
      | .err k => (.err k, t)
      | .panic => (.panic, t)
      | .hang => (.hang, t)
  | .err k => (.err k, t)
  | .panic => (.panic, t)
  | .hang => (.hang, t)

def wantAll : SEntry → Bool := fun _ => true
-- `.dirs()` keeps `x.is_dir()` (true for links to directories as well); the collecting loop then skips
-- links: `let entry = entry?; if entry.is_symlink() { continue; } paths.push(entry.path_buf());`
-- (repair of S7 / `listing_includes_links`; `want` only decides what is collected, never the descent)
def wantDirs : SEntry → Bool := fun e => e.dir && !e.link
-- `.files()` keeps `x.is_file()` (true for links to files as well); same skip of links in the loop
def wantFiles : SEntry → Bool := fun e => e.file && !e.link

/-! ### chmod -/

def setPerm (t : T) (k : FsPath) (m : Nat) : Outcome Unit × T :=
  match Posix.chmod t k m with
  | .ok t' => (.ok (), t')
  | .error e => (.err (ioErr e), t)

def ekind (e : SEntry) : Chmod.EKind := ⟨e.dir, e.file, e.link⟩

/-- the `pre_op` closure of `_chmod` (runs on a directory before it is read) -/
def chmodPre (c : ChmodOpts) (x : SEntry) (t : T) : Outcome Unit × T :=
  match Chmod.mode (ekind x) x.mode c.dirs c.sym with
  | .ok m1 =>
    if (!x.link || c.follow) && x.dir && m1 ≠ 0 && !Chmod.revokingMode x.mode m1 && x.mode ≠ m1 then
      setPerm t x.path m1
    else (.ok (), t)
  | .err k => (.err k, t)
  | .panic => (.panic, t)
  | .hang => (.hang, t)

/-- the body of the `for entry in entries` loop of `_chmod` (`src.mode()` is the snapshot taken when
    the parent directory was read) -/
def chmodPost (c : ChmodOpts) (src : SEntry) (t : T) : Outcome Unit × T :=
  let m2o : Outcome Nat :=
    if src.dir then Chmod.mode (ekind src) src.mode c.dirs c.sym
    else if src.file then Chmod.mode (ekind src) src.mode c.files c.sym
    else .ok 0
  match m2o with
  | .ok m2 =>
    if (!src.link || c.follow) && m2 ≠ src.mode && m2 ≠ 0 then setPerm t src.path m2 else (.ok (), t)
  | .err k => (.err k, t)
  | .panic => (.panic, t)
  | .hang => (.hang, t)

/-- one iteration over the cached entries of a directory; the first error ends everything -/
def visitStep (below : SEntry → T → Outcome Unit × T) (acc : Outcome Unit × T) (k : SEntry) : Outcome Unit × T :=
  match acc with
  | (.ok (), tt) => below k tt
  | r => r

/-- `contents_first().dirs_first()` traversal without following: a real directory runs `pre_op`, is
    read (children snapshotted; an error among them ends everything), its children are visited —
    directories (links to directories included) by name, then the rest by name — and only then the
    directory itself is yielded -/
def chmodVisit (env : Env) (c : ChmodOpts) (maxDepth : Option Nat) : Nat → Nat → SEntry → T → Outcome Unit × T
  | 0, _, _, t => (.hang, t)
  | f + 1, depth, e, t =>
    if e.dir && !e.link && belowMax depth maxDepth then
      match chmodPre c e t with
      | (.ok (), t1) =>
        match childEntries env t1 e.path with
        | .ok kids =>
          let ordered := sortByName (kids.filter (·.dir)) ++ sortByName (kids.filter (fun x => !x.dir))
          match ordered.foldl (visitStep (chmodVisit env c maxDepth f (depth + 1))) ((.ok (), t1) : Outcome Unit × T) with
          | (.ok (), t2) => chmodPost c e t2
          | r => r
        | .err k => (.err k, t1)
        | .panic => (.panic, t1)
        | .hang => (.hang, t1)
      | r => r
    else chmodPost c e t

/-- `Stdfs::_chmod` (`chmod_b(path)` resolves the path when the builder is made) -/
def chmod (env : Env) (p : Str) (c : ChmodOpts) : SM Unit := fun t =>
  if c.follow then (.err .other, t)      -- NOT MODELLED: following links during the traversal
  else match absK env t p with
    | .ok k =>
      -- `Stdfs::entries(&opts.path)?`
      (match entryFrom env t (renderP k) with
       | .ok e => chmodVisit env c (if c.recursive then none else some 0) (walkFuel t) 0 e t
       | .err kk => (.err kk, t)
       | .panic => (.panic, t)
       | .hang => (.hang, t))
    | .err k => (.err k, t)
    | .panic => (.panic, t)
    | .hang => (.hang, t)

/-! ### pre-order traversal with a mutating consumer (`_chown`, `_copy`) -/

/-- one iteration over the names of an open directory: the child is turned into an entry in the
    CURRENT tree (lazy iterator), then visited; the first error ends everything -/
def walkStep (env : Env) (below : SEntry → SM Unit) (dir : FsPath) (acc : Outcome Unit × T) (n : Str) :
    Outcome Unit × T :=
  match acc with
  | (.ok (), tt) =>
    (match entryFrom env tt (renderP (dir ++ [n])) with
     | .ok c => below c tt
     | .err k => (.err k, tt)
     | .panic => (.panic, tt)
     | .hang => (.hang, tt))
  | r => r

/-- pre-order, not following: a real directory is opened (`read_dir`: the names are fixed now), then
    yielded, then each child is turned into an entry WHEN IT IS REACHED (lazy iterator) and visited -/
def walkPre (env : Env) (stepf : SEntry → SM Unit) (maxDepth : Option Nat) : Nat → Nat → SEntry → SM Unit
  | 0, _, _ => fun t => (.hang, t)
  | f + 1, depth, e => fun t =>
    if e.dir && !e.link && belowMax depth maxDepth then
      match readDir t e.path with
      | .error er => (.err (ioErr er), t)
      | .ok names =>
        match stepf e t with
        | (.ok (), t1) =>
          names.foldl (walkStep env (walkPre env stepf maxDepth f (depth + 1)) e.path)
            ((.ok (), t1) : Outcome Unit × T)
        | r => r
    else stepf e t

/-- `Stdfs::_chown`: `nix::unistd::chown(src.path(), uid, gid)` (follows links) on every entry -/
def chown (env : Env) (p : Str) (c : ChownOpts) : SM Unit := fun t =>
  if c.follow then (.err .other, t)      -- NOT MODELLED
  else match absK env t p with
    | .ok k =>
      (match entryFrom env t (renderP k) with
       | .ok e => walkPre env (fun x => sysM (Posix.chown · x.path c.uid c.gid))
                    (if c.recursive then none else some 0) (walkFuel t) 0 e t
       | .err kk => (.err kk, t)
       | .panic => (.panic, t)
       | .hang => (.hang, t))
    | .err k => (.err k, t)
    | .panic => (.panic, t)
    | .hang => (.hang, t)

/-- the body of the `for entry in …` loop of `Stdfs::_copy` (`follow = false`) -/
def copyStep (env : Env) (srcRoot dstRoot : FsPath) (copyInto : Bool) (dirMode fileMode : Option Nat)
    (src : SEntry) : SM Unit := do
  -- `dst_root.mash(src.path().trim_prefix(…))`, on the string forms
  let pre ← if copyInto then dirOf srcRoot else SM.pure srcRoot
  let dstPath := dstOf dstRoot src.path pre
  if src.link then
    -- `Stdfs::symlink(dst_path, src.alt())?`
    let _ ← symlink env (renderP dstPath) src.alt
  else if src.dir then
    -- `Stdfs::mkdir_m(&dst_path, dir_mode.unwrap_or(src.mode()))?` (the mode carries the type bits)
    let _ ← mkdirM env (renderP dstPath) (dirMode.getD src.mode)
  else
    let dd ← dirOf dstPath
    let t ← getT
    if !(existsS env t (renderP dd)) then
      let pm ← match dirMode with
        | some x => SM.pure x
        | none => do
          let sd ← dirOf src.path
          let pe ← liftO (entryFrom env t (renderP sd))
          SM.pure pe.mode
      let _ ← mkdirM env (renderP dd) pm
    -- `if !same { fs::copy(src.path(), &dst_path)?; }` where `same` compares `st_dev`/`st_ino` of the two
    -- `fs::metadata` (fix 84ccdca): a file that lands on itself (also through links) is left alone
    let t' ← getT
    if !(sameFile t' src.path dstPath) then sysM (copyFile · src.path dstPath)
    match fileMode with
    | some m => sysM (Posix.chmod · dstPath m)
    | none => SM.pure ()

/-- one iteration of the COLLECTING traversal over the names of an open directory (all in the same,
    unchanged tree): the child's entry, then everything its walk yields; an `Err` item ends the list -/
def collectStep (env : Env) (t : T) (below : SEntry → List SEntry × Outcome Unit) (dir : FsPath)
    (acc : List SEntry × Outcome Unit) (n : Str) : List SEntry × Outcome Unit :=
  match acc with
  | (items, .ok ()) =>
    (match entryFrom env t (renderP (dir ++ [n])) with
     | .ok c => let r := below c; (items ++ r.1, r.2)
     | .err k => (items, .err k)
     | .panic => (items, .panic)
     | .hang => (items, .hang))
  | r => r

/-- `Stdfs::entries(root)?.into_iter().collect::<Vec<_>>()` (pre-order, not following): the `Ok` items
    up to the first `Err` item, and how the iteration ended -/
def collectPre (env : Env) (t : T) (maxDepth : Option Nat) : Nat → Nat → SEntry → List SEntry × Outcome Unit
  | 0, _, _ => ([], .hang)
  | f + 1, depth, e =>
    if e.dir && !e.link && belowMax depth maxDepth then
      match readDir t e.path with
      | .error er => ([], .err (ioErr er))
      | .ok names => names.foldl (collectStep env t (collectPre env t maxDepth f (depth + 1)) e.path) ([e], .ok ())
    else ([e], .ok ())

/-- `Stdfs::_copy`: the source tree is read BEFORE anything is written (fix 82971d7), then the loop
    body runs over that fixed list -/
def copy (env : Env) (src dst : Str) (c : CopyOpts) : SM Unit := do
  let srcRoot ← absM env src
  let dstRoot ← absM env dst
  if srcRoot = dstRoot then return ()
  if c.follow then fail .other             -- NOT MODELLED
  let dirMode := match c.mode with | some x => if c.cdirs ∨ !c.cfiles then some x else none | none => none
  let fileMode := match c.mode with | some x => if c.cfiles ∨ !c.cdirs then some x else none | none => none
  let t ← getT
  let copyInto := isDirK t dstRoot
  -- `StdfsEntry::from(&src_root)?.follow(false)`, then `Stdfs::entries(src_root.path())?`
  let rootE ← liftO (entryFrom env t (renderP srcRoot))
  let travRoot ← liftO (entryFrom env t (renderP rootE.path))
  let (items, fin) := collectPre env t none (walkFuel t) 0 travRoot
  items.forM (copyStep env rootE.path dstRoot copyInto dirMode fileMode)
  -- `let src = entry?;` on the `Err` item, if the traversal produced one
  liftO fin

/-! ### the trait surface -/

def notModelled (t : T) : Outcome Val × T := (.err .other, t)

def step (env : Env) (t : T) : Op → Outcome Val × T
  | .mkfile p => mapVal .path (mkfile env p) t
  | .mkfileM p mode => mapVal .path (mkfileM env p mode) t
  | .mkdirP p => mapVal .path (mkdirP env p) t
  | .mkdirM p mode => mapVal .path (mkdirM env p mode) t
  | .writeAll p d => mapVal (fun _ => .unit) (writeAll env p d) t
  | .appendAll p d => mapVal (fun _ => .unit) (appendAll env p d) t
  | .writeLines p ls => mapVal (fun _ => .unit) (writeLines env p ls) t
  | .appendLines p ls => mapVal (fun _ => .unit) (appendLines env p ls) t
  | .appendLine p l => mapVal (fun _ => .unit) (appendLine env p l) t
  | .readAll p => mapVal .str (readAll env p) t
  | .readLines p => mapVal .strs (readLines env p) t
  | .read p => mapVal .bytes (read env p) t
  | .remove p => mapVal (fun _ => .unit) (remove env p) t
  | .removeAll p => mapVal (fun _ => .unit) (removeAll env p) t
  | .symlink l tg => mapVal .path (symlink env l tg) t
  | .readlink p => mapVal .str (readlinkS env p) t
  | .readlinkAbs p => readlinkAbs env p t
  | .setCwd p => mapVal .path (setCwd env p) t
  | .cwd => (match getcwd t with | .ok k => .ok (.path k) | .error e => .err (ioErr e), t)
  | .root => (.ok (.path []), t)
  | .abs p => mapVal .path (absM env p) t
  | .exists p => (match absK env t p with
      | .ok k => .ok (.bool (Posix.exists t k)) | .panic => .panic | _ => .ok (.bool false), t)
  | .isFile p => (match absK env t p with
      | .ok k => .ok (.bool (isFileK t k)) | .panic => .panic | _ => .ok (.bool false), t)
  | .isDir p => (match absK env t p with
      | .ok k => .ok (.bool (isDirK t k)) | .panic => .panic | _ => .ok (.bool false), t)
  | .isSymlink p => (entryBool env t p (·.link), t)
  | .isSymlinkDir p => (entryBool env t p (fun e => e.link && e.dir), t)
  | .isSymlinkFile p => (entryBool env t p (fun e => e.link && e.file), t)
  | .isExec p => (statBool env t p (fun n => n.mode &&& 0o111 != 0), t)
  | .isReadonly p => (statBool env t p (fun n => n.mode &&& 0o222 == 0), t)
  | .mode p => mapVal .nat (do let k ← absM env p; let n ← qry (lstat · k); return n.mode) t
  | .uid p => mapVal .nat (do let k ← absM env p; let n ← qry (stat · k); return n.uid) t
  | .gid p => mapVal .nat (do let k ← absM env p; let n ← qry (stat · k); return n.gid) t
  | .owner p => mapVal (fun (x : Nat × Nat) => .pair x.1 x.2)
      (do let k ← absM env p; let n ← qry (stat · k); return (n.uid, n.gid)) t
  | .entry _ => notModelled t
  | .paths p => mapVal .paths (listing1 env p wantAll) t
  | .dirs p => mapVal .paths (listing1 env p wantDirs) t
  | .files p => mapVal .paths (listing1 env p wantFiles) t
  | .allPaths p => mapVal .paths (listingAll env p wantAll) t
  | .allDirs p => mapVal .paths (listingAll env p wantDirs) t
  | .allFiles p => mapVal .paths (listingAll env p wantFiles) t
  | .chmod p mode => mapVal (fun _ => .unit) (chmod env p { dirs := mode, files := mode }) t
  | .chmodB p c => mapVal (fun _ => .unit) (chmod env p c) t
  | .chown p uid gid => mapVal (fun _ => .unit) (chown env p { uid := some uid, gid := some gid }) t
  | .chownB p c => mapVal (fun _ => .unit) (chown env p c) t
  | .copy a b => mapVal (fun _ => .unit) (copy env a b {}) t
  | .copyB a b c => mapVal (fun _ => .unit) (copy env a b c) t
  | .moveP a b => mapVal (fun _ => .unit) (moveP env a b) t
  | .entries _ _ => notModelled t
  | .hWrite _ _ => notModelled t
  | .hAppend _ _ => notModelled t
  | .hPut _ _ => notModelled t
  | .hFlush _ => notModelled t
  | .hDrop _ => notModelled t

/-- run a history from a tree -/
def run (env : Env) : T → List Op → T
  | t, [] => t
  | t, op :: ops => run env (step env t op).2 ops

/-- the sandbox the harness starts from: an empty root directory -/
def init : T := { nodes := [([], newDir 0o755)], cwd := [] }

end Rivia.Stdfs
