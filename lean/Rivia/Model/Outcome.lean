/-
  Rivia.Model.Outcome — result of a modelled call: Ok / Err(kind) / panic / hang.
  Error kinds are the small enum the harness maps `RvError` onto (DESIGN §2.4).
-/
namespace Rivia

inductive ErrKind where
  | empty | doesNotExist | isNotDir | isNotFile | isNotSymlink | dirContainsFiles
  | parentNotFound | invalidExpansion | multipleHomeSymbols | existsAlready | linkLooping
  | extensionNotFound | fileNameNotFound | failedToString
  | var | utf8
  | ioNotFound | ioInvalidData | ioInvalidInput | ioOther
  | iterItemNotFound | iterMultipleItemsFound
  | invalidChmod | invalidChmodGroup | invalidChmodOp | invalidChmodPermissions
  | invalidChmodTarget
  | other
  deriving DecidableEq, Repr, Inhabited

def ErrKind.name : ErrKind → String
  | .empty => "Empty" | .doesNotExist => "DoesNotExist" | .isNotDir => "IsNotDir"
  | .isNotFile => "IsNotFile" | .isNotSymlink => "IsNotSymlink"
  | .dirContainsFiles => "DirContainsFiles" | .parentNotFound => "ParentNotFound"
  | .invalidExpansion => "InvalidExpansion" | .multipleHomeSymbols => "MultipleHomeSymbols"
  | .existsAlready => "ExistsAlready" | .linkLooping => "LinkLooping"
  | .extensionNotFound => "ExtensionNotFound" | .fileNameNotFound => "FileNameNotFound"
  | .failedToString => "FailedToString"
  | .var => "Var" | .utf8 => "Utf8"
  | .ioNotFound => "IoNotFound" | .ioInvalidData => "IoInvalidData"
  | .ioInvalidInput => "IoInvalidInput" | .ioOther => "IoOther"
  | .iterItemNotFound => "IterItemNotFound" | .iterMultipleItemsFound => "IterMultipleItemsFound"
  | .invalidChmod => "InvalidChmod" | .invalidChmodGroup => "InvalidChmodGroup"
  | .invalidChmodOp => "InvalidChmodOp" | .invalidChmodPermissions => "InvalidChmodPermissions"
  | .invalidChmodTarget => "InvalidChmodTarget"
  | .other => "Other"

inductive Outcome (α : Type) where
  | ok (a : α)
  | err (k : ErrKind)
  | panic
  | hang
  deriving DecidableEq, Repr

namespace Outcome

def bind {α β} (o : Outcome α) (f : α → Outcome β) : Outcome β :=
  match o with
  | ok a => f a
  | err k => err k
  | panic => panic
  | hang => hang

def map {α β} (f : α → β) (o : Outcome α) : Outcome β :=
  match o with
  | ok a => ok (f a)
  | err k => err k
  | panic => panic
  | hang => hang

def ofOption {α} (k : ErrKind) : Option α → Outcome α
  | some a => ok a
  | none => err k

/-- `none` = the Rust code panics there. -/
def ofPanicOption {α} : Option α → Outcome α
  | some a => ok a
  | none => panic

def isOk {α} : Outcome α → Bool
  | ok _ => true
  | _ => false

instance : Monad Outcome where
  pure := ok
  bind := bind

end Outcome
end Rivia
