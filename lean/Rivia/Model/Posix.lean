/-
  Rivia.Model.Posix — the part of the Linux kernel (+ the thin `std::fs` wrappers) that the `Stdfs`
  backend talks to, as pure functions on a tree.

  * The kernel state is the reference tree type `TreeFs.T` itself: a path-keyed node map plus the
    process working directory.  Nodes carry kind, permission bits, owner, link target and bytes.
  * LINK TARGETS.  A real symlink stores a TEXT.  Every link the backend creates stores
    `target.relative(link.dir())` (see `Stdfs::symlink`), so the model keeps the ABSOLUTE key the text
    denotes and recomputes the text on demand (`linkText`).  `rename` re-derives the absolute key of
    every moved link from its (unchanged) text, exactly what happens to a relative link that is moved.
    (After such a move the real text keeps its old SPELLING, e.g. `../b` where `relative` would now say
    `/b`; the model's `readlink` re-spells it. Same target, possibly different text.)
    The `toDir` flag inside `Kind.link` is a ghost field: `symlinkat` records what `stat(target)` says
    at creation time and NO syscall ever reads it (`stat` follows the target in the current tree).
  * PATHS.  Syscalls take ABSOLUTE keys (`FsPath`, `[]` = `/`): `Stdfs` passes the result of
    `Stdfs::abs` everywhere (since fix 0b4a978 also in `is_dir`/`is_file`).
  * INTERMEDIATE SYMLINKS ARE NOT FOLLOWED: a proper ancestor that is a link makes the walk fail with
    `ENOTDIR` (the real kernel would continue inside the target).  This is outside the domain of C02
    (arguments that do not pass through a link).  FINAL symlinks are followed where the syscall does.
  * PERMISSIONS are not enforced (the process is assumed to have CAP_DAC_OVERRIDE, i.e. the harness
    runs as root inside its sandbox); new nodes get owner `procUid:procGid`; `umask` is 022.
  * Error numbers are modelled to the precision needed for the `ErrorKind`/message tests in
    `Stdfs` (`ENOTEMPTY` is recognised by `Stdfs::remove`); C02 only compares success with failure.
-/
import Rivia.Spec.TreeFs

namespace Rivia.Posix
open Rivia Rivia.Memfs Rivia.File Rivia.Spec.TreeFs

inductive Errno where
  | ENOENT | ENOTDIR | EEXIST | EISDIR | ENOTEMPTY | EINVAL | ELOOP | EBUSY
  deriving DecidableEq, Repr

/-- owner of every node the process creates (what the reference filesystem uses as well; the
    observer of C02 does not compare owners) -/
def procUid : Nat := 1000
def procGid : Nat := 1000

def umask : Nat := 0o022

/-- `mode & ~umask & 07777` -/
def applyUmask (mode : Nat) : Nat := mode &&& (0o7777 ^^^ umask)

/-- maximum number of symlinks followed while resolving one path (Linux: 40) -/
def linkFuel : Nat := 40

/-! ### path walk -/

/-- walk the names of a key from `cur`: the node stepped FROM must exist (`ENOENT`) and be a
    directory (`ENOTDIR`; a link counts as "not a directory", see the header) -/
def walkFrom (t : T) : FsPath → List Str → Option Errno
  | _, [] => none
  | cur, n :: rest =>
    match get t cur with
    | none => some .ENOENT
    | some nd => if nd.kind = .dir then walkFrom t (cur ++ [n]) rest else some .ENOTDIR

/-- the error (if any) of reaching the PARENT of `k`: every proper prefix of `k` is looked up -/
def walkErr (t : T) (k : FsPath) : Option Errno := walkFrom t [] k

/-- `lstat(2)` / `fs::symlink_metadata`: the node itself, a final link is not followed -/
def lstat (t : T) (k : FsPath) : Except Errno Node :=
  match walkErr t k with
  | some e => .error e
  | none => match get t k with
    | some n => .ok n
    | none => .error .ENOENT

/-- follow the FINAL component while it is a link. Returns the key of the first non-link location,
    which may be missing (its parent exists): `stat` turns that into `ENOENT`, `open(O_CREAT)`
    creates it. -/
def followFinal (t : T) : Nat → FsPath → Except Errno FsPath
  | 0, _ => .error .ELOOP
  | f + 1, k =>
    match walkErr t k with
    | some e => .error e
    | none =>
      match get t k with
      | none => .ok k
      | some n =>
        match n.kind, n.target with
        | .link _, some tg => followFinal t f tg
        | .link _, none => .error .ENOENT          -- malformed node (a link always has a target)
        | _, _ => .ok k

/-- `stat(2)` / `fs::metadata`: follows a final link, `ENOENT` when it dangles -/
def stat (t : T) (k : FsPath) : Except Errno Node :=
  match followFinal t linkFuel k with
  | .error e => .error e
  | .ok k' => match get t k' with
    | some n => .ok n
    | none => .error .ENOENT

/-- `Path::exists()` = `fs::metadata(p).is_ok()` -/
def «exists» (t : T) (k : FsPath) : Bool := match stat t k with | .ok _ => true | .error _ => false

/-- `Path::is_dir()` = `fs::metadata(p).map(|m| m.is_dir())` (follows) -/
def statIsDir (t : T) (k : FsPath) : Bool := match stat t k with | .ok n => n.kind = .dir | .error _ => false

/-! ### directories -/

/-- `mkdir(2)`: `EEXIST` for anything already there (a dangling link included), parent errors from
    the walk; the new directory gets `mode & ~umask` -/
def mkdir (t : T) (k : FsPath) (mode : Nat) : Except Errno T :=
  if k = [] then .error .EEXIST
  else match walkErr t k with
    | some e => .error e
    | none => match get t k with
      | some _ => .error .EEXIST
      | none => .ok (put t k (newDir (applyUmask mode)))

/-- `rmdir(2)`: only an empty directory; a link to a directory is `ENOTDIR`; `/` is `EBUSY`.
    Removing the process cwd is allowed (`getcwd` fails afterwards). -/
def rmdir (t : T) (k : FsPath) : Except Errno T :=
  if k = [] then .error .EBUSY
  else match walkErr t k with
    | some e => .error e
    | none => match get t k with
      | none => .error .ENOENT
      | some n =>
        if n.kind ≠ .dir then .error .ENOTDIR
        else if !(below t k).isEmpty then .error .ENOTEMPTY
        else .ok (del t k)

/-- `unlink(2)` / `fs::remove_file`: never follows; a directory is `EISDIR` -/
def unlink (t : T) (k : FsPath) : Except Errno T :=
  if k = [] then .error .EISDIR
  else match walkErr t k with
    | some e => .error e
    | none => match get t k with
      | none => .error .ENOENT
      | some n => if n.kind = .dir then .error .EISDIR else .ok (del t k)

/-- names in a directory (`fs::read_dir`; `opendir` follows a final link). The real order is
    unspecified; every caller that observes the order sorts. -/
def readDir (t : T) (k : FsPath) : Except Errno (List Str) :=
  match followFinal t linkFuel k with
  | .error e => .error e
  | .ok k' => match get t k' with
    | none => .error .ENOENT
    | some n =>
      if n.kind ≠ .dir then .error .ENOTDIR
      else .ok ((t.nodes.filter (fun kv => kv.1.length = k'.length + 1 && isProperPrefix k' kv.1)).map
                  (fun kv => baseName kv.1))

/-- `std::fs::create_dir_all` (`DirBuilder::recursive`): `mkdir`; on `ENOENT` create the parent first and
    retry; any other failure is forgiven when the path `is_dir()` (follows links). New directories get
    `0o777 & ~umask`. Fuel = number of names of the path + 1. -/
def createDirAll (t : T) : Nat → FsPath → Except Errno T
  | 0, _ => .error .ELOOP
  | f + 1, k =>
    match mkdir t k 0o777 with
    | .ok t' => .ok t'
    | .error .ENOENT =>
      if k = [] then .error .ENOENT
      else match createDirAll t f k.dropLast with
        | .error e => .error e
        | .ok t1 => match mkdir t1 k 0o777 with
          | .ok t2 => .ok t2
          | .error e => if statIsDir t1 k then .ok t1 else .error e
    | .error e => if statIsDir t k then .ok t else .error e

/-- `std::fs::remove_dir_all`: `lstat`; a symlink is just unlinked; otherwise the path is opened as a
    directory (`O_DIRECTORY|O_NOFOLLOW`: a regular file at the root of the deletion is `ENOTDIR`) and
    everything below is deleted without ever following a link. `/` itself cannot be removed (`EBUSY`
    after its content is gone). -/
def removeDirAll (t : T) (k : FsPath) : Except Errno T :=
  match lstat t k with
  | .error e => .error e
  | .ok n =>
    match n.kind with
    | .link _ => unlink t k
    | .file => .error .ENOTDIR
    | .dir =>
      if k = [] then .error .EBUSY
      else .ok { t with nodes := t.nodes.filter (fun kv => !(isPrefixOrEq k kv.1)) }

/-! ### regular files -/

/-- `open(O_WRONLY|O_CREAT|O_TRUNC, 0o666)` = `File::create`: follows a final link (a dangling one
    creates its target); truncates an existing file; a directory is `EISDIR`. Returns the key of the
    open file. -/
def createFile (t : T) (k : FsPath) : Except Errno (FsPath × T) :=
  match followFinal t linkFuel k with
  | .error e => .error e
  | .ok k' =>
    if k' = [] then .error .EISDIR
    else match get t k' with
      | none => .ok (k', put t k' { newFile with perm := applyUmask 0o666 })
      | some n =>
        if n.kind = .file then .ok (k', put t k' { n with data := [] }) else .error .EISDIR

/-- `open(O_WRONLY|O_APPEND)`: follows; the file must exist; a directory is `EISDIR` -/
def openAppend (t : T) (k : FsPath) : Except Errno FsPath :=
  match followFinal t linkFuel k with
  | .error e => .error e
  | .ok k' => match get t k' with
    | none => .error .ENOENT
    | some n => if n.kind = .file then .ok k' else .error .EISDIR

/-- `open(O_RDONLY)` + read to the end: follows; reading a directory is `EISDIR` -/
def readFile (t : T) (k : FsPath) : Except Errno Bytes :=
  match stat t k with
  | .error e => .error e
  | .ok n => if n.kind = .file then .ok n.data else .error .EISDIR

/-- `write(2)` on an open descriptor of the regular file stored at `k` (positioned at the end:
    right after `O_TRUNC` or with `O_APPEND`) -/
def writeFd (t : T) (k : FsPath) (d : Bytes) : T :=
  match get t k with
  | some n => put t k { n with data := n.data ++ d }
  | none => t

/-- `chmod(2)` / `fs::set_permissions`: FOLLOWS a final link (`ENOENT` when it dangles); only the
    low 12 bits are stored -/
def chmod (t : T) (k : FsPath) (mode : Nat) : Except Errno T :=
  match followFinal t linkFuel k with
  | .error e => .error e
  | .ok k' => match get t k' with
    | none => .error .ENOENT
    | some n => .ok (put t k' { n with perm := mode &&& 0o7777 })

/-- `chown(2)` (follows; the caller is privileged) -/
def chown (t : T) (k : FsPath) (uid gid : Option Nat) : Except Errno T :=
  match followFinal t linkFuel k with
  | .error e => .error e
  | .ok k' => match get t k' with
    | none => .error .ENOENT
    | some n => .ok (put t k' { n with uid := uid.getD n.uid, gid := gid.getD n.gid })

/-- `std::fs::copy`: open the source (follows; must be a regular file, else `InvalidInput`), open the
    destination with `O_CREAT|O_TRUNC` and the source's mode (follows a final link; `EISDIR` on a
    directory), `fchmod` it to the source's permission bits, copy the bytes that the source holds
    AFTER the truncation (copying a file onto itself empties it). -/
def copyFile (t : T) (s d : FsPath) : Except Errno T :=
  match stat t s with
  | .error e => .error e
  | .ok sn =>
    if sn.kind ≠ .file then .error .EINVAL
    else match followFinal t linkFuel s, followFinal t linkFuel d with
      | .error e, _ => .error e
      | _, .error e => .error e
      | .ok ks, .ok kd =>
        if kd = [] then .error .EISDIR
        else
          let opened : Except Errno T :=
            match get t kd with
            | none => .ok (put t kd { newFile with perm := applyUmask sn.perm })
            | some dn => if dn.kind = .file then .ok (put t kd { dn with data := [] }) else .error .EISDIR
          match opened with
          | .error e => .error e
          | .ok t1 =>
            let bytes := match get t1 ks with | some n => n.data | none => []
            match get t1 kd with
            | some dn => .ok (put t1 kd { dn with perm := sn.perm &&& 0o7777, data := bytes })
            | none => .ok t1

/-! ### links -/

/-- the text stored in the link at `k` whose target is the key `tg` -/
def linkText (k tg : FsPath) : Str := relative (renderP tg) (renderP k.dropLast)

/-- `symlinkat(2)`: `EEXIST` for anything already there; the target need not exist. The ghost flag
    records what the target is now (through links). -/
def symlinkat (t : T) (k tg : FsPath) : Except Errno T :=
  if k = [] then .error .EEXIST
  else match walkErr t k with
    | some e => .error e
    | none => match get t k with
      | some _ => .error .EEXIST
      | none => .ok (put t k ⟨.link (statIsDir t tg), 0o777, procUid, procGid, some tg, []⟩)

/-- `readlink(2)`: `EINVAL` for anything that is not a link -/
def readlink (t : T) (k : FsPath) : Except Errno Str :=
  match lstat t k with
  | .error e => .error e
  | .ok n => match n.kind, n.target with
    | .link _, some tg => .ok (linkText k tg)
    | _, _ => .error .EINVAL

/-! ### the process working directory -/

/-- `chdir(2)`: follows; the kernel remembers the directory REACHED (through a link: the target) -/
def chdir (t : T) (k : FsPath) : Except Errno T :=
  match followFinal t linkFuel k with
  | .error e => .error e
  | .ok k' => match get t k' with
    | none => .error .ENOENT
    | some n => if n.kind = .dir then .ok { t with cwd := k' } else .error .ENOTDIR

/-- `getcwd(2)`: fails once the directory has been removed -/
def getcwd (t : T) : Except Errno FsPath := if isDir t t.cwd then .ok t.cwd else .error .ENOENT

/-! ### file identity -/

/-- FULL path resolution, every link on the way followed (the only place where the model follows
    intermediate links): the key of the node a path denotes, as `stat` finds it. Fuel bounds the number
    of steps (links followed + components walked). -/
def realWalk (t : T) : Nat → FsPath → List Str → Except Errno FsPath
  | 0, _, _ => .error .ELOOP
  | _ + 1, cur, [] => .ok cur
  | f + 1, cur, n :: rest =>
    match get t cur with
    | none => .error .ENOENT
    | some nd =>
      if nd.kind ≠ .dir then .error .ENOTDIR
      else match get t (cur ++ [n]) with
        | none => .error .ENOENT
        | some m =>
          match m.kind, m.target with
          | .link _, some tg => realWalk t f [] (tg ++ rest)
          | _, _ => realWalk t f (cur ++ [n]) rest

def realKey (t : T) (k : FsPath) : Except Errno FsPath :=
  realWalk t (linkFuel * (t.nodes.length + k.length + 2)) [] k

/-- `x.dev() == y.dev() && x.ino() == y.ino()` for `fs::metadata` of two paths: both exist and denote
    the same node -/
def sameFile (t : T) (a b : FsPath) : Bool :=
  match realKey t a, realKey t b with
  | .ok x, .ok y => (get t x).isSome && x == y
  | _, _ => false

/-! ### rename -/

/-- where the text of a link stored at `oldK` (target `tg`) points once the link sits at `newK` -/
def retarget (oldK newK tg : FsPath) : FsPath :=
  match cleanO (push (renderP newK.dropLast) (linkText oldK tg)) with
  | some c => toPath c
  | none => tg

/-- what stands in the way at the destination of a `rename` of the node `sn` -/
def renameClash (t : T) (sn : Node) (d : FsPath) : Option Errno :=
  match get t d with
  | none => none
  | some dn =>
    if sn.kind = .dir then
      (if dn.kind = .dir then (if (below t d).isEmpty then none else some .ENOTEMPTY)
       else some .ENOTDIR)
    else (if dn.kind = .dir then some .EISDIR else none)

/-- the tree after the subtree at `s` has been re-keyed to `d` (replacing what was at `d`) -/
def renameMove (t : T) (s d : FsPath) : T :=
  let moved := t.nodes.filterMap (fun kv =>
    if isPrefixOrEq s kv.1 then
      let k' := d ++ kv.1.drop s.length
      let n' : Node := match kv.2.kind, kv.2.target with
        | .link _, some tg => { kv.2 with target := some (retarget kv.1 k' tg) }
        | _, _ => kv.2
      some (k', n')
    else none)
  let rest := t.nodes.filter (fun kv => !(isPrefixOrEq s kv.1) && kv.1 ≠ d)
  let cwd' := if isPrefixOrEq s t.cwd then d ++ t.cwd.drop s.length else t.cwd
  { nodes := rest ++ moved, cwd := cwd' }

/-- `rename(2)`:
    * source must exist (`ENOENT`), both parents must be directories; `/` cannot take part (`EBUSY`);
    * same path: nothing happens;
    * a directory cannot move into its own subtree (`EINVAL`); moving something onto one of its
      ancestors hits a non-empty directory (`ENOTEMPTY`);
    * destination exists: dir over EMPTY dir replaces it, dir over non-empty dir `ENOTEMPTY`, dir over
      non-dir `ENOTDIR`, non-dir over dir `EISDIR`, non-dir over non-dir (links are never followed)
      replaces it;
    * the whole subtree is re-keyed; relative link texts are unchanged, so moved links are re-resolved
      (`retarget`); a process cwd inside the subtree moves along with its directory. -/
def rename (t : T) (s d : FsPath) : Except Errno T :=
  if s = [] ∨ d = [] then .error .EBUSY
  else match walkErr t s, walkErr t d with
    | some e, _ => .error e
    | _, some e => .error e
    | none, none =>
      match get t s with
      | none => .error .ENOENT
      | some sn =>
        if s = d then .ok t
        else if isPrefixOrEq s d then .error .EINVAL
        else if isProperPrefix d s then .error .ENOTEMPTY
        else match renameClash t sn d with
          | some e => .error e
          | none => .ok (renameMove t s d)

end Rivia.Posix
