/-
  Rivia.Model.Macros — transcription of the `assert_vfs_*!` macros of `src/testing/assert.rs` as
  decision logic over the Memfs model.

  * Every `$vfs.xxx(..)` is the corresponding `Memfs.step env s (.xxx ..)`; the state is threaded
    through every call in program order (queries return it unchanged).
  * `let target = match $vfs.abs($path) { Ok(x) => x, _ => panic_msg!(..) }` yields a *key*; every
    later call receives `&target`, i.e. the string `renderP target`, which the callee resolves AGAIN.
  * A macro that panics keeps whatever the calls before the panic did to the filesystem.
  * `MOut.panic name msg`: `name` is the first argument of `panic_msg!` / `panic_compare_msg!`,
    `msg` the second (`none` for the `panic!("name: {}", e.to_string())` forms).
  * The code is reproduced as it is (`assert_vfs_no_dir!` / `assert_vfs_no_file!` panicking on every
    existing path, the double resolution of path arguments, ...). Repaired upstream in this tree and
    transcribed in the repaired form: the macro name in `assert_vfs_is_symlink!` (d5c137e),
    `assert_vfs_write_all!` on an existing file (2f59893), equality instead of `has_suffix` in
    `assert_vfs_readlink_abs!` (777ae76), `assert_vfs_copyfile!` comparing the BYTES of source and
    destination (`read` + `read_to_end`) instead of their `read_all` texts.
-/
import Rivia.Model.MemfsOps

namespace Rivia.Macros
open Rivia Rivia.Memfs Rivia.File

inductive MacroCall where
  | exists (p : Str) | noExists (p : Str) | isDir (p : Str) | noDir (p : Str)
  | isFile (p : Str) | noFile (p : Str) | isSymlink (p : Str) | noSymlink (p : Str)
  | readAll (p : Str) (data : Str) | readlink (p : Str) (target : Str) | readlinkAbs (p : Str) (target : Str)
  | mkdirP (p : Str) | mkdirM (p : Str) (mode : Nat) | mkfile (p : Str) | writeAll (p : Str) (data : Bytes)
  | copyfile (src dst : Str) | symlink (l t : Str) | remove (p : Str) | removeAll (p : Str)
  deriving Repr, DecidableEq

inductive MOut where
  | pass
  | panic (name : String) (msg : Option String)
  deriving Repr, DecidableEq

/-- the macro's own name, as it should appear in every message it prints -/
def nameOf : MacroCall → String
  | .exists _ => "assert_vfs_exists!" | .noExists _ => "assert_vfs_no_exists!"
  | .isDir _ => "assert_vfs_is_dir!" | .noDir _ => "assert_vfs_no_dir!"
  | .isFile _ => "assert_vfs_is_file!" | .noFile _ => "assert_vfs_no_file!"
  | .isSymlink _ => "assert_vfs_is_symlink!" | .noSymlink _ => "assert_vfs_no_symlink!"
  | .readAll _ _ => "assert_vfs_read_all!" | .readlink _ _ => "assert_vfs_readlink!"
  | .readlinkAbs _ _ => "assert_vfs_readlink_abs!"
  | .mkdirP _ => "assert_vfs_mkdir_p!" | .mkdirM _ _ => "assert_vfs_mkdir_m!"
  | .mkfile _ => "assert_vfs_mkfile!" | .writeAll _ _ => "assert_vfs_write_all!"
  | .copyfile _ _ => "assert_vfs_copyfile!" | .symlink _ _ => "assert_vfs_symlink!"
  | .remove _ => "assert_vfs_remove!" | .removeAll _ => "assert_vfs_remove_all!"

/-- the eleven macros that only look -/
def isChecking : MacroCall → Bool
  | .exists _ | .noExists _ | .isDir _ | .noDir _ | .isFile _ | .noFile _ | .isSymlink _
  | .noSymlink _ | .readAll _ _ | .readlink _ _ | .readlinkAbs _ _ => true
  | _ => false

abbrev MR := MOut × State

/-- `panic_msg!(name, msg, _)` / `panic_compare_msg!(name, msg, _, _)` -/
def pm (name msg : String) : MOut := .panic name (some msg)

/-- what is reported when the vfs call itself panics / does not return: no macro message at all -/
def vfsPanic : String := "<vfs panic>"
def vfsHang : String := "<vfs hang>"

/-- one `$vfs.op(..)` call: the continuation sees `some v` for `Ok(v)` and `none` for `Err(_)` -/
def call (env : Env) (s : State) (op : Op) (k : Option Val → State → MR) : MR :=
  match step env s op with
  | (.ok v, s') => k (some v) s'
  | (.err _, s') => k none s'
  | (.panic, s') => (.panic vfsPanic none, s')
  | (.hang, s') => (.panic vfsHang none, s')

/-- `let x = match $vfs.abs(p) { Ok(x) => x, _ => panic_msg!(name, msg, p) };` -/
def absK (env : Env) (s : State) (p : Str) (name msg : String) (k : FsPath → State → MR) : MR :=
  call env s (.abs p) fun v s' =>
    match v with
    | some (.path a) => k a s'
    | _ => (pm name msg, s')

/-- `$vfs.exists(..)`, `is_dir`, `is_file`, `is_symlink`: plain `bool` results -/
def boolK (env : Env) (s : State) (op : Op) (k : Bool → State → MR) : MR :=
  call env s op fun v s' =>
    match v with
    | some (.bool b) => k b s'
    | _ => k false s'

/-- `format!("read data doesn't equal given data\n  read: {}\n  expected: {}", data, $data)` -/
def readAllMsg (read expected : Str) : String :=
  "read data doesn't equal given data\n  read: " ++ String.ofList read ++ "\n  expected: " ++ String.ofList expected

def runMacro (env : Env) (s : State) : MacroCall → MOut × State
  | .exists p =>
    absK env s p "assert_vfs_exists!" "failed to get absolute path" fun t s =>
    boolK env s (.exists (renderP t)) fun ex s =>
    if !ex then (pm "assert_vfs_exists!" "doesn't exist", s) else (.pass, s)
  | .noExists p =>
    absK env s p "assert_vfs_no_exists!" "failed to get absolute path" fun t s =>
    boolK env s (.exists (renderP t)) fun ex s =>
    if ex then (pm "assert_vfs_no_exists!" "still exists", s) else (.pass, s)
  | .isDir p =>
    absK env s p "assert_vfs_is_dir!" "failed to get absolute path" fun t s =>
    boolK env s (.exists (renderP t)) fun ex s =>
    if ex then
      boolK env s (.isDir (renderP t)) fun isd s =>
      if !isd then (pm "assert_vfs_is_dir!" "exists but is not a directory", s) else (.pass, s)
    else (pm "assert_vfs_is_dir!" "doesn't exist", s)
  | .noDir p =>
    absK env s p "assert_vfs_no_dir!" "failed to get absolute path" fun t s =>
    boolK env s (.exists (renderP t)) fun ex s =>
    if ex then
      boolK env s (.isDir (renderP t)) fun isd s =>
      if !isd then (pm "assert_vfs_no_dir!" "exists and is not a directory", s)
      else (pm "assert_vfs_no_dir!" "directory still exists", s)
    else (.pass, s)
  | .isFile p =>
    absK env s p "assert_vfs_is_file!" "failed to get absolute path" fun t s =>
    boolK env s (.exists (renderP t)) fun ex s =>
    if ex then
      boolK env s (.isFile (renderP t)) fun isf s =>
      if !isf then (pm "assert_vfs_is_file!" "exists but is not a file", s) else (.pass, s)
    else (pm "assert_vfs_is_file!" "doesn't exist", s)
  | .noFile p =>
    absK env s p "assert_vfs_no_file!" "failed to get absolute path" fun t s =>
    boolK env s (.exists (renderP t)) fun ex s =>
    if ex then
      boolK env s (.isFile (renderP t)) fun isf s =>
      if !isf then (pm "assert_vfs_no_file!" "exists and is not a file", s)
      else (pm "assert_vfs_no_file!" "file still exists", s)
    else (.pass, s)
  | .isSymlink p =>
    absK env s p "assert_vfs_is_symlink!" "failed to get absolute path" fun t s =>
    boolK env s (.exists (renderP t)) fun ex s =>
    if ex then
      boolK env s (.isSymlink (renderP t)) fun isl s =>
      if !isl then (pm "assert_vfs_is_symlink!" "exists but is not a symlink", s) else (.pass, s)
    else (pm "assert_vfs_is_symlink!" "symlink doesn't exist", s)
  | .noSymlink p =>
    absK env s p "assert_vfs_no_symlink!" "failed to get absolute path" fun t s =>
    boolK env s (.exists (renderP t)) fun ex s =>
    if ex then
      boolK env s (.isSymlink (renderP t)) fun isl s =>
      if isl then (pm "assert_vfs_no_symlink!" "exists and is a symlink", s) else (.pass, s)
    else (.pass, s)
  | .readAll p data =>
    absK env s p "assert_vfs_read_all!" "failed to get absolute path" fun t s =>
    boolK env s (.isFile (renderP t)) fun isf s =>
    if !isf then (pm "assert_vfs_read_all!" "file doesn't exist or is not a file", s) else
    call env s (.readAll (renderP t)) fun r s =>
    match r with
    | some (.str d) =>
      if d ≠ data then (pm "assert_vfs_read_all!" (readAllMsg d data), s) else (.pass, s)
    | _ => (pm "assert_vfs_read_all!" "failed while reading file", s)
  | .readlink p target =>
    absK env s p "assert_vfs_readlink!" "failed to get absolute path" fun l s =>
    boolK env s (.isSymlink (renderP l)) fun isl s =>
    if !isl then (pm "assert_vfs_readlink!" "file doesn't exist or is not a symlink", s) else
    call env s (.readlink (renderP l)) fun r s =>
    match r with
    | some (.str x) =>
      -- `x.to_string().unwrap() != $target.to_string().unwrap()`
      if x ≠ target then (pm "assert_vfs_readlink!" "link target doesn't equal given path", s) else (.pass, s)
    | _ => (pm "assert_vfs_readlink!" "failed while reading link", s)
  | .readlinkAbs p data =>
    absK env s p "assert_vfs_readlink_abs!" "failed to get absolute path" fun l s =>
    absK env s data "assert_vfs_readlink_abs!" "failed to get absolute path" fun target s =>
    boolK env s (.isSymlink (renderP l)) fun isl s =>
    if !isl then (pm "assert_vfs_readlink_abs!" "file doesn't exist or is not a symlink", s) else
    call env s (.readlinkAbs (renderP l)) fun r s =>
    match r with
    | some (.path x) =>
      if x ≠ target then
        (pm "assert_vfs_readlink_abs!" "link target doesn't equal given path", s)
      else (.pass, s)
    | _ => (pm "assert_vfs_readlink_abs!" "failed while reading link", s)
  | .mkdirP p =>
    absK env s p "assert_vfs_mkdir_p!" "failed to get absolute path" fun t s =>
    call env s (.mkdirP (renderP t)) fun r s =>
    match r with
    | some (.path x) =>
      if x ≠ t then (pm "assert_vfs_mkdir_p!" "created directory path doesn't match the target", s) else
      boolK env s (.isDir (renderP t)) fun isd s =>
      if !isd then (pm "assert_vfs_mkdir_p!" "failed to create directory", s) else (.pass, s)
    | _ => (.panic "assert_vfs_mkdir_p!" none, s)
  | .mkdirM p mode =>
    absK env s p "assert_vfs_mkdir_m!" "failed to get absolute path" fun t s =>
    call env s (.mkdirM (renderP t) mode) fun r s =>
    match r with
    | some (.path x) =>
      if x ≠ t then (pm "assert_vfs_mkdir_m!" "created directory path doesn't match the target", s) else
      call env s (.mode (renderP t)) fun m s =>
      match m with
      | some (.nat m) =>
        if m ≠ mode then (pm "assert_vfs_mkdir_m!" "created directory mode doesn't match the target", s) else
        boolK env s (.isDir (renderP t)) fun isd s =>
        if !isd then (pm "assert_vfs_mkdir_m!" "failed to create directory", s) else (.pass, s)
      | _ => (.panic "assert_vfs_mkdir_m!" none, s)      -- "assert_vfs_mkdir_m!: mode failure for {}"
    | _ => (.panic "assert_vfs_mkdir_m!" none, s)
  | .mkfile p =>
    absK env s p "assert_vfs_mkfile!" "failed to get absolute path" fun t s =>
    boolK env s (.exists (renderP t)) fun ex s =>
    if ex then
      boolK env s (.isFile (renderP t)) fun isf s =>
      if !isf then (pm "assert_vfs_mkfile!" "is not a file", s) else (.pass, s)
    else
      call env s (.mkfile (renderP t)) fun r s =>
      match r with
      | some (.path x) =>
        if x ≠ t then (pm "assert_vfs_mkfile!" "created file path doesn't match the target", s) else
        boolK env s (.isFile (renderP t)) fun isf s =>
        if !isf then (pm "assert_vfs_mkfile!" "file doesn't exist", s) else (.pass, s)
      | _ => (pm "assert_vfs_mkfile!" "failed while creating file", s)
  | .writeAll p data =>
    absK env s p "assert_vfs_write_all!" "failed to get absolute path" fun t s =>
    -- `if exists(&target) && !is_file(&target) { panic }`, then the write in every other case
    let write := fun (s : State) =>
      call env s (.writeAll (renderP t) data) fun r s =>
      match r with
      | some _ =>
        boolK env s (.isFile (renderP t)) fun isf s =>
        if !isf then (pm "assert_vfs_write_all!" "is not a file", s) else (.pass, s)
      | none => (pm "assert_vfs_write_all!" "failed while writing file", s)
    boolK env s (.exists (renderP t)) fun ex s =>
    if ex then
      boolK env s (.isFile (renderP t)) fun isf s =>
      if !isf then (pm "assert_vfs_write_all!" "is not a file", s) else write s
    else write s
  | .copyfile src dst =>
    absK env s src "assert_vfs_copyfile!" "failed to get absolute src path" fun a s =>
    absK env s dst "assert_vfs_copyfile!" "failed to get absolute dst path" fun b s =>
    boolK env s (.exists (renderP a)) fun ex s =>
    if !ex then (pm "assert_vfs_copyfile!" "doesn't exist", s) else
    boolK env s (.isFile (renderP a)) fun isf s =>
    if !isf then (pm "assert_vfs_copyfile!" "is not a file", s) else
    call env s (.copy (renderP a) (renderP b)) fun r s =>
    match r with
    | some _ =>
      -- `$vfs.read(&src).and_then(|mut f| { read_to_end(&mut f, &mut buf)?; Ok(buf) })`: the BYTES
      call env s (.read (renderP a)) fun x s =>
      match x with
      | some (.bytes x) =>
        call env s (.read (renderP b)) fun y s =>
        match y with
        | some (.bytes y) =>
          if x ≠ y then (pm "assert_vfs_copyfile!" "src data doesn't match dst", s) else
          boolK env s (.isFile (renderP b)) fun isf s =>
          if !isf then (pm "assert_vfs_copyfile!" "dst doesn't exist", s) else (.pass, s)
        | _ => (pm "assert_vfs_copyfile!" "failed reading dst file", s)
      | _ => (pm "assert_vfs_copyfile!" "failed reading src file", s)
    | none => (pm "assert_vfs_copyfile!" "failed while copying src file", s)
  | .symlink l tgt =>
    absK env s l "assert_vfs_symlink!" "failed to get absolute path" fun a s =>
    boolK env s (.exists (renderP a)) fun ex s =>
    if ex then
      -- sic: an existing link is accepted whatever it points to
      boolK env s (.isSymlink (renderP a)) fun isl s =>
      if !isl then (pm "assert_vfs_symlink!" "is not a symlink", s) else (.pass, s)
    else
      call env s (.symlink (renderP a) tgt) fun r s =>
      match r with
      | some (.path x) =>
        if x ≠ a then (pm "assert_vfs_symlink!" "created link path doesn't match", s) else
        boolK env s (.isSymlink (renderP a)) fun isl s =>
        if !isl then (pm "assert_vfs_symlink!" "symlink doesn't exist", s) else (.pass, s)
      | _ => (pm "assert_vfs_symlink!" "failed while creating symlink", s)
  | .remove p =>
    absK env s p "assert_vfs_remove!" "failed to get absolute path" fun t s =>
    boolK env s (.exists (renderP t)) fun ex s =>
    if ex then
      boolK env s (.isDir (renderP t)) fun isd s =>
      if !isd then
        call env s (.remove (renderP t)) fun r s =>
        match r with
        | none => (pm "assert_vfs_remove!" "failed removing file", s)
        | some _ =>
          boolK env s (.exists (renderP t)) fun ex s =>
          if ex then (pm "assert_vfs_remove!" "file still exists", s) else (.pass, s)
      else
        call env s (.remove (renderP t)) fun r s =>
        match r with
        | none => (pm "assert_vfs_remove!" "failed removing directory", s)
        | some _ =>
          boolK env s (.exists (renderP t)) fun ex s =>
          if ex then (pm "assert_vfs_remove!" "directory still exists", s) else (.pass, s)
    else (.pass, s)
  | .removeAll p =>
    absK env s p "assert_vfs_remove_all!" "failed to get absolute path" fun t s =>
    call env s (.removeAll (renderP t)) fun r s =>
    match r with
    | none => (pm "assert_vfs_remove_all!" "failed while removing", s)
    | some _ =>
      boolK env s (.exists (renderP t)) fun ex s =>
      if ex then (pm "assert_vfs_remove_all!" "still exists", s) else (.pass, s)

/-! ### printing (differential harness format) -/

def hexDigit (n : Nat) : Char := if n < 10 then Char.ofNat (48 + n) else Char.ofNat (87 + n)

def hexByte (b : UInt8) : List Char := [hexDigit (b.toNat / 16), hexDigit (b.toNat % 16)]

/-- lower-case hex, two digits per UTF-8 byte -/
def hexOfString (s : String) : String := String.ofList (s.toUTF8.toList.flatMap hexByte)

def showMOut : MOut → String
  | .pass => "pass"
  | .panic name (some msg) => "panic|" ++ name ++ "|" ++ hexOfString msg
  | .panic name none => "panic|" ++ name ++ "|ERR"

end Rivia.Macros

