/-
  Rivia.Model.File — transcription of `src/sys/fs/memfs/file.rs` (MemfsFile as Read/Seek/Write).
  `pos` is a `u64`; arithmetic panics on overflow (debug profile, as the test-suite builds).
-/
import Rivia.Model.Outcome

namespace Rivia.File
open Rivia

abbrev Bytes := List UInt8

structure MFile where
  pos : Nat
  data : Bytes
  deriving Repr, DecidableEq

def u64Mod : Nat := 2 ^ 64
def i64Min : Int := -(2 ^ 63)
def i64Max : Int := 2 ^ 63 - 1

/-- `x as i64` for a `u64` -/
def asI64 (x : Nat) : Int := if x % u64Mod < 2 ^ 63 then (x % u64Mod : Nat) else (x % u64Mod : Nat) - (2 ^ 64 : Int)
/-- `x as u64` for an `i64` -/
def asU64 (x : Int) : Nat := (x % (2 ^ 64 : Int)).toNat

/-- `MemfsFile::len`: `data.len() as u64 - pos`; `none` = subtract-with-overflow panic. -/
def len (f : MFile) : Option Nat := if f.pos ≤ f.data.length then some (f.data.length - f.pos) else none

/-- `Read::read` with a buffer of `n` bytes: returns the bytes copied and the new handle. -/
def read (f : MFile) (n : Nat) : Outcome (Bytes × MFile) :=
  match len f with
  | none => .panic
  | some l =>
    let k := min n l
    .ok ((f.data.drop f.pos).take k, { f with pos := f.pos + k })

inductive Whence where
  | start | current | endw
  deriving DecidableEq, Repr

/-- `Seek::seek`; `offset` is a `u64` for `Start` and an `i64` otherwise. Returns the new position. -/
def seek (f : MFile) (w : Whence) (off : Int) : Outcome (Nat × MFile) :=
  match w with
  | .start => .ok (off.toNat, { f with pos := off.toNat })
  | .current =>
    let s := asI64 f.pos + off
    if s < i64Min ∨ s > i64Max then .panic else .ok (asU64 s, { f with pos := asU64 s })
  | .endw =>
    let s := asI64 f.data.length + off
    if s < i64Min ∨ s > i64Max then .panic else .ok (asU64 s, { f with pos := asU64 s })

/-- `Write::write`: `Vec::write` appends, position untouched. -/
def write (f : MFile) (buf : Bytes) : Nat × MFile := (buf.length, { f with data := f.data ++ buf })

/-- default `Read::read_to_end`: repeated `read` until 0 — everything from `pos`. -/
def readToEnd (f : MFile) : Outcome (Bytes × MFile) :=
  match len f with
  | none => .panic
  | some l => .ok (f.data.drop f.pos, { f with pos := f.pos + l })

end Rivia.File
