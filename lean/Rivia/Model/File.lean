/-
  Rivia.Model.File — transcription of `src/sys/fs/memfs/file.rs` (MemfsFile as Read/Seek/Write).
  `pos` is a `u64`; arithmetic panics on overflow (debug profile, as the test-suite builds).
-/
import Rivia.Model.Outcome

namespace Rivia.File
open Rivia

abbrev Bytes := List UInt8

structure MFile where
  pos : Nat
  data : Bytes
  deriving Repr, DecidableEq

/-- `MemfsFile::len`: `(data.len() as u64).saturating_sub(pos)` -/
def len (f : MFile) : Nat := f.data.length - f.pos

/-- `Read::read` with a buffer of `n` bytes: returns the bytes copied and the new handle. -/
def read (f : MFile) (n : Nat) : Bytes × MFile :=
  let k := min n (len f)
  if k = 0 then ([], f) else ((f.data.drop f.pos).take k, { f with pos := f.pos + k })

inductive Whence where
  | start | current | endw
  deriving DecidableEq, Repr

/-- `Seek::seek`; `offset` is a `u64` for `Start` and an `i64` otherwise (`checked_add_signed`).
    Returns the new position. -/
def seek (f : MFile) (w : Whence) (off : Int) : Outcome (Nat × MFile) :=
  match w with
  | .start => .ok (off.toNat, { f with pos := off.toNat })
  | .current =>
    let s : Int := f.pos + off
    if s < 0 ∨ s ≥ 2 ^ 64 then .err .ioInvalidInput else .ok (s.toNat, { f with pos := s.toNat })
  | .endw =>
    let s : Int := f.data.length + off
    if s < 0 ∨ s ≥ 2 ^ 64 then .err .ioInvalidInput else .ok (s.toNat, { f with pos := s.toNat })

/-- `Write::write`: `Vec::write` appends, position untouched. -/
def write (f : MFile) (buf : Bytes) : Nat × MFile := (buf.length, { f with data := f.data ++ buf })

/-- default `Read::read_to_end`: repeated `read` until 0 — everything from `pos`. -/
def readToEnd (f : MFile) : Bytes × MFile := (f.data.drop f.pos, { f with pos := f.pos + len f })

end Rivia.File

namespace Rivia.File

/-- operations on a read handle and what the caller observes -/
inductive HOp where
  | read (n : Nat) | readAll | seek (w : Whence) (off : Int)
  deriving Repr, DecidableEq

inductive Obs where
  | bytes (b : Bytes) | pos (p : Nat) | err (k : ErrKind)
  deriving Repr, DecidableEq

def runOps : MFile → List HOp → List Obs
  | _, [] => []
  | f, .read n :: ops => let (b, f') := read f n; .bytes b :: runOps f' ops
  | f, .readAll :: ops => let (b, f') := readToEnd f; .bytes b :: runOps f' ops
  | f, .seek w o :: ops =>
    match seek f w o with
    | .ok (p, f') => .pos p :: runOps f' ops
    | .err k => .err k :: runOps f ops
    | _ => []

/-- A handle returned by `write` / `append`: the bytes it carries (`data`); `write` starts empty,
    `append` starts from a clone of the stored content (its position is irrelevant: `Vec::write`
    appends). `sync` (on `flush` and on `Drop`) replaces the stored content by `data` when the
    entry still exists. -/
structure WHandle where
  data : Bytes
  deriving Repr, DecidableEq

def openWrite (_stored : Bytes) : WHandle := ⟨[]⟩
def openAppend (stored : Bytes) : WHandle := ⟨stored⟩
def WHandle.write (h : WHandle) (chunk : Bytes) : WHandle := ⟨h.data ++ chunk⟩
/-- stored content after `flush` / `drop` -/
def WHandle.sync (h : WHandle) (_stored : Bytes) : Bytes := h.data

inductive WOp where
  | write (chunk : Bytes) | flush
  deriving Repr, DecidableEq

/-- run ops on a handle; returns the handle and the stored content -/
def runW : WHandle → Bytes → List WOp → WHandle × Bytes
  | h, st, [] => (h, st)
  | h, st, .write c :: ops => runW (h.write c) st ops
  | h, st, .flush :: ops => runW h (h.sync st) ops

/-- the whole life of a handle: open, ops, drop (= sync) -/
def writeSession (append : Bool) (stored : Bytes) (ops : List WOp) : Bytes :=
  let h0 := if append then openAppend stored else openWrite stored
  let (h, st) := runW h0 stored ops
  h.sync st

def chunksOf : List WOp → Bytes
  | [] => []
  | .write c :: ops => c ++ chunksOf ops
  | .flush :: ops => chunksOf ops

end Rivia.File
