/-
  Rivia.Model.Conc — concurrency model of Memfs (C04).

  `Memfs` is an `Arc<RwLock<MemfsInner>>`; every trait method takes the lock for one or more
  critical sections (`read_guard` / `write_guard`) and never acquires while holding. `sections op`
  is the sequence of guards a *successful* call takes (validated against the real code through the
  `rivia_verif` guard hook by the `sched` harness). A call that consists of ONE section is atomic:
  `RwLock` gives writers exclusion, and readers running together do not change the state.

  A program = per-thread lists of calls. For single-section calls a schedule is a list of thread
  ids (who takes the lock next); `runSchedule` executes it on the sequential model.
-/
import Rivia.Model.MemfsOps

namespace Rivia.Conc
open Rivia Rivia.Memfs

inductive GKind where
  | R | W
  deriving DecidableEq, Repr

/-- guards taken by a successful call, in order (`none` = varies with the state / not tabulated:
    chmod/chown builders, mkfile_m, the handle API, entries) -/
def sections : Op → Option (List GKind)
  | .mkfile _ | .mkdirP _ | .mkdirM _ _ | .remove _ | .removeAll _ | .moveP _ _ | .symlink _ _ | .setCwd _ => some [.W]
  | .writeAll _ _ | .appendAll _ _ => some [.W]
  | .copy _ _ | .copyB _ _ _ => some [.W]
  | .readAll _ | .read _ | .readLines _ | .readlink _ | .readlinkAbs _ | .cwd | .root | .abs _ => some [.R]
  | .exists _ | .isFile _ | .isDir _ | .isSymlink _ | .isSymlinkDir _ | .isSymlinkFile _ | .isExec _ | .isReadonly _ => some [.R]
  | .mode _ | .uid _ | .gid _ | .owner _ | .entry _ => some [.R]
  -- listing helpers: `is_dir` check and snapshot under one read guard
  | .paths _ | .dirs _ | .files _ | .allPaths _ | .allDirs _ | .allFiles _ => some [.R]
  | _ => none

def SingleSection (op : Op) : Prop := ∃ k, sections op = some [k]

instance (op : Op) : Decidable (SingleSection op) := by
  unfold SingleSection
  cases h : sections op with
  | none => exact isFalse (by intro ⟨k, hk⟩; cases hk)
  | some l =>
    match l with
    | [k] => exact isTrue ⟨k, rfl⟩
    | [] => exact isFalse (by intro ⟨k, hk⟩; cases hk)
    | _ :: _ :: _ => exact isFalse (by intro ⟨k, hk⟩; cases hk)

/-- configuration: shared state, per-thread calls still to make, per-thread results so far -/
structure Cfg where
  st : State
  todo : List (List Op)
  done : List (List (Outcome Val))
  deriving Repr

/-- thread `i` runs its next call as one atomic section -/
def stepThread (env : Env) (c : Cfg) (i : Nat) : Option Cfg :=
  match c.todo[i]? with
  | some (op :: rest) =>
    let (o, s') := step env c.st op
    some { st := s', todo := c.todo.set i rest, done := c.done.set i ((c.done[i]?.getD []) ++ [o]) }
  | _ => none

def runSchedule (env : Env) : Cfg → List Nat → Option Cfg
  | c, [] => some c
  | c, i :: is => match stepThread env c i with
    | some c' => runSchedule env c' is
    | none => none

/-- the sequential order of calls a schedule induces -/
def induced : List (List Op) → List Nat → List Op
  | _, [] => []
  | todo, i :: is =>
    match todo[i]? with
    | some (op :: rest) => op :: induced (todo.set i rest) is
    | _ => []

/-- `l` is an interleaving of the lists `ls` that keeps each list's own order -/
inductive Interleaving : List (List Op) → List Op → Prop where
  | nil (ls : List (List Op)) (h : ∀ l ∈ ls, l = []) : Interleaving ls []
  | cons (ls : List (List Op)) (i : Nat) (op : Op) (rest : List Op) (l : List Op)
      (h : ls[i]? = some (op :: rest)) (t : Interleaving (ls.set i rest) l) : Interleaving ls (op :: l)

/-- sequential execution collecting results -/
def runSeq (env : Env) : State → List Op → State × List (Outcome Val)
  | s, [] => (s, [])
  | s, op :: ops =>
    let (o, s') := step env s op
    let (sf, os) := runSeq env s' ops
    (sf, o :: os)

end Rivia.Conc
