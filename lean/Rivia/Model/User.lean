/-
  Rivia.Model.User — transcription of the environment-driven lookups of `src/sys/user.rs`
  (XDG directories, getrids) and of `VirtualFileSystem::config_dir`.
-/
import Rivia.Model.Path

namespace Rivia.User
open Rivia

def v (s : String) : Str := s.toList

def homeOr (env : Env) (var : String) (dflt : Str → Str) : Outcome Str :=
  match env (v var) with
  | some x => .ok x
  | none => match homeDir env with
    | .ok h => .ok (dflt h)
    | .err k => .err k
    | .panic => .panic
    | .hang => .hang

def configDir (env : Env) : Outcome Str := homeOr env "XDG_CONFIG_HOME" (fun h => mash h (v ".config"))
def cacheDir (env : Env) : Outcome Str := homeOr env "XDG_CACHE_HOME" (fun h => mash h (v ".cache"))
def dataDir (env : Env) : Outcome Str := homeOr env "XDG_DATA_HOME" (fun h => mash (mash h (v ".local")) (v "share"))
def stateDir (env : Env) : Outcome Str := homeOr env "XDG_STATE_HOME" (fun h => mash (mash h (v ".local")) (v "state"))

def runtimeDir (env : Env) : Str :=
  match env (v "XDG_RUNTIME_DIR") with
  | some x => x
  | none => v "/tmp"

def listOr (env : Env) (var : String) (dflt : List Str) : List Str :=
  match env (v var) with
  | some x => let ps := parsePaths x; if ps.isEmpty then dflt else ps
  | none => dflt

def sysDataDirs (env : Env) : List Str := listOr env "XDG_DATA_DIRS" [v "/usr/local/share", v "/usr/share"]
def sysConfigDirs (env : Env) : List Str := listOr env "XDG_CONFIG_DIRS" [v "/etc/xdg"]

def pathDirs (env : Env) : Outcome (List Str) :=
  match env (v "PATH") with
  | some x => .ok (parsePaths x)
  | none => .err .var

/-- Rust `str::parse::<u32>()`: optional `+`, at least one ASCII digit, value < 2^32 -/
def parseU32 (s : Str) : Option Nat :=
  let ds := match s with | '+' :: r => r | _ => s
  if ds = [] ∨ !ds.all Char.isDigit then none
  else
    let n := ds.foldl (fun acc c => acc * 10 + (c.toNat - 48)) 0
    if n < 2 ^ 32 then some n else none

def getrids (env : Env) (uid gid : Nat) : Nat × Nat :=
  if uid = 0 then
    match env (v "SUDO_UID"), env (v "SUDO_GID") with
    | some u, some g =>
      match parseU32 u, parseU32 g with
      | some u', some g' => (u', g')
      | _, _ => (uid, gid)
    | _, _ => (uid, gid)
  else (uid, gid)

/-- `vfs.config_dir(name)`; `ex` = `vfs.exists` (repaired code: the system directories are always
    searched; the user directory is prepended when `user::config_dir()` succeeds.
    `sys_config_dirs().unwrap_or_default()`: `sysConfigDirs` is total here, it never fails) -/
def vfsConfigDir (env : Env) (ex : Str → Bool) (name : Str) : Option Str :=
  let dirs := sysConfigDirs env
  let dirs := match configDir env with
    | .ok c => c :: dirs
    | _ => dirs
  dirs.find? (fun d => ex (mash d name))

end Rivia.User
