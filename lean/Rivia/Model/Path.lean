/-
  Rivia.Model.Path — transcription of `src/sys/fs/path.rs` (and the `std::path` pieces it uses,
  DESIGN Appendix B) over `Str = List Char`.  The model is of the code that exists: defects are
  reproduced (e.g. `trimPrefix` slices a byte string at a *character* count).
-/
import Rivia.Model.Str
import Rivia.Model.Outcome

namespace Rivia
open Str

/-- `std::path::Component` on Unix. -/
inductive Comp where
  | root | cur | parent
  | normal (s : Str)
  deriving DecidableEq, Repr, Inhabited

/-- `Component::as_os_str`. -/
def Comp.str : Comp → Str
  | .root => ['/']
  | .cur => ['.']
  | .parent => ['.', '.']
  | .normal s => s

def splitSlash (s : Str) : List Str := splitOn '/' s

/-- A piece between separators that is a real body component (not empty, not `.`). -/
def isBody (p : Str) : Bool := !(p == [] || p == ['.'])

def bodyComp (p : Str) : Option Comp :=
  if p = [] ∨ p = ['.'] then none
  else if p = ['.', '.'] then some .parent
  else some (.normal p)

def isRooted : Str → Bool
  | '/' :: _ => true
  | _ => false

/-- `Path::components()` for Unix: repeated separators and inner `.` dropped, a leading `.` of a
    relative path kept as `CurDir`, trailing separator dropped. -/
def components (s : Str) : List Comp :=
  if isRooted s then .root :: (splitSlash s).filterMap bodyComp
  else (if (splitSlash s).head? = some ['.'] then [.cur] else []) ++ (splitSlash s).filterMap bodyComp

def endsWithSlash : Str → Bool
  | [] => false
  | [c] => c == '/'
  | _ :: cs => endsWithSlash cs

/-- `PathBuf::push`: an absolute argument replaces the buffer; otherwise a separator is inserted
    iff the buffer is non-empty and does not end in one. -/
def push (buf p : Str) : Str :=
  if isRooted p then p
  else if buf ≠ [] ∧ endsWithSlash buf = false then buf ++ '/' :: p
  else buf ++ p

/-- `iter.collect::<PathBuf>()` over components = successive `push`. -/
def render (cs : List Comp) : Str := cs.foldl (fun b c => push b c.str) []

/-- Drop trailing elements satisfying `p`. -/
def dropTrailing {α} (p : α → Bool) (l : List α) : List α := (l.reverse.dropWhile p).reverse

/-- `Path::parent()` at the string level: the sub-slice that ends with the second-to-last
    component; `none` if there is no component or the last one is the root. -/
def parentStr (s : Str) : Option Str :=
  match splitSlash s with
  | [] => none
  | p0 :: rest =>
    let rest' := dropTrailing (fun p => !isBody p) rest
    match rest'.reverse with
    | [] =>
      -- the last component is `p0` itself
      if isRooted s then none else if p0 = [] then none else some []
    | _ :: before =>
      let rest'' := dropTrailing (fun p => !isBody p) before.reverse
      if rest'' = [] ∧ isRooted s then some ['/'] else some (joinWith '/' (p0 :: rest''))

/-- `PathBuf::pop`: truncate to the parent if there is one. -/
def pop (buf : Str) : Str :=
  match parentStr buf with
  | some p => p
  | none => buf

/-! ### clean -/

structure CleanSt where
  cnt : Nat
  prev : Option Comp
  buf : Str
  deriving Repr, DecidableEq

/-- One iteration of the `for component in path.components()` loop of `clean`.
    `none` = the `prev.unwrap()` would panic. -/
def cleanStep (st : CleanSt) (c : Comp) : Option CleanSt :=
  if c = .cur ∧ st.cnt = 0 then some st
  else if c = .parent ∧ st.cnt > 0 ∧ st.prev ≠ some .parent then
    match st.prev with
    | none => none
    | some .root => some st
    | some (.normal _) =>
      let b := pop st.buf
      some { cnt := st.cnt - 1, prev := (components b).getLast?, buf := b }
    | some _ => some st
  else some { cnt := st.cnt + 1, prev := some c, buf := push st.buf c.str }

def cleanFold : CleanSt → List Comp → Option CleanSt
  | st, [] => some st
  | st, c :: cs => match cleanStep st c with
    | none => none
    | some st' => cleanFold st' cs

/-- `sys::clean`; `none` = panic. -/
def cleanO (s : Str) : Option Str :=
  match cleanFold ⟨0, none, []⟩ (components s) with
  | none => none
  | some st => if st.buf = [] then some ['.'] else some st.buf

/-! ### simple helpers -/

/-- `trim_prefix` as written: `&base[prefix.len()..]` (byte slicing; `none` = panic). -/
def trimPrefixO (path pre : Str) : Option Str :=
  if pre.isPrefixOf path then dropBytes path (byteLen pre) else some path

/-- `trim_suffix` as written: `&base[..base.len() - suffix.len()]` (`none` = panic). -/
def trimSuffixO (path suf : Str) : Option Str :=
  if suf.isSuffixOf path then takeBytes path (byteLen path - byteLen suf) else some path

/-- `trim_prefix` on characters. `Lemmas.trimPrefixO_eq` shows the byte slicing above never
    panics and equals this (a prefix always ends on a char boundary). -/
def trimPrefix (path pre : Str) : Str :=
  if pre.isPrefixOf path then path.drop pre.length else path

/-- `trim_suffix` on characters (see `trimPrefix`). -/
def trimSuffix (path suf : Str) : Str :=
  if suf.isSuffixOf path then path.take (path.length - suf.length) else path

/-- remove every leading separator (`str::trim_start_matches('/')`) -/
def stripSlashes : Str → Str
  | '/' :: r => stripSlashes r
  | s => s

/-- `mash`: trim all leading separators of `base`, `join`, re-collect the components. -/
def mash (dir base : Str) : Str := render (components (push dir (stripSlashes base)))

def isAbsolute (s : Str) : Bool := isRooted s

def base (s : Str) : Outcome Str :=
  match (components s).getLast? with
  | some c => .ok c.str
  | none => .err .iterItemNotFound

def first (s : Str) : Outcome Str :=
  match (components s).head? with
  | some c => .ok c.str
  | none => .err .iterItemNotFound

def dir (s : Str) : Outcome Str :=
  match parentStr s with
  | some p => .ok p
  | none => .err .parentNotFound

def concat (p v : Str) : Str := p ++ v

def fileName (s : Str) : Option Str :=
  match (components s).getLast? with
  | some (.normal n) => some n
  | _ => none

/-- `Path::extension`: after the last `.` of the file name; none without a dot or when the only
    dot is the first byte. -/
def extension (s : Str) : Option Str :=
  match fileName s with
  | none => none
  | some n =>
    let r := n.reverse
    let afterRev := r.takeWhile (· ≠ '.')
    match r.dropWhile (· ≠ '.') with
    | [] => none
    | _ :: beforeRev => if beforeRev = [] then none else some afterRev.reverse

def ext (s : Str) : Outcome Str :=
  match extension s with
  | some e => .ok e
  | none => .err .extensionNotFound

def trimExt (s : Str) : Outcome Str :=
  match extension s with
  | some e => Outcome.ofPanicOption (trimSuffixO s ('.' :: e))
  | none => .ok s

def name (s : Str) : Outcome Str :=
  match trimExt s with
  | .ok t => base t
  | .err k => .err k
  | .panic => .panic
  | .hang => .hang

def has (p v : Str) : Bool := Str.contains p v
def hasPrefix (p v : Str) : Bool := v.isPrefixOf p
def hasSuffix (p v : Str) : Bool := v.isSuffixOf p
def isEmpty (p : Str) : Bool := p == []
def last (s : Str) : Outcome Str := base s

def parsePaths (s : Str) : List Str := (splitOn ':' s).filter (· ≠ [])

/-- `components().drop(1).as_path()`: rest after the first component with leading/trailing
    non-components trimmed. -/
def trimFirst (s : Str) : Str :=
  match splitSlash s with
  | [] => []
  | _ :: rest =>
    joinWith '/' (dropTrailing (fun p => !isBody p) (rest.dropWhile (fun p => !isBody p)))

/-- `components().drop(-1).as_path()`. -/
def trimLast (s : Str) : Str := (parentStr s).getD []

def proto (s : String) : Str := s.toList

def trimProtocol (s : Str) : Str :=
  match findIdx s ['/', '/'] with
  | none => s
  | some i =>
    let pre := s.take (i + 2)
    let suf := s.drop (i + 2)
    let l := lower pre
    let l := trimStartMatches l (proto "file://")
    let l := trimStartMatches l (proto "ftp://")
    let l := trimStartMatches l (proto "http://")
    let l := trimStartMatches l (proto "https://")
    if l ≠ [] then pre ++ suf else suf

/-! ### relative -/

def relLoop : List Comp → List Comp → List Comp → List Comp
  | [], [], acc => acc
  | [], _ :: ys, acc => relLoop [] ys (acc ++ [.parent])
  | a :: xs, [], acc => acc ++ a :: xs
  | a :: xs, b :: ys, acc =>
    if acc.isEmpty ∧ a = b then relLoop xs ys acc
    else acc ++ (.parent :: ys.map (fun _ => Comp.parent)) ++ a :: xs

def relative (p b : Str) : Str :=
  if components p = components b then p
  else render (relLoop (components p) (components b) [])

/-! ### expand -/

abbrev Env := Str → Option Str

def homeDir (env : Env) : Outcome Str :=
  match env (proto "HOME") with
  | some h => .ok h
  | none => .err .var

def isVarChar (x : Char) : Bool := x ≠ '$' && x ≠ '}'

/-- The per-component `$VAR` / `${VAR}` scanner of `expand`. -/
def expandSeg (env : Env) : Nat → Str → Str → Outcome Str
  | 0, _, acc => .ok acc
  | _ + 1, [], acc => .ok acc
  | f + 1, cs, acc =>
    let lit := cs.takeWhile (· ≠ '$')
    let acc := acc ++ lit
    match cs.dropWhile (· ≠ '$') with
    | [] => .ok acc
    | _ :: rest =>
      let rest := if rest.head? = some '{' then rest.tail else rest
      let var := rest.takeWhile isVarChar
      let rest := rest.dropWhile isVarChar
      let rest := if rest.head? = some '}' then rest.tail else rest
      if var = [] then .err .invalidExpansion
      else match env var with
        | none => .err .var
        | some v => expandSeg env f rest (acc ++ v)

def expandComps (env : Env) : List Comp → Str → Outcome Str
  | [], buf => .ok buf
  | .normal y :: cs, buf =>
    match expandSeg env (y.length + 1) y [] with
    | .ok s => expandComps env cs (push buf s)
    | .err k => .err k
    | .panic => .panic
    | .hang => .hang
  | c :: cs, buf => expandComps env cs (push buf c.str)

def expand (env : Env) (s : Str) : Outcome Str :=
  let cnt := s.count '~'
  let stage1 : Outcome Str :=
    if cnt > 1 then .err .multipleHomeSymbols
    else if cnt = 1 ∧ !(hasPrefix s ['~', '/']) ∧ s ≠ ['~'] then .err .invalidExpansion
    else if cnt = 1 ∧ s = ['~'] then homeDir env
    else if cnt = 1 then
      match homeDir env with
      | .ok h => match dropBytes s 2 with
        | some r => .ok (mash h r)
        | none => .panic
      | o => o
    else .ok s
  match stage1 with
  | .ok p => if p.any (· == '$') then expandComps env (components p) [] else .ok p
  | o => o

/-! ### abs (Memfs::_abs; Stdfs::abs is transcribed separately in Stdfs.lean) -/

def absLoop : Nat → Str → Str → Outcome Str
  | 0, curr, _ => .ok curr
  | f + 1, curr, p =>
    match (components p).head? with
    | none => .ok curr
    | some .cur => absLoop f curr (trimFirst p)
    | some .parent =>
      if curr = ['/'] then .err .parentNotFound
      else match dir curr with
        | .ok d => absLoop f d (trimFirst p)
        | .err k => .err k
        | .panic => .panic
        | .hang => .hang
    | some _ => .ok (mash curr p)

def absWith (env : Env) (cwd : Str) (s : Str) : Outcome Str :=
  if s = [] then .err .empty
  else match expand env s with
    | .ok p =>
      match cleanO (trimProtocol p) with
      | none => .panic
      | some c =>
        if isAbsolute c then .ok c
        else absLoop ((components c).length + 1) cwd c
    | .err k => .err k
    | .panic => .panic
    | .hang => .hang

end Rivia

namespace Rivia

/-! ### Stdfs::abs — transcribed separately from `src/sys/fs/stdfs/mod.rs` (the code is a second
    copy of the pipeline: empty check, expand, trim_protocol, clean, walk leading `.`/`..` against the
    process cwd, mash) -/

def absLoopStd : Nat → Str → Str → Outcome Str
  | 0, curr, _ => .ok curr
  | f + 1, curr, p =>
    match (components p).head? with
    | none => .ok curr
    | some .cur => absLoopStd f curr (trimFirst p)
    | some .parent =>
      if curr = ['/'] then .err .parentNotFound
      else match dir curr with
        | .ok d => absLoopStd f d (trimFirst p)
        | .err k => .err k
        | .panic => .panic
        | .hang => .hang
    | some _ => .ok (mash curr p)

def absStdWith (env : Env) (cwd : Str) (s : Str) : Outcome Str :=
  if isEmpty s then .err .empty
  else match expand env s with
    | .ok p =>
      match cleanO (trimProtocol p) with
      | none => .panic
      | some c =>
        if isAbsolute c then .ok c
        else absLoopStd ((components c).length + 1) cwd c
    | .err k => .err k
    | .panic => .panic
    | .hang => .hang

end Rivia
