/-
  Rivia.Model.MemfsOps — the `VirtualFileSystem for Memfs` trait surface as one step function
  `step : Env → State → Op → Outcome Val × State` over the pieces of Model/Memfs.lean.
-/
import Rivia.Model.Memfs

namespace Rivia.Memfs
open Rivia Rivia.File M

/-- traversal options as the `Entries` builder calls set them (applied in this order:
    min_depth, max_depth, dirs/files, follow, sort_by_name/dirs_first/files_first, contents_first,
    descriptor cap) -/
structure TravReq where
  min : Nat := 0
  max : Option Nat := none
  kind : Char := 'a'           -- a | d | f
  follow : Bool := false
  order : Char := 'u'          -- u | s | d | f
  contentsFirst : Bool := false
  maxDesc : Option Nat := none
  deriving Repr, DecidableEq

def TravReq.opts (r : TravReq) : Opts :=
  let o : Opts := {}
  let o := o.setMin r.min
  let o := match r.max with | some m => o.setMax m | none => o
  let o := if r.kind = 'd' then { o with dirs := true, files := false }
           else if r.kind = 'f' then { o with dirs := false, files := true } else o
  let o := { o with follow := r.follow }
  let o := if r.order = 's' then { o with sorted := true }
           else if r.order = 'd' then { o with sorted := true, dirsFirst := true }
           else if r.order = 'f' then { o with sorted := true, filesFirst := true } else o
  let o := { o with contentsFirst := r.contentsFirst }
  match r.maxDesc with | some m => { o with maxDesc := m } | none => o

inductive Op where
  | mkfile (p : Str) | mkfileM (p : Str) (mode : Nat) | mkdirP (p : Str) | mkdirM (p : Str) (mode : Nat)
  | writeAll (p : Str) (d : Bytes) | appendAll (p : Str) (d : Bytes)
  | writeLines (p : Str) (ls : List Str) | appendLines (p : Str) (ls : List Str) | appendLine (p : Str) (l : Str)
  | readAll (p : Str) | readLines (p : Str) | read (p : Str)
  | remove (p : Str) | removeAll (p : Str)
  | symlink (l t : Str) | readlink (p : Str) | readlinkAbs (p : Str)
  | setCwd (p : Str) | cwd | root | abs (p : Str)
  | exists (p : Str) | isFile (p : Str) | isDir (p : Str) | isSymlink (p : Str) | isSymlinkDir (p : Str)
  | isSymlinkFile (p : Str) | isExec (p : Str) | isReadonly (p : Str)
  | mode (p : Str) | uid (p : Str) | gid (p : Str) | owner (p : Str) | entry (p : Str)
  | paths (p : Str) | dirs (p : Str) | files (p : Str) | allPaths (p : Str) | allDirs (p : Str) | allFiles (p : Str)
  | chmod (p : Str) (mode : Nat) | chmodB (p : Str) (c : ChmodOpts)
  | chown (p : Str) (uid gid : Nat) | chownB (p : Str) (c : ChownOpts)
  | copy (s d : Str) | copyB (s d : Str) (c : CopyOpts) | moveP (s d : Str)
  | entries (p : Str) (r : TravReq)
  | hWrite (id : Nat) (p : Str) | hAppend (id : Nat) (p : Str) | hPut (id : Nat) (d : Bytes)
  | hFlush (id : Nat) | hDrop (id : Nat)
  deriving Repr, DecidableEq

/-- what a call returns -/
inductive Val where
  | unit
  | path (p : FsPath)
  | str (s : Str)
  | bool (b : Bool)
  | nat (n : Nat)
  | pair (a b : Nat)
  | strs (l : List Str)
  | paths (l : List FsPath)
  | bytes (b : Bytes)
  | entry (e : Entry)
  | trav (items : List FsPath) (err : Option ErrKind)    -- yielded paths, then the error that ended it
  deriving Repr, DecidableEq

def mapVal {α} (f : α → Val) (m : M α) : M Val := fun s =>
  match m s with
  | (.ok a, s') => (.ok (f a), s')
  | (.err k, s') => (.err k, s')
  | (.panic, s') => (.panic, s')
  | (.hang, s') => (.hang, s')

/-- queries that map `abs` errors to `false` (`unwrap_or_false!`) -/
def boolQuery (env : Env) (p : Str) (f : Entry → Bool) : M Val := fun s =>
  match absM env p s with
  | (.ok a, _) => (.ok (.bool (match alLookup a s.entries with | some e => f e | none => false)), s)
  | (.panic, _) => (.panic, s)
  | _ => (.ok (.bool false), s)

def entryQuery {α} (env : Env) (p : Str) (f : Entry → α) : M α := do
  let a ← absM env p
  match (← getEntry a) with
  | some e => return f e
  | none => fail .doesNotExist

def isExecE (e : Entry) : Bool := e.mode &&& 0o111 != 0
def isReadonlyE (e : Entry) : Bool := e.mode &&& 0o222 == 0

def travM (env : Env) (p : Str) (r : TravReq) : M Val := do
  let k ← absM env p
  let st ← get
  let (rootE, snap) ← liftO (entriesOf st k)
  let step : Entry → List FsPath → Outcome Unit × List FsPath := fun e acc => (.ok (), e.path :: acc)
  match runIter snap r.opts noPre rootE step (travFuel snap) {} [] with
  | (.ok (), acc) => return .trav acc.reverse none
  | (.err kk, acc) => return .trav acc.reverse (some kk)
  | (.panic, _) => fun st => (.panic, st)
  | (.hang, _) => fun st => (.hang, st)

def step (env : Env) (s : State) : Op → Outcome Val × State
  | .mkfile p => mapVal .path (mkfileM env p) s
  | .mkfileM p mode =>
    -- mkfile, then `self.chmod(&path, mode)` (= chmod_b(path).all(mode).exec(), recursive default)
    mapVal .path (do
      let r ← mkfileM env p
      chmodM env (renderP r) { dirs := mode, files := mode }
      return r) s
  | .mkdirP p => mapVal .path (mkdirOp env p none) s
  | .mkdirM p mode => mapVal .path (mkdirOp env p (some mode)) s
  | .writeAll p d => mapVal (fun _ => .unit) (writeAllM env p d) s
  | .appendAll p d => mapVal (fun _ => .unit) (appendAllM env p d) s
  | .writeLines p ls => mapVal (fun _ => .unit) (writeLinesM env p ls) s
  | .appendLines p ls => mapVal (fun _ => .unit) (appendLinesM env p ls) s
  | .appendLine p l => mapVal (fun _ => .unit) (appendLineM env p l) s
  | .readAll p => mapVal .str (readAllM env p) s
  | .readLines p => mapVal .strs (readLinesM env p) s
  | .read p => mapVal .bytes (cloneFileM env p) s
  | .remove p => mapVal (fun _ => .unit) (removeM env p) s
  | .removeAll p => mapVal (fun _ => .unit) (removeAllM env p) s
  | .symlink l t => mapVal .path (symlinkM env l t) s
  | .readlink p => mapVal .str (do
      let k ← absM env p
      match (← getEntry k) with
      | some e => if !e.link then fail .isNotSymlink else return e.rel
      | none => fail .doesNotExist) s
  | .readlinkAbs p => mapVal .path (do
      let k ← absM env p
      match (← getEntry k) with
      | some e => if !e.link then fail .isNotSymlink else return e.alt.getD []
      | none => fail .doesNotExist) s
  | .setCwd p => mapVal .path (setCwdM env p) s
  | .cwd => (.ok (.path s.cwd), s)
  | .root => (.ok (.path s.root), s)
  | .abs p => mapVal .path (absM env p) s
  | .exists p => boolQuery env p (fun _ => true) s
  | .isFile p => boolQuery env p (fun e => e.file && !e.link) s
  | .isDir p => boolQuery env p (fun e => e.dir && !e.link) s
  | .isSymlink p => boolQuery env p (·.link) s
  | .isSymlinkDir p => boolQuery env p (fun e => e.link && e.dir) s
  | .isSymlinkFile p => boolQuery env p (fun e => e.link && e.file) s
  | .isExec p => boolQuery env p isExecE s
  | .isReadonly p => boolQuery env p isReadonlyE s
  | .mode p => mapVal .nat (entryQuery env p (·.mode)) s
  | .uid p => mapVal .nat (entryQuery env p (·.uid)) s
  | .gid p => mapVal .nat (entryQuery env p (·.gid)) s
  | .owner p => mapVal (fun (x : Nat × Nat) => .pair x.1 x.2) (entryQuery env p (fun e => (e.uid, e.gid))) s
  | .entry p => mapVal .entry (entryQuery env p id) s
  | .paths p => mapVal .paths (listing env p (some 1) false false) s
  | .dirs p => mapVal .paths (listing env p (some 1) true false) s
  | .files p => mapVal .paths (listing env p (some 1) false true) s
  | .allPaths p => mapVal .paths (listing env p none false false) s
  | .allDirs p => mapVal .paths (listing env p none true false) s
  | .allFiles p => mapVal .paths (listing env p none false true) s
  | .chmod p mode => mapVal (fun _ => .unit) (chmodM env p { dirs := mode, files := mode }) s
  | .chmodB p c => mapVal (fun _ => .unit) (chmodM env p c) s
  | .chown p uid gid => mapVal (fun _ => .unit) (chownM env p { uid := some uid, gid := some gid }) s
  | .chownB p c => mapVal (fun _ => .unit) (chownM env p c) s
  | .copy a b => mapVal (fun _ => .unit) (copyM env a b {}) s
  | .copyB a b c => mapVal (fun _ => .unit) (copyM env a b c) s
  | .moveP a b => mapVal (fun _ => .unit) (moveM env a b) s
  | .entries p r => travM env p r s
  | .hWrite id p => mapVal (fun _ => .unit) (openWriteM env p id) s
  | .hAppend id p => mapVal (fun _ => .unit) (openAppendM env p id) s
  | .hPut id d => mapVal (fun _ => .unit) (handleWriteM id d) s
  | .hFlush id => mapVal (fun _ => .unit) (handleFlushM id) s
  | .hDrop id => mapVal (fun _ => .unit) (handleDropM id) s

/-- run a history from a state -/
def run (env : Env) : State → List Op → State
  | s, [] => s
  | s, op :: ops => run env (step env s op).2 ops

end Rivia.Memfs
