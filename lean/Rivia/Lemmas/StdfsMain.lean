/-
  Rivia.Lemmas.StdfsMain — C02: the per-step refinement theorem, assembled from the per-operation
  simulation lemmas.
-/
import Rivia.Lemmas.StdfsChmod

namespace Rivia.Lemmas.StdfsL
open Rivia Rivia.Memfs Rivia.File Rivia.Spec Rivia.Spec.TreeFs Rivia.Posix Rivia.Stdfs
open Rivia.Lemmas.RefineA (TEquiv ResMatch)

theorem ctx_of {env : Env} {t : T} {op : Op} (hW : Wf t) (hD : D2 env t op) : Ctx env t ∧ opOk env t op = true := by
  unfold D2 d2B at hD
  simp only [Bool.and_eq_true] at hD
  obtain ⟨⟨⟨⟨h1, h2⟩, h3⟩, _⟩, h5⟩ := hD
  exact ⟨⟨wf_facts hW, h1, h2, h3⟩, h5⟩

theorem of_sim {m : Outcome Val × T} {x : SR} {r : R Val} {t' : T} (hs : Sim m x)
    (h : some x = some (r, t')) : ResMatchOkErr m.1 r ∧ (r ≠ .unspecified → TEquiv m.2 t') := by
  cases h; exact hs

theorem notLink_of {env : Env} {t : T} {p : Str} (h : notLinkArg env t p = true) :
    ∀ a, resolve env t p = .ok a → isLink t a = false := by
  intro a ha
  unfold notLinkArg at h
  rw [ha] at h
  simpa using h

theorem refines_step (env : Env) (t : T) (op : Op) (r : R Val) (t' : T)
    (hW : Wf t) (hD : D2 env t op) (hC : CoveredS op = true)
    (h : specStep env t op = some (r, t')) :
    ResMatchOkErr (Stdfs.step env t op).1 r ∧ (r ≠ .unspecified → TEquiv (Stdfs.step env t op).2 t') := by
  obtain ⟨hc, ho⟩ := ctx_of hW hD
  cases op <;> simp only [CoveredS, Bool.false_eq_true] at hC <;> simp only [specStep] at h
  case cwd => exact of_sim (sim_cwd hc) h
  case root => exact of_sim sim_root h
  case abs p => exact of_sim (sim_abs hc p) h
  case «exists» p => exact of_sim (sim_exists hc p) h
  case isDir p => exact of_sim (sim_isDir hc p) h
  case isFile p => exact of_sim (sim_isFile hc p) h
  case isSymlink p => exact of_sim (sim_isSymlink hc p) h
  case isSymlinkDir p => exact of_sim (sim_isSymlinkDir hc p) h
  case isSymlinkFile p => exact of_sim (sim_isSymlinkFile hc p) h
  case isExec p => exact of_sim (sim_isExec hc p (notLink_of ho)) h
  case isReadonly p => exact of_sim (sim_isReadonly hc p (notLink_of ho)) h
  case mode p => exact of_sim (sim_mode hc p) h
  case uid p => exact of_sim (sim_uid hc p (notLink_of ho)) h
  case gid p => exact of_sim (sim_gid hc p (notLink_of ho)) h
  case owner p => exact of_sim (sim_owner hc p (notLink_of ho)) h
  case readAll p => exact of_sim (sim_readAll hc p) h
  case read p => exact of_sim (sim_read hc p) h
  case readlink p => exact of_sim (sim_readlink hc p) h
  case readlinkAbs p => exact of_sim (sim_readlinkAbs hc p) h
  case setCwd p => exact of_sim (sim_setCwd hc p) h
  case mkfile p => exact of_sim (sim_mkfile hc p) h
  case writeAll p d => exact of_sim (sim_writeAll hc p d) h
  case appendAll p d => exact of_sim (sim_appendAll hc p d) h
  case remove p => exact of_sim (sim_remove hc p) h
  case removeAll p => exact of_sim (sim_removeAll hc p) h
  case symlink l tg => exact of_sim (sim_symlink hc l tg) h
  case writeLines p ls => exact of_sim (sim_writeLines hc p ls ho) h
  case appendLines p ls => exact of_sim (sim_appendLines hc p ls ho) h
  case appendLine p l => exact of_sim (sim_appendLine hc p l (by simpa [opOk] using ho)) h
  case readLines p => exact of_sim (sim_readLines hc p) h
  case chmod p m =>
    simp only [opOk, Bool.and_eq_true, decide_eq_true_eq] at ho
    by_cases hm : permOk m = true
    · rw [if_pos hm] at h
      have hm' : m < 0o10000 := by simpa [permOk] using hm
      have key := sim_chmodK hc p (c := { dirs := m, files := m }) ⟨rfl, rfl, hm', hm'⟩ ho.2
      rw [oct_ne ho.1] at key
      exact of_sim key h
    · rw [if_neg hm] at h; cases h
  case chmodB p c =>
    simp only [opOk, Bool.and_eq_true, decide_eq_true_eq] at ho
    by_cases hf : c.follow = true
    · rw [if_pos hf] at h; cases h
    · rw [if_neg hf, if_pos ho.1] at h
      by_cases hp : permOk c.dirs = true ∧ permOk c.files = true
      · rw [if_pos hp] at h
        have hd' : c.dirs < 0o10000 := by simpa [permOk] using hp.1
        have hf' : c.files < 0o10000 := by simpa [permOk] using hp.2
        exact of_sim (sim_chmodK hc p ⟨ho.1, by simpa using hf, hd', hf'⟩ ho.2) h
      · rw [if_neg hp] at h; cases h
  case chown p uid gid => exact of_sim (sim_chownK hc p (some uid) (some gid) true ho) h
  case chownB p c =>
    obtain ⟨cu, cg, cf, cr⟩ := c
    cases cf with
    | true => simp at h
    | false =>
      simp only [Bool.false_eq_true, if_false] at h
      exact of_sim (sim_chownK hc p cu cg cr ho) h
  case paths p =>
    exact of_sim (sim_listing1 hc (listOk_facts ho) p wantAll (fun _ => true) hw_all (fun _ => true)
      (fun _ _ _ _ _ _ _ => rfl)) h
  case dirs p =>
    exact of_sim (sim_listing1 hc (listOk_facts ho) p wantDirs _ hw_dirs (fun n => decide (n.kind = .dir))
      (fun _ _ _ _ _ _ _ => rfl)) h
  case files p =>
    exact of_sim (sim_listing1 hc (listOk_facts ho) p wantFiles _ hw_files (fun n => decide (n.kind = .file))
      (fun _ _ _ _ _ _ _ => rfl)) h
  case allPaths p =>
    exact of_sim (sim_listingAll hc (listOk_facts ho) p wantAll (fun _ => true) hw_all (fun _ => true)
      (fun _ _ _ _ _ _ _ => rfl)) h
  case allDirs p =>
    exact of_sim (sim_listingAll hc (listOk_facts ho) p wantDirs _ hw_dirs (fun n => decide (n.kind = .dir))
      (fun _ _ _ _ _ _ _ => rfl)) h
  case allFiles p =>
    exact of_sim (sim_listingAll hc (listOk_facts ho) p wantFiles _ hw_files (fun n => decide (n.kind = .file))
      (fun _ _ _ _ _ _ _ => rfl)) h
  case moveP a b =>
    refine of_sim (sim_moveP hc a b ?_) h
    intro sa da hsa hda
    simp only [opOk, hsa, hda] at ho
    exact ho
  case mkdirP p => exact of_sim (sim_mkdirP hc p) h
  case mkdirM p m =>
    by_cases hm : permOk m = true ∧ m ≠ 0
    · rw [if_pos hm] at h
      exact of_sim (sim_mkdirM hc p m hm.1) h
    · rw [if_neg hm] at h; cases h

/-! ### composition with the Memfs refinement -/

/-- ok/err together, equal values on ok -/
def OutcomeAgree : Outcome Val → Outcome Val → Prop
  | .ok v, .ok w => v = w
  | .err _, .err _ => True
  | _, _ => False

theorem TEquiv.symm' {a b : T} (h : TEquiv a b) : TEquiv b a := ⟨h.1.symm, fun k => (h.2 k).symm⟩
theorem TEquiv.trans' {a b c : T} (h1 : TEquiv a b) (h2 : TEquiv b c) : TEquiv a c :=
  ⟨h1.1.trans h2.1, fun k => (h1.2 k).trans (h2.2 k)⟩

theorem backends_agree (env : Env) (s : State) (op : Op) (r : R Val) (t' : T)
    (hM : ResMatch (Memfs.step env s op).1 r ∧ (r ≠ .unspecified → TEquiv (absS (Memfs.step env s op).2) t'))
    (hS : ResMatchOkErr (Stdfs.step env (absS s) op).1 r ∧
      (r ≠ .unspecified → TEquiv (Stdfs.step env (absS s) op).2 t'))
    (hr : r ≠ .unspecified) :
    OutcomeAgree (Memfs.step env s op).1 (Stdfs.step env (absS s) op).1 ∧
      TEquiv (absS (Memfs.step env s op).2) (Stdfs.step env (absS s) op).2 := by
  refine ⟨?_, TEquiv.trans' (hM.2 hr) (TEquiv.symm' (hS.2 hr))⟩
  have h1 := hM.1
  have h2 := hS.1
  generalize (Memfs.step env s op).1 = m at h1
  generalize (Stdfs.step env (absS s) op).1 = st at h2
  cases r with
  | unspecified => exact absurd rfl hr
  | ok w =>
    cases m <;> cases st <;> simp_all [ResMatch, ResMatchOkErr, OutcomeAgree]
  | err k =>
    cases m <;> cases st <;> cases k <;> simp_all [ResMatch, ResMatchOkErr, OutcomeAgree]

/-- every group-A operation of C01 is covered here -/
theorem groupA_covered (op : Op) (hA : Rivia.Lemmas.RefineA.GroupA op = true) : CoveredS op = true := by
  cases op <;> first | rfl | cases hA

end Rivia.Lemmas.StdfsL
