/-
  Rivia.Lemmas.MoveRefine — the Memfs `move_p` refines `TreeFs.moveP` (abstraction `absS`).
-/
import Rivia.Lemmas.MoveP
import Rivia.Lemmas.AbsWf
import Rivia.Spec.CopySpec

namespace Rivia.Lemmas
open Rivia Rivia.Str Rivia.Memfs Rivia.Spec Rivia.Spec.TreeFs Rivia.Memfs.M

/-! ### lookups in mapped / filtered / appended association lists -/

section
variable {β γ : Type}

theorem alLookup_map_val (f : FsPath → β → γ) (k : FsPath) (l : List (FsPath × β)) :
    alLookup k (l.map (fun kv => (kv.1, f kv.1 kv.2))) = (alLookup k l).map (f k) := by
  induction l with
  | nil => rfl
  | cons x r ih =>
    obtain ⟨k1, v1⟩ := x
    simp only [List.map_cons, alLookup]
    by_cases h : k1 = k
    · subst h; simp
    · simp only [h, if_false]; exact ih

theorem alLookup_append (k : FsPath) (a b : List (FsPath × β)) :
    alLookup k (a ++ b) = (alLookup k a).or (alLookup k b) := by
  induction a with
  | nil => simp [alLookup]
  | cons x r ih =>
    obtain ⟨k1, v1⟩ := x
    simp only [List.cons_append, alLookup]
    by_cases h : k1 = k
    · simp [h]
    · simp only [h, if_false]; exact ih

theorem alLookup_filter_key (p : FsPath → Bool) (k : FsPath) (l : List (FsPath × β)) :
    alLookup k (l.filter (fun kv => p kv.1)) = if p k = true then alLookup k l else none := by
  induction l with
  | nil => simp [alLookup]
  | cons x r ih =>
    obtain ⟨k1, v1⟩ := x
    simp only [List.filter_cons]
    by_cases h : k1 = k
    · subst h
      by_cases hp : p k1 = true
      · simp [hp, alLookup]
      · have hp' : p k1 = false := by simpa using hp
        simp only [hp', Bool.false_eq_true, if_false]
        rw [ih]; simp [hp']
    · by_cases hp : p k1 = true
      · simp only [hp, if_true, alLookup, h, if_false]; exact ih
      · have hp' : p k1 = false := by simpa using hp
        simp only [hp', Bool.false_eq_true, if_false, alLookup, h]; exact ih

end

theorem get_absS (σ : State) (k : FsPath) : get (absS σ) k = nodeAt σ k :=
  alLookup_map_val (absNode σ) k σ.entries

theorem isPrefixOrEq_iff (p q : FsPath) : isPrefixOrEq p q = true ↔ ∃ r, q = p ++ r := by
  unfold isPrefixOrEq
  simp only [Bool.and_eq_true, decide_eq_true_eq, beq_iff_eq]
  constructor
  · rintro ⟨_, h⟩
    refine ⟨q.drop p.length, ?_⟩
    have := List.take_append_drop p.length q
    rw [h] at this
    exact this.symm
  · rintro ⟨r, rfl⟩
    simp

theorem isPrefixOrEq_append (p r : FsPath) : isPrefixOrEq p (p ++ r) = true :=
  (isPrefixOrEq_iff _ _).2 ⟨r, rfl⟩

theorem isPrefixOrEq_false_iff (p q : FsPath) : isPrefixOrEq p q = false ↔ ∀ r, q ≠ p ++ r := by
  rw [← Bool.not_eq_true, isPrefixOrEq_iff]
  simp

/-- the re-keyed subtree of `TreeFs.moveP` -/
theorem alLookup_moved {β : Type} (s dst : FsPath) (l : List (FsPath × β)) (r : FsPath) :
    alLookup (dst ++ r) (l.filterMap (fun kv =>
      if isPrefixOrEq s kv.1 then some (dst ++ kv.1.drop s.length, kv.2) else none)) =
    alLookup (s ++ r) l := by
  induction l with
  | nil => rfl
  | cons x t ih =>
    obtain ⟨k1, v1⟩ := x
    simp only [List.filterMap_cons]
    cases h : isPrefixOrEq s k1 with
    | true =>
      obtain ⟨r1, rfl⟩ := (isPrefixOrEq_iff _ _).1 h
      simp only [if_true, List.drop_left, alLookup]
      by_cases hr : r1 = r
      · subst hr; simp
      · have h1 : ¬ dst ++ r1 = dst ++ r := fun hh => hr (List.append_cancel_left hh)
        have h2 : ¬ s ++ r1 = s ++ r := fun hh => hr (List.append_cancel_left hh)
        simp only [h1, h2, if_false]; exact ih
    | false =>
      have h2 : ¬ k1 = s ++ r := (isPrefixOrEq_false_iff _ _).1 h r
      simp only [Bool.false_eq_true, if_false, alLookup, h2]
      exact ih

theorem alLookup_moved_other {β : Type} (s dst : FsPath) (l : List (FsPath × β)) (k : FsPath)
    (hk : ∀ r, k ≠ dst ++ r) :
    alLookup k (l.filterMap (fun kv =>
      if isPrefixOrEq s kv.1 then some (dst ++ kv.1.drop s.length, kv.2) else none)) = none := by
  induction l with
  | nil => rfl
  | cons x t ih =>
    obtain ⟨k1, v1⟩ := x
    simp only [List.filterMap_cons]
    cases h : isPrefixOrEq s k1 with
    | true =>
      simp only [if_true, alLookup]
      rw [if_neg (fun hh => hk _ hh.symm)]
      exact ih
    | false =>
      simp only [Bool.false_eq_true, if_false]
      exact ih

theorem kindOf_dir_iff (e : Entry) : (kindOf e = Kind.dir) ↔ (e.dir = true ∧ e.link = false) := by
  unfold kindOf
  cases e.link <;> cases e.dir <;> simp

theorem kindOf_file_iff (e : Entry) : (kindOf e = Kind.file) ↔ (e.dir = false ∧ e.link = false) := by
  unfold kindOf
  cases e.link <;> cases e.dir <;> simp

theorem isDir_absS (σ : State) (p : FsPath) : isDir (absS σ) p = isDirP σ p := by
  unfold isDir isDirP
  rw [get_absS]
  unfold nodeAt
  cases alLookup p σ.entries with
  | none => rfl
  | some e =>
    simp only [Option.map_some, absNode]
    have := kindOf_dir_iff e
    cases hd : e.dir <;> cases hl : e.link <;> simp_all

/-- the reference `move_p` on the abstraction of a validated pre-state -/
theorem treeMoveP_of_setup {s0 : State} {sk dk D pre : FsPath} {srcE : Entry} (hkind : KindWf s0)
    (hs : MoveSetup s0 sk dk D pre srcE) :
    TreeFs.moveP (absS s0) sk dk = (.ok (), ⟨
      (absS s0).nodes.filter (fun kv => !(isPrefixOrEq sk kv.1) && kv.1 ≠ D) ++
      (absS s0).nodes.filterMap (fun kv =>
        if isPrefixOrEq sk kv.1 then some (D ++ kv.1.drop sk.length, kv.2) else none), s0.cwd⟩) := by
  have hget : get (absS s0) sk = some (absNode s0 sk srcE) := by
    rw [get_absS]; unfold nodeAt; rw [hs.src]; rfl
  have hD : (if isDir (absS s0) dk = true then dk ++ [baseName sk] else dk) = D := by
    rw [isDir_absS, hs.dform]
  have h1 : ¬ sk = D := fun h => hs.hinc [] [] (by simp [h])
  have h2 : isPrefixOrEq sk D = false := by
    rw [isPrefixOrEq_false_iff]
    intro r h
    exact hs.hinc r [] (by rw [List.append_nil]; exact h.symm)
  obtain ⟨pe, hpe, hped, hpel⟩ := hs.dparent
  have h3 : isDir (absS s0) D.dropLast = true := by
    rw [isDir_absS]; simp [isDirP, hpe, hped, hpel]
  unfold TreeFs.moveP
  rw [hget]
  simp only [hD, hs.skne, h1, h2, hs.dne, h3, if_false, Bool.false_eq_true, Bool.not_true]
  rcases hs.dfree with h | ⟨x, hx, hxd, hxf, hxl, hsf, hsl⟩
  · simp only [get_absS, nodeAt, h, Option.map_none, Bool.not_true, Bool.false_eq_true, if_false]
    rfl
  · have hsd : srcE.dir = false := by
      have := hkind.at hs.src
      rw [hsf] at this
      simpa using this
    have k1 : kindOf srcE = Kind.file := (kindOf_file_iff _).2 ⟨hsd, hsl⟩
    have k2 : kindOf x = Kind.file := (kindOf_file_iff _).2 ⟨hxd, hxl⟩
    simp only [get_absS, nodeAt, hx, Option.map_some, absNode, k1, k2, decide_true, Bool.and_self,
      Bool.true_or, Bool.not_true, Bool.false_eq_true, if_false]
    rfl

/-- **refinement**: a state related to the pre-state as `moveLoop_spec` says abstracts to the
    result of the reference `move_p` -/
theorem move_refines {s0 σ' : State} {sk dk D pre : FsPath} {srcE : Entry} (hi : InvF s0)
    (hkind : KindWf s0) (hs : MoveSetup s0 sk dk D pre srcE)
    (hcwd : σ'.cwd = s0.cwd)
    (hnone : ∀ r, alLookup (sk ++ r) σ'.entries = none)
    (hdst : ∀ r, nodeAt σ' (D ++ r) = nodeAt s0 (sk ++ r))
    (hother : ∀ k, (∀ r, k ≠ sk ++ r) → (∀ r, k ≠ D ++ r) → nodeAt σ' k = nodeAt s0 k) :
    (TreeFs.moveP (absS s0) sk dk).1 = .ok () ∧
    TEquiv (absS σ') (TreeFs.moveP (absS s0) sk dk).2 := by
  rw [treeMoveP_of_setup hkind hs]
  refine ⟨rfl, hcwd, ?_⟩
  intro k
  rw [get_absS]
  show _ = alLookup k (_ ++ _)
  rw [alLookup_append]
  have hfilt := alLookup_filter_key (fun k => !(isPrefixOrEq sk k) && decide (k ≠ D)) k (absS s0).nodes
  have hbelow : ∀ r, r ≠ [] → nodeAt s0 (D ++ r) = none := by
    intro r hr
    unfold nodeAt
    rw [nothing_below hi ?_ hr]; rfl
    rcases hs.dfree with h | ⟨x, hx, hxd, _⟩
    · exact Or.inl h
    · exact Or.inr ⟨x, hx, hxd⟩
  by_cases h1 : ∃ r, k = sk ++ r
  · obtain ⟨r, rfl⟩ := h1
    have : nodeAt σ' (sk ++ r) = none := by unfold nodeAt; rw [hnone r]; rfl
    rw [this, hfilt, isPrefixOrEq_append,
      alLookup_moved_other _ _ _ _ (fun r' h => hs.hinc r r' h)]
    rfl
  · have h1' : ∀ r, k ≠ sk ++ r := fun r h => h1 ⟨r, h⟩
    have hp1 : isPrefixOrEq sk k = false := (isPrefixOrEq_false_iff _ _).2 h1'
    by_cases h2 : ∃ r, k = D ++ r
    · obtain ⟨r, rfl⟩ := h2
      rw [hdst r, alLookup_moved, hfilt, hp1]
      have hg : alLookup (sk ++ r) (absS s0).nodes = nodeAt s0 (sk ++ r) := get_absS s0 _
      by_cases hr : r = []
      · subst hr
        simp only [List.append_nil] at hg ⊢
        simp [hg]
      · have hne : D ++ r ≠ D := by
          intro h
          have := congrArg List.length h
          simp at this
          exact hr this
        have hg2 : alLookup (D ++ r) (absS s0).nodes = nodeAt s0 (D ++ r) := get_absS s0 _
        simp [hne, hg, hg2, hbelow r hr]
    · have h2' : ∀ r, k ≠ D ++ r := fun r h => h2 ⟨r, h⟩
      have hne : k ≠ D := fun h => h2' [] (by rw [List.append_nil]; exact h)
      have hg : alLookup k (absS s0).nodes = nodeAt s0 k := get_absS s0 _
      rw [hother k h1' h2', alLookup_moved_other _ _ _ _ h2', hfilt, hp1]
      simp [hne, hg]

/-! ### `move_p` as a whole -/

/-- the result of `abs` on a path argument is a well-formed key -/
def ResolvesWf (env : Env) (s : State) (p : Str) : Prop := ∀ k, absM env p s = (.ok k, s) → WfKey k

/-- ... which holds as soon as the cwd is well formed (`Lemmas.absM_wf`) -/
theorem resolvesWf_of_keysWf {s : State} (hk : KeysWf s) (env : Env) (p : Str) : ResolvesWf env s p :=
  fun _ h => absM_wf hk.2 h

/-- the `src == dst` shortcut agrees with the reference -/
theorem treeMoveP_same {s : State} {sk dk : FsPath} {srcE : Entry} (hk : KeysWf s) (hdk : WfKey dk)
    (hsrc : alLookup sk s.entries = some srcE) (hne : sk ≠ []) (hsame : moveDst s sk dk = sk) :
    TreeFs.moveP (absS s) sk dk = (.ok (), absS s) := by
  have hget : get (absS s) sk = some (absNode s sk srcE) := by
    rw [get_absS]; unfold nodeAt; rw [hsrc]; rfl
  have hwb : Wf (baseName sk) := (hk.key hsrc) _ (baseName_mem hne)
  have hD : (if isDir (absS s) dk = true then dk ++ [baseName sk] else dk) = sk := by
    have hform : moveDst s sk dk = if isDirP s dk = true then dk ++ [baseName sk] else dk := by
      unfold moveDst
      cases isDirP s dk with
      | false => rfl
      | true => simp only [if_true]; exact mash_renderP_name hdk hwb
    rw [isDir_absS, ← hform, hsame]
  unfold TreeFs.moveP
  rw [hget]
  simp only [hD, hne, if_false, if_true]

/-- **`move_p`, total description** (pre-state satisfies the invariant, names are well formed, no
    entry is both file and directory):
    either nothing happened and the call did not succeed; or source and destination coincide and
    nothing happened; or the call succeeded and the post-state is the re-keyed pre-state -/
theorem moveM_total {env : Env} {a b : Str} {s : State} (hinv : Spec.Inv s) (hk : KeysWf s)
    (hkind : KindWf s) :
    (∃ r : Outcome Unit, moveM env a b s = (r, s) ∧ ∀ u, r ≠ .ok u) ∨
    (∃ sk dk srcE, absM env a s = (.ok sk, s) ∧ absM env b s = (.ok dk, s) ∧
      alLookup sk s.entries = some srcE ∧ moveDst s sk dk = sk ∧ moveM env a b s = (.ok (), s)) ∨
    (∃ sk dk srcE s', absM env a s = (.ok sk, s) ∧ absM env b s = (.ok dk, s) ∧
      MoveValid s sk dk srcE ∧ moveM env a b s = (.ok (), s') ∧ s'.cwd = s.cwd ∧
      (∀ r, alLookup (sk ++ r) s'.entries = none) ∧
      (∀ r, nodeAt s' (moveDst s sk dk ++ r) = nodeAt s (sk ++ r)) ∧
      (∀ k, (∀ r, k ≠ sk ++ r) → (∀ r, k ≠ moveDst s sk dk ++ r) → nodeAt s' k = nodeAt s k) ∧
      (TreeFs.moveP (absS s) sk dk).1 = .ok () ∧
      TEquiv (absS s') (TreeFs.moveP (absS s) sk dk).2) := by
  have hi := invF_of_inv hinv
  have hdk : ResolvesWf env s b := resolvesWf_of_keysWf hk env b
  rcases moveM_cases env a b s with h | h | ⟨sk, dk, srcE, ha, hb, hv, hrun⟩
  · exact Or.inl h
  · exact Or.inr (Or.inl h)
  · have hs := moveSetup_of_valid hi hk hkind (hdk dk hb) hv
    obtain ⟨s', hloop, hcwd, hnone, hdst, hother⟩ := moveLoop_spec hi hk hs
    have href := move_refines hi hkind hs hcwd hnone hdst hother
    exact Or.inr (Or.inr ⟨sk, dk, srcE, s', ha, hb, hv, hrun.trans hloop, hcwd, hnone, hdst, hother,
      href.1, href.2⟩)

end Rivia.Lemmas
